#!/usr/bin/env python3
"""Seeded IGS lexer / loop mutants for tools/props/igslib.py (builder I).  Usage (from the /verif worktree):
     git -C /repo worktree add /tmp/wt-I HEAD; python3 tools/dev/igs_mutants.py [name ...]; git -C /repo worktree remove --force /tmp/wt-I
Each mutant = textual replacement in the scratch tree, `VERIF_REPO=/tmp/wt-I python3 tools/props/igslib.py`, restore.
Writes notes/C20-igs-mutants.json (the table in notes/C20-igs-mutants.md is made from it)."""
import json, os, re, subprocess, sys, time

WT = "/tmp/wt-I"
ROOT = os.path.dirname(os.path.dirname(os.path.dirname(os.path.abspath(__file__))))
MOD = "src/parsers/igs/mod.rs"
CMD = "src/parsers/igs/cmd.rs"

I1_OLD = """                        LoopState::Start => {
                            if ch == ',' {
                                self.loop_state = LoopState::ReadCommand;
                            }
                        }
"""
I1_NEW = """                        LoopState::Start => match ch {
                            '0'..='9' => {
                                let d = self.parsed_numbers.pop().unwrap_or(0);
                                self.parsed_numbers.push(parse_next_number(d, ch as u8));
                            }
                            ',' => self.loop_state = LoopState::ReadCommand,
                            _ => {}
                        },
"""

# name, kind (crash = must be a VIOLATION; behaviour = must be drift with exit 0; preserving = exit 0 and no drift), file, [(old, new)], env
MUTANTS = [
    ("M01-loop-bound-off-by-one", "behaviour", MOD, [("if self.from < self.to { self.i < self.to }", "if self.from < self.to { self.i <= self.to }")], {}),
    ("M02-step-sign", "crash", MOD, [("        if self.from < self.to {\n            self.i += self.step;\n        } else {\n            self.i -= self.step;\n        }",
                                      "        if self.from < self.to {\n            self.i -= self.step;\n        } else {\n            self.i += self.step;\n        }")], {}),
    ("M03-parameter-index-abs", "behaviour", MOD, [("((self.i - self.from) as usize) % self.parameters.len()", "((self.i - self.from).unsigned_abs() as usize) % self.parameters.len()")], {}),
    ("M04-numbers-not-cleared", "behaviour", MOD, [("            State::ReadCommandStart => {\n                self.parsed_numbers.clear();", "            State::ReadCommandStart => {")], {}),
    ("M05-loop-state-not-reset", "crash", MOD, [("                        self.state = State::ReadCommand(IgsCommands::LoopCommand);\n                        self.loop_state = LoopState::Start;",
                                                 "                        self.state = State::ReadCommand(IgsCommands::LoopCommand);")], {}),
    ("M06-bar-is-no-separator", "behaviour", MOD, [("if ch == '@' || ch == '|' || ch == ',' {", "if ch == '@' || ch == ',' {")], {}),
    ("M07-underscore-not-skipped", "behaviour", MOD, [("                            '_' | '\\n' | '\\r' => { /* ignore */ }", "                            '\\n' | '\\r' => { /* ignore */ }")], {}),
    ("M08-delay-pause-dropped", "behaviour", MOD, [(I1_OLD, I1_NEW), ("let res = if self.delay > 0 && res.is_ok() {", "let res = if self.delay > 0 && res.is_err() {")], {"IGS_MODEL_FIXES": "D1"}),
    ("M09-delay-unit", "behaviour", MOD, [(I1_OLD, I1_NEW), ("Ok(CallbackAction::Pause(200u32.saturating_mul(", "Ok(CallbackAction::Pause(20u32.saturating_mul(")], {"IGS_MODEL_FIXES": "D1"}),
    ("M10-number-wraps", "crash", MOD, [("x.saturating_mul(10).saturating_add(ch as i32).saturating_sub(b'0' as i32)", "x.wrapping_mul(10).wrapping_add(ch as i32).wrapping_sub(b'0' as i32)")], {}),
    ("M11-text-not-cleared", "behaviour", MOD, [("                        self.state = State::ReadCommandStart;\n                        self.parsed_string.clear();\n                        return res;",
                                                  "                        self.state = State::ReadCommandStart;\n                        return res;")], {}),
    ("M12-parameter-list-not-started", "crash", MOD, [("                                self.loop_parameters.clear();\n                                self.loop_parameters.push(vec![String::new()]);",
                                                       "                                self.loop_parameters.clear();")], {}),
    ("M13-whole-loop-in-one-call", "crash", MOD, [("                                    if let Some(x) = l.next_step(&self.command_executor, buf, caret) {\n                                        self.cur_loop = Some(l);\n                                        return x;\n                                    }\n                                    return Ok(CallbackAction::Update);\n                                }\n                                self.loop_parameters.push(vec![String::new()]);",
                                                   "                                    let mut last = Ok(CallbackAction::Update);\n                                    while let Some(x) = l.next_step(&self.command_executor, buf, caret) {\n                                        last = x;\n                                    }\n                                    return last;\n                                }\n                                self.loop_parameters.push(vec![String::new()]);")], {}),
    ("M14-double-colon-flag", "behaviour", MOD, [("                    '_' => {\n                        self.got_double_colon = false;\n                    }", "                    '_' => {}")], {}),
    ("M15-command-letters-swapped", "behaviour", CMD, [("'b' => IgsCommands::BellsAndWhistles,\n            'B' => IgsCommands::Box,", "'B' => IgsCommands::BellsAndWhistles,\n            'b' => IgsCommands::Box,")], {}),
    ("M16-count-check-strict", "behaviour", MOD, [("                            ':' => {\n                                //println!(\"{:?} : {}\", self.parsed_numbers, self.loop_parameters.iter().fold(0, |mut x, p| {x += p.len() as i32; x }) );\n                                if self.parsed_numbers[4]\n                                    <= self.",
                                                   "                            ':' => {\n                                if self.parsed_numbers[4]\n                                    < self.")], {}),
    ("M17-error-ends-loop", "behaviour", MOD, [("                if let Ok(act) = x {\n                    return Some(act);\n                }\n                return None;", "                if let Ok(act) = x {\n                    return Some(act);\n                }\n                self.cur_loop = None;\n                return None;")], {}),
    ("M18-y-without-minus-one", "behaviour", MOD, [("let y = (self.to - 1 - self.i).abs();", "let y = (self.to - self.i).abs();")], {}),
    # property-preserving changes: must not alarm (and, being behaviour-preserving for the lexer, must not drift either)
    ("P01-sum-instead-of-fold", "preserving", MOD, [("                                if self.parsed_numbers[4]\n                                    <= self.loop_parameters.iter().fold(0, |mut x, p| {\n                                        x += p.len() as i32;\n                                        x\n                                    })\n                                {\n                                    self.state = State::ReadCommandStart;\n\n",
                                                     "                                if self.parsed_numbers[4] <= self.loop_parameters.iter().map(|p| p.len() as i32).sum::<i32>()\n                                {\n                                    self.state = State::ReadCommandStart;\n\n")], {}),
    ("P02-unwrap-or-and-reordering", "preserving", MOD, [("                        self.got_double_colon = false;\n                        let d = match self.parsed_numbers.pop() {\n                            Some(number) => number,\n                            _ => 0,\n                        };\n                        self.parsed_numbers.push(parse_next_number(d, ch as u8));",
                                                          "                        let d = self.parsed_numbers.pop().unwrap_or(0);\n                        self.parsed_numbers.push(parse_next_number(d, ch as u8));\n                        self.got_double_colon = false;")], {}),
    ("P03-abs-by-hand", "preserving", MOD, [("let x = (self.i).abs();", "let x = if self.i < 0 { -self.i } else { self.i };")], {}),
]


def run(name, kind, rel, reps, env):
    path = os.path.join(WT, rel)
    subprocess.run(["git", "-C", WT, "checkout", "-q", "--", "src"], check=True)
    s = open(path).read()
    for old, new in reps:
        if old not in s:
            return {"name": name, "kind": kind, "outcome": "NOT-APPLIED", "detail": old[:60]}
        s = s.replace(old, new, 1)
    open(path, "w").write(s)
    t0 = time.time()
    e = dict(os.environ, VERIF_REPO=WT, **env)
    p = subprocess.run([sys.executable, os.path.join(ROOT, "tools/props/igslib.py")], cwd=ROOT, env=e, stdout=subprocess.PIPE, stderr=subprocess.STDOUT, text=True)
    out = p.stdout
    keys = sorted(set(re.findall(r"^VIOLATION .*?key=(\S+)", out, re.M)))
    m = re.search(r"drift=(\d+)", out)
    drift = int(m.group(1)) if m else -1
    first = re.search(r"^DRIFT (.*)$", out, re.M)
    if p.returncode == 1:
        outcome = "VIOLATION"
    elif p.returncode == 0:
        outcome = "drift" if drift > 0 else "silent"
    else:
        outcome = "TOOL-ERROR"
    ok = (kind == "crash" and outcome == "VIOLATION") or (kind == "behaviour" and outcome == "drift") or (kind == "preserving" and outcome == "silent")
    r = {"name": name, "kind": kind, "rc": p.returncode, "outcome": outcome, "as_expected": ok, "drift": drift, "keys": keys,
         "first_drift": (first.group(1)[:300] if first else ""), "wall_s": round(time.time() - t0, 1)}
    if outcome == "TOOL-ERROR":
        r["tail"] = out[-1500:]
    return r


def main():
    want = sys.argv[1:]
    res = []
    outp = os.path.join(ROOT, "notes", "C20-igs-mutants.json")
    if want and os.path.exists(outp):
        res = [r for r in json.load(open(outp)) if r["name"] not in want and not any(r["name"].startswith(w) for w in want)]
    for name, kind, rel, reps, env in MUTANTS:
        if want and not any(name.startswith(w) for w in want):
            continue
        r = run(name, kind, rel, reps, env)
        print(json.dumps(r), flush=True)
        res.append(r)
    subprocess.run(["git", "-C", WT, "checkout", "-q", "--", "src"], check=True)
    res.sort(key=lambda r: r["name"])
    json.dump(res, open(outp, "w"), indent=1)


if __name__ == "__main__":
    main()
