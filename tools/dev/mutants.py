#!/usr/bin/env python3
"""Developer tool (not part of any registered check): apply textual mutants to a scratch worktree of /repo, run a check
against each and log the outcome.  usage: mutants.py <PID> <mutant-file.json> [names...]
mutant file: [{"name":..., "file":..., "old":..., "new":..., "count":1, "expect":"alarm|quiet", "base":[patch names]}]"""
import json, os, subprocess, sys, time

WT = os.environ.get("MUT_WT", "/tmp/wt-C")
ROOT = os.path.dirname(os.path.dirname(os.path.dirname(os.path.abspath(__file__))))


def sh(cmd, **kw):
    return subprocess.run(cmd, shell=True, text=True, capture_output=True, **kw)


def apply(m):
    p = os.path.join(WT, m["file"])
    s = open(p).read()
    n = s.count(m["old"])
    if n < 1 or (m.get("count") and n != m["count"] and not m.get("nth")):
        raise SystemExit(f"mutant {m['name']}: pattern occurs {n} times")
    if m.get("nth"):
        parts = s.split(m["old"])
        k = m["nth"]
        s = m["old"].join(parts[:k]) + m["new"] + m["old"].join(parts[k:])
    else:
        s = s.replace(m["old"], m["new"])
    open(p, "w").write(s)


def main():
    pid, mf = sys.argv[1], sys.argv[2]
    only = set(sys.argv[3:])
    muts = json.load(open(mf))
    byname = {m["name"]: m for m in muts}
    if not os.path.isdir(WT):
        sh(f"git -C /repo worktree add {WT} HEAD")
    for m in muts:
        if only and m["name"] not in only:
            continue
        if m.get("patch_only"):
            continue
        sh("git checkout -- . ", cwd=WT)
        for b in m.get("base", []):
            apply(byname[b])
        apply(m)
        t0 = time.time()
        r = sh(f"VERIF_REPO={WT} python3 tools/check.py {pid}", cwd=ROOT)
        lines = [l for l in (r.stdout + r.stderr).splitlines() if l.startswith(("VIOLATION", "TOOL-ERROR"))]
        ev = {}
        try:
            ev = json.load(open(os.path.join(WT, "verif-work", "evidence", f"{pid}.json")))
        except Exception:
            pass
        drift = ev.get("coverage", {}).get("model_drift_events")
        verdict = "ALARM" if r.returncode == 1 else "quiet" if r.returncode == 0 else f"tool-error({r.returncode})"
        ok = (verdict == "ALARM") == (m.get("expect", "alarm") == "alarm")
        print(json.dumps({"name": m["name"], "expect": m.get("expect", "alarm"), "verdict": verdict, "as_expected": ok, "drift": drift, "wall_s": round(time.time() - t0),
                          "keys": ev.get("coverage", {}).get("new_violation_keys"), "first": [l[:260] for l in lines[:3]]}), flush=True)
    sh("git checkout -- . ", cwd=WT)


main()
