#!/usr/bin/env python3
"""Minimise a RIP/IGS byte stream that produces a given panic site / slow step with `icyverif c20 --stream`.
usage: ddmin_stream.py FILE EMU 'substring of the noteworthy line' """
import subprocess, sys, re, os, tempfile
BIN = os.path.join(os.path.dirname(os.path.dirname(os.path.dirname(os.path.abspath(__file__)))), "harness/target/debug/icyverif")
data, emu, want = open(sys.argv[1], "rb").read(), sys.argv[2], sys.argv[3]


def bad(b):
    with tempfile.NamedTemporaryFile(delete=False) as f:
        f.write(b)
    try:
        p = subprocess.run([BIN, "c20", "--stream", f.name, "--emu", emu], capture_output=True, text=True, timeout=30)
        out = p.stdout
    except subprocess.TimeoutExpired:
        out = "TIMEOUT"
    os.unlink(f.name)
    return want in out


def ddmin(parts):
    n = 2
    while len(parts) >= 2:
        chunk = max(1, len(parts) // n)
        reduced = False
        for i in range(0, len(parts), chunk):
            cand = parts[:i] + parts[i + chunk:]
            if cand and bad(b"".join(cand)):
                parts, n, reduced = cand, max(n - 1, 2), True
                break
        if not reduced:
            if chunk == 1:
                break
            n = min(n * 2, len(parts))
    return parts


assert bad(data), "input does not reproduce"
toks = [t for t in re.split(rb"(?<=[:\n])", data) if t]
toks = ddmin(toks)
small = b"".join(toks)
# second pass: characters
small = b"".join(ddmin([bytes([c]) for c in small])) if len(small) < 400 else small
print(len(small), small)
