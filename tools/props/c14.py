"""C14 - sixel images are complete rectangles and appear in arrival order."""
import os, json
import vlib
from vlib import Check

SPEC = "spec/conc"


def key(v, ev):
    pred = v.get("pred")
    if ev and ev.get("site"):
        return f"{pred}:panic@{ev['site']}"
    return str(pred)


def gen(thorough=False):
    res = []
    for rc in (1, 2, 3, 4, 5, 6, 7):        # 7: schedules with a Clear (K = 2)
        res.append(vlib.generate(SPEC, "MC_SixelQueue", f"Gen_SixelQueue_{rc}.cfg", os.path.join(vlib.GEN, f"sixel_sched_{rc}.ndjson")))
    res.append(vlib.generate(SPEC, "Gen_SixelGeo", "Gen_SixelGeo.cfg", os.path.join(vlib.GEN, "sixel_geo.ndjson")))
    res.append(vlib.generate(SPEC, "MC_SixelDecoder", "Gen_SixelDecoder.cfg", os.path.join(vlib.GEN, "sixel_payloads.ndjson"), workers=4))
    # raster headers with extreme sizes, re-declared within one payload (every payload of <= 3 tokens over the "big" alphabet)
    res.append(vlib.generate(SPEC, "MC_SixelDecoder", "Gen_SixelDecoder_big.cfg", os.path.join(vlib.GEN, "sixel_payloads_big.ndjson"), workers=4))
    if thorough:
        for rc in (2, 4):
            cfg = f"Gen_SixelQueue_{rc}_k4.cfg"
            src = open(os.path.join(vlib.ROOT, SPEC, f"Gen_SixelQueue_{rc}.cfg")).read().replace("K = 3", "K = 4").replace("MaxPolls = 3", "MaxPolls = 4")
            open(os.path.join(vlib.ROOT, SPEC, cfg), "w").write(src)
            res.append(vlib.generate(SPEC, "MC_SixelQueue", cfg, os.path.join(vlib.GEN, f"sixel_sched_{rc}_k4.ndjson"), timeout=1200))
    return res


def run():
    c = Check("C14")
    thorough = c.tier == "thorough"
    c.mc(SPEC, "MC_SixelQueue", "MC_SixelQueue.cfg", workers=4)
    c.mc(SPEC, "MC_SixelDecoder", "MC_SixelDecoder.cfg", workers=8, timeout=1200)
    g = gen(thorough)
    dec = os.path.join(c.workdir, "dec.ndjson")
    que = os.path.join(c.workdir, "queue.ndjson")
    scheds = [os.path.join(vlib.GEN, f"sixel_sched_{rc}.ndjson") for rc in (7, 1, 2, 3, 4, 5, 6)] + [os.path.join(vlib.GEN, "sixel_geo.ndjson")]
    if thorough:
        scheds += [os.path.join(vlib.GEN, f"sixel_sched_{rc}_k4.ndjson") for rc in (2, 4)]
    vlib.drive(["c14", "--seed", c.seed, "--tier", c.tier, "--out-dec", dec, "--out-queue", que, "--gen-dec", os.path.join(vlib.GEN, "sixel_payloads.ndjson"),
                "--gen-queue", ",".join(scheds)], timeout=3000)
    # shard both traces for parallel validation (queue cases start with a reset; decoder events are independent)
    shards = split(dec, 6, by_reset=False) + split(que, 6, by_reset=True)
    c.validate(SPEC, "Trace_Sixel", "Trace_Sixel.cfg", shards, key, procs=12, timeout=3000)
    c.sample_from(shards[0], 1, skip_reset=False)
    c.sample_from(shards[-1], 3, skip_reset=False)
    c.extra["decoder_payloads"] = sum(int(r.get("r4", 0)) for r in c.reports)
    c.extra["schedules"] = sum(int(r.get("r5", 0)) for r in c.reports)
    c.extra["polls"] = sum(int(r.get("r8", 0)) for r in c.reports)
    c.extra["distinct_nontrivial"] = c.extra["decoder_payloads"] + c.extra["schedules"]
    c.rule = ("decoder: every payload of <= 4 tokens over the sixel alphabet exported by TLC (MC_SixelDecoder checks <= 5) plus seeded longer payloads, decoded by the real "
              "Sixel::parse_from, judged Rectangular and compared with SixelDecoder.tla; queue: every maximal behaviour of SixelQueue.tla (K=3 images, <= 3 polls, 4 rectangle "
              "configurations, plus K=4 images, <= 2 polls for the two redraw-in-place configurations; K=4, <= 4 polls in the thorough tier; plus every ordered pair of rectangles of a 3x3 cell grid and every ordered triple of a 2x2 grid with the plain schedule - the shadow rule as a relation on rectangles) enacted against the real Buffer through the gate hook (Submit = DCS through the ANSI parser, Finish = release ticket and "
              "wait for the JoinHandle, Poll = update_sixel_threads under a watchdog); after every action the observed queue length and images are judged (arrival order, no loss, "
              "no duplicate, shadow rule, poll never blocks). distinct_nontrivial = payloads + schedules, all distinct by construction.")
    c.assumptions = ["thread completion order is controlled by the cfg(icy_engine_verif) gate at the start of Sixel::parse_from; real scheduler interleavings inside a decode are not explored",
                     "images are identified by the first raster attribute (stored as vertical_scale), which does not influence the rectangle"]
    return c.finish()


def split(path, n, by_reset):
    lines = open(path).read().splitlines()
    if len(lines) < 200:
        return [path]
    outs = [[] for _ in range(n)]
    k = -1
    for i, ln in enumerate(lines):
        if by_reset:
            if '"ev":"reset"' in ln:
                k += 1
        else:
            k = i
        outs[k % n].append(ln)
    res = []
    for i, o in enumerate(outs):
        if o:
            p = path.replace(".ndjson", f"-s{i}.ndjson")
            open(p, "w").write("\n".join(o) + "\n")
            res.append(p)
    os.remove(path)
    return res


def replay(path):
    r = json.load(open(path))
    print(json.dumps({k: r.get(k) for k in ("property", "key", "pred", "info")}, indent=1))
    print("case:", json.dumps(r.get("case"))[:3000])
    return 1
