"""C01 - no byte stream can crash a terminal emulation."""
import os
import vlib
from vlib import Check
from props import termlib


def run():
    c = Check("C01")
    thorough = c.tier == "thorough"
    n_shards = 12 if thorough else 8
    per = 5000 if thorough else 450
    termlib.mc_slices(c, thorough)
    shards, n_w = termlib.witness_cases(c, 12 if thorough else 4, 3 if thorough else 1, c.seed, max_cases=150000 if thorough else 60000)
    c.extra["witness_cases"] = n_w
    sshard, n_s = termlib.string_mutation_cases(c, thorough)
    shards.append(sshard)
    c.extra["control_string_mutation_cases"] = n_s
    # control strings that set up state for a later one (font DCS payload classes x sixel / text / resize): the loader driver's
    # structured family, fed to the emulations as a terminal stream
    fpath = os.path.join(c.workdir, "cases-fontdcs.ndjson")
    rc, out = vlib.sh([vlib.BIN, "c02", "--dump-streams", fpath, "--seed", str(c.seed), "--tier", str(c.tier), "--faults", "/nonexistent"], cwd=vlib.ROOT, timeout=600)
    if rc != 0:
        raise vlib.ToolError("font DCS stream family failed: " + out[-800:])
    shards.append(("fontdcs", fpath))
    c.extra["font_dcs_stream_cases"] = sum(1 for _ in open(fpath))
    for i in range(n_shards):
        args = ["--gen", per, "--gen-from", i * per, "--seed", c.seed]
        if i % 2 == 1:
            args.append("--big")
        shards.append((f"r{i}", termlib.gen_cases(c.workdir, f"r{i}", args)))
    traces, crashes = termlib.run_shards(c, shards, procs=12)
    c.sample_from(traces[0], 2)
    c.extra["worker_crashes"] = len(crashes)
    c.extra["characters_fed"] = sum(int(r.get("steps", 0)) for r in c.reports)
    c.extra["cases"] = sum(int(r.get("r4", 0)) for r in c.reports)
    c.extra["distinct_nontrivial"] = c.extra["cases"]
    c.extra["model_steps"] = sum(int(r.get("r7", 0)) for r in c.reports)
    c.rule = ("R1: MC_Term explores Term.tla exhaustively (all token sequences up to depth 3/4 over ten token slices on a 2x2 screen; invariants InScreen, Sane). R2: one TLC witness per coarse class of model states, extended by alphabet tokens, replayed into the real emulations with full cell projection; plus: seeded token streams (control-function table x parameter classes, DCS/OSC/APS/music/macro/sixel strings, front-end lead-ins, random bytes, truncations) "
              "for all ten text emulations, four music options, sizes 1..132 x 1..60 with rows pre-allocated or not; every character is one recorded step judged by Trace_Term "
              "(outcome in {ok, err}; worker aborts are crash events). distinct_nontrivial = number of cases (distinct seeds => distinct streams).")
    c.assumptions = ["panics are caught per character with catch_unwind in a dev-profile build (overflow checks on); aborts/stack overflows kill the worker and are attributed to the running case"]
    return c.finish()


replay = termlib.replay
