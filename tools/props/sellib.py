"""C08, model layer: what the editor's SELECTION means (spec/doc/Selection.tla).

run_into(c, thorough) adds to an existing Check("C08"):
  R1  TLC explores the state machine of the selection calls over a 2 x 2 buffer (MC_Selection.cfg: mask as large as the buffer;
      MC_Selection_stale.cfg: the mask kept the size of another buffer) and checks the laws a user relies on (the reported rectangle
      covers every selected cell, inverse flips every cell and is an involution, folding a rectangle into the mask keeps what reads
      as selected, clear clears, a Lines selection does not depend on the order of its ends, frame conditions)
  R2  Gen_Selection.cfg exports one call sequence per abstract state (gen/selection_cases.ndjson)
  drive  `icyverif selection`: TLC sequences (each extended by a follow-up of every kind, an undo / redo walk and a new edit after
         it) + seeded random sequences on documents up to 6 x 4, through the public EditState API; after every call the state the API
         shows and the queries is_something_selected / get_selected_rectangle / get_is_selected / get_copy_text
  R3  Trace_Selection recomputes the model operator on the state before and compares: model layer only (drift)
Stand-alone: `python3 tools/props/sellib.py` (work dir work/C08-selection; honours VERIF_TIER, VERIF_SEED, VERIF_REPO)."""
import os, sys, json, time
from collections import Counter

sys.path.insert(0, os.path.dirname(os.path.dirname(os.path.abspath(__file__))))
import vlib
from vlib import Check

SPEC = "spec/doc"
GEN_FILE = os.path.join(vlib.GEN, "selection_cases.ndjson")
SHARDS = 4
OP_ORDER = ["set_selection", "clear_selection", "deselect", "add_selection_to_mask", "inverse_selection", "enumerate_selections",
            "set_mask_size", "resize_buffer", "undo", "redo"]


def key(v, ev):
    return f"{v.get('pred')}"


def gen():
    return vlib.generate(SPEC, "MC_Selection", "Gen_Selection.cfg", GEN_FILE)


def run_into(c, thorough=None):
    if thorough is None:
        thorough = c.tier == "thorough"
    t0 = time.time()
    mcs = [c.mc(SPEC, "MC_Selection", cfg, workers=4) for cfg in ("MC_Selection.cfg", "MC_Selection_stale.cfg")]
    gen()
    tier = "thorough" if thorough else "quick"
    trace = os.path.join(c.workdir, "selection.ndjson")
    vlib.drive(["selection", "--out", trace, "--seed", c.seed, "--tier", tier, "--gen", GEN_FILE, "--shards", SHARDS])
    traces = [trace.replace(".ndjson", f"-s{k}.ndjson") for k in range(SHARDS)]
    summary = json.load(open(trace.replace(".ndjson", "-summary.json")))
    results = c.validate(SPEC, "Trace_Selection", "Trace_Selection.cfg", traces, key, procs=SHARDS, timeout=3000)
    reg = lambda n: sum(int(r["report"].get(n, 0)) for r in results)
    drift = sum(int(r["report"].get("drift", 0)) for r in results)
    mask = 0
    for r in results:
        mask |= int(r["report"].get("r8", 0))
    covered = [n for i, n in enumerate(OP_ORDER) if mask >> i & 1]
    kinds = Counter(d.get("what") for r in results for d in r["drift"])
    c.extra["selection_cases"] = reg("r4")
    c.extra["selection_calls"] = reg("r5")
    c.extra["selection_states_compared"] = reg("r6")
    c.extra["selection_query_sets_compared"] = reg("r7")
    c.extra["selection_undo_redo_steps_compared"] = reg("r9")
    c.extra["selection_calls_with_stale_mask_size"] = reg("r10")
    c.extra["selection_copy_texts_compared"] = reg("r12")
    c.extra["selection_engine_panics"] = reg("r11")
    c.extra["selection_model_drift"] = drift
    c.extra["selection_model_drift_kinds"] = dict(kinds)
    c.extra["selection_model_drift_samples"] = [d for r in results for d in r["drift"]][:6]
    c.extra["selection_calls_covered"] = len(covered)
    c.extra["selection_calls_not_covered"] = [n for n in OP_ORDER if n not in covered]
    c.extra["selection_tlc"] = {"laws_checked": [{"cfg": m["cfg"], "states": m["states"]} for m in mcs], "tlc_cases_driven": summary.get("tlc_cases", 0)}
    c.assumptions.append("Selection model: one-layer documents; the size of the selection mask is not observable and is model state (taken "
                         "from the tool overlay mask of a fresh EditState); whether enumerate_selections records a step depends on the stored "
                         "representation of the mask and is taken from the trace (a visible change must record one)")
    vlib.log(f"[selection] {reg('r4')} cases, {reg('r5')} calls, {reg('r6')} states + {reg('r7')} query sets compared, {len(covered)}/{len(OP_ORDER)} calls, "
             f"drift {drift}, {time.time() - t0:.1f}s")
    if drift:
        vlib.log("[selection] drift kinds: " + json.dumps(dict(kinds)))
        for d in c.extra["selection_model_drift_samples"][:3]:
            vlib.log("[selection] DRIFT " + json.dumps(d)[:700])
    return results


def main():
    vlib.EVIDENCE = os.path.join(vlib.WORK, "C08-selection", "evidence")
    os.chdir(vlib.ROOT)
    if "--no-build" not in sys.argv:
        vlib.build_harness()
    c = Check("C08-selection")
    c.pid = "C08"
    run_into(c)
    c.extra["distinct_nontrivial"] = c.extra["selection_states_compared"]
    c.rule = "meaning of the editor's selection calls (stand-alone run of tools/props/sellib.py; model layer of C08)"
    rc = c.finish()
    print(f"sellib: tier={c.tier} seed={c.seed} cases={c.extra['selection_cases']} calls={c.extra['selection_calls']} drift={c.extra['selection_model_drift']} "
          f"violations={'yes' if rc else 'no'} wall={time.time() - c.t0:.1f}s")
    if c.extra["selection_model_drift"]:
        print("MODEL-DRIFT (reported, does not decide the verdict): " + json.dumps(c.extra["selection_model_drift_kinds"]))
    return rc


if __name__ == "__main__":
    vlib.main_wrapper(main)
