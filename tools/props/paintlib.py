"""Model layer: the editor's painting helpers (spec/doc/Paint.tla) - icy_engine::paint::get_halfblock and get_line_points.

run_into(c, thorough):
  R1  MC_Paint: the laws of the transcription over the whole small domain (lines between all points of a 7 x 7 grid start and end
      where asked, are 8-connected, monotone and max(dx, dy) + 1 long; painting a half sets it, keeps the other half, is idempotent
      and leaves a normalised cell) for every cell x half x colour of the 16-colour standard glyph set
  drive  `icyverif paint`: 14 glyph codes x colour pairs (incl. transparent and extended colours) x half x colour x flag, every pair
      of end points of a small grid + seeded long lines
  R3  Trace_Paint recomputes every call with the model: model layer only (drift)."""
import os, sys, json, time
from collections import Counter

sys.path.insert(0, os.path.dirname(os.path.dirname(os.path.abspath(__file__))))
import vlib
from vlib import Check

SPEC = "spec/doc"


def key(v, ev):
    return f"{v.get('pred')}"


def run_into(c, thorough=None):
    if thorough is None:
        thorough = c.tier == "thorough"
    t0 = time.time()
    mc = c.mc(SPEC, "MC_Paint", "MC_Paint.cfg", workers=2)
    trace = os.path.join(c.workdir, "paint.ndjson")
    vlib.drive(["paint", "--out", trace, "--seed", c.seed, "--tier", "thorough" if thorough else "quick"])
    results = c.validate(SPEC, "Trace_Paint", "Trace_Paint.cfg", [trace], key, procs=1, timeout=3000)
    reg = lambda n: sum(int(r["report"].get(n, 0)) for r in results)
    drift = sum(int(r["report"].get("drift", 0)) for r in results)
    kinds = Counter(d.get("what") for r in results for d in r["drift"])
    c.extra["paint_halfblock_calls_compared"] = reg("r4")
    c.extra["paint_halfblock_results_rewritten_by_optimize"] = reg("r8")
    c.extra["paint_lines_compared"] = reg("r5")
    c.extra["paint_line_points_compared"] = reg("r6")
    c.extra["paint_engine_panics"] = reg("r7")
    c.extra["paint_model_drift"] = drift
    c.extra["paint_model_drift_kinds"] = dict(kinds)
    c.extra["paint_model_drift_samples"] = [d for r in results for d in r["drift"]][:4]
    c.extra["paint_tlc"] = {"cfg": mc["cfg"], "laws": 8}
    vlib.log(f"[paint] {reg('r4')} half-block calls ({reg('r8')} rewritten), {reg('r5')} lines / {reg('r6')} points compared, drift {drift}, {time.time() - t0:.1f}s")
    if drift:
        vlib.log("[paint] drift kinds: " + json.dumps(dict(kinds)))
    return results


def main():
    vlib.EVIDENCE = os.path.join(vlib.WORK, "C08-paint", "evidence")
    os.chdir(vlib.ROOT)
    if "--no-build" not in sys.argv:
        vlib.build_harness()
    c = Check("C08-paint")
    c.pid = "C08"
    run_into(c)
    c.extra["distinct_nontrivial"] = c.extra["paint_halfblock_calls_compared"]
    c.rule = "painting helpers (stand-alone run of tools/props/paintlib.py; model layer)"
    rc = c.finish()
    print(f"paintlib: tier={c.tier} halfblock={c.extra['paint_halfblock_calls_compared']} lines={c.extra['paint_lines_compared']} drift={c.extra['paint_model_drift']} wall={time.time() - c.t0:.1f}s")
    return rc


if __name__ == "__main__":
    vlib.main_wrapper(main)
