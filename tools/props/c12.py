"""C12 - default (colour-optimised) saving never changes the rendered picture."""
import os, json
import vlib
from vlib import Check

SPEC = "spec/doc"
GEN = "coloropt.ndjson"


def key(v, ev):
    """failing relation + document family (+userfont when the font table holds a font derived from a built-in one)
    + normalisation setting + single/multi-layer (+ panic site)."""
    pred = v.get("pred")
    info = v.get("info") or {}
    if pred == "NoPanic":
        return f"panic@{info.get('site', '?')}"
    if pred in ("SameImage", "SameSize"):
        layers = "multi-layer" if (info.get("layers") or (ev or {}).get("layers") or 1) > 1 else "single-layer"
        fam = (info.get("family") or (ev or {}).get("family") or "?") + ("+userfont" if (ev or {}).get("userfont") else "")
        return f"{pred}:{fam}:norm={info.get('norm', (ev or {}).get('norm'))}:{layers}"
    return str(pred)


def gen():
    return vlib.generate(SPEC, "MC_ColorOpt", "Gen_ColorOpt.cfg", os.path.join(vlib.GEN, GEN))


def split_groups(path, n):
    """Shard at reset boundaries (a reset carries the font table of the documents that follow)."""
    outs = [open(path.replace(".ndjson", f"-s{i}.ndjson"), "w") for i in range(n)]
    sizes = [0] * n
    cur = 0
    with open(path) as f:
        for line in f:
            if '"ev":"reset"' in line[:40]:
                cur = sizes.index(min(sizes))
            outs[cur].write(line)
            sizes[cur] += len(line)
    for o in outs:
        o.close()
    os.remove(path)
    return [o.name for o in outs if os.path.getsize(o.name) > 0]


def run():
    c = Check("C12")
    if not os.environ.get("VERIF_SKIP_R1"):      # (mutant experiments only: R1 does not depend on the engine)
        c.mc(SPEC, "MC_ColorOpt", "MC_ColorOpt.cfg", workers=4)
    g = gen()
    trace = os.path.join(c.workdir, "trace.ndjson")
    rc, err, wall = vlib.drive(["c12", "--out", trace, "--seed", c.seed, "--tier", c.tier, "--gen", os.path.join(vlib.GEN, GEN)])
    shards = split_groups(trace, 4)
    c.validate(SPEC, "Trace_ColorOpt", "Trace_ColorOpt.cfg", shards, key, procs=4, xmx="4g")
    with open(shards[0]) as f:
        for line in f:
            if '"ev":"opt"' in line[:40]:
                c.samples.append(line[:1200] + "...(truncated)")
                break
    tot = lambda r: sum(int(x.get(r, 0)) for x in c.reports)
    c.extra["tlc_generated_witnesses"] = g["n"]
    c.extra["optimiser_runs"] = tot("r4")
    c.extra["cells"] = tot("r5")
    c.extra["cells_rewritten"] = tot("r6")
    c.extra["runs_with_normalize_whitespaces"] = tot("r7")
    c.extra["runs_on_multi_layer_documents"] = tot("r8")
    c.extra["blank_characters_replaced"] = tot("r9")
    c.extra["font_tables"] = tot("r10")
    c.extra["driver_summary"] = [l for l in err.splitlines() if l.startswith("c12:")]
    c.extra["distinct_nontrivial"] = tot("r6")
    c.evaluations = tot("r5")
    c.rule = ("R1: the scan of ColorOpt.tla (state = carried colours) over a scaled-down font table (2-pixel-wide fonts: the 2x2 cell box with all 16 bitmaps, a smaller "
              "2x1 font, a taller 2x3 font, a font without character 32; 5 colour classes incl. bold-low/bright, extended palette, direct RGB): in every reachable state and "
              "for EVERY next cell the rewrite preserves every pixel of the reference renderer and changes only allowed fields; R2: TLC exports one witness per <carried "
              "colours, glyph class, cell colours, bold>; the driver instantiates them with real glyphs of several fonts, sweeps every glyph of every built-in font page 0..42 "
              "and every SAUCE font, and adds seeded random documents of 1..4 layers (alpha, offset, hidden) over mixed-size font tables, each optimised with both "
              "normalize_whitespaces settings and rendered with Buffer::render_to_rgba; R3: Trace_ColorOpt checks same size + identical images (property) and scan = model, "
              "allowed changes, RenderEq-from-bitmaps = image comparison (model). distinct_nontrivial = number of cells the optimiser actually rewrote.")
    c.assumptions = ["every cell's font page has a font in the buffer's font table and characters are < font length (otherwise the optimiser unwraps None)",
                     "Normal-mode layers, default_font_page = 0, no transparent-colour cells (direct RGB 0,0,0 is TextAttribute::TRANSPARENT_COLOR), no sixels",
                     "character 32 of every font in the table is blank (checked: holds for all 59 built-in fonts)"]
    return c.finish()


def replay(path):
    r = json.load(open(path))
    print(json.dumps({k: r[k] for k in ("property", "key", "pred", "info")}, indent=1))
    ev = r.get("event") or {}
    print("document:", {k: ev.get(k) for k in ("family", "doc", "norm", "layers", "size", "osize", "dims", "img_eq", "first_diff")})
    return 1
