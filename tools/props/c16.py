"""C16 - palette indices are stable and palette files round-trip."""
import os, json
import vlib
from vlib import Check, ROOT

SPEC = "spec/doc"


def key(v, ev):
    pred = v.get("pred")
    info = v.get("info") or {}
    if pred == "FileRoundTrip" and ev:
        # which format and which optional fields were present (not the palette size or colours)
        var = ",".join(p for p in ev.get("variant", "").split(",") if not p.startswith("n="))
        empty = "empty" if len(ev.get("in", [])) == 0 else "nonempty"
        return f"FileRoundTrip:{ev.get('fmt')}:{var}:{empty}"
    if pred in ("Vga6Idempotent", "Vga8Idempotent"):
        return pred + (":" + ev.get("codec", "") if ev else "")
    if ev and ev.get("ev") == "panic":
        return "panic@" + ev.get("site", "?")
    return str(pred)


def gen(thorough=False):
    if thorough:
        cfg = "Gen_Palette_deep.cfg"
        src = open(os.path.join(ROOT, SPEC, "Gen_Palette.cfg")).read().replace("MaxOps = 3", "MaxOps = 4")
        open(os.path.join(ROOT, SPEC, cfg), "w").write(src)
        return vlib.generate(SPEC, "MC_Palette", cfg, os.path.join(vlib.GEN, "palette_deep.ndjson"), timeout=2400), os.path.join(vlib.GEN, "palette_deep.ndjson")
    return vlib.generate(SPEC, "MC_Palette", "Gen_Palette.cfg", os.path.join(vlib.GEN, "palette.ndjson")), os.path.join(vlib.GEN, "palette.ndjson")


def run():
    c = Check("C16")
    thorough = c.tier == "thorough"
    if thorough:
        src = open(os.path.join(ROOT, SPEC, "MC_Palette.cfg")).read().replace("MaxOps = 4", "MaxOps = 5").replace("MaxLen = 3", "MaxLen = 4")
        open(os.path.join(ROOT, SPEC, "MC_Palette_deep.cfg"), "w").write(src)
        c.mc(SPEC, "MC_Palette", "MC_Palette_deep.cfg", workers=8, timeout=3000, xmx="16g")
    else:
        c.mc(SPEC, "MC_Palette", "MC_Palette.cfg", workers=4)
    g, gpath = gen(thorough)
    trace = os.path.join(c.workdir, "trace.ndjson")
    vlib.drive(["c16", "--out", trace, "--seed", c.seed, "--tier", c.tier, "--gen", gpath], timeout=3000)
    # split into shards at reset boundaries for parallel validation
    shards = split_at_resets(trace, 6 if thorough else 4)
    c.validate(SPEC, "Trace_Palette", "Trace_Palette.cfg", shards, key, procs=6, timeout=3000)
    c.sample_from(shards[0], 3)
    c.extra["tlc_generated_behaviours"] = g["n"]
    c.extra["distinct_nontrivial"] = sum(int(r.get("r4", 0)) + int(r.get("r5", 0)) + int(r.get("r6", 0)) + int(r.get("r7", 0)) for r in c.reports)
    c.rule = ("R1: TLC explores every sequence of <= 4 (thorough: 5) palette operations (insert / set / set with a colour name / resize / clear over 4 colours) of Palette.tla and checks InsertOk and the 6-bit codec laws; "
              "R2: one TLC witness per distinct (palette, depth) is replayed into icy_engine::Palette, plus seeded histories on palettes up to 300 colours, colours added through "
              "SGR/CSI t terminal sequences, 5 palette file formats x sizes x optional fields, all/many 6-bit triples; R3: Trace_Palette evaluates InsertResolves/IndexStable/"
              "InsertIdempotent/FileRoundTrip/Vga idempotence on every recorded step. distinct_nontrivial = number of insert/add/file/vga events checked.")
    c.assumptions = ["palette titles/descriptions without line breaks", "trace values are what the public API returned (get_rgb for every index after each call)"]
    return c.finish()


def split_at_resets(path, n):
    lines = open(path).read().splitlines()
    if n <= 1 or len(lines) < 50:
        return [path]
    # case = from a reset up to the next reset; events before the first reset (stateless ones) form their own cases
    cases, cur = [], []
    for ln in lines:
        stateless = ln.startswith('{"') and ('"ev":"file"' in ln or '"ev":"vga"' in ln or '"ev":"vga8"' in ln)
        if '"ev":"reset"' in ln or stateless:
            if cur:
                cases.append(cur)
            cur = []
        cur.append(ln)
    if cur:
        cases.append(cur)
    outs = [[] for _ in range(n)]
    sizes = [0] * n
    for cs in cases:
        i = sizes.index(min(sizes))
        outs[i] += cs
        sizes[i] += sum(len(x) for x in cs)
    res = []
    for i, o in enumerate(outs):
        if o:
            p = path.replace(".ndjson", f"-s{i}.ndjson")
            open(p, "w").write("\n".join(o) + "\n")
            res.append(p)
    os.remove(path)
    return res


def replay(path):
    r = json.load(open(path))
    print(json.dumps({k: r[k] for k in ("property", "key", "pred", "info")}, indent=1))
    print("failing event:", json.dumps(r.get("event"))[:2000])
    return 1
