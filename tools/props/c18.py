"""C18 - 8-bit attribute and code-page codecs are exact inverses on their domain (exhaustive)."""
import os, json
import vlib
from vlib import Check

SPEC = "spec/codec"


def key(v, ev):
    info = v.get("info") or {}
    pred = v.get("pred")
    if pred in ("DecodeEncode", "EncodeDecode"):
        return f"{pred}:mode={info.get('m')}"
    if pred in ("CodePageRoundTrip", "TypedRoundTrip", "TypedCode"):
        if ev and ev.get("site"):
            return f"{pred}:{info.get('conv')}:panic@{ev['site']}"
        return f"{pred}:{info.get('conv')}:{info.get('code', info.get('ch'))}"
    return str(pred)


def run():
    c = Check("C18")
    c.mc(SPEC, "MC_Attr", "MC_Attr.cfg", workers=2)
    trace = os.path.join(c.workdir, "trace.ndjson")
    vlib.drive(["c18", "--out", trace])
    c.validate(SPEC, "Trace_Attr", "Trace_Attr.cfg", [trace], key, procs=1)
    c.sample_from(trace, 2)
    c.exhaustive = True
    c.extra["distinct_nontrivial"] = sum(int(r.get("steps", 0)) for r in c.reports)
    c.rule = ("exhaustive: 256 bytes x 3 modes (decode, re-encode); 16 fg x 16 bg x blink x bold x 3 modes (encode, decode; judged on what the mode can express); "
              "256 codes x 5 converters (CP437 all 256, ATASCII 128 base codes judged); 63 letters/digits/space x 5 converters. Every pair is one recorded engine call, "
              "every recorded value is judged by Trace_Attr; R1 = MC_Attr shows the design codec of Attr.tla satisfies both identities on the whole domain. "
              "distinct_nontrivial = number of recorded (input, output) pairs, all distinct by construction.")
    c.assumptions = ["an attribute 'expressible in a mode' = fg 0..15 (bold folds into bright), bg 0..7 + blink (Blink, Unlimited) or bg 0..15 without blink (Ice)"]
    return c.finish()


def replay(path):
    r = json.load(open(path))
    print(json.dumps(r, indent=1)[:3000])
    return 1
