"""C17 - bitmap and TheDraw fonts survive every encoding the engine uses."""
import os, json
import vlib
from vlib import Check

SPEC = "spec/codec"
GEN_FONTS = os.path.join(vlib.GEN, "fonts.ndjson")
GEN_TDF = os.path.join(vlib.GEN, "tdf.ndjson")


def gen():
    a = vlib.generate(SPEC, "MC_Fonts", "Gen_Fonts.cfg", GEN_FONTS, workers=1, timeout=600)
    b = vlib.generate(SPEC, "MC_Tdf", "Gen_Tdf.cfg", GEN_TDF, workers=1, timeout=600)
    return {"n": a["n"] + b["n"], "fonts": a["n"], "tdf": b["n"]}


def msg_class(msg):
    out, last = [], False
    for ch in str(msg)[:48]:
        if ch.isdigit():
            if not last:
                out.append("#")
            last = True
        else:
            last = False
            out.append("_" if ch in ' "\\\n' else ch)
    return "".join(out)


def key(v, ev):
    pred = v.get("pred")
    info = v.get("info") or {}
    cls = info.get("cls", "?")
    r = info.get("r", "?")
    diff = "+".join(sorted(info.get("diff") or []))
    if pred == "FontSurvives":
        car = info.get("carrier", "?")
        if cls in ("psf1-magic", "psf2-magic"):
            # raw glyph data that begins with a PSF magic, through a sniffing loader: one input class, whatever the symptom
            return f"FontSurvives:{car}:{cls}"
        k = f"FontSurvives:{car}:{cls}:{r}"
        if r != "ok":
            k += ":" + msg_class(info.get("site", ""))
        return k + (":" + diff if diff else "")
    if pred == "TdfSurvives":
        if cls == "block>64K":
            # a font whose glyph block exceeds the 16-bit block size of the format: one input class, whatever the symptom
            return "TdfSurvives:block>64K"
        k = f"TdfSurvives:{cls}:{info.get('mode')}:{r}"
        if r != "ok":
            k += ":" + msg_class(info.get("site", ""))
        return k + (":" + diff if diff else "")
    return str(pred)


def split_events(path, n):
    lines = open(path).read().splitlines(keepends=True)
    order = sorted(range(len(lines)), key=lambda i: -len(lines[i]))
    outs = [[] for _ in range(n)]
    sizes = [0] * n
    for i in order:
        j = sizes.index(min(sizes))
        outs[j].append(i)
        sizes[j] += len(lines[i])
    res = []
    for j, idx in enumerate(outs):
        if idx:
            p = path.replace(".ndjson", f"-s{j}.ndjson")
            with open(p, "w") as f:
                f.writelines(lines[i] for i in sorted(idx))
            res.append(p)
    os.remove(path)
    return res


def run():
    c = Check("C17")
    c.mc(SPEC, "MC_Fonts", "MC_Fonts.cfg", workers=4)
    c.mc(SPEC, "MC_Tdf", "MC_Tdf.cfg", workers=4)
    g = gen()
    trace = os.path.join(c.workdir, "trace.ndjson")
    _, err, wall = vlib.drive(["c17", "--out", trace, "--seed", c.seed, "--tier", c.tier, "--gen", GEN_FONTS, "--gentdf", GEN_TDF], timeout=1800)
    shards = split_events(trace, 4)
    c.validate(SPEC, "Trace_Fonts", "Trace_Fonts.cfg", shards, key, procs=4, timeout=2400, xmx="4g")
    try:
        with open(shards[-1]) as f:
            for ln in f:
                e = json.loads(ln)
                if e.get("ev") == "font" and len(c.samples) < 2:
                    c.samples.append({"ev": "font", "case": e["case"], "carrier": e["carrier"], "r": e["r"], "in": {k: e["in"].get(k) for k in ("w", "h", "n", "ng")},
                                      "glyph_bytes": len(e["in"].get("g", [])), "carrier_bytes": len(e["bytes"]), "first_bytes": e["bytes"][:24]})
                elif e.get("ev") == "tdf" and sum(1 for s in c.samples if s.get("ev") == "tdf") < 2:
                    c.samples.append({"ev": "tdf", "case": e["case"], "mode": e["mode"], "r": e["r"], "fonts": [[len(f["name"]), f["type"], f["sp"], sum(1 for x in f["glyphs"] if x)] for f in e["in"]][:6],
                                      "file_bytes": len(e["bytes"])})
                if len(c.samples) >= 4:
                    break
    except Exception:
        pass
    # distinct (carrier, font) pairs and distinct TheDraw fonts that were read back and compared (digests from the `sum` lines)
    seen_f, seen_t = set(), set()
    for sh in shards:
        with open(sh) as f:
            for ln in f:
                if len(ln) < 4000 and '"ev":"sum"' in ln:
                    e = json.loads(ln)
                    if e.get("ok") == 1:
                        if e.get("kind") == "font":
                            seen_f.add(e["h"])
                        else:
                            seen_t.update(e["h"])
    R = lambda k: sum(int(r.get(k, 0)) for r in c.reports)
    c.evaluations = R("r4") + R("r5")
    c.extra["bitmap_font_round_trips"] = R("r4")
    c.extra["bitmap_fonts_read_back"] = R("r6")
    c.extra["tdf_files"] = R("r5")
    c.extra["tdf_fonts_compared"] = R("r7")
    c.extra["tdf_glyphs_compared"] = R("r8")
    c.extra["carrier_without_embedded_font"] = R("r9")
    c.extra["unrepresentable_refused"] = R("r10")
    c.extra["tlc_case_table"] = g
    c.extra["distinct_bitmap_cases"] = len(seen_f)
    c.extra["distinct_tdf_fonts"] = len(seen_t)
    c.extra["distinct_nontrivial"] = len(seen_f) + len(seen_t)
    c.extra["driver_wall_s"] = round(wall, 1)
    c.rule = ("R1: TLC checks on Fonts.tla (2/4 glyphs, heights 1..3, glyph bytes over {00,04,36,FF} and the PSF2 magic bytes) that decode o encode = id for PSF1, PSF2, raw, the CTerm font DCS "
              "(incl. base64), font blocks and the IcyDraw FONT chunk, that every truncation is rejected without an evaluation error, and that the sniffing loader reads raw data back iff it "
              "does not begin with a PSF magic; on Tdf.tla (3 table slots, names <= 2) decode o encode = id for all 1152 fonts (3 types, attribute bytes 00/0D in colour glyphs), single and in "
              "bundles, totality under truncation and byte substitution. R2: TLC case tables (290 height x glyph-count x carrier cases; 1872 TDF type x defined-subset x size x name-length x "
              "bundle-size cases), glyph bytes seeded random, plus every built-in font page 0..42 and every SAUCE font, are run through the real engine (to_psf2_bytes/from_bytes, "
              "convert_to_u8_data/create_8/from_basic, encode_as_ansi + ansi::Parser, XBin/ADF/IDF/IcyDraw save+load, as_tdf_bytes/create_font_bundle/from_tdf_bytes). R3: Trace_Fonts "
              "compares the recorded font in/out values (FontSurvives, TdfSurvives) and decodes the recorded carrier bytes with the specification's decoders (model layer). "
              "distinct_nontrivial = DISTINCT (carrier, font) pairs read back + DISTINCT TheDraw fonts written, read back and compared (64-bit digests of the recorded inputs); "
              "registers r6 / r7 count them with multiplicity.")
    c.assumptions = ["glyph data of the TheDraw fonts read back is observed through the engine's re-encoding of them, decoded by Tdf.tla (TheDrawFont::char_table is private); names, types, spacing and the "
                     "defined-glyph pattern are observed directly (public fields, has_char)",
                     "fonts embedded in pictures carry a name different from the default font's (the XBin writer omits a font NAMED like the default one)",
                     "raw .Fnn data handed to the sniffing file loader BitFont::from_bytes does not begin with a PSF magic (inherent ambiguity of sniffing); the DCS loader, whose payload is raw by "
                     "definition, is probed WITH such data",
                     "TheDraw glyph data: rows of <= width cells separated by CR, no NUL character bytes (NUL terminates a glyph); colour attributes are arbitrary bytes",
                     "a TheDraw writer refusing (error) a font whose glyph block exceeds 65535 bytes is accepted - the format has a 16-bit block size"]
    return c.finish()


def replay(path):
    r = json.load(open(path))
    print(json.dumps({k: r[k] for k in ("property", "key", "pred", "info", "occurrences")}, indent=1))
    ev = r.get("event") or {}
    if ev.get("ev") == "font":
        i, o = ev.get("in") or {}, ev.get("out") or {}
        print("carrier:", ev.get("carrier"), "result:", ev.get("r"), ev.get("site"))
        print("font in :", {k: i.get(k) for k in ("w", "h", "n", "ng")}, "first glyph bytes", (i.get("g") or [])[:16])
        print("font out:", {k: o.get(k) for k in ("w", "h", "n", "ng")}, "first glyph bytes", (o.get("g") or [])[:16])
        print("carrier bytes:", len(ev.get("bytes", [])), ev.get("bytes", [])[:40])
    elif ev.get("ev") == "tdf":
        print("mode:", ev.get("mode"), "result:", ev.get("r"), ev.get("site"))
        for k, f in enumerate(ev.get("in", [])[:6]):
            print(f"  font {k} in : name={bytes(f['name'])!r} type={f['type']} sp={f['sp']} defined={sum(1 for g in f['glyphs'] if g)} block={sum(len(g[2]) + 3 for g in f['glyphs'] if g)}")
        for k, f in enumerate(ev.get("out", [])[:6]):
            print(f"  font {k} out: name={bytes(f['name'])!r} type={f['type']} sp={f['sp']} defined={sum(f['def'])}")
    return 1
