"""C20, IGS part: the IGS command lexer and loop engine against spec/gfx/Igs.tla.

run_into(c, thorough) adds to a vlib.Check `c` (created by tools/props/c20.py, or by main() below for stand-alone runs):
R1 model checking of MC_Igs, the TLC-generated inputs (gen/igs.ndjson), the contained driver runs (`icyverif igs`,
one process per shard) and the validation of their traces with Trace_Igs.  Stand-alone: `python3 tools/props/igslib.py`
(workdir work/C20-igs, evidence written to work/C20-igs/evidence.json, evidence/C20.json is left alone)."""
import os, sys, json, time
from concurrent.futures import ThreadPoolExecutor

sys.path.insert(0, os.path.dirname(os.path.dirname(os.path.abspath(__file__))))
import vlib
from vlib import ROOT

SPEC = "spec/gfx"
GENFILE = os.path.join(vlib.GEN, "igs.ndjson")
SHARDS = 4


def key(v, ev):
    """Finding key: failing relation + call site / input class."""
    pred = v.get("pred")
    info = v.get("info") or {}
    if pred == "Outcome" and ev and ev.get("site"):
        return "panic@" + ev["site"]
    if pred in ("Abort", "Stall"):
        return f"{pred}:igs:{info.get('msg')}"
    if pred == "LoopProgress":
        return f"LoopProgress:igs:step={info.get('step')}"
    if pred in ("ExecBound", "StepTime"):
        return f"{pred}:igs:{info.get('call')}"
    return f"{pred}:igs"


def gen():
    return vlib.generate(SPEC, "MC_Igs", "Gen_Igs.cfg", GENFILE)


def _cfg_variant(src, dst, repl):
    s = open(os.path.join(ROOT, SPEC, src)).read()
    for a, b in repl:
        s = s.replace(a, b)
    open(os.path.join(ROOT, SPEC, dst), "w").write(s)
    return dst


def run_into(c, thorough):
    t0 = time.time()
    # R1: the full alphabet to a small depth and one representative per code branch to a larger depth
    if thorough:
        c.mc(SPEC, "MC_Igs", _cfg_variant("MC_Igs.cfg", "MC_Igs_wide4.cfg", [("MaxLen = 3", "MaxLen = 4")]), workers=4, timeout=1200)
        c.mc(SPEC, "MC_Igs", _cfg_variant("MC_Igs_deep.cfg", "MC_Igs_deep5.cfg", [("MaxLen = 4", "MaxLen = 5")]), workers=4, timeout=1200)
    else:
        c.mc(SPEC, "MC_Igs", "MC_Igs.cfg", workers=4)
        c.mc(SPEC, "MC_Igs", "MC_Igs_deep.cfg", workers=4)
    c.mc(SPEC, "MC_Igs", "MC_Igs_fixed.cfg", workers=4)        # the model with the proposed repairs D1..D4 switched on
    g = gen()
    wd = os.path.join(c.workdir, "igs") if os.path.basename(c.workdir) != "C20-igs" else c.workdir
    os.makedirs(wd, exist_ok=True)

    def one(k):
        trace = os.path.join(wd, f"igs-{k}.ndjson")
        crashes = vlib.run_contained_indexed("igs", trace, extra=["--seed", c.seed, "--tier", "thorough" if thorough else "quick", "--gen", GENFILE,
                                                                   "--shard", k, "--shards", SHARDS], case_timeout=8, mem_mb=2048)
        return trace, crashes

    with ThreadPoolExecutor(max_workers=SHARDS) as ex:
        res = list(ex.map(one, range(SHARDS)))
    traces = [t for t, _ in res]
    crashes = [x for _, cr in res for x in cr]
    n0, d0, v0 = len(c.reports), c.drift, len(c.viols)
    # the default model is the engine with the applied repairs D2 (step >= 1) and D3 (saturating arithmetic);
    # IGS_MODEL_FIXES=D1,D2,D3,D4: validate against the model with other sets of repairs (proposed_fixes/C20-I*.md)
    fixes = [f for f in os.environ.get("IGS_MODEL_FIXES", "").split(",") if f]
    tcfg = "Trace_Igs.cfg"
    if fixes:
        tcfg = _cfg_variant("Trace_Igs.cfg", "Trace_Igs_fixes.cfg", [('Fixes = {"D2", "D3"}', "Fixes = {" + ", ".join('"%s"' % f for f in fixes) + "}")])
    c.validate(SPEC, "Trace_Igs", tcfg, traces, key, procs=SHARDS, timeout=3000)
    by_case = {(os.path.basename(t), str(cr["case"])): cr for (t, crs) in res for cr in crs}
    for v in c.viols[v0:]:
        ev = v.get("event") or {}
        if ev.get("ev") == "crash":
            k = (os.path.basename(v["trace"]), str(ev.get("case")))
            if k in by_case:
                v["event"] = by_case[k]
    reps = c.reports[n0:]
    c.extra["igs_cases"] = sum(int(r.get("r4", 0)) for r in reps)
    c.extra["igs_lexer_steps"] = sum(int(r.get("r5", 0)) for r in reps)
    c.extra["igs_loop_polls"] = sum(int(r.get("r6", 0)) for r in reps)
    c.extra["igs_executed_commands"] = sum(int(r.get("r8", 0)) for r in reps)
    c.extra["igs_model_predicted_panics"] = sum(int(r.get("r9", 0)) for r in reps)
    c.extra["igs_model_drift"] = c.drift - d0
    c.extra["igs_tlc_generated_inputs"] = g["n"]
    c.extra["igs_worker_crashes"] = len(crashes)
    c.extra["igs_wall_s"] = round(time.time() - t0, 1)
    return traces


RULE = ("IGS lexer: R1 TLC explores Igs.tla (IgsStep/IgsPoll) over 24 tokens to depth 3 and over one representative per code branch to depth 4 from 8 start "
        "strings, invariants Total, ExecBound (<= 1 executor call per character/poll), StoreBounded, TerminatorReturns, LineEndRecovers, NoTrap, LoopProgress; "
        "R2 one shortest input per lexer class, every command letter x 0..8 parameters x value classes, loop headers over boundary (from,to,step,delay) "
        "tuples, seeded streams; R3 every character and every get_next_action poll is compared with the model (result, executed commands, all snapshot "
        "fields) and checked for outcome / executor calls / step time / loop progress.")


def main():
    c = vlib.Check("C20-igs")
    c.pid = "C20"                      # violations and findings belong to C20; only the work directory is separate
    thorough = c.tier == "thorough"
    traces = run_into(c, thorough)
    c.sample_from(traces[0], 3)
    c.extra["distinct_nontrivial"] = c.extra["igs_cases"]
    c.rule = RULE
    c.assumptions = ["step time limit 5 s, case watchdog 8 s", "dev profile (overflow checks on): the model's i32 arithmetic panics on overflow"]
    # keep evidence/C20.json untouched: write this run's evidence into the work directory
    ev_dir = vlib.EVIDENCE
    vlib.EVIDENCE = c.workdir
    try:
        rc = c.finish()
        os.replace(os.path.join(c.workdir, "C20.json"), os.path.join(c.workdir, "evidence.json"))
    finally:
        vlib.EVIDENCE = ev_dir
    print(f"igs: cases={c.extra['igs_cases']} steps={c.extra['igs_lexer_steps']} polls={c.extra['igs_loop_polls']} execs={c.extra['igs_executed_commands']} "
          f"drift={c.extra['igs_model_drift']} crashes={c.extra['igs_worker_crashes']} wall={time.time() - c.t0:.1f}s rc={rc}")
    for d in c.drift_samples[:5]:
        print("DRIFT", json.dumps(d)[:1200])
    return rc


if __name__ == "__main__":
    vlib.build_harness()
    vlib.main_wrapper(main)
