"""C02 - no file content can crash a loader."""
import os, json, re
from concurrent.futures import ThreadPoolExecutor
import vlib
from vlib import Check

SPEC = "spec/load"


def key(v, ev):
    pred = v.get("pred")
    info = v.get("info") or {}
    if pred == "Outcome" and ev:
        return "panic@" + str(ev.get("site", "?"))
    if pred in ("Abort", "LoadLimit"):
        return f"{pred}:{info.get('fmt')}:{info.get('msg', info.get('kind'))}"
    if pred == "LoadTime":
        return f"LoadTime:{info.get('fmt')}"
    return str(pred)


def gen(c=None):
    """seed descriptions from the driver -> structure-aware faults from Loader.tla"""
    seeds = os.path.join(vlib.GEN, "loader_seeds.ndjson")
    os.makedirs(vlib.GEN, exist_ok=True)
    rc, out = vlib.sh([vlib.BIN, "c02", "--dump-seeds", seeds], cwd=vlib.ROOT, timeout=300)
    if rc != 0:
        raise vlib.ToolError("seed generation failed: " + out[-1500:])
    # the seeds come from the engine's own writers, so the faults are regenerated on every run (1-2 s)
    res = vlib.generate(SPEC, "Gen_Loader", "Gen_Loader.cfg", os.path.join(vlib.WORK, "C02", "loader_faults.ndjson"), force=True, env={"SEEDS": seeds})
    return res


def drive_loaders(c):
    """every loader entry point over the structure-aware fault list: traces validated by Trace_Loader (the violations of C02 and
    of C03 - load time / load limits - are both produced here; each check keeps its own)"""
    g = gen(c)
    faults = os.path.join(vlib.WORK, "C02", "loader_faults.ndjson")
    n_shards = 8
    def one(k):
        trace = os.path.join(c.workdir, f"trace-{k}.ndjson" if c.pid == "C02" else f"loader-{k}.ndjson")
        crashes = vlib.run_contained_indexed("c02", trace, extra=["--seed", c.seed, "--tier", c.tier, "--faults", faults, "--shard", k, "--shards", n_shards], case_timeout=10, mem_mb=2048)
        return trace, crashes
    with ThreadPoolExecutor(max_workers=n_shards) as ex:
        res = list(ex.map(one, range(n_shards)))
    traces = [t for t, _ in res]
    crashes = [x for _, cr in res for x in cr]
    n0 = len(c.viols)
    c.validate(SPEC, "Trace_Loader", "Trace_Loader.cfg", traces, key, procs=n_shards, timeout=3000)
    by_case = {(os.path.basename(t), str(cr["case"])): cr for (t, crs) in res for cr in crs}
    for v in c.viols[n0:]:
        ev = v.get("event") or {}
        if ev.get("ev") == "crash":
            k = (os.path.basename(v["trace"]), str(ev.get("case")))
            if k in by_case:
                v["event"] = by_case[k]
    return g, traces, crashes


def run():
    c = Check("C02", level="fault_enumeration")
    thorough = c.tier == "thorough"
    # R1: totality of the spec decoders the format modules define (they are the design the loaders are meant to follow)
    c.mc("spec/codec", "MC_Sauce", "MC_Sauce.cfg", workers=4, timeout=1200)
    c.mc("spec/codec", "MC_Fonts", "MC_Fonts.cfg", workers=4, timeout=1200)
    c.mc("spec/codec", "MC_Tdf", "MC_Tdf.cfg", workers=4, timeout=1200)
    g, traces, crashes = drive_loaders(c)
    c.sample_from(traces[0], 3, skip_reset=False)
    loads = sum(int(r.get("r4", 0)) for r in c.reports)
    c.evaluations = loads
    c.extra["loads"] = loads
    c.extra["tlc_structure_aware_faults"] = g["n"]
    c.extra["sauce_loads_checked_against_Split"] = sum(int(r.get("r5", 0)) for r in c.reports)
    c.extra["worker_crashes"] = len(crashes)
    kinds = {}
    for t in traces:
        for line in open(t):
            m = re.search(r'"mut":"([a-z0-9-]+)', line)
            f = re.search(r'"fmt":"([^"]*)"', line)
            if m and f:
                kinds[(f.group(1), re.sub(r"\d+$", "", m.group(1)))] = kinds.get((f.group(1), m.group(1)), 0) + 1
    c.extra["distinct_nontrivial"] = loads
    c.extra["mutation_classes"] = len(kinds)
    c.rule = ("seed files from the engine's own writers (14 formats x 4 variants incl. SAUCE + comments, two-font XBin; PSF1/PSF2/raw fonts; TDF bundles of each type; 5 palette "
              "formats + the ASE entry point) x {every truncation, every header byte / u16 / u32 extreme in the first 48 bytes, ~49k structure-aware faults computed by TLC from Loader.tla (boundary -1/0/+1, "
              "every numeric field 0/1/max-1/max/declared+-1; a field value followed by truncation at every boundary of the RE-COMPUTED layout; every pair of numeric fields at {0,1,max-1,max}^2 "
              "on the whole file and on the header-only file), seeded 1-3 byte corruptions, the same bytes under every other extension}, IcyDraw chunk payload truncations/corruptions/"
              "reorderings re-wrapped as PNG, terminal token streams loaded as files under every text extension, CTerm font DCS payload classes followed by a sixel / text / resize inside a file, composed IcyDraw chunk faults, every 128-byte SAUCE tail class, random bytes with format magics, text art seeds as UTF-8 files (BOM) with one character beyond U+00FF at every one of the first 96 positions; "
              "each load in a crash-contained worker. distinct_nontrivial = number of loads (each case is a distinct (entry point, byte string) pair by construction).")
    c.assumptions = ["panics are caught per load (dev profile); aborts/hangs kill the worker and are attributed through the progress file"]
    return c.finish()


def replay(path):
    r = json.load(open(path))
    print(json.dumps({k: r.get(k) for k in ("property", "key", "pred", "info", "occurrences")}, indent=1))
    ev = r.get("event") or {}
    print("event:", json.dumps({k: v for k, v in ev.items() if k != "input"})[:1500])
    return 1
