"""C15 - Avatar, PCBoard, Ctrl-A, Renegade, ASCII, ATASCII files parse back as saved."""
import os, json, glob, re
import vlib
from vlib import Check

SPEC = "spec/codec"
GENFILE = os.path.join(vlib.GEN, "textout.ndjson")


def key(v, ev):
    pred = v.get("pred")
    info = v.get("info") or {}
    fmt = info.get("fmt", "?")
    if pred == "CellEq":
        s, b = info.get("src", [32, 7, 0, 0]), info.get("back", [32, 7, 0, 0])
        what = "ch" if s[0] != b[0] else "fg" if s[1] != b[1] else "bg"
        if info.get("bom"):
            return f"CellEq:{fmt}:file-begins-with-utf8-bom"     # the first three cells are CP437 0xEF 0xBB 0xBF and nothing is written before them
        if fmt == "avt" and info.get("prep") == 2:
            return "CellEq:avt:screen-preparation-home"          # ^V^H 1 1 is read as column 1, row 1 (zero based)
        return f"CellEq:{fmt}:{what}:prep={info.get('prep')}"
    if pred in ("SaveFails", "LoadFails"):
        return f"{pred}:{fmt}:" + re.sub(r"[^A-Za-z0-9_.:#@/()-]", "?", str(info.get("site")))[:90]
    if pred == "Width":
        return f"Width:{fmt}"
    return str(pred)


def gen():
    return vlib.generate(SPEC, "MC_TextOut", "Gen_TextOut.cfg", GENFILE)


def run():
    c = Check("C15")
    c.mc(SPEC, "MC_TextOut", "MC_TextOut.cfg", workers=4, timeout=1500)
    # the same design with the cursor-addressing rule of parsers/avatar (first byte = column, zero based): TLC is expected
    # to find the Avatar "Home" counterexample (documented in the evidence, not a verdict)
    rc, out, wall = vlib.tlc(SPEC, "MC_TextOut", "MC_TextOut_code.cfg", workers=2, timeout=600)
    c.extra["r1_with_engine_avatar_goto"] = "counterexample found (avt, screen preparation Home: ^V^H 1 1 puts the first cell at column 1 of row 1)" if "Invariant RoundTrip is violated" in out else "no counterexample"
    g = gen()
    base = os.path.join(c.workdir, "trace")
    vlib.drive(["c15", "--out", base, "--seed", c.seed, "--tier", c.tier, "--gen", GENFILE, "--shards", 4])
    shards = sorted(glob.glob(base + "-*.ndjson"))
    c.validate(SPEC, "Trace_TextOut", "Trace_TextOut.cfg", shards, key, procs=4, timeout=3000)
    c.sample_from(shards[0], 2)
    c.extra["tlc_generated_items"] = g["n"]
    c.extra["cases"] = sum(int(r.get("r4", 0)) for r in c.reports)
    c.extra["source_cells_compared"] = sum(int(r.get("r5", 0)) for r in c.reports)
    c.extra["cases_with_reader_model"] = sum(int(r.get("r6", 0)) for r in c.reports)
    c.extra["writer_faults_seen_by_reader_model"] = sum(int(r.get("r7", 0)) for r in c.reports)
    c.extra["distinct_nontrivial"] = c.extra["cases"]
    c.evaluations = c.extra["source_cells_compared"]
    c.rule = ("R1: TextOut.tla, six formats x 3 screen preparations x every row of width <= 4 over 6 cell kinds x screen as wide as the row / one wider x every stream the abstract writer can "
              "emit (attribute codes on change or always, Avatar repeat of any length, trailing blank-on-black dropped or not, line break unless the row fills the width): the byte-level "
              "reader model yields an equivalent screen and the next row starts at column 0 (with the engine's Avatar cursor addressing TLC finds the Home counterexample). R2: TLC enumerates "
              "all 16384 ordered pairs of the 16x8 attributes (laid out as adjacent cells in 80x40 pictures per colour format) and 300 row shapes (3 rows, lengths from {0,1,2,w-1,w}, last row "
              "not empty, x 3 screen preparations) per format; plus pictures with every row length 0..w and seeded random pictures (height 1..40, printable CP437 minus lead-in characters). "
              "R3: Trace_TextOut checks the recorded source is inside the domain, then reloaded ~ source cell by cell (character, fg 0..15 unless blank, bg 0..7; ASCII characters; ATASCII "
              "character + inverse); model layer: the loader model over the file bytes. distinct_nontrivial = save/reload cases.")
    c.assumptions = ["printable CP437 = 0x20..0x7E and 0x80..0xFE (ATASCII: 0x01..0x7C without ESC and the cursor codes), minus each format's lead-in characters",
                     "no blink, bold or extended attributes (the property speaks of 16 foreground and 8 background colours)",
                     "the foreground of a blank cell is not compared; blank-on-black cells after the end of a row / below the last row are insignificant",
                     "width 80 (ATASCII 40), no SAUCE; source ice mode Unlimited"]
    return c.finish()


def replay(path):
    r = json.load(open(path))
    print(json.dumps({k: r[k] for k in ("property", "key", "pred", "info")}, indent=1)[:3000])
    ev = r.get("event") or {}
    if ev.get("bytes"):
        print("bytes:", json.dumps(ev["bytes"])[:1500])
    return 1
