"""C05 - binary art formats (XBin, BIN, ADF, IDF, Tundra) reproduce what was saved."""
import os, json, glob
import vlib
from vlib import Check, ToolError

SPEC = "spec/codec"


def key(v, ev):
    pred = v.get("pred")
    info = v.get("info") or {}
    half, fmt, kind = info.get("half"), info.get("fmt"), info.get("kind")
    if pred == "Outcome":
        bad = info.get("save") if info.get("save") != "ok" else info.get("load")
        which = "save" if info.get("save") != "ok" else "load"
        return f"{half}:{fmt}:Outcome:{which}:{bad}"
    k = f"{half}:{fmt}:{pred}:{kind}"
    if fmt in ("xb", "idf") and pred in ("CharEq", "ColourEq", "BlinkEq", "PictureEq", "SizeEq") and kind != "height<25-loads-as-25":
        k += f":compress={info.get('compress')}"
    return k


def gen():
    return vlib.generate(SPEC, "Gen_BinFmt", "Gen_BinFmt.cfg", os.path.join(vlib.GEN, "binfmt.ndjson"))


def run():
    c = Check("C05")
    thorough = c.tier == "thorough"
    # R1: decoders of the format documents invert every valid encoding on scaled-down layouts
    for fmt in ("bin", "adf", "idf", "tnd"):
        c.mc(SPEC, "MC_BinLike", f"MC_BinLike_{fmt}.cfg", workers=4)
    c.mc(SPEC, "MC_XBin", "MC_XBin.cfg", workers=4)
    # all pictures <= 2x3 (RoundTrip / TablesBack; the prefix-totality invariant is checked on the 2x2 configurations above)
    c.mc(SPEC, "MC_BinLike", "MC_BinLike_idf_2x3.cfg", workers=4, timeout=1500)
    c.mc(SPEC, "MC_BinLike", "MC_BinLike_tnd_2x3.cfg", workers=4, timeout=1500)
    g = gen()
    prefix = os.path.join(c.workdir, "trace")
    for f in glob.glob(prefix + "-*"):
        os.remove(f)
    nshards = 16 if thorough else 6
    vlib.drive(["c05", "--out", prefix, "--shards", nshards, "--seed", c.seed, "--tier", c.tier, "--gen", os.path.join(vlib.GEN, "binfmt.ndjson")], timeout=1500)
    summary = json.load(open(prefix + "-summary.json"))
    shards = sorted(glob.glob(prefix + "-[0-9]*.ndjson"))
    c.validate(SPEC, "Trace_BinFmt", "Trace_BinFmt.cfg", shards, key, procs=6 if thorough else 4, xmx="3g")
    if summary["counts"].get("rt-from-tlc-config", 0) != g["n"]:
        raise ToolError(f"driver replayed {summary['counts'].get('rt-from-tlc-config')} of {g['n']} TLC-generated configurations")
    reg = lambda r: sum(int(x.get(r, 0)) for x in c.reports)
    c.sample_from(shards[0], 1)
    c.samples = [s if isinstance(s, str) else json.dumps(s)[:1500] for s in c.samples]
    c.extra.update({
        "round_trip_cases": reg("r4"), "resave_cases": reg("r5"), "round_trips_judged": reg("r6"), "resaves_judged": reg("r7"),
        "resaves_not_judged_save_or_reload_failed": reg("r8"), "cases_decoded_by_spec_decoders": reg("r9"),
        "driver_counts": summary["counts"], "tlc_generated_configurations": g["n"],
        "distinct_nontrivial": reg("r6") + reg("r7"),
    })
    c.rule = ("R1: for every picture <= 2x3 cells over a 4-cell alphabet and every encoding the format documents allow (IDF: any mix of literal words and repeat triples with the "
              "escape word always escaped; Tundra: colour/position records wherever allowed) the decoders of BinLike.tla read the picture, palette and font back; XBin via MC_XBin. "
              "R2/R3: one source picture per configuration enumerated by TLC from Gen_BinFmt (XBin: palette?/font?/512?/compress?/ice? x font heights 1/8/16/32 legal per HeaderLegal, sizes 1x1..80x25; BIN modes x widths 2/80/160/510; ADF heights 1/24/25/26/201; IDF widths 1/79/80 x heights 1/24/25/26/200 x compress; Tundra widths x colour counts) plus seeded source pictures strictly inside each format's representable set (XBin blink/ice, 1-2 fonts of height 1..32, 6-bit palettes, compressed or not, widths 1..4096, heights 1..200, directed rows of 62..66 / 127..129 cells with all-different neighbours followed by a pair sharing attribute / character around the 64-cell run cap; "
              "BIN even widths 2..510 with SAUCE; ADF width 80; IDF widths 1..80; Tundra with SAUCE, 24-bit colours, no blink) are saved with lossles_output and reloaded; "
              "Trace_BinFmt judges SizeEq, CharEq (incl. font page), ColourEq (displayed RGB, blank/solid glyphs excepted, 6-bit reduction for 6-bit formats), BlinkEq, ModeEq, FontEq, PaletteEq; "
              "second half: own files and mutated files that still load are loaded, saved, loaded again and judged by the same relation. The spec decoders re-read the written bytes "
              "(model layer, drift). distinct_nontrivial = round trips + re-saves judged (TLC registers).")
    c.assumptions = ["the foreground/blink of a glyph without set pixels and the background of a glyph without clear pixels are not 'displayed colours'",
                     "an embedded font that no cell uses is not part of the picture (re-save half)",
                     "re-save cases whose save or second load fails, or whose first load has a non-positive size (a mutated Tundra position record can produce a negative height), are not judged (counted in resaves_not_judged_save_or_reload_failed)",
                     "fonts are compared by size + CRC-32 of the glyph table (and byte-wise for small cases)",
                     "the projection (Buffer::get_char, Palette::get_rgb, BitFont::convert_to_u8_data) is trusted"]
    return c.finish()


def replay(path):
    r = json.load(open(path))
    ev = r.get("event") or {}
    print(json.dumps({k: r.get(k) for k in ("property", "key", "pred", "info", "occurrences", "seed", "tier")}, indent=1)[:3000])
    if ev.get("ev") != "rt":
        print("re-save cases are derived from the whole run; re-run the check with the same VERIF_SEED / VERIF_TIER to reproduce")
        return 1
    # source pictures are a function of (seed, tier, format, index): re-drive exactly that case
    idx = {"xb": 0, "bin": 1, "adf": 2, "idf": 3, "tnd": 4}
    work = os.path.join(vlib.WORK, "C05-replay")
    os.makedirs(work, exist_ok=True)
    prefix = os.path.join(work, "trace")
    for f in glob.glob(prefix + "-*"):
        os.remove(f)
    vlib.drive(["c05", "--out", prefix, "--shards", 1, "--seed", r.get("seed", 0), "--tier", r.get("tier", "quick"), "--only", ev["fmt"], "--index", ev.get("index", 0), "--no-resave", 1,
                "--gen", os.path.join(vlib.GEN, "binfmt.ndjson")])
    res = vlib.validate_trace(SPEC, "Trace_BinFmt", "Trace_BinFmt.cfg", prefix + "-0.ndjson")
    for v in res["viol"]:
        print("VIOL", json.dumps(v)[:1200])
    print(f"replayed: {len(res['viol'])} property-layer violation(s), {res['report'].get('drift')} drift")
    return 1 if res["viol"] else 0
