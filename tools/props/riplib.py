"""C20, RIPscrip part: the command lexer of rip::Parser against the character-level model spec/gfx/Rip.tla.

run_into(c, thorough) adds to an existing Check("C20"):
  R1  TLC explores MC_Rip (lexer automaton over the token alphabet; invariants NoStall, Completes, UnwrapSafe, StepInv ...)
  R2  Gen_Rip.cfg exports the command table + one shortest string per lexer class (gen/rip_cases.ndjson)
  drive  `icyverif rip` feeds TLC strings, table x parameter lengths x digit alphabets, seeded random streams to a real parser,
         one event per character with the lexer snapshot (cfg(icy_engine_verif) hook) and the RIP text of executed commands
  R3  Trace_Rip recomputes RipStep on every character: drift = model layer, panic / abort / stall = property layer (C20)
Stand-alone: `python3 tools/props/riplib.py` (work dir work/C20-rip, evidence work/C20-rip/evidence; honours VERIF_TIER,
VERIF_SEED and VERIF_REPO=<scratch worktree of /repo> for mutants).
"""
import os, sys, json, time
from concurrent.futures import ThreadPoolExecutor

sys.path.insert(0, os.path.dirname(os.path.dirname(os.path.abspath(__file__))))
import vlib
from vlib import Check

SPEC = "spec/gfx"
GEN_FILE = os.path.join(vlib.GEN, "rip_cases.ndjson")
PROCS = 4          # parallel driver / TLC processes (shared machine)


def key(v, ev):
    """Same key shapes as tools/props/c20.py: panic@<site>, Abort/Stall:<emu>:<msg>, <pred>:<emu>."""
    pred = v.get("pred")
    info = v.get("info") or {}
    if pred == "Outcome" and ev and ev.get("site"):
        return "panic@" + ev["site"]
    if pred in ("Abort", "Stall"):
        return f"{pred}:{info.get('emu')}:{info.get('msg')}"
    return f"{pred}:{info.get('emu')}"


def gen():
    return vlib.generate(SPEC, "MC_Rip", "Gen_Rip.cfg", GEN_FILE)


def _contained(out_path, extra, case_timeout=8, mem_mb=2048, max_crashes=6, overall_timeout=3000):
    """vlib.run_contained_indexed with a small budget of worker kills: a lexer that stalls or aborts does so on whole classes
    of cases, and every kill costs `case_timeout` seconds - after `max_crashes` of them the shard stops (the verdict is a
    violation anyway; the trace says where it stopped).  Same `crash` event format."""
    import subprocess
    start, crashes, t0 = 0, [], time.time()
    progress = out_path + ".progress"
    if os.path.exists(out_path):
        os.remove(out_path)
    base = [vlib.BIN, "rip"] + [str(x) for x in extra]
    env = dict(os.environ, VERIF_REPO=vlib.REPO, RUST_BACKTRACE="0")
    while True:
        if time.time() - t0 > overall_timeout:
            raise vlib.ToolError("driver rip exceeded the overall time limit")
        p = subprocess.run(base + ["--out", out_path, "--start", str(start), "--progress", progress, "--case-timeout", str(case_timeout), "--mem-mb", str(mem_mb)],
                           cwd=vlib.ROOT, stdout=subprocess.DEVNULL, stderr=subprocess.PIPE, text=True, errors="replace", env=env, timeout=overall_timeout)
        if p.returncode == 0:
            for l in p.stderr.splitlines()[-1:]:
                vlib.log("[drive] " + l)
            break
        try:
            k, what = open(progress).read().split()[:2]
            k = int(k)
        except Exception:
            vlib.log(p.stderr[-3000:])
            raise vlib.ToolError(f"driver rip died without a progress record (exit {p.returncode})")
        if what == "done":
            break
        kind = "timeout" if what == "timeout" else "abort"
        msg = "timeout" if kind == "timeout" else vlib.classify_stderr(p.stderr)
        d = subprocess.run(base + ["--dump-case", str(k)], cwd=vlib.ROOT, stdout=subprocess.PIPE, stderr=subprocess.DEVNULL, text=True, env=env)
        try:
            cse = json.loads(d.stdout.strip().splitlines()[-1])
        except Exception:
            cse = {}
        rec = {"ev": "crash", "case": str(k), "emu": "rip", "seed": cse.get("seed", "?"), "kind": kind, "msg": msg, "sig": p.returncode,
               "n": len(cse.get("bytes", [])), "detail": p.stderr[-400:].replace("\n", " | ")}
        with open(out_path, "a") as f:
            f.write(json.dumps(rec, separators=(",", ":")) + "\n")
        crashes.append(dict(rec, input=cse))
        vlib.log(f"[drive] rip case {k} ({cse.get('seed')}) killed the worker: {kind}/{msg}")
        start = k + 1
        if len(crashes) >= max_crashes:
            vlib.log(f"[drive] rip: {len(crashes)} worker kills in this shard - not driving its remaining cases")
            break
    return crashes


def run_into(c, thorough=None):
    if thorough is None:
        thorough = c.tier == "thorough"
    t0 = time.time()
    mc = c.mc(SPEC, "MC_Rip", "MC_Rip_full.cfg" if thorough else "MC_Rip.cfg", workers=4)
    g = gen()
    rows = [json.loads(l) for l in open(GEN_FILE)]
    n_cmds = sum(1 for r in rows if r.get("t") == "cmd")
    n_paths = len({tuple(r["s"]) for r in rows if r.get("t") != "cmd"})
    tier = "thorough" if thorough else "quick"
    shards = 8 if thorough else 4          # trace files of at most ~2.5 M events: larger ones make TLC's JSON heap thrash

    def one(k):
        trace = os.path.join(c.workdir, f"rip-{k}.ndjson")
        crashes = _contained(trace, ["--seed", c.seed, "--tier", tier, "--gen", GEN_FILE, "--shard", k, "--shards", shards])
        return trace, crashes
    with ThreadPoolExecutor(max_workers=PROCS) as ex:
        res = list(ex.map(one, range(shards)))
    traces = [t for t, _ in res]
    crashes = [x for _, cr in res for x in cr]
    t1 = time.time()
    results = c.validate(SPEC, "Trace_Rip", "Trace_Rip.cfg", traces, key, procs=PROCS, timeout=3000)
    # attach the input of a case that killed / stalled the worker to its violation (for the replay file)
    by_case = {(os.path.basename(t), str(cr["case"])): cr for (t, crs) in res for cr in crs}
    for v in c.viols:
        ev = v.get("event") or {}
        if ev.get("ev") == "crash" and v.get("trace"):
            k = (os.path.basename(v["trace"]), str(ev.get("case")))
            if k in by_case:
                v["event"] = by_case[k]
    reg = lambda n: sum(int(r["report"].get(n, 0)) for r in results)
    drift = sum(int(r["report"].get("drift", 0)) for r in results)
    c.extra["rip_lexer_cases"] = reg("r9")
    c.extra["rip_lexer_steps"] = reg("steps")
    c.extra["rip_modelled_steps"] = reg("r10")
    c.extra["rip_commands_compared"] = reg("r11")
    c.extra["rip_unmodelled_ansi_steps"] = reg("r12")
    c.extra["rip_model_drift"] = drift
    c.extra["rip_model_drift_samples"] = [d for r in results for d in r["drift"]][:5]
    c.extra["rip_worker_crashes"] = len(crashes)
    c.extra["rip_tlc"] = {"mc_states": mc["states"], "mc_transitions": mc["transitions"], "commands_in_table": n_cmds, "tlc_strings": n_paths}
    c.extra["rip_wall_s"] = {"mc_gen_drive": round(t1 - t0, 1), "validate": round(time.time() - t1, 1)}
    c.assumptions.append("RIP lexer model: the fallback ANSI parser is modelled for ESC, CSI parameters and final bytes only; behind DCS / OSC / APS / "
                         "CSI sub-states the model layer is suspended until a '!' shows that the parser is back in its ground state")
    vlib.log(f"[rip] {reg('r9')} cases, {reg('steps')} characters, {reg('r11')} executed commands compared, drift {drift}, "
             f"{len(crashes)} worker crashes, {time.time() - t0:.1f}s")
    if drift:
        for d in c.extra["rip_model_drift_samples"][:3]:
            vlib.log("[rip] DRIFT " + json.dumps(d)[:700])
    return results


def main():
    # own work / evidence directories: evidence/C20.json and work/C20 belong to tools/check.py C20
    vlib.EVIDENCE = os.path.join(vlib.WORK, "C20-rip", "evidence")
    os.chdir(vlib.ROOT)
    if "--no-build" not in sys.argv:
        vlib.build_harness()
    c = Check("C20-rip")
    c.pid = "C20"                         # findings and violations are those of property C20
    run_into(c)
    c.extra["distinct_nontrivial"] = c.extra["rip_lexer_cases"]
    c.rule = "RIPscrip lexer only (stand-alone run of tools/props/riplib.py)"
    rc = c.finish()
    print(f"riplib: tier={c.tier} seed={c.seed} steps={c.extra['rip_lexer_steps']} drift={c.extra['rip_model_drift']} "
          f"violations={'yes' if rc else 'no'} wall={time.time() - c.t0:.1f}s evidence={os.path.join(vlib.EVIDENCE, 'C20.json')}")
    if c.extra["rip_model_drift"]:
        print("MODEL-DRIFT (reported, does not decide the verdict):")
        for d in c.extra["rip_model_drift_samples"][:3]:
            print("  " + json.dumps(d)[:900])
    return rc


if __name__ == "__main__":
    vlib.main_wrapper(main)
