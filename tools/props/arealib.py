"""C08, model layer: what the editor's area / row / column operations MEAN (spec/doc/Area.tla).

run_into(c, thorough) adds to an existing Check("C08"):
  R1  TLC checks the algebraic laws of the operations (MC_Area: flip o flip = id, justify idempotent, scroll = rotation, insert/delete
      inverse, erase idempotent, frame condition, crop = selection, what is preserved ...) for every grid up to 4 cells (thorough: 6
      cells, and 3 x 3 over two symbols) x every selection rectangle x every operation, for the model of the CURRENT engine
      (Quirks <- EngineQuirks) and of the repaired one (NoQuirks)
  R2  Gen_Area.cfg exports the (document, operation) pairs of that space (gen/area_cases.ndjson)
  drive  `icyverif area`: TLC pairs + protected-layer family + seeded random documents up to 12 x 8 with 1..3 layers, 1..3 operations each,
         through the public EditState API; document before / after every call
  R3  Trace_Area recomputes Area!Apply on the recorded document before and compares with the recorded one after: model layer only
      (drift); an engine panic that the model does not predict is drift "result:<op>" with the site
Stand-alone: `python3 tools/props/arealib.py` (work dir work/C08-area, evidence work/C08-area/evidence; honours VERIF_TIER, VERIF_SEED,
VERIF_REPO=<scratch worktree of /repo> for mutants, AREA_TRACE_CFG=Trace_Area_fixed.cfg for a tree with the proposed fixes applied).
"""
import os, sys, json, time
from collections import Counter

sys.path.insert(0, os.path.dirname(os.path.dirname(os.path.abspath(__file__))))
import vlib
from vlib import Check

SPEC = "spec/doc"
GEN_FILE = os.path.join(vlib.GEN, "area_cases.ndjson")
PROCS = 4
SHARDS = 4
OP_ORDER = ["justify_left", "justify_right", "center", "flip_x", "flip_y", "justify_line_left", "justify_line_right", "center_line",
            "scroll_area_left", "scroll_area_right", "scroll_area_up", "scroll_area_down", "erase_selection", "erase_row",
            "erase_row_to_start", "erase_row_to_end", "erase_column", "erase_column_to_start", "erase_column_to_end", "delete_row",
            "insert_row", "delete_column", "insert_column", "crop", "set_char", "swap_char", "paste", "stamp_layer_down"]


def key(v, ev):
    """Only tool problems can appear here (the module has no property-layer predicate)."""
    return f"{v.get('pred')}"


def gen():
    return vlib.generate(SPEC, "MC_Area", "Gen_Area.cfg", GEN_FILE)


def run_into(c, thorough=None):
    if thorough is None:
        thorough = c.tier == "thorough"
    t0 = time.time()
    cfgs = ["MC_Area.cfg", "MC_Area_ideal.cfg"]
    if thorough:
        cfgs += ["MC_Area_glyph.cfg", "MC_Area_prot.cfg", "MC_Area_prot_ideal.cfg", "MC_Area_full.cfg", "MC_Area_3x3.cfg"]
    if os.environ.get("AREA_NO_MC"):        # experiments on mutated engines: the laws of the model do not depend on the engine
        cfgs = []
    mcs = [c.mc(SPEC, "MC_Area", cfg, workers=4) for cfg in cfgs]
    gen()
    t1 = time.time()
    tier = "thorough" if thorough else "quick"
    trace = os.path.join(c.workdir, "area.ndjson")
    vlib.drive(["area", "--out", trace, "--seed", c.seed, "--tier", tier, "--gen", GEN_FILE, "--shards", SHARDS])
    traces = [trace.replace(".ndjson", f"-s{k}.ndjson") for k in range(SHARDS)]
    summary = json.load(open(trace.replace(".ndjson", "-summary.json")))
    t2 = time.time()
    results = c.validate(SPEC, "Trace_Area", os.environ.get("AREA_TRACE_CFG", "Trace_Area.cfg"), traces, key, procs=PROCS, timeout=3000)
    reg = lambda n: sum(int(r["report"].get(n, 0)) for r in results)
    drift = sum(int(r["report"].get("drift", 0)) for r in results)
    mask = 0
    for r in results:
        mask |= int(r["report"].get("r8", 0))
    covered = [n for i, n in enumerate(OP_ORDER) if mask >> i & 1]
    kinds = Counter(d.get("what") for r in results for d in r["drift"])
    c.extra["area_cases"] = reg("r4")
    c.extra["area_calls"] = reg("r5")
    c.extra["area_documents_compared"] = reg("r6")
    c.extra["area_model_drift"] = drift
    c.extra["area_model_drift_kinds"] = dict(kinds)
    c.extra["area_model_drift_samples"] = [d for r in results for d in r["drift"]][:6]
    c.extra["area_ops_covered"] = len(covered)
    c.extra["area_ops_not_covered"] = [n for n in OP_ORDER if n not in covered]
    c.extra["area_engine_panics"] = reg("r7")
    c.extra["area_engine_panics_predicted_by_model"] = reg("r9")
    c.extra["area_engine_panic_sites"] = summary.get("panic_sites", {})
    c.extra["area_calls_on_multi_layer_documents"] = reg("r11")
    c.extra["area_calls_on_partial_areas"] = reg("r12")
    c.extra["area_unstable_glyph_codes"] = summary.get("unstable_glyphs", [])
    c.extra["area_tlc"] = {"laws_checked": [{"cfg": m["cfg"], "states": m["states"]} for m in mcs], "tlc_cases_driven": summary.get("tlc_cases", 0)}
    c.extra["area_wall_s"] = {"mc_gen": round(t1 - t0, 1), "drive": round(t2 - t1, 1), "validate": round(time.time() - t2, 1)}
    c.assumptions.append("Area model: the selection mask is empty; cells carry only font pages for which the document has a font; glyph codes whose "
                         "mirror image depends on hash-map iteration order (see area_unstable_glyph_codes) are not used by the generators; "
                         "cells stored beyond a layer's size and the lengths of the stored rows are not modelled (not observable by these operations)")
    c.sample_from(traces[0], n=2)
    vlib.log(f"[area] {reg('r4')} cases, {reg('r5')} calls, {reg('r6')} documents compared, {len(covered)}/{len(OP_ORDER)} operations, "
             f"{reg('r7')} engine panics ({reg('r9')} predicted), drift {drift}, {time.time() - t0:.1f}s")
    if drift:
        vlib.log("[area] drift kinds: " + json.dumps(dict(kinds)))
        for d in c.extra["area_model_drift_samples"][:3]:
            vlib.log("[area] DRIFT " + json.dumps(d)[:700])
    return results


def main():
    # own work / evidence directories: evidence/C08.json and work/C08 belong to tools/check.py C08
    vlib.EVIDENCE = os.path.join(vlib.WORK, "C08-area", "evidence")
    os.chdir(vlib.ROOT)
    if "--no-build" not in sys.argv:
        vlib.build_harness()
    c = Check("C08-area")
    c.pid = "C08"
    run_into(c)
    c.extra["distinct_nontrivial"] = c.extra["area_documents_compared"]
    c.rule = "meaning of the editor's area / row / column operations (stand-alone run of tools/props/arealib.py; model layer of C08)"
    rc = c.finish()
    print(f"arealib: tier={c.tier} seed={c.seed} cases={c.extra['area_cases']} calls={c.extra['area_calls']} compared={c.extra['area_documents_compared']} "
          f"ops={c.extra['area_ops_covered']}/{len(OP_ORDER)} panics={c.extra['area_engine_panics']} (predicted {c.extra['area_engine_panics_predicted_by_model']}) "
          f"drift={c.extra['area_model_drift']} violations={'yes' if rc else 'no'} wall={time.time() - c.t0:.1f}s evidence={os.path.join(vlib.EVIDENCE, 'C08.json')}")
    if c.extra["area_model_drift"]:
        print("MODEL-DRIFT (reported, does not decide the verdict): " + json.dumps(c.extra["area_model_drift_kinds"]))
        for d in c.extra["area_model_drift_samples"][:4]:
            print("  " + json.dumps(d)[:900])
    return rc


if __name__ == "__main__":
    vlib.main_wrapper(main)
