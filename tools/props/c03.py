"""C03 - work per input is bounded by screen size, not by numbers in the input."""
import os, json, random, base64
import vlib
from vlib import Check
from props import termlib

VALUES = [0, 1, 80, 25, 65536, 1000000, 2147483647]
INTER = ["", " ", "$", "*", "?", "=", "!", "<"]
PRELUDES = [b"", b"\n" * 30 + b"AB", b"\x1b[1;99999999999r\x1b[?69h\x1b[1;99999999999s", b"\x1b[4h\x1b[5;9rAAAA\r"]


def esc(s):
    return s.encode("latin1")


def csi_table(rng, per_long, all_pairs):
    """the complete control-function table: every final 0x40..0x7E x every intermediate x parameter vectors"""
    cases = []
    for fin in range(0x40, 0x7F):
        for inter in INTER:
            pairs = [[a, b] for a in VALUES for b in VALUES]
            vecs = [[]] + [[a] for a in VALUES] + (pairs if all_pairs else rng.sample(pairs, 10))
            for n in (3, 4, 5, 6):
                for _ in range(per_long):
                    vecs.append([rng.choice(VALUES) for _ in range(n)])
            for v in vecs:
                ps = ";".join(str(x) for x in v)
                if inter in ("?", "=", "!", "<"):
                    seq = "\x1b[" + inter + ps + chr(fin)
                else:
                    seq = "\x1b[" + ps + inter + chr(fin)
                cases.append(esc(seq))
    return cases


def special_cases():
    c = []
    big = "99999999999"
    # macros: self / mutual recursion, chains, fan-out, hex repeat groups, invocation inside DCS
    c.append(esc("\x1bP0;0;0!zA\x1b[0*z\x1b\\\x1b[0*z"))
    c.append(esc("\x1bP0;0;0!z\x1b[0*z\x1b[0*z\x1b[0*z\x1b[0*z\x1b[0*z\x1b[0*z\x1b\\\x1b[0*z"))
    c.append(esc("\x1bP0;0;0!z\x1b[1*z\x1b\\\x1bP1;0;0!z\x1b[0*z\x1b\\\x1b[1*z"))
    c.append(esc("".join(f"\x1bP{i};0;0!z\x1b[{i+1}*z\x1b\\" for i in range(3)) + "\x1b[0*z"))
    c.append(esc(f"\x1bP0;0;1!z!{big};41;\x1b\\\x1b[0*z"))
    c.append(esc(f"\x1bP0;0;1!z!{big};4142434445464748;!{big};41;\x1b\\\x1b[0*z\x1b[0*z"))
    c.append(esc(f"\x1bP0;0;1!z!{big};1B5B302A7A;\x1b\\\x1b[0*z"))          # repeated self-invocation built by a repeat group
    c.append(esc(f"\x1bP0;0;0!z\x1b[{big}b\x1b\\A\x1b[0*z"))
    c.append(esc("\x1bP0;0;0!zXY\x1b\\\x1bPq\x1b[0*z\x1b[0*z\x1b\\"))
    c.append(esc(f"\x1b[{big}*z\x1bP{big};0;0!zA\x1b\\\x1b[{big}*z"))
    # sixel headers: raster attributes, repeats, colour registers
    for payload in (f'"1;1;{big};{big}', f'"1;1;{big}', f'"{big};{big};65536;65536', '"1;1;4096;4096~', f"!{big}~", f"!{big}-", "!4096~" * 8, f"#{big};2;0;0;0~",
                    f"#1;2;{big};{big};{big}~", f"#1;1;{big};{big};{big}~", "-" * 40 + "~", f'"1;1;1;1!{big}~', f'"1;1;4096;4096' * 3):
        c.append(esc("\x1bPq" + payload + "\x1b\\"))
    # custom font DCS payloads
    for raw in (bytes([0x36, 0x04, 0, 0]) + b"\x00" * 16, bytes([0x36, 0x04, 1, 0]), bytes([0x36, 0x04, 0, 255]) + b"\xff" * 20,
                bytes([0x72, 0xb5, 0x4a, 0x86]) + b"\x00" * 4 + (32).to_bytes(4, "little") + b"\x00" * 4 + (0xFFFFFFFF).to_bytes(4, "little") + (0xFFFFFFFF).to_bytes(4, "little") + b"\x00" * 8,
                b"", b"\x00", b"\x00" * 255):
        c.append(esc("\x1bPCTerm:Font:1:" + base64.b64encode(raw).decode() + "\x1b\\"))
    # PSF2 headers with every combination of extreme glyph count / glyph size / height / width (header only: the declared
    # sizes must not drive any loop or allocation), and PSF1 headers with every glyph size class
    ext = (0, 1, 256, 0x7FFFFFFF, 0xFFFFFFFF)
    for ln in ext:
        for cs in ext:
            for hh in (0, 16, 0xFFFFFFFF):
                for ww in (0, 8, 0xFFFFFFFF):
                    raw = bytes([0x72, 0xb5, 0x4a, 0x86]) + b"".join(v.to_bytes(4, "little") for v in (0, 32, 0, ln, cs, hh, ww))
                    c.append(esc("\x1bPCTerm:Font:1:" + base64.b64encode(raw).decode() + "\x1b\\"))
    for cs in (0, 1, 16, 255):
        for mode in (0, 2):
            c.append(esc("\x1bPCTerm:Font:1:" + base64.b64encode(bytes([0x36, 0x04, mode, cs]) + b"\x55" * 64).decode() + "\x1b\\"))
    # music with extreme numbers
    c.append(esc(f"\x1b[MFT{big}L{big}O6B############.........\x0e"))
    # text-window resize then big motions
    c.append(esc(f"\x1b[8;{big};{big}t\x1b[{big}b"))
    return c


def combo_cases():
    """products of a mode switch, a margin setting, a cursor motion and a printing tail, all with large numbers: a bound that is
    dropped in one function typically needs state set up by another (origin mode + margins + motion + print)"""
    res = []
    modes = ["", "\x1b[?6h", "\x1b[?6l", "\x1b[6l", "\x1b[6h", "\x1b[?7l", "\x1b[4h", "\x1b[?69h"]
    tails = ["A", "\n", "A\n", "\x1bM", "\x1bD"]
    for big in ("65536", "1000000", "2147483647"):
        # every control function that stores a margin (DECSTBM, DECSLRM, the 4-parameter DECSTBM, the CSI = Ps ; n m margin setters)
        margins = ["", f"\x1b[1;{big}r", f"\x1b[{big};{big}r", f"\x1b[?69h\x1b[1;{big}s", f"\x1b[1;25;1;{big}r", f"\x1b[1;{big};1;{big}r",
                   f"\x1b[=1;{big}m", f"\x1b[=2;{big}m", f"\x1b[=0;{big}m", f"\x1b[=3;{big}m"]
        # every control function that takes a count: motions, and the editing functions whose work depends on the area the margins leave
        motions = [f"\x1b[{big};{big}H", f"\x1b[{big}d", f"\x1b[{big}B", f"\x1b[{big}e", f"\x1b[{big}E", f"\x1b[{big}G", f"\x1b[{big}C", f"\x1b[{big}a", f"\x1b[{big}`", f"\x1b[{big}A"]
        motions += [f"\x1b[{big}{f}" for f in ("X", "@", "P", "b", "L", "M", "S", "T", "I", "Z", " @", " A")] + [f"A\x1b[{big}b", f"\x1b[{big}C\x1b[{big}X"]
        for m in modes:
            for r in margins:
                for v in motions:
                    for t in tails:
                        res.append(esc(m + r + v + t))
    return res


def avatar_cases():
    c = []
    for ch in (b"A", b"\n", b"\x0c", b"\x19", b"\x16", b"\x1b"):
        c.append(b"\x19" + ch + b"\xff")
    c.append(b"\x19\x19\xff\xff\xff\xff" * 4)
    c.append(b"\x16\x08\xff\xff" + b"\x19A\xff" * 8)
    return c


def run():
    c = Check("C03")
    thorough = c.tier == "thorough"
    rng = random.Random(c.seed + 303)
    c.mc(termlib.SPEC, "MC_Term", "MC_Term_huge.cfg", workers=8, timeout=1200, xmx="8g")
    c.mc("spec/conc", "MC_SixelDecoder", "MC_SixelDecoder_big.cfg", workers=4, timeout=1200)      # declared sizes never exceed MaxDim, however often re-declared
    table = csi_table(rng, 12 if thorough else 1, thorough)
    cases = []      # (emulation, bytes, model layer on?)
    for i, seq in enumerate(table):
        pres = PRELUDES if thorough else [PRELUDES[rng.randrange(len(PRELUDES))]]
        for pre in pres:
            if len(pre) + len(seq) >= 64 and pre:
                pre = b"\n" * 10
            cases.append(("ansi", pre + seq, 1 if thorough or i % 5 < 2 else 0))
    # macro expansions of 32767 characters, sixel decodes etc. are cheap for the engine but would take TLC minutes to
    # re-execute in the model: the property layer (limits) is what these cases are for
    for seq in special_cases():
        for pre in (b"", b"\n" * 30):
            cases.append(("ansi", (pre if len(pre) + len(seq) < 64 else b"") + seq, 0))
        cases.append(("avatar", seq, 0))
    for seq in avatar_cases():
        cases.append(("avatar", seq, 1))
    # repetition: every sequence that can grow the document, 2..16 times in a row (growth must stay polynomial in the length
    # of the input: a bound taken from the document instead of the screen compounds)
    reps = []
    for big in ("65536", "2147483647"):
        for unit in (f"\x1b[{big}b", f"A\x1b[{big}b", f"\x1b[{big}L", f"\x1b[{big}S", f"\x1b[{big}T", f"\x1b[{big}@", f"\x1b[{big}B\n", f"\x1b[{big};{big}H\n", f"\x1b[{big}e\n", "\n\n\n\n", f"\x1b[{big}X", f"\x1b[{big}I"):
            for k in (2, 3, 5, 8, 12, 16):
                reps.append(esc("x" + unit * k))
    for seq in reps:
        cases.append(("ansi", seq, 0))
    combos = combo_cases()
    if not thorough:
        combos = rng.sample(combos, 4000)
    for seq in combos:
        cases.append(("ansi", seq, 0))
    # sixel payloads exported by TLC from SixelDecoder.tla (every payload of <= 4 tokens; the alphabet contains the repeat
    # counts 4096 and 9999999, which apply to whatever follows - '-' included): those with a large repeat, as DCS q ... ST
    from props import c14
    c14.gen(False)
    BIG = ([33, 52, 48, 57, 54], [33, 57, 57, 57, 57, 57, 57, 57])
    def has_big(p):
        return any(p[i:i + len(b)] == b for b in BIG for i in range(len(p) - len(b) + 1))
    pl = [json.loads(l)["payload"] for l in open(os.path.join(vlib.GEN, "sixel_payloads.ndjson")) if l.startswith("{")]
    pl = [p for p in pl if has_big(p)]
    if not thorough:
        pl = rng.sample(pl, min(len(pl), 4000))
    c.extra["tlc_sixel_payloads_with_large_repeat"] = len(pl)
    for p in pl:
        cases.append(("ansi", b"\x1bPq" + bytes(p) + b"\x1b\\", 0))
    # ... and every payload of <= 3 tokens over raster headers with extreme sizes (a later header re-declares what an earlier set up)
    plb = [json.loads(l)["payload"] for l in open(os.path.join(vlib.GEN, "sixel_payloads_big.ndjson")) if l.startswith("{")]
    c.extra["tlc_sixel_payloads_big_raster"] = len(plb)
    for p in plb:
        cases.append(("ansi", b"\x1bPq" + bytes(p) + b"\x1b\\", 0))
    n_shards = 12 if thorough else 8
    shards = []
    for k in range(n_shards):
        p = os.path.join(c.workdir, f"cases-t{k}.ndjson")
        with open(p, "w") as f:
            for j, (emu, seq, model) in enumerate(cases[k::n_shards]):
                w, h = (80, 25) if j % 5 else rng.choice([(132, 60), (1, 1), (3, 2), (40, 24)])
                if w * h > 80 * 25:
                    model = 0
                f.write(json.dumps({"id": f"c03-{k}-{j}", "emu": emu, "music": 3 if b"[M" in seq else 0, "w": w, "h": h, "alloc": j % 2, "bs": 0, "proj": "geo", "model": model,
                                    "bytes": list(seq)},
                                   separators=(",", ":")) + "\n")
        shards.append((f"t{k}", p))
    traces, crashes = termlib.run_shards(c, shards, procs=n_shards, case_timeout=5, mem_mb=1024)
    c.sample_from(traces[0], 2)
    # binary file headers declaring extreme sizes (the last clause of the quantifier): the loader driver of C02 with its
    # structure-aware faults, judged here for load time (<= 5 s) and resource limits
    from props import c02
    n_rep = len(c.reports)
    g_l, ltraces, lcrashes = c02.drive_loaders(c)
    loader_reports, c.reports = c.reports[n_rep:], c.reports[:n_rep]
    c.extra["file_loads_timed"] = sum(int(r.get("r4", 0)) for r in loader_reports)
    c.extra["loader_worker_crashes"] = len(lcrashes)
    c.extra["cases"] = len(cases)
    c.extra["short_inputs_under_64_bytes"] = sum(1 for _, s, _m in cases if len(s) < 64)
    c.extra["worker_crashes"] = len(crashes)
    c.extra["model_steps"] = sum(int(r.get("r7", 0)) for r in c.reports)
    c.extra["distinct_nontrivial"] = len({(e, bytes(s)) for e, s, _m in cases})
    c.rule = ("the complete control-function table: every CSI final byte 0x40..0x7E x 8 intermediates x every parameter vector of length 0..2 over {0,1,80,25,2^16,10^6,2^31-1} "
              "(lengths 3..6 seeded), behind preludes (scrollback, 2^31 margins, insert mode + region); DCS macros (self/mutual recursion, chains, fan-out, hex repeat groups), sixel raster / "
              "repeat / colour headers, products mode switch x margins x cursor motion x printing tail with parameters 65536 / 10^6 / 2^31-1 (4800; quick: 1600 of them), every TLC-exported sixel payload of <= 4 tokens that contains a repeat count of 4096 or 9999999 (quick: 4000 of them), custom-font DCS payloads, Avatar repeats, music numbers. Each case runs under a 5 s watchdog and a 1 GiB address-space limit in a worker; a timeout, "
              "allocation failure or stack overflow is a crash event judged by Trace_Term (Limit), as is a single character step > 5 s or a single character that grows the row table by more than one screenful plus one macro expansion (Growth). Binary files: every load of the C02 loader driver (structure-aware faults of Loader.tla incl. pairs of header fields at their extremes on header-only files) must finish within 5 s and inside the worker limits (LoadTime, LoadLimit). R1: MC_Term huge slice - GrowthBounded on the model. "
              "distinct_nontrivial = number of distinct (emulation, byte string) cases.")
    c.assumptions = ["wall-clock limit 5 s per case and RLIMIT_AS 1 GiB per worker on this machine (generous fixed limits, as the property states)",
                     "background sixel decodes are joined before the case ends so their cost is attributed to it"]
    return c.finish()


replay = termlib.replay
