"""Seeded semantic mutants of the editor operations for tools/props/arealib.py (notes/C08-area-mutants.md).

usage: python3 tools/props/area_mutants.py /tmp/wt-E2 [name ...]     (scratch worktree of /repo at the pinned commit)
Each mutant is one textual replacement; it is applied, `cargo test --offline` is run in the scratch tree (does the engine's own
suite notice?), then `VERIF_REPO=<tree> AREA_NO_MC=1 python3 tools/props/arealib.py` (quick tier), and reverted with `git checkout .`.
Result: notes/C08-area-mutants.json.
"""
import os, sys, json, subprocess, re, time

ROOT = os.path.dirname(os.path.dirname(os.path.dirname(os.path.abspath(__file__))))
A = "src/editor/area_operations.rs"
E = "src/editor/edit_operations.rs"
U = "src/editor/undo_operations.rs"
L = "src/editor/layer_operations.rs"
LY = "src/layer.rs"

# (name, kind, description, file, old, new, occurrence index or None = must be unique)
MUTANTS = [
    ("M1", "mutant", "flip_x: mirrored column off by one (right - x instead of right - x - 1)", A,
     "let pos2 = Position::new(area.right() - x - 1, y);", "let pos2 = Position::new(area.right() - x, y);", None),
    ("M2", "mutant", "justify_left keeps one leading blank when there are two or more", A,
     "                if len <= removed_chars {\n                    continue;\n                }\n                for x in area.x_range() {\n                    let ch = if x + removed_chars < area.right() {",
     "                if len <= removed_chars {\n                    continue;\n                }\n                if removed_chars > 1 {\n                    removed_chars -= 1;\n                }\n                for x in area.x_range() {\n                    let ch = if x + removed_chars < area.right() {", None),
    ("M3", "mutant", "scroll_area_left wraps the first cell one column too far right", A,
     "line.chars.insert(area.right() as usize - 1, ch);", "line.chars.insert(area.right() as usize, ch);", None),
    ("M4", "mutant", "erase_selection forgets the last column of the layer", A,
     "        for y in 0..area.get_height() {\n            for x in 0..area.get_width() {\n                let pos = Position::new(x, y);\n                if self.get_is_selected(pos + area.start) {",
     "        for y in 0..area.get_height() {\n            for x in 0..area.get_width() - 1 {\n                let pos = Position::new(x, y);\n                if self.get_is_selected(pos + area.start) {", None),
    ("M5", "mutant", "delete_row removes the row below the caret", U,
     "            if layer.lines.len() < self.line as usize + 1 {\n                layer.lines.resize(self.line as usize + 1, Line::default());\n            }\n            self.deleted_row = layer.lines.remove(self.line as usize);",
     "            if layer.lines.len() < self.line as usize + 2 {\n                layer.lines.resize(self.line as usize + 2, Line::default());\n            }\n            self.deleted_row = layer.lines.remove(self.line as usize + 1);", None),
    ("M6", "mutant", "flip_y leaves the two middle rows of an even area alone ((h - 1) / 2 swaps)", A,
     "let max = area.get_height() / 2;", "let max = (area.get_height() - 1) / 2;", None),
    ("M7", "mutant", "center rounds the free space down before halving (floor instead of ceil)", A,
     "removed_chars = (removed_chars as f32 / 2.0).ceil() as i32;", "removed_chars = (removed_chars as f32 / 2.0).floor() as i32;", None),
    ("M8", "mutant", "justify_right fills the freed cells with visible default spaces instead of invisible cells", A,
     "                    let ch = if x - removed_chars >= area.left() {\n                        layer.get_char((x - removed_chars, y))\n                    } else {\n                        AttributedChar::invisible()\n                    };",
     "                    let ch = if x - removed_chars >= area.left() {\n                        layer.get_char((x - removed_chars, y))\n                    } else {\n                        AttributedChar::default()\n                    };", None),
    ("M9", "mutant", "insert_column inserts behind the caret column", U,
     "                if line.chars.len() >= offset {\n                    line.chars.insert(offset, AttributedChar::invisible());",
     "                if line.chars.len() > offset {\n                    line.chars.insert(offset + 1, AttributedChar::invisible());", None),
    ("M10", "mutant", "swap_char writes the first cell's value to both positions", E,
     "self.push_undo_action(Box::new(UndoSetChar { pos: pos1, layer, old: ch1, new: ch2 }))?;",
     "self.push_undo_action(Box::new(UndoSetChar { pos: pos1, layer, old: ch1, new: ch1 }))?;", None),
    ("M11", "mutant", "crop_rect does not rebase the offset of the kept layers", A,
     "new_layer.set_offset(new_rectangle.start - rect.start);", "new_layer.set_offset(new_rectangle.start);", None),
    ("M12", "mutant", "get_area forgets to translate the selection into layer coordinates", A,
     "rect.intersect(&layer) - layer.start", "rect.intersect(&layer)", None),
    ("M13", "mutant", "erase_row_to_end starts behind the caret cell", E,
     "self.set_selection(Rectangle::from_coords(x, y, 1_000_000, y + 1))?;", "self.set_selection(Rectangle::from_coords(x + 1, y, 1_000_000, y + 1))?;", None),
    ("M14", "mutant", "paste: foreground and background of the clipboard cells swapped", LY,
     "                        background_color: u32::from_le_bytes([data[6], data[7], data[8], data[9]]),\n                        foreground_color: u32::from_le_bytes([data[10], data[11], data[12], data[13]]),",
     "                        foreground_color: u32::from_le_bytes([data[6], data[7], data[8], data[9]]),\n                        background_color: u32::from_le_bytes([data[10], data[11], data[12], data[13]]),", None),
    ("M15", "mutant", "stamp_layer_down also stamps the invisible cells (erases the layer below)", L,
     "                let ch = layer.get_char(pos);\n                if !ch.is_visible() {\n                    continue;\n                }\n\n                let dest = pos + area.top_left();",
     "                let ch = layer.get_char(pos);\n\n                let dest = pos + area.top_left();", None),
    ("M16", "mutant", "scroll_area_down (part of the width) rotates one row less: the bottom row is not wrapped to the top", A,
     "                if y == area.top() {\n                    line.chars.splice(area.right() as usize..area.right() as usize, saved_line.iter().copied());\n                }",
     "                if y == area.top() {\n                    line.chars.splice(area.right() as usize..area.right() as usize, saved_line.iter().map(|_| AttributedChar::invisible()));\n                }", None),
    ("M17", "mutant", "whole-layer scroll up re-inserts the first row one row too high", U,
     "                let lines = layer.lines.remove(0);\n                layer.lines.insert(height - 1, lines);",
     "                let lines = layer.lines.remove(0);\n                layer.lines.insert(height.saturating_sub(2), lines);", None),
    ("M18", "mutant", "flip_x does not mirror the glyphs (the / \\ ( ) pairs keep their direction)", A,
     "                    let pos1ch = map_char(pos1ch, flip_tables.get(&pos1ch.get_font_page()).unwrap());\n                    let pos2ch = layer.get_char(pos2);\n                    let pos2ch = map_char(pos2ch, flip_tables.get(&pos2ch.get_font_page()).unwrap());\n                    layer.set_char(pos1, pos2ch);\n                    layer.set_char(pos2, pos1ch);\n                }\n            }\n            let new_layer = Layer::from_layer(layer, area);\n            let op = super::undo_operations::UndoLayerChange::new(self.get_current_layer()?, area.start, old_layer, new_layer);\n            self.push_plain_undo(Box::new(op))\n        } else {\n            Err(EditorError::CurrentLayerInvalid.into())\n        }\n    }\n\n    pub fn flip_y",
     "                    let _ = &flip_tables;\n                    let pos2ch = layer.get_char(pos2);\n                    layer.set_char(pos1, pos2ch);\n                    layer.set_char(pos2, pos1ch);\n                }\n            }\n            let new_layer = Layer::from_layer(layer, area);\n            let op = super::undo_operations::UndoLayerChange::new(self.get_current_layer()?, area.start, old_layer, new_layer);\n            self.push_plain_undo(Box::new(op))\n        } else {\n            Err(EditorError::CurrentLayerInvalid.into())\n        }\n    }\n\n    pub fn flip_y", None),
    ("M19", "mutant", "flip_y maps only the glyphs that move down (the upper cell's glyph is not mirrored)", A,
     "                    let pos1 = Position::new(x, area.top() + y);\n                    let pos2 = Position::new(x, area.bottom() - 1 - y);\n                    let pos1ch = layer.get_char(pos1);\n                    let pos1ch = map_char(pos1ch, flip_tables.get(&pos1ch.get_font_page()).unwrap());",
     "                    let pos1 = Position::new(x, area.top() + y);\n                    let pos2 = Position::new(x, area.bottom() - 1 - y);\n                    let pos1ch = layer.get_char(pos1);", None),
    ("M20", "mutant", "erase_row forgets the offset of the current layer", E,
     "        let offset = if let Some(layer) = self.get_cur_layer() { layer.get_offset().y } else { 0 };\n        let y = self.get_caret().get_position().y + offset;\n        let _undo = self.begin_atomic_undo(fl!(crate::LANGUAGE_LOADER, \"undo-delete-selection\"));\n\n        self.set_selection(Rectangle::from_coords(-1_000_000, y, 1_000_000, y + 1))?;\n        self.erase_selection()",
     "        let y = self.get_caret().get_position().y;\n        let _undo = self.begin_atomic_undo(fl!(crate::LANGUAGE_LOADER, \"undo-delete-selection\"));\n\n        self.set_selection(Rectangle::from_coords(-1_000_000, y, 1_000_000, y + 1))?;\n        self.erase_selection()", None),
    # ---- refactorings / behaviour-preserving changes: must stay silent
    ("N1", "refactoring", "flip_x iterates columns in the outer loop and computes the mirrored column from left + width", A,
     "            for y in area.y_range() {\n                for x in 0..max {\n                    let pos1 = Position::new(area.left() + x, y);\n                    let pos2 = Position::new(area.right() - x - 1, y);",
     "            for x in 0..max {\n                for y in area.y_range() {\n                    let pos1 = Position::new(area.left() + x, y);\n                    let pos2 = Position::new(area.left() + area.get_width() - 1 - x, y);", None),
    ("N2", "refactoring", "scroll_area_right rotates the slice in place instead of remove + insert", A,
     "                let ch = line.chars.remove(area.right() as usize - 1);\n                line.chars.insert(area.left() as usize, ch);",
     "                line.chars[area.left() as usize..area.right() as usize].rotate_right(1);", None),
    ("N3", "refactoring", "erase_selection walks the selected cells column by column", A,
     "        for y in 0..area.get_height() {\n            for x in 0..area.get_width() {\n                let pos = Position::new(x, y);\n                if self.get_is_selected(pos + area.start) {",
     "        for x in 0..area.get_width() {\n            for y in 0..area.get_height() {\n                let pos = Position::new(x, y);\n                if self.get_is_selected(pos + area.start) {", None),
    ("N4", "refactoring", "justify_left collects the shifted row first and writes it back afterwards", A,
     "                for x in area.x_range() {\n                    let ch = if x + removed_chars < area.right() {\n                        layer.get_char((x + removed_chars, y))\n                    } else {\n                        AttributedChar::invisible()\n                    };\n                    layer.set_char(Position::new(x, y), ch);\n                }",
     "                let row: Vec<AttributedChar> = area.x_range().map(|x| if x + removed_chars < area.right() { layer.get_char((x + removed_chars, y)) } else { AttributedChar::invisible() }).collect();\n                for (i, ch) in row.into_iter().enumerate() {\n                    layer.set_char(Position::new(area.left() + i as i32, y), ch);\n                }", None),
    ("N5", "refactoring", "insert_row stores a full-width row of invisible cells instead of an empty row (different storage, same picture)", U,
     "            let mut insert_row = Line::default();\n            mem::swap(&mut self.inserted_row, &mut insert_row);",
     "            let mut insert_row = Line::create(layer.get_width());\n            if !self.inserted_row.chars.is_empty() {\n                mem::swap(&mut self.inserted_row, &mut insert_row);\n            }", None),
]


def sh(cmd, cwd, env=None, timeout=3000):
    e = dict(os.environ)
    if env:
        e.update(env)
    p = subprocess.run(cmd, cwd=cwd, env=e, stdout=subprocess.PIPE, stderr=subprocess.STDOUT, text=True, errors="replace", timeout=timeout)
    return p.returncode, p.stdout


def main():
    tree = sys.argv[1]
    only = set(sys.argv[2:])
    out_path = os.path.join(ROOT, "notes", "C08-area-mutants.json")
    results = json.load(open(out_path)) if os.path.exists(out_path) else {}
    for name, kind, descr, f, old, new, _ in MUTANTS:
        if only and name not in only:
            continue
        sh(["git", "checkout", "."], tree)
        path = os.path.join(tree, f)
        s = open(path).read()
        if s.count(old) != 1:
            print(f"{name}: pattern occurs {s.count(old)} times in {f} - skipped")
            results[name] = {"kind": kind, "descr": descr, "file": f, "error": f"pattern occurs {s.count(old)} times"}
            continue
        open(path, "w").write(s.replace(old, new))
        t0 = time.time()
        rc, o = sh(["cargo", "test", "--offline"], tree)
        m = re.search(r"test result: \w+\. (\d+) passed; (\d+) failed", o)
        tests = f"{m.group(1)}/{m.group(2)}" if m else ("does not compile" if "error" in o else "?")
        rc, o = sh([sys.executable, "tools/props/arealib.py"], ROOT, env={"VERIF_REPO": tree, "AREA_NO_MC": "1"})
        line = [l for l in o.splitlines() if l.startswith("arealib:")]
        ev = {}
        try:
            ev = json.load(open(os.path.join(tree, "verif-work", "C08-area", "evidence", "C08.json")))["coverage"]
        except Exception:
            pass
        results[name] = {"kind": kind, "descr": descr, "file": f, "engine_tests_passed_failed": tests, "exit": rc,
                         "drift": ev.get("area_model_drift"), "drift_kinds": ev.get("area_model_drift_kinds"),
                         "sample": (ev.get("area_model_drift_samples") or [None])[0], "summary": line[-1] if line else o[-400:],
                         "wall_s": round(time.time() - t0, 1)}
        print(f"{name} [{kind}] tests {tests}; exit {rc}; drift {ev.get('area_model_drift')} {json.dumps(ev.get('area_model_drift_kinds'))[:300]}", flush=True)
        json.dump(results, open(out_path, "w"), indent=1)
    sh(["git", "checkout", "."], tree)


if __name__ == "__main__":
    main()
