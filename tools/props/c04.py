"""C04 - ANSI files written by the engine parse back to the same picture."""
import os, json, glob, re
import vlib
from vlib import Check

SPEC = "spec/codec"
GENFILE = os.path.join(vlib.GEN, "ansiout.ndjson")

_LV = [0, 95, 135, 175, 215, 255]
XTERM = {(r, g, b) for r in _LV for g in _LV for b in _LV} | {(8 + 10 * i,) * 3 for i in range(24)} | {
    (0, 0, 0), (128, 0, 0), (0, 128, 0), (128, 128, 0), (0, 0, 128), (128, 0, 128), (0, 128, 128), (192, 192, 192),
    (128, 128, 128), (255, 0, 0), (0, 255, 0), (255, 255, 0), (0, 0, 255), (255, 0, 255), (0, 255, 255), (255, 255, 255)}
DOS_LOW = {(0, 0, 0), (0, 0, 170), (0, 170, 0), (0, 170, 170), (170, 0, 0), (170, 0, 170), (170, 85, 0), (170, 170, 170)}


def _blank(ch):
    return ch in (0, 32, 255)


def _cell(rows, x, y):
    if y < len(rows) and x < len(rows[y]):
        return rows[y][x]
    return [32, 7, 0, 0]


def _skippable(c, pal):
    """shows nothing at all: glyph blank on black, not blinking"""
    bg = tuple(pal[c[2]]) if c[2] < len(pal) else (0, 0, 0)
    return _blank(c[0]) and bg == (0, 0, 0) and not (c[3] & 2)


def input_class(info, ev):
    """Which part of the input space a cell mismatch lies in (decision list; 'general' = none of the known classes)."""
    o = info.get("opts", {})
    s, ss, sb = info.get("src", [32, 7, 0, 0]), info.get("shown_src", [32, [0] * 3, [0] * 3, 0]), info.get("shown_back", [32, [0] * 3, [0] * 3, 0])
    x, y, w = info.get("x", 0), info.get("y", 0), info.get("w", 80)
    if not (_blank(ss[0]) and _blank(sb[0])) and ss[0] != sb[0]:
        what = "ch"
    elif ss[1] != sb[1] and not _blank(ss[0]):
        what = "fg"
    elif ss[2] != sb[2]:
        what = "bg"
    else:
        what = "blink"
    cls = "general"
    rows = (ev or {}).get("src", [])
    pal = (ev or {}).get("pal", [])
    if ev and ev.get("head3") == [239, 187, 191]:
        cls = "file-begins-with-utf8-bom"                     # the first three cells are CP437 0xEF 0xBB 0xBF and the writer emits nothing before them
        what = "ch"
    elif what == "fg" and s[3] & 1 and s[1] < 8:
        cls = "bold-attribute-on-low-colour"                  # bold cell with fg 0..7 shows bright; the writer drops the bold
    elif what in ("blink", "bg") and _blank(s[0]) and s[3] & 2 and s[2] == 0 and o.get("compress") and not o.get("preserve") and ev \
            and all(_cell(rows, xx, y) [1:] == s[1:] and _blank(_cell(rows, xx, y)[0]) for xx in range(x, len(rows[y]) if y < len(rows) else 0)):
        cls = "trailing-blinking-blanks-trimmed"              # line trimming removes blinking blanks on black
    elif what == "bg" and _blank(s[0]) and o.get("compress") and o.get("cuf") and o.get("extcol") and tuple(ss[2]) in XTERM and tuple(ss[2]) not in DOS_LOW:
        cls = "blank-on-xterm256-background-skipped"          # bg_idx not updated after 48;5;n: cursor-forward over coloured blanks
    elif o.get("compress") and o.get("cuf") and not o.get("longer") and ev and 0 <= ev.get("cuf_margin", -1) <= y:
        cls = "cursor-forward-run-to-right-margin"            # CSI n C ending at the margin does not wrap, no CR LF follows
        what = "any"
    elif what in ("blink", "bg") and ev and any(c[3] & 128 for yy, r in enumerate(rows[:y + 1]) for xx, c in enumerate(r) if yy < y or xx <= x):
        cls = "after-concealed-cell"                          # SGR 8 bookkeeping sets is_blink instead of is_concealed
    return what, cls


def key(v, ev):
    pred = v.get("pred")
    info = v.get("info") or {}
    if pred == "CellEq":
        what, cls = input_class(info, ev)
        return f"CellEq:{what}:{cls}"
    if pred in ("SaveFails", "LoadFails"):
        return f"{pred}:" + re.sub(r"[^A-Za-z0-9_.:#@/()-]", "?", str(info.get("site")))[:90]
    if pred == "Size":
        return "Size:" + ("width" if info.get("w") != info.get("bw") else "taller" if info.get("bh", 0) > info.get("h", 0) else "empty")
    return str(pred)


def gen():
    return vlib.generate(SPEC, "MC_AnsiOut", "Gen_AnsiOut.cfg", GENFILE)


def run():
    c = Check("C04")
    thorough = c.tier == "thorough"
    c.mc(SPEC, "MC_AnsiOut", "MC_AnsiOut.cfg", workers=4, timeout=1500)
    # the same model with the end-of-line rule of StringGenerator::generate: TLC is expected to find the
    # cursor-forward-at-the-margin counterexample (documented in the evidence, not a verdict)
    rc, out, wall = vlib.tlc(SPEC, "MC_AnsiOut", "MC_AnsiOut_engine.cfg", workers=2, timeout=600)
    c.extra["r1_with_engine_eol_rule"] = "counterexample found (RoundTrip violated: cursor-forward run to the right margin, no CR LF)" if "Invariant RoundTrip is violated" in out else "no counterexample"
    g = gen()
    base = os.path.join(c.workdir, "trace")
    nsh = 4
    vlib.drive(["c04", "--out", base, "--seed", c.seed, "--tier", c.tier, "--gen", GENFILE, "--shards", nsh])
    shards = sorted(glob.glob(base + "-*.ndjson"))
    c.validate(SPEC, "Trace_AnsiOut", "Trace_AnsiOut.cfg", shards, key, procs=4, timeout=3000)
    c.sample_from(shards[0], 2)
    c.extra["tlc_generated_items"] = g["n"]
    c.extra["cases"] = sum(int(r.get("r4", 0)) for r in c.reports)
    c.extra["source_cells_compared"] = sum(int(r.get("r5", 0)) for r in c.reports)
    c.extra["cases_with_reader_model"] = sum(int(r.get("r6", 0)) for r in c.reports)
    c.extra["writer_faults_seen_by_reader_model"] = sum(int(r.get("r7", 0)) for r in c.reports)
    c.extra["distinct_nontrivial"] = c.extra["cases"]
    c.evaluations = c.extra["source_cells_compared"]
    c.rule = ("R1: AnsiOut.tla abstract writer x reader model: every row of width <= 4 over 8 cell kinds, 3 ice modes, screen as wide as the row and one wider, every choice of SGR reset, "
              "cursor-forward run length, repeat length and trimming: the reader's screen is display-equivalent to the row and the next row starts at column 0 (the same model with the "
              "engine's end-of-line rule yields the cursor-forward-at-the-margin counterexample). R2: TLC enumerates all 6912 option configurations (2^8 booleans x 3 screen preparations x "
              "3 control-char modes x 3 ice modes) and the small-scope buffers (1-2 rows over the 8-cell alphabet at widths 1,2,3,79,80, left/right margin); every configuration and every buffer "
              "is used at least once; runs of 1..12 control-character glyphs (0x07..0x7F set) x neighbourhoods rotated over every configuration with the IcyTerm control-character handling; plus seeded random buffers (80 x 1..60 and 1..132 x 1..60 with SAUCE, CP437 minus unencodable control characters, 16x16 colours, xterm-256, RGB, bold, blink, "
              "extended attributes). R3: Trace_AnsiOut compares reloaded and source picture cell by cell (character, shown fg unless glyph-blank, shown bg, blink) and sizes, and IceBlinkState (a file that itself switches the reader to iCE colours with CSI ?33h reads back no cell with the blink attribute); model layer: "
              "token grammar + reader model over the tokenised output (small cases and every 8th large one). distinct_nontrivial = save/reload cases.")
    c.assumptions = ["lossles_output = true (the colour optimiser is C12's), modern_terminal_output = false, output_line_length = None",
                     "glyph-blank cells (NUL, space, 0xFF) are equal when background and blink agree; absent cells are default blanks",
                     "source cells in ice mode do not carry the blink attribute (iCE colours replace blinking; TextAttribute::as_u8 cannot encode it)",
                     "control characters ESC BEL BS TAB FF DEL CR LF only with ControlCharHandling::IcyTerm (the other modes cannot encode them)",
                     "widths other than 80 only with save_sauce = true; reloaded height may be lower by trailing empty rows"]
    return c.finish()


def replay(path):
    r = json.load(open(path))
    print(json.dumps({k: r[k] for k in ("property", "key", "pred", "info")}, indent=1)[:3000])
    ev = r.get("event") or {}
    if ev.get("tokens"):
        print("tokens:", json.dumps(ev["tokens"])[:1500])
    return 1
