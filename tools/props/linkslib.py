"""Model layer: hyperlink ranges of a buffer (spec/doc/Links.tla) - Buffer::is_position_in_range, get_string, parse_hyperlinks.
R1 MC_Links (one-row links: predicate = walk; WrappedRangeMiss pinned by its smallest witness; the repaired predicate agrees with the
walk everywhere); drive `icyverif links`; R3 Trace_Links (drift only)."""
import os, sys, json, time
from collections import Counter
sys.path.insert(0, os.path.dirname(os.path.dirname(os.path.abspath(__file__))))
import vlib
from vlib import Check

SPEC = "spec/doc"


def key(v, ev):
    return f"{v.get('pred')}"


def run_into(c, thorough=None):
    if thorough is None:
        thorough = c.tier == "thorough"
    t0 = time.time()
    c.mc(SPEC, "MC_Links", "MC_Links.cfg", workers=2)
    trace = os.path.join(c.workdir, "links.ndjson")
    vlib.drive(["links", "--out", trace, "--tier", "thorough" if thorough else "quick"])
    results = c.validate(SPEC, "Trace_Links", "Trace_Links.cfg", [trace], key, procs=1, timeout=3000)
    reg = lambda n: sum(int(r["report"].get(n, 0)) for r in results)
    drift = sum(int(r["report"].get("drift", 0)) for r in results)
    c.extra["links_ranges_compared"] = reg("r4")
    c.extra["links_positions_judged"] = reg("r5")
    c.extra["links_url_buffers"] = reg("r7")
    c.extra["links_ranges_where_predicate_and_walk_disagree_as_modelled"] = reg("r8")
    c.extra["links_model_drift"] = drift
    c.extra["links_model_drift_kinds"] = dict(Counter(d.get("what") for r in results for d in r["drift"]))
    vlib.log(f"[links] {reg('r4')} ranges / {reg('r5')} positions, {reg('r7')} url buffers, {reg('r8')} wrapped ranges misreported (as modelled), drift {drift}, {time.time() - t0:.1f}s")
    return results


def main():
    vlib.EVIDENCE = os.path.join(vlib.WORK, "C08-links", "evidence")
    os.chdir(vlib.ROOT)
    if "--no-build" not in sys.argv:
        vlib.build_harness()
    c = Check("C08-links")
    c.pid = "C08"
    run_into(c)
    c.extra["distinct_nontrivial"] = c.extra["links_ranges_compared"]
    c.rule = "hyperlink ranges (stand-alone run of tools/props/linkslib.py; model layer)"
    rc = c.finish()
    print(f"linkslib: ranges={c.extra['links_ranges_compared']} drift={c.extra['links_model_drift']} wall={time.time() - c.t0:.1f}s")
    return rc


if __name__ == "__main__":
    vlib.main_wrapper(main)
