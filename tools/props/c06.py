"""C06 - XBin compression is transparent and conforms to the XBin specification."""
import os, json, glob
import vlib
from vlib import Check, ToolError

SPEC = "spec/codec"


def key(v, ev):
    pred = v.get("pred")
    info = v.get("info") or {}
    mode = "512" if info.get("nf") == 2 else "256"
    if pred in ("CompressedDecodesToCells", "RawDecodesToCells", "EngineDecodeEq"):
        # relation + character mode + what differs (only the font-page bit / other cell content / shape)
        k = f"{pred}:{mode}:{info.get('kind')}"
        if "fontpage" in str(info.get("kind")) and pred != "RawDecodesToCells":
            # in which run types of the compressed stream the font page is lost (3 = character/attribute runs)
            k += ":runtypes=" + "".join(str(t) for t in sorted(info.get("runs") or []))
        return k
    if pred == "ValidStream":
        return f"ValidStream:{info.get('why')}"
    if pred == "HeaderOk":
        return f"HeaderOk:{info.get('file')}"
    if pred == "Outcome":
        for f in ("save_c", "save_r", "load_c", "load_r"):
            if info.get(f) != "ok":
                return f"Outcome:{f}:{info.get(f)}"
    return str(pred)


def gen():
    return vlib.generate(SPEC, "Gen_XBin", "Gen_XBin.cfg", os.path.join(vlib.GEN, "xbin.ndjson"))


def rg(w, k):
    """number of restricted-growth strings of length w over at most k symbols (k = 2 or 3)"""
    return 2 ** (w - 1) if k == 2 else (3 ** (w - 1) + 1) // 2


def sampled(n, stride, phase):
    if stride <= 1:
        return n
    p = phase % stride
    return n // stride if p == 0 else (n - p) // stride + 1 if n >= p else 0


def expected_rows(classes, par, seed):
    exp = {}
    for c in classes:
        w, k = c["w"], c["kind"]
        nc, na, npg = len(c["chars"]), len(c["attrs"]), len(c["pages"])
        if k == "exh3":
            if w <= par["full3"]:
                n = (nc * na * npg) ** w + (nc * na) ** w
            elif w <= par["canon3"]:
                n = sampled(rg(w, 3) ** 2 * rg(w, 2), par["stride7"] if w >= 7 else par["stride6"] if w == 6 else 1, seed) + rg(w, 3) ** 2
            else:
                n = 0
        else:
            n = (nc * na) ** w if w <= par["full2"] else rg(w, 2) ** 2
        exp[f"{k}:w{w}"] = n
    return exp


def run():
    c = Check("C06")
    thorough = c.tier == "thorough"
    # R1: abstract encoder / decoder of the format document; transcribed compressor
    c.mc(SPEC, "MC_XBin", "MC_XBin.cfg", workers=4)
    c.mc(SPEC, "MC_XBin", "MC_XBin_row.cfg", workers=4)
    c.mc(SPEC, "MC_XBinCompressor", "MC_XBinCompressor.cfg", workers=4)
    if thorough:
        c.mc(SPEC, "MC_XBin", "MC_XBin_w5.cfg", workers=4)
        c.mc(SPEC, "MC_XBinCompressor", "MC_XBinCompressor_w6.cfg", workers=4)
    # the model of the unrepaired compressor must exhibit the font-page loss (TLC is expected to refute UnfixedSound)
    rc, out, wall = vlib.tlc(SPEC, "MC_XBinCompressor", "MC_XBinCompressor_defect.cfg", workers=1, timeout=300)
    c.extra["compressor_model_exhibits_fontpage_loss"] = "Invariant UnfixedSound is violated" in out
    g = gen()
    classes = [json.loads(l) for l in open(os.path.join(vlib.GEN, "xbin.ndjson"))]
    prefix = os.path.join(c.workdir, "trace")
    for f in glob.glob(prefix + "-*"):
        os.remove(f)
    nshards = 36 if thorough else 8
    vlib.drive(["c06", "--out", prefix, "--shards", nshards, "--seed", c.seed, "--tier", c.tier, "--gen", os.path.join(vlib.GEN, "xbin.ndjson")], timeout=1500)
    summary = json.load(open(prefix + "-summary.json"))
    shards = sorted(glob.glob(prefix + "-[0-9]*.ndjson"))
    c.validate(SPEC, "Trace_XBin", "Trace_XBin.cfg", shards, key, procs=6 if thorough else 4, xmx="3g")
    # completeness of the enumeration: the driver's per-class row counts and TLC's registers must equal the size of the classes
    exp = expected_rows(classes, summary["params"], c.seed)
    got = {}
    for k, n in summary["rows"].items():
        kind, _nf, w = k.split(":")
        if kind != "rnd":
            got[f"{kind}:{w}"] = got.get(f"{kind}:{w}", 0) + n
    if got != {k: v for k, v in exp.items() if v}:
        diff = {k: (exp.get(k), got.get(k)) for k in set(exp) | set(got) if exp.get(k, 0) != got.get(k, 0)}
        raise ToolError(f"driver did not enumerate the exported classes completely: (expected, got) {diff}")
    reg = lambda r: sum(int(x.get(r, 0)) for x in c.reports)
    if reg("r6") != sum(v for k, v in exp.items() if k.startswith("exh3")) or reg("r7") != sum(v for k, v in exp.items() if k.startswith("exh2")):
        raise ToolError(f"TLC validated {reg('r6')}/{reg('r7')} exhaustive rows, expected {exp}")
    c.sample_from(shards[-1], 2)
    c.extra.update({
        "tlc_exported_classes": g["n"], "enumeration_params": summary["params"], "rows_per_class": exp,
        "buffers": reg("r4"), "rows_validated": reg("r5"), "rows_exh3": reg("r6"), "rows_exh2": reg("r7"), "rows_random_buffers": reg("r8"),
        "rows_in_512_char_buffers": reg("r9"), "rows_with_fontpage_loss": reg("r10"), "rows_checked_against_compressor_model": reg("r11"),
        "random_buffers": summary["random_buffers"],
        "distinct_nontrivial": reg("r6") + reg("r7") + summary["random_buffers"],
    })
    c.rule = ("R1: TLC explores every encoding the format document allows (any run type that matches, 1..MaxRun cells, not beyond the row end) of every picture "
              "over 2 chars x 2 attrs (2x2 cells with RunBase 2; rows of 4 with RunBase 3; thorough: rows of 5) and checks that the decoder of XBin.tla accepts it and reads the picture "
              "back (EncoderSound), rejects every stream with a run crossing a row end (CrossingRejected), is total on junk; the transcribed greedy compressor is checked on all rows "
              "<= 5 (6) over 2x2x2. R2: Gen_XBin exports the small-scope classes of the property (3 chars x 3 attrs x 2 pages, w <= 7; 2x2, w <= 10); the driver enumerates them "
              "(all rows up to width full3/full2, beyond that one representative per orbit of character/attribute/page renaming, width 6 / 7 every stride6-th / stride7-th representative, see enumeration_params) "
              "as rows of 200-row buffers, plus seeded random buffers 1..200 x 1..30 (small alphabets with long runs, full byte range, widths 63/64/65/127/128/129, blink/ice, 1-2 fonts, "
              "with/without SAUCE). R3: for every buffer Trace_XBin decodes the compressed bytes with the decoder written from x_bin.htm and judges ValidStream, "
              "CompressedDecodesToCells (incl. font-page bit), RawDecodesToCells, HeaderOk, EngineDecodeEq; row counts per class are compared with the class sizes. "
              "distinct_nontrivial = distinct exhaustive rows + random buffers validated (TLC registers).")
    c.assumptions = ["for widths above full3/full2 one representative per renaming orbit is enumerated (the compressor only tests characters, attributes and pages for equality)",
                     "trace values are what Buffer::to_bytes / Buffer::from_bytes returned; the driver only cuts the palette/font tables out of the file (length re-derived by TLC from the header)",
                     "source buffers use IceMode::Blink or IceMode::Ice (XBin has no third mode), foreground < 8 in 512-character mode"]
    return c.finish()


def replay(path):
    r = json.load(open(path))
    print(json.dumps({k: r.get(k) for k in ("property", "key", "pred", "info", "occurrences")}, indent=1)[:3000])
    work = os.path.join(vlib.WORK, "C06-replay")
    os.makedirs(work, exist_ok=True)
    prefix = os.path.join(work, "trace")
    vlib.drive(["c06", "--out", prefix, "--case", path])
    res = vlib.validate_trace(SPEC, "Trace_XBin", "Trace_XBin.cfg", prefix + "-0.ndjson")
    for v in res["viol"]:
        print("VIOL", json.dumps(v)[:1500])
    print(f"replayed 1 buffer: {len(res['viol'])} property-layer violation(s), {res['report'].get('drift')} drift")
    return 1 if res["viol"] else 0
