"""C06 - XBin compression is transparent and conforms to the XBin specification."""
import os, json, glob
import vlib
from vlib import Check

SPEC = "spec/codec"


def gen():
    return vlib.generate(SPEC, "Gen_XBin", "Gen_XBin.cfg", os.path.join(vlib.GEN, "xbin.ndjson"))
