"""Shared pipeline of the terminal properties (C01, C03, C09, C10): TLC model checking of Term.tla, case generation
(TLC witnesses + seeded generators of the driver), crash-contained execution against the real emulations, trace
validation with Trace_Term."""
import os, json, time
from concurrent.futures import ThreadPoolExecutor
import vlib
from vlib import Check

SPEC = "spec/term"
EMUS = ["ansi", "avatar", "pcboard", "ctrla", "renegade", "petscii", "atascii", "viewdata", "mode7", "ascii"]


def key(v, ev):
    pred = v.get("pred")
    info = v.get("info") or {}
    if pred == "Outcome" and ev:
        return "panic@" + str(ev.get("site", "?"))
    if pred in ("Abort", "InvalidChar", "Limit"):
        return f"{pred}:{info.get('emu')}:{info.get('msg', info.get('kind'))}"
    if pred in ("CaretInScreen", "FixedGrid"):
        # class of the violation: which emulation, which side of the screen
        e = info
        fv = max(0, e.get("bh", 0) - e.get("th", 0))
        side = "x" if not (0 <= e.get("cx", 0) <= e.get("tw", 1) - 1) else ("y<" if e.get("cy", 0) < fv else "y>")
        return f"{pred}:{info.get('emu')}:{side}:c={info.get('c')}"
    if pred == "CellsScalar":
        return f"CellsScalar:{info.get('emu')}"
    if pred == "StepTime":
        return f"StepTime:{info.get('emu')}"
    return str(pred)


def gen_cases(shard_dir, name, gen_args):
    path = os.path.join(shard_dir, f"cases-{name}.ndjson")
    rc, out = vlib.sh([vlib.BIN, "term", "--dump-cases", path] + [str(a) for a in gen_args], cwd=vlib.ROOT, timeout=600)
    if rc != 0:
        raise vlib.ToolError(f"case generation failed: {out[-2000:]}")
    return path


def run_shards(c, shards, procs=8, case_timeout=20, mem_mb=4096):
    """shards: list of (name, cases_path). Runs the driver on each (crash contained), validates each trace."""
    def one(s):
        name, cases = s
        trace = os.path.join(c.workdir, f"trace-{name}.ndjson")
        crashes = vlib.run_contained("term", cases, trace, case_timeout=case_timeout, mem_mb=mem_mb)
        return trace, crashes
    with ThreadPoolExecutor(max_workers=procs) as ex:
        res = list(ex.map(one, shards))
    traces = [t for t, _ in res]
    crashes = [x for _, cr in res for x in cr]
    c.validate(SPEC, "Trace_Term", "Trace_Term.cfg", traces, key, procs=procs, timeout=6000, xmx="4g")
    # attach the crashing inputs to the violation records (for the replay files)
    by_case = {str(cr["case"]): cr for cr in crashes}
    for v in c.viols:
        ev = v.get("event") or {}
        if ev.get("ev") == "crash" and str(ev.get("case")) in by_case:
            v["event"] = by_case[str(ev.get("case"))]
    return traces, crashes


def replay(path):
    """Re-run the recorded case against the current tree and print what happens."""
    r = json.load(open(path))
    print(json.dumps({k: r.get(k) for k in ("property", "key", "pred", "info", "occurrences")}, indent=1))
    case = None
    ev = r.get("event") or {}
    if "input" in ev:
        case = ev["input"]
    elif r.get("case"):
        head = r["case"][0]
        if head.get("ev") == "reset":
            bytes_ = [e["c"] for e in r["case"][1:] if e.get("ev") == "ch"]
            case = {"id": head.get("case"), "emu": head["emu"], "music": head.get("music", 0), "w": head["w"], "h": head["h"], "alloc": head.get("alloc", 1),
                    "bs": head.get("bs", 0), "proj": "geo", "bytes": bytes_}
    if not case:
        print("no replayable case in", path)
        return 1
    os.makedirs(os.path.join(vlib.WORK, "replay"), exist_ok=True)
    cp = os.path.join(vlib.WORK, "replay", "replay-case.ndjson")
    open(cp, "w").write(json.dumps(case) + "\n")
    tp = os.path.join(vlib.WORK, "replay", "replay-trace.ndjson")
    crashes = vlib.run_contained("term", cp, tp, case_timeout=30)
    res = vlib.validate_trace(SPEC, "Trace_Term", "Trace_Term.cfg", tp)
    print("input bytes:", bytes(case["bytes"])[-200:])
    for v in res["viol"][:5]:
        print("VIOL", json.dumps(v))
    print("crashes:", [(c["kind"], c["msg"]) for c in crashes])
    return 1 if res["viol"] else 0


# ------------------------------------------------------------------------------------------------ model-derived cases
import random


def gen():
    """TLC witness generation (one shortest token sequence per coarse state class of MC_Term.GenView)."""
    res = {}
    for name, cfg in (("ansi", "Gen_Term.cfg"), ("tabs", "Gen_Term_tabs.cfg"), ("resize", "Gen_Term_resize.cfg"), ("avatar", "Gen_Term_avatar.cfg"), ("ctrla", "Gen_Term_ctrla.cfg"),
                      ("atascii", "Gen_Term_atascii.cfg"), ("petscii", "Gen_Term_petscii.cfg")):
        res[name] = vlib.generate(SPEC, "MC_Term", cfg, os.path.join(vlib.GEN, f"term_witness_{name}.ndjson"), timeout=1500)
    return res


def load_witnesses(name):
    alphabet, wit = [], []
    for line in open(os.path.join(vlib.GEN, f"term_witness_{name}.ndjson")):
        v = json.loads(line)
        if v.get("tag") == "ALPHABET":
            alphabet = v["toks"]
        else:
            wit.append(v["hist"])
    return alphabet, wit


def witness_cases(c, n_shards, per_witness, seed, max_cases=None, extra_sizes=((1, 1), (2, 2), (5, 3), (80, 25), (1, 4), (4, 1))):
    """State-directed cases: every TLC witness (a token sequence reaching one class of model states) extended by tokens of
    the model's alphabet (edge coverage of the abstract state graph), replayed on the generated size 3x2 and on other sizes."""
    gen()
    rng = random.Random(seed * 7919 + 17)
    cases = []
    for emu0 in ("ansi", "tabs", "resize", "avatar", "ctrla", "atascii", "petscii"):
        alphabet, wit = load_witnesses(emu0)
        emu = "ansi" if emu0 in ("tabs", "resize") else emu0
        gw = 9 if emu0 == "tabs" else 3        # screen width the witnesses were generated for
        for wi, h in enumerate(wit):
            base = [b for tok in h for b in tok]
            # every witness is extended by a printable (the one token that exercises wrap / margin / insert handling in
            # whatever state class the witness reached) and by random tokens of the model's alphabet
            # (small slices - tabs, avatar, ctrla - take every token of their alphabet: full edge coverage)
            # (the resize slice has 5k witnesses: a sample of its alphabet per witness in the quick tier, all of it in the thorough one)
            if emu0 == "resize" and per_witness != "all" and per_witness < 3:
                toks = [[65]] + [rng.choice(alphabet) for _ in range(6)]
            else:
                toks = alphabet if per_witness == "all" or emu0 != "ansi" else [[65]] + [rng.choice(alphabet) for _ in range(per_witness)]
            for ti, tok in enumerate(toks):
                w, hh = (gw, 2) if rng.random() < 0.7 else rng.choice(extra_sizes)
                cases.append({"id": f"w-{emu0}-{wi}-{ti}", "emu": emu, "music": 0, "w": w, "h": hh, "alloc": rng.randrange(2), "bs": 0,
                              "proj": "full" if w * hh <= 64 else "geo", "bytes": base + tok})
    if max_cases and len(cases) > max_cases:
        rng.shuffle(cases)
        cases = cases[:max_cases]
    shards = []
    for i in range(n_shards):
        p = os.path.join(c.workdir, f"cases-w{i}.ndjson")
        with open(p, "w") as f:
            for cs in cases[i::n_shards]:
                f.write(json.dumps(cs, separators=(",", ":")) + "\n")
        shards.append((f"w{i}", p))
    return shards, len(cases)


STRING_TEMPLATES = [
    b"\x1bP0;0;0!zAB\x1b[1mC\x1b\\", b"\x1bP1;0;1!z414243\x1b\\", b"\x1bP2;0;1!z41!3;4243;44\x1b\\", b"\x1bP0;1;0!z\x1b\\",
    b"\x1bPCTerm:Font:5:AAAA\x1b\\", b"\x1bP0;0;0q\"1;1;4;6#0;2;0;0;0#0~~@@-~~\x1b\\", b"\x1bPq#1!5~$-!3?\x1b\\", b"\x1bPgarbage\x1b\\",
    b"\x1b]8;;http://a.b\x1b\\", b"\x1b]8;id=1;http://a.b\x1b\\", b"\x1b]8;;\x1b\\", b"\x1b]8\x1b\\", b"\x1b]4;1;rgb:ff/00/80\x1b\\", b"\x1b]4;999;rgb:zz\x1b\\",
    b"\x1b]104\x1b\\", b"\x1b]0;title\x07", b"\x1b_aps string\x1b\\", b"\x1b^pm string\x1b\\", b"\x1bXsos\x1b\\",
    b"\x1b[MFT120O3L8CDE P4 >A#<B-.\x0e", b"\x1b[NMBO6B####\x0e", b"\x1b[|T255L64O0N84\x0e", b"\x1b[38;2;1;2;3m", b"\x1b[0;1;40;2 D", b"\x1b[=1;2;3{", b"\x1b[?1;2;3S",
]


def string_mutation_cases(c, thorough):
    """every control string of the sub-languages (DCS macro / font / sixel, OSC, APS / PM / SOS, music, long CSI) with one byte
    >= 0x80 (a two-byte character once stored in a Rust String), a NUL or an ESC REPLACING or INSERTED BEFORE every byte of
    the payload, and with every truncation of the payload that keeps the terminator: indexing a stored string by bytes where
    characters were counted (or the reverse) only shows with such input"""
    cases = []
    emus = ("ansi", "avatar", "pcboard") if thorough else ("ansi",)
    for ti, t in enumerate(STRING_TEMPLATES):
        term = 2 if t.endswith(b"\x1b\\") else 1
        body = range(2, len(t) - term + 1)
        muts = []
        for pos in body:
            for b in (0xE9, 0xFF, 0x80, 0x00, 0x1B):
                if pos < len(t) - term:
                    muts.append(t[:pos] + bytes([b]) + t[pos + 1:])
                muts.append(t[:pos] + bytes([b]) + t[pos:])
            muts.append(t[:pos] + t[len(t) - term:])
        for mi, m in enumerate(muts):
            for emu in emus:
                cases.append({"id": f"str-{ti}-{mi}-{emu}", "emu": emu, "music": 3 if b"[M" in t or b"[N" in t or b"[|" in t else 0, "w": 80, "h": 25, "alloc": mi % 2, "bs": 0,
                              "proj": "geo", "model": 0, "bytes": list(m + b"A")})
    path = os.path.join(c.workdir, "cases-strings.ndjson")
    with open(path, "w") as f:
        for cs in cases:
            f.write(json.dumps(cs, separators=(",", ":")) + "\n")
    return ("strings", path), len(cases)


def mc_slices(c, thorough):
    depth = 4 if thorough else 3
    for sl in ("cursor", "margins", "content", "tabs", "resize", "avatar", "ctrla", "petscii", "viewdata", "mode7", "atascii"):
        cfg = f"MC_Term_{sl}.cfg"
        if thorough:
            src = open(os.path.join(vlib.ROOT, SPEC, cfg)).read().replace("MaxHist = 3", f"MaxHist = {depth}")
            cfg = f"MC_Term_{sl}_d{depth}.cfg"
            open(os.path.join(vlib.ROOT, SPEC, cfg), "w").write(src)
        c.mc(SPEC, "MC_Term", cfg, workers=8, timeout=2400, xmx="16g")
