"""C11 - SAUCE metadata round-trips and is cut off the content exactly."""
import os, json, glob, re
import vlib
from vlib import Check

SPEC = "spec/codec"
GENFILE = os.path.join(vlib.GEN, "sauce.ndjson")


def key(v, ev):
    pred = v.get("pred")
    info = v.get("info") or {}
    w = info.get("writer", "?")
    if pred == "Meta":
        return f"Meta:{info.get('field')}:{w}"                 # which field of which writer's SAUCE variant is not carried
    if pred == "MetaPresent":
        return f"MetaPresent:{w}"                              # loader drops the whole record
    if pred == "PictureEqual":
        cm = "comments" if info.get("n", 0) else "nocomments"
        return f"PictureEqual:{w}:{info.get('tailkind')}:{cm}"  # writer x kind of content tail x comment block present
    if pred in ("SaveFails", "LoadFails"):
        return f"{pred}:{w}:" + re.sub(r"[^A-Za-z0-9_.:#@/()-]", "?", str(info.get("site")))[:90]
    return str(pred)


def gen():
    return vlib.generate(SPEC, "MC_Sauce", "Gen_Sauce.cfg", GENFILE)


def run():
    c = Check("C11")
    thorough = c.tier == "thorough"
    # R1: the split on the scaled-down layout (RecLen 8, CmtLen 2, one-byte ids): every string up to length 10 (quick) / 12 (thorough)
    c.mc(SPEC, "MC_Sauce", "MC_Sauce_full.cfg" if thorough else "MC_Sauce.cfg", workers=4, timeout=1500)
    g = gen()
    base = os.path.join(c.workdir, "trace")
    nsh = 4
    vlib.drive(["c11", "--out", base, "--seed", c.seed, "--tier", c.tier, "--gen", GENFILE, "--shards", nsh])
    shards = sorted(glob.glob(base + "-*.ndjson"))
    c.validate(SPEC, "Trace_Sauce", "Trace_Sauce.cfg", shards, key, procs=4)
    c.sample_from(shards[0], 2)
    c.extra["tlc_generated_cases"] = g["n"]
    c.extra["cases"] = sum(int(r.get("r4", 0)) for r in c.reports)
    c.extra["carried_field_comparisons"] = sum(int(r.get("r5", 0)) for r in c.reports)
    c.extra["picture_equalities_checked"] = sum(int(r.get("r6", 0)) for r in c.reports)
    c.extra["picture_equalities_with_marker_tail"] = sum(int(r.get("r7", 0)) for r in c.reports)
    c.extra["legitimate_save_refusals"] = sum(int(r.get("r8", 0)) for r in c.reports)
    c.extra["distinct_nontrivial"] = c.extra["cases"]
    c.rule = ("R1: Sauce.tla with RecLen=8, CmtLen=2, one-byte ids: TLC builds every byte string over {x,EOF,C,S} up to length 10 (quick) / 12 (thorough); Split is total and sane on each, "
              "and for every such string of length <= 6 taken as content, every list of 0..2 comment lines and several records Split(Join(..)) returns exactly content, comments, record; "
              "(seeded cases: one comment line in eight is a full 64-byte line that begins / ends with COMNT / SAUCE00 / SAUCE) "
              "field law Strip(Read(Pad(t))) = Strip(t) for all texts up to length 4. R2: TLC enumerates the case slices (field lengths 0/1/max-1/max x trailing none/blank/NUL; comment counts "
              "0,1,2,254,255 x line lengths; ice x letter-spacing x aspect-ratio x widths {1,79,80,81,160,255,256,1000} x content tails plain/SAUCE00/COMNT/EOF) x the ten writers; the driver "
              "adds seeded random metadata. R3: each case is saved with SAUCE by Buffer::to_bytes and reloaded by Buffer::from_bytes; Trace_Sauce checks, per field the writer's SAUCE variant "
              "can carry, metadata out = metadata in (texts up to trailing pads), and - when the record in the file has default width/ice/font - picture(content+SAUCE) = picture(content); "
              "model layer: byte-exact Split of the file tail, header length arithmetic, expected record bytes, SauceString::read model. distinct_nontrivial = number of save/load cases.")
    c.assumptions = ["a field counts as carried by a variant iff SAUCE rev. 5 defines it for that DataType/FileType and SauceData::extract populates it",
                     "texts are compared up to trailing blanks/NULs (fixed-width padded fields cannot represent them); texts contain no embedded NUL",
                     "BinaryText carries even widths up to 510 only; a refusal to save wider BIN/IDF files with SAUCE is not a violation",
                     "picture = size, ice mode and per cell character, fg/bg RGB, attribute bits, font page; 'content alone' = the same buffer saved without SAUCE",
                     "a file consisting of nothing but a SAUCE record (offset underflow in SauceData::extract) is a crash and is left to C02"]
    return c.finish()


def replay(path):
    r = json.load(open(path))
    print(json.dumps({k: r[k] for k in ("property", "key", "pred", "info")}, indent=1))
    ev = r.get("event") or {}
    for k in ("writer", "in", "out", "save", "load", "has_sauce", "pic_full", "pic_content", "pic_diff", "tailkind", "file_len", "content_len", "ex_hdr"):
        if k in ev:
            print(f"  {k}: {json.dumps(ev[k])[:600]}")
    return 1
