"""Model layer: the editor's document-wide conversions (spec/doc/Modes.tla) - set_ice_mode, replace_font_usage, change_font_slot,
remove_font with undo / redo.  R1 MC_Modes (9 laws over 12 glyphs x 7 x 7 colours x blink and all small slot / page documents); drive
`icyverif modes`; R3 Trace_Modes (drift only)."""
import os, sys, json, time
from collections import Counter
sys.path.insert(0, os.path.dirname(os.path.dirname(os.path.abspath(__file__))))
import vlib
from vlib import Check

SPEC = "spec/doc"


def key(v, ev):
    return f"{v.get('pred')}"


def run_into(c, thorough=None):
    if thorough is None:
        thorough = c.tier == "thorough"
    t0 = time.time()
    c.mc(SPEC, "MC_Modes", "MC_Modes.cfg", workers=2)
    trace = os.path.join(c.workdir, "modes.ndjson")
    vlib.drive(["modes", "--out", trace, "--seed", c.seed, "--tier", "thorough" if thorough else "quick"])
    results = c.validate(SPEC, "Trace_Modes", "Trace_Modes.cfg", [trace], key, procs=1, timeout=3000)
    reg = lambda n: sum(int(r["report"].get(n, 0)) for r in results)
    drift = sum(int(r["report"].get("drift", 0)) for r in results)
    c.extra["modes_cases"] = reg("r4")
    c.extra["modes_calls"] = reg("r5")
    c.extra["modes_documents_compared"] = reg("r6")
    c.extra["modes_cells_compared"] = reg("r7")
    c.extra["modes_undo_redo_steps_compared"] = reg("r8")
    c.extra["modes_engine_panics"] = reg("r9")
    c.extra["modes_model_drift"] = drift
    c.extra["modes_model_drift_kinds"] = dict(Counter(d.get("what") for r in results for d in r["drift"]))
    c.extra["modes_model_drift_samples"] = [d for r in results for d in r["drift"]][:4]
    vlib.log(f"[modes] {reg('r4')} cases, {reg('r5')} calls, {reg('r6')} documents / {reg('r7')} cells compared, {reg('r8')} undo/redo steps, drift {drift}, {time.time() - t0:.1f}s")
    return results


def main():
    vlib.EVIDENCE = os.path.join(vlib.WORK, "C08-modes", "evidence")
    os.chdir(vlib.ROOT)
    if "--no-build" not in sys.argv:
        vlib.build_harness()
    c = Check("C08-modes")
    c.pid = "C08"
    run_into(c)
    c.extra["distinct_nontrivial"] = c.extra["modes_documents_compared"]
    c.rule = "document-wide conversions (stand-alone run of tools/props/modeslib.py; model layer)"
    rc = c.finish()
    print(f"modeslib: calls={c.extra['modes_calls']} drift={c.extra['modes_model_drift']} wall={time.time() - c.t0:.1f}s")
    return rc


if __name__ == "__main__":
    vlib.main_wrapper(main)
