"""C09 - cursor and fixed-grid geometry stay consistent under any stream."""
import os
import vlib
from vlib import Check
from props import termlib


def run():
    c = Check("C09")
    thorough = c.tier == "thorough"
    n_shards = 12 if thorough else 8
    per = 5000 if thorough else 450
    termlib.mc_slices(c, thorough)
    shards, n_w = termlib.witness_cases(c, 12 if thorough else 4, 3 if thorough else 1, c.seed, max_cases=150000 if thorough else 60000)
    c.extra["witness_cases"] = n_w
    sshard, n_s = termlib.string_mutation_cases(c, thorough)
    shards.append(sshard)
    c.extra["control_string_mutation_cases"] = n_s
    for i in range(n_shards):
        args = ["--gen", per, "--gen-from", 1_000_000 + i * per, "--seed", c.seed]
        if i % 3 == 2:
            args.append("--big")
        shards.append((f"r{i}", termlib.gen_cases(c.workdir, f"r{i}", args)))
    traces, crashes = termlib.run_shards(c, shards, procs=12)
    c.sample_from(traces[0], 2)
    c.extra["characters_checked"] = sum(int(r.get("r5", 0)) for r in c.reports)
    c.extra["cases"] = sum(int(r.get("r4", 0)) for r in c.reports)
    c.extra["distinct_nontrivial"] = c.extra["cases"]
    c.extra["model_steps"] = sum(int(r.get("r7", 0)) for r in c.reports)
    c.rule = ("R1: MC_Term explores Term.tla exhaustively (all token sequences up to depth 3/4 over ten token slices on a 2x2 screen; invariants InScreen, Sane). R2: one TLC witness per coarse class of model states, extended by alphabet tokens, replayed into the real emulations with full cell projection; plus: after every character of every stream (until a text-area resize request) the recorded caret must satisfy 0 <= x < width and first <= y < first + height with "
              "first = max(0, buffer height - height); Viewdata / Mode 7 additionally keep buffer size 40x24. Streams as for C01. distinct_nontrivial = number of cases.")
    c.assumptions = ["the geometry is read through the public API after each character (Caret::get_position, Buffer::get_size, TerminalState::get_width/height)"]
    return c.finish()


replay = termlib.replay
