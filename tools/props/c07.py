"""C07 - the native IcyDraw format is lossless."""
import os, json
import vlib
from vlib import Check

SPEC = "spec/codec"
GENFILE = os.path.join(vlib.GEN, "icydraw.ndjson")


def gen():
    return vlib.generate(SPEC, "MC_IcyDraw", "Gen_IcyDraw.cfg", GENFILE, workers=1, timeout=900)


def input_class(ev):
    """Coarse class of the failing document for a SaveLoadOk key (which feature of the input is involved)."""
    src = (ev or {}).get("src") or {}
    layers = src.get("layers", [])
    feats = []
    if any(l.get("role") == 1 for l in layers):
        feats.append("image-layer")
    if any(l.get("w") == 0 or l.get("h") == 0 for l in layers):
        feats.append("empty-layer")
    return "+".join(feats) or "plain"


def key(v, ev):
    pred = v.get("pred")
    info = v.get("info") or {}
    if pred == "SaveLoadOk":
        stage = "save" if info.get("save") != "ok" else "load"
        what = info.get(stage)
        site = info.get("site", "?")
        if what == "panic":
            return f"{stage}-panic@{site}"
        return f"{stage}-error:{vlib_msg_class(site)}"
    if pred == "DocEq":
        diff = sorted(info.get("diff") or ["?"])
        return "DocEq:" + "+".join(diff[:3])
    return str(pred)


def vlib_msg_class(msg):
    out, last = [], False
    for ch in str(msg)[:80]:
        if ch.isdigit():
            if not last:
                out.append("#")
            last = True
        else:
            last = False
            out.append("_" if ch in ' "\\\n' else ch)
    return "".join(out)


def split_docs(path, n):
    """Shard a trace at `reset` boundaries into n files of similar size."""
    cases, cur = [], []
    with open(path) as f:
        for ln in f:
            if ln.startswith('{"case"') or '"ev":"reset"' in ln[:200]:
                if cur:
                    cases.append(cur)
                cur = []
            cur.append(ln)
    if cur:
        cases.append(cur)
    outs = [[] for _ in range(n)]
    sizes = [0] * n
    for cs in sorted(cases, key=lambda c: -sum(len(x) for x in c)):
        i = sizes.index(min(sizes))
        outs[i] += cs
        sizes[i] += sum(len(x) for x in cs)
    res = []
    for i, o in enumerate(outs):
        if o:
            p = path.replace(".ndjson", f"-s{i}.ndjson")
            with open(p, "w") as f:
                f.writelines(o)
            res.append(p)
    os.remove(path)
    return res


def run():
    c = Check("C07")
    thorough = c.tier == "thorough"
    c.mc(SPEC, "MC_IcyDraw", "MC_IcyDraw.cfg", workers=4)
    g = gen()
    trace = os.path.join(c.workdir, "trace.ndjson")
    _, err, wall = vlib.drive(["c07", "--out", trace, "--seed", c.seed, "--tier", c.tier, "--gen", GENFILE], timeout=3000)
    shards = split_docs(trace, 4)
    c.validate(SPEC, "Trace_IcyDraw", "Trace_IcyDraw.cfg", shards, key, procs=4, timeout=3000, xmx="6g" if thorough else "3g")
    # a compact sample: one document event without its bulk
    try:
        with open(shards[-1]) as f:
            for ln in f:
                e = json.loads(ln)
                if e.get("ev") == "doc" and e.get("save") == "ok":
                    src = e["src"]
                    c.samples.append({"case": e["case"], "cls": e["cls"], "size": [src["w"], src["h"]], "palette": len(src["pal"]),
                                      "fonts": [[f["slot"], f["h"], f["n"]] for f in src["fonts"]], "sauce": len(src["sauce"]),
                                      "layers": [{k: l[k] for k in ("role", "mode", "vis", "lock", "plock", "alpha", "alock", "x", "y", "w", "h", "fp")} for l in src["layers"]],
                                      "chunks": ["".join(map(chr, ch["kw"])) + f":{len(ch['d'])}" for ch in e["chunks"]], "file_len": e.get("file_len")})
                    if len(c.samples) >= 3:
                        break
    except Exception:
        pass
    # distinct documents that went through save + load: digests of the source projection, from the short `sum` lines
    seen = set()
    for sh in shards:
        with open(sh) as f:
            for ln in f:
                if len(ln) < 300 and '"ev":"sum"' in ln:
                    e = json.loads(ln)
                    if e.get("ok") == 1:
                        seen.add(e["h"])
    docs = sum(int(r.get("r4", 0)) for r in c.reports)
    ok_docs = sum(int(r.get("r5", 0)) for r in c.reports)
    c.evaluations = docs
    c.extra["documents"] = docs
    c.extra["documents_round_tripped"] = ok_docs
    c.extra["layers_compared"] = sum(int(r.get("r6", 0)) for r in c.reports)
    c.extra["cells_compared"] = sum(int(r.get("r7", 0)) for r in c.reports)
    c.extra["tlc_case_table"] = g["n"]
    c.extra["distinct_nontrivial"] = len(seen)
    c.extra["driver_wall_s"] = round(wall, 1)
    c.rule = ("R1: TLC checks on IcyDraw.tla that DecodeLayer o EncodeLayer = id for every layer <= 3x2 over the cell alphabet {invisible, short, long ch, long colour, "
              "transparent colour, font page > 255} under chunk limits 60/100/3e6 (continuation chunks), row framing (full-width row has no terminator), decoder totality on all "
              "byte strings <= 6 over {00,01,40,80,C0} and on every truncation of a layer record, 31104 layer geometry x flag combinations; "
              "R2: the TLC case table (1555 row shapes up to width 4, 31104 geometry/flag/mode/role/colour-tag combinations - sampled by seed in the quick tier) plus seeded random "
              "documents (1..6 layers, sizes up to 40x20 quick / 200x120 thorough, offsets -50..50, Unicode titles (also beginning / ending with white space; set at creation or through set_title), palettes 1..300, font slots 0..300, SAUCE on/off) are saved by the real "
              "engine through Buffer::to_bytes('icy', lossles_output=true) and re-loaded with Buffer::from_bytes; R3: Trace_IcyDraw evaluates SaveLoadOk and DocEq(reloaded, source) "
              "field by field on the recorded projections (property layer) and compares SpecDecode(chunk payloads) with both documents (model layer, drift only). "
              "distinct_nontrivial = number of DISTINCT source documents (64-bit digest of the whole projection) that went through save + load and were compared; "
              "documents_round_tripped (register r5) counts them with multiplicity.")
    c.assumptions = ["PNG framing, zlib and base64 are unwrapped by the harness with the png/base64 crates and not modelled",
                     "SAUCE texts are CP437-representable and carry no trailing blanks; SAUCE date, font name and size fields are derived by the writer and not compared",
                     "invisible cells are generated as AttributedChar::invisible() (no other attribute bits) and compared as invisible only",
                     "colour indices of cells are below the palette length or TRANSPARENT_COLOR; every font page used by a cell or as a layer default has a font",
                     "layer roles Normal and Image (the two the writer can emit); the pixel bytes of image layers are compared in the model layer only",
                     "layers of the stated domain (<= 200x120) never reach the 3 MB continuation-chunk limit; continuation chunks are covered by R1 only"]
    return c.finish()


def replay(path):
    r = json.load(open(path))
    print(json.dumps({k: r[k] for k in ("property", "key", "pred", "info", "occurrences")}, indent=1))
    ev = r.get("event") or {}
    if ev.get("src"):
        src, back = ev["src"], ev.get("back") or {}
        print("case:", ev.get("case"), "class:", ev.get("cls"), "save:", ev.get("save"), "load:", ev.get("load"), "site:", ev.get("site"))
        for k in ("w", "h", "bt", "ice", "pm", "fm", "pal", "fonts", "sauce"):
            if back and src.get(k) != back.get(k):
                print(f"  document field {k}: source {json.dumps(src.get(k))[:300]}  reloaded {json.dumps(back.get(k))[:300]}")
        for i, l in enumerate(src.get("layers", [])):
            lb = (back.get("layers") or [])[i] if back and i < len(back.get("layers", [])) else None
            if lb is None:
                continue
            for k in l:
                if l[k] != lb.get(k):
                    print(f"  layer {i} field {k}: source {json.dumps(l[k])[:300]}  reloaded {json.dumps(lb.get(k))[:300]}")
    return 1
