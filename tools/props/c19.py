"""C19 - table-driven CRCs equal their bitwise definitions."""
import os, json, glob
import vlib
from vlib import Check

SPEC = "spec/codec"


def key(v, ev):
    info = v.get("info") or {}
    pred = v.get("pred")
    if pred in ("OneShot32", "Incremental32", "OneShot16", "Incremental16"):
        n = info.get("len", 0)
        return f"{pred}:len{'>=16' if n >= 16 else '<16'}"
    return str(pred)


def run():
    c = Check("C19")
    thorough = c.tier == "thorough"
    c.mc(SPEC, "MC_Crc", "MC_Crc.cfg", workers=4)
    if thorough:
        c.mc(SPEC, "MC_Crc", "MC_Crc_full.cfg", workers=12, timeout=3000)
    base = os.path.join(c.workdir, "trace")
    shards = 12 if thorough else 8
    vlib.drive(["c19", "--out", base, "--seed", c.seed, "--tier", c.tier, "--shards", shards])
    paths = sorted(glob.glob(base + "-*.ndjson"))
    c.validate(SPEC, "Trace_Crc", "Trace_Crc.cfg", paths, key, procs=shards, timeout=3000)
    c.sample_from(paths[0], 2)
    c.exhaustive = thorough
    c.extra["distinct_nontrivial"] = sum(int(r.get("r4", 0)) + int(r.get("r5", 0)) + int(r.get("r6", 0)) + int(r.get("r7", 0)) + int(r.get("r8", 0)) for r in c.reports)
    c.rule = ("long inputs of 4 KiB .. 256 KiB around powers of two: one-shot value = byte-wise feed (TLC does not re-divide them bit by bit; the single steps are judged by the update rows); update_crc16(s,b) for all 256 bytes and " + ("all 65536" if thorough else "generating (0, 0xFFFF, 2^k) + seeded") + " register values; update_crc32(s,b) for generating + seeded registers; "
              "get_crc32 on 16-byte blocks with every byte value at every position (hits every entry of every slice table), with/without a preceding block and a tail; "
              "one-shot vs incremental vs bitwise for strings of every length 0..48 and longer; two-byte strings. Each recorded value is compared by TLC with the shift-register "
              "definition in Crc.tla. distinct_nontrivial = number of recorded (state/string, result) pairs judged.")
    c.assumptions = ["GF(2)-linearity of the register update is only used to choose the quick tier's generating states; the thorough tier enumerates all CRC-16 states"]
    return c.finish()


def replay(path):
    r = json.load(open(path))
    print(json.dumps(r, indent=1)[:3000])
    return 1
