"""C08, model layer: what the editor's LAYER operations mean (spec/doc/LayerOps.tla).

run_into(c, thorough) adds to an existing Check("C08"):
  R1  TLC checks the laws of the layer operations (MC_LayerOps: raise / lower, duplicate / remove, add / remove, toggle twice, size and
      properties back and forth are identities; add_new_layer, same-size set_layer_size and edits of hidden layers never change what
      Buffer::get_char shows; merge_layer_down keeps the picture exactly under six side conditions, each of them needed; move_layer
      changes nothing but the offset; frame conditions; stack length and undo-step arithmetic; what undo / redo of every recorded
      step restores; where the current-layer field ends up) on every document of three small universes x every call with in-range,
      boundary and out-of-range arguments (MC_LayerOps.cfg, _plain, _geo), and on call sequences incl. undo / redo (MC_LayerOps_seq)
  R2  Gen_LayerOps.cfg exports one call sequence per class of GenView (gen/layerops_cases.ndjson)
  drive  `icyverif layerops`: TLC sequences (each extended by one more operation - every kind in turn -, an undo / redo walk, another
         operation, another walk) + seeded random sequences of 1..8 calls on documents up to 6 x 4 with 1..4 layers (hidden, locked,
         alpha, offsets also negative and beyond the buffer, preview offsets, paste roles, cells stored beyond the size), through the
         public EditState API; whole document and undo_stack_len after every call
  R3  Trace_LayerOps recomputes every call, undo and redo with the model and compares result, whole document, current layer and undo
      length, and what Buffer::get_char shows over the buffer (+ 1 cell margin) with Shown of the recorded document: model layer only
      (drift); an engine panic that the model does not predict is drift "result:<op>" with the site
Stand-alone: `python3 tools/props/layeropslib.py` (work dir work/C08-layerops, evidence work/C08-layerops/evidence; honours VERIF_TIER,
VERIF_SEED, VERIF_REPO=<scratch worktree of /repo> for mutants; LAYEROPS_NO_MC=1 skips R1: the laws of the model do not depend on
the engine).
"""
import os, sys, json, time
from collections import Counter

sys.path.insert(0, os.path.dirname(os.path.dirname(os.path.abspath(__file__))))
import vlib
from vlib import Check

SPEC = "spec/doc"
GEN_FILE = os.path.join(vlib.GEN, "layerops_cases.ndjson")
SHARDS = 4
OP_ORDER = ["add_new_layer", "remove_layer", "raise_layer", "lower_layer", "duplicate_layer", "clear_layer", "anchor_layer",
            "add_floating_layer", "merge_layer_down", "toggle_layer_visibility", "move_layer", "set_layer_size", "rotate_layer",
            "make_layer_transparent", "update_layer_properties", "set_current_layer", "undo", "redo"]


def key(v, ev):
    """Only tool problems can appear here (the module has no property-layer predicate)."""
    return f"{v.get('pred')}"


def gen():
    return vlib.generate(SPEC, "MC_LayerOps", "Gen_LayerOps.cfg", GEN_FILE)


def run_into(c, thorough=None):
    if thorough is None:
        thorough = c.tier == "thorough"
    t0 = time.time()
    # quick: the geometry universe and the call sequences (50 s); thorough: all five configurations (8 min)
    cfgs = ["MC_LayerOps_geo.cfg", "MC_LayerOps_seq.cfg"]
    if thorough:
        cfgs = ["MC_LayerOps.cfg", "MC_LayerOps_plain.cfg", "MC_LayerOps_geo.cfg", "MC_LayerOps_seq.cfg", "MC_LayerOps_seq4.cfg"]
    if os.environ.get("LAYEROPS_NO_MC"):
        cfgs = []
    mcs = [c.mc(SPEC, "MC_LayerOps", cfg, workers=4, timeout=3000 if thorough else 900) for cfg in cfgs]
    gen()
    t1 = time.time()
    tier = "thorough" if thorough else "quick"
    trace = os.path.join(c.workdir, "layerops.ndjson")
    vlib.drive(["layerops", "--out", trace, "--seed", c.seed, "--tier", tier, "--gen", GEN_FILE, "--shards", SHARDS])
    traces = [trace.replace(".ndjson", f"-s{k}.ndjson") for k in range(SHARDS)]
    summary = json.load(open(trace.replace(".ndjson", "-summary.json")))
    t2 = time.time()
    results = c.validate(SPEC, "Trace_LayerOps", "Trace_LayerOps.cfg", traces, key, procs=SHARDS, timeout=3000)
    reg = lambda n: sum(int(r["report"].get(n, 0)) for r in results)
    drift = sum(int(r["report"].get("drift", 0)) for r in results)
    mask = 0
    for r in results:
        mask |= int(r["report"].get("r8", 0))
    covered = [n for i, n in enumerate(OP_ORDER) if mask >> i & 1]
    kinds = Counter(d.get("what") for r in results for d in r["drift"])
    c.extra["layerops_cases"] = reg("r4")
    c.extra["layerops_calls"] = reg("r5")
    c.extra["layerops_documents_compared"] = reg("r6")
    c.extra["layerops_undo_redo_steps_compared"] = reg("r11")
    c.extra["layerops_views_compared_with_shown"] = reg("r13")
    c.extra["layerops_calls_with_current_layer_past_the_stack"] = reg("r12")
    c.extra["layerops_err_results_predicted"] = reg("r10")
    c.extra["layerops_engine_panics"] = reg("r7")
    c.extra["layerops_engine_panics_predicted_by_model"] = reg("r9")
    c.extra["layerops_engine_panic_sites"] = summary.get("panic_sites", {})
    c.extra["layerops_model_drift"] = drift
    c.extra["layerops_model_drift_kinds"] = dict(kinds)       # of the first 25 drift lines per trace file
    c.extra["layerops_model_drift_samples"] = [d for r in results for d in r["drift"]][:6]
    c.extra["layerops_ops_covered"] = len(covered)
    c.extra["layerops_ops_not_covered"] = [n for n in OP_ORDER if n not in covered]
    c.extra["layerops_results_by_kind"] = summary.get("results", {})
    c.extra["layerops_tlc"] = {"laws_checked": [{"cfg": m["cfg"], "states": m["states"], "wall_s": m["wall_s"]} for m in mcs],
                               "tlc_cases_driven": summary.get("tlc_cases", 0)}
    c.extra["layerops_wall_s"] = {"mc_gen": round(t1 - t0, 1), "drive": round(t2 - t1, 1), "validate": round(time.time() - t2, 1)}
    c.assumptions.append("LayerOps model: no sixels / hyperlinks on the layers, no overlay layer, non-terminal buffer, default_font_page 0; of a layer's "
                         "storage the cells are compared, not how many invisible cells / empty rows are stored (not observable through get_char); "
                         "the raw current-layer field is model state (the API shows it clamped); usize::MAX is written -1 in call arguments; "
                         "`layer + 1` overflow panics only with overflow checks (dev profile, as the harness is built)")
    c.sample_from(traces[0], n=2)
    vlib.log(f"[layerops] {reg('r4')} cases, {reg('r5')} calls, {reg('r6')} documents + {reg('r13')} views compared ({reg('r11')} undo / redo steps), "
             f"{len(covered)}/{len(OP_ORDER)} operations, {reg('r7')} engine panics ({reg('r9')} predicted), drift {drift}, {time.time() - t0:.1f}s")
    if drift:
        vlib.log("[layerops] drift kinds: " + json.dumps(dict(kinds)))
        for d in c.extra["layerops_model_drift_samples"][:3]:
            vlib.log("[layerops] DRIFT " + json.dumps(d)[:700])
    return results


def main():
    # own work / evidence directories: evidence/C08.json and work/C08 belong to tools/check.py C08
    vlib.EVIDENCE = os.path.join(vlib.WORK, "C08-layerops", "evidence")
    os.chdir(vlib.ROOT)
    if "--no-build" not in sys.argv:
        vlib.build_harness()
    c = Check("C08-layerops")
    c.pid = "C08"
    run_into(c)
    c.extra["distinct_nontrivial"] = c.extra["layerops_documents_compared"]
    c.rule = "meaning of the editor's layer operations (stand-alone run of tools/props/layeropslib.py; model layer of C08)"
    rc = c.finish()
    x = c.extra
    print(f"layeropslib: tier={c.tier} seed={c.seed} cases={x['layerops_cases']} calls={x['layerops_calls']} compared={x['layerops_documents_compared']} "
          f"undo_redo={x['layerops_undo_redo_steps_compared']} ops={x['layerops_ops_covered']}/{len(OP_ORDER)} panics={x['layerops_engine_panics']} "
          f"(predicted {x['layerops_engine_panics_predicted_by_model']}) drift={x['layerops_model_drift']} violations={'yes' if rc else 'no'} "
          f"wall={time.time() - c.t0:.1f}s evidence={os.path.join(vlib.EVIDENCE, 'C08.json')}")
    if x["layerops_model_drift"]:
        print("MODEL-DRIFT (reported, does not decide the verdict): " + json.dumps(x["layerops_model_drift_kinds"]))
        for d in x["layerops_model_drift_samples"][:4]:
            print("  " + json.dumps(d)[:900])
    return rc


if __name__ == "__main__":
    vlib.main_wrapper(main)
