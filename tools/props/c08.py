"""C08 - undo restores the document and redo the edit, for every edit history."""
import os, json, subprocess, tempfile
import vlib
from vlib import Check

SPEC = "spec/doc"
SHAPES_ALL = os.path.join(vlib.GEN, "undo_shapes_all.ndjson")
SHAPES = os.path.join(vlib.GEN, "undo_shapes.ndjson")


def key(v, ev):
    """relation + the operation whose undo step is involved (+ the operation after whose undo/redo the stricter
    snapshot first differed, when there is one) / panic site."""
    pred = v.get("pred")
    info = v.get("info") or {}
    if not isinstance(info, dict):
        return str(pred)
    if pred in ("UndoPanics", "RedoPanics"):
        return "panic@" + (info.get("site") or (ev or {}).get("site") or "?")
    op = info.get("op", "?")
    taint = info.get("taint", "")
    k = f"{pred}:{op}"
    if taint and taint != op:
        k += f":after:{taint}"
    return k


def cause_key(pred, op):
    """<relation>:<operation>[#input class].  A folded group is named after its last member (the step undone first).
    Operations on a layer with a locked alpha channel (A), a locked (L) or a hidden (H) layer are one class each:
    the undo records of all operations go through the same lock-checking Layer::set_char."""
    while op.startswith("group(") and op.endswith(")"):
        inner, depth, last = op[6:-1], 0, 0
        for i, ch in enumerate(inner):
            depth += ch == "("
            depth -= ch == ")"
            if ch == "+" and depth == 0:
                last = i + 1
        op = inner[last:] or "group()"
        if op == "group()":
            break
    name, _, cls = op.partition("#")
    cl = [x for x in cls.split(",") if x]
    flags = [x for x in cl if x in ("A", "L", "H")]
    other = [x for x in cl if x not in ("A", "L", "H")]
    if flags:
        return f"{pred}:layer#{','.join(flags)}"
    return f"{pred}:{name}" + ("#" + ",".join(other) if other else "")


def steps_of(events):
    """driver case (seed + steps) from the recorded events of one case"""
    seed, steps = 0, []
    for e in events:
        if e.get("ev") == "reset":
            seed, steps = e.get("seed", 0), []
        elif e.get("ev") in ("op", "undo", "redo", "begin", "end"):
            if e.get("ev") == "op" and e.get("r") == "skip":
                continue
            steps.append({k: e[k] for k in ("ev", "op", "args", "kind") if k in e})
    return {"seed": seed, "steps": steps}


def name_violations(c):
    """Keys that name the cause: every violating history is shrunk by the driver (delta debugging, same failing
    predicate) and named after the operation whose undo/redo step first failed in the minimal history."""
    todo = [v for v in c.viols if v.get("trace") and isinstance(v.get("l"), int) and v.get("prop") == "C08"]
    if not todo:
        return
    by_trace = {}
    for v in todo:
        by_trace.setdefault(v["trace"], []).append(v)
    cases = []
    for tr, vs in by_trace.items():
        want = {}
        for v in vs:
            want.setdefault(v["l"], []).append(v)
        mx = max(want)
        cur = []
        with open(tr) as f:
            for i, line in enumerate(f, 1):
                if '"ev":"reset"' in line:
                    cur = []
                cur.append(line)
                if i in want:
                    cs = steps_of([json.loads(x) for x in cur])
                    for v in want[i]:
                        v["_case"] = len(cases)
                    cases.append(cs)
                if i >= mx:
                    break
    inp = os.path.join(c.workdir, "viol-cases.json")
    outp = os.path.join(c.workdir, "viol-keys.json")
    json.dump(cases, open(inp, "w"))
    vlib.drive(["c08", "--keys", inp, "--out", outp], timeout=1800)
    res = json.load(open(outp))
    for v in todo:
        k = res[v.pop("_case")]
        if not k.get("pred"):
            continue          # not reproduced by the driver's own judge: keep the key derived from the TLC report
        v["key"] = "panic@" + k["site"] if k["pred"].endswith("Panics") else cause_key(k["pred"], k["op"])
        if isinstance(v.get("info"), dict):
            v["info"] = dict(v["info"], culprit=k["op"], minimal={"seed": k["seed"], "steps": k["min"]})


def gen():
    """R2: every history shape over E,U,R,B,X,Y within the generator bounds of Gen_Undo.cfg; shapes that are proper
    prefixes of other shapes are dropped (a trace of the longer shape judges every prefix)."""
    g = vlib.generate(SPEC, "MC_Undo", "Gen_Undo.cfg", SHAPES_ALL, timeout=1500)
    if not os.path.exists(SHAPES) or os.path.getmtime(SHAPES) < os.path.getmtime(SHAPES_ALL):
        shapes = [json.loads(l)["shape"] for l in open(SHAPES_ALL)]
        allset = set(shapes)
        pre = set()
        for s in allset:
            for i in range(1, len(s)):
                pre.add(s[:i])
        keep = sorted(s for s in allset if s not in pre)
        # explicit boundary shapes the generator's pruning of no-op undo/redo leaves out
        keep += ["UR", "RU", "EUUR", "EURR", "EEUUUR", "BXUR", "BYUR", "BEYUURR", "BBEXEXUR"]
        with open(SHAPES + ".tmp", "w") as f:
            for s in keep:
                f.write(json.dumps({"shape": s}) + "\n")
        os.replace(SHAPES + ".tmp", SHAPES)
    g["n_all"] = sum(1 for _ in open(SHAPES_ALL))
    g["n"] = sum(1 for _ in open(SHAPES))
    return g


def run():
    c = Check("C08")
    thorough = c.tier == "thorough"
    c.mc(SPEC, "MC_Undo", "MC_Undo.cfg", workers=4, timeout=900)
    if thorough:
        c.mc(SPEC, "MC_Undo", "MC_Undo_3docs.cfg", workers=4, timeout=900)
    g = gen()
    trace = os.path.join(c.workdir, "trace.ndjson")
    nsh = 16 if thorough else 4
    vlib.drive(["c08", "--out", trace, "--seed", c.seed, "--tier", c.tier, "--gen", SHAPES, "--shards", nsh], timeout=2400)
    shards = [trace.replace(".ndjson", f"-s{i}.ndjson") for i in range(nsh)]
    c.validate(SPEC, "Trace_Undo", "Trace_Undo.cfg", shards, key, procs=4, timeout=2400, xmx="4g")
    name_violations(c)
    c.sample_from(shards[0], 4)
    # what the operations MEAN (model layer only, never a verdict): Area.tla recomputes every area / row / column operation
    n_before = len(c.reports)
    from props import arealib
    arealib.run_into(c, thorough)
    # ... and Selection.tla every selection call and query
    from props import sellib
    sellib.run_into(c, thorough)
    # ... and Paint.tla the painting helpers (half blocks, lines)
    from props import paintlib
    paintlib.run_into(c, thorough)
    # ... and Links.tla the hyperlink ranges
    from props import linkslib
    linkslib.run_into(c, thorough)
    # ... and Modes.tla the document-wide conversions (ice mode, font usage)
    from props import modeslib
    modeslib.run_into(c, thorough)
    # ... and LayerOps.tla every layer operation (stack, current layer, merge, sizes, undo records)
    from props import layeropslib
    layeropslib.run_into(c, thorough)
    area_reports, c.reports = c.reports[n_before:], c.reports[:n_before]
    summ = {}
    try:
        summ = json.load(open(trace.replace(".ndjson", "-summary.json")))
    except Exception:
        pass
    R = lambda k: sum(int(r.get(k, 0)) for r in c.reports)
    c.extra["tlc_generated_shapes"] = g["n"]
    c.extra["tlc_generated_shapes_before_prefix_pruning"] = g["n_all"]
    c.extra["driver"] = summ
    c.extra["undo_steps_judged"] = R("r5")
    c.extra["redo_steps_judged"] = R("r6")
    c.extra["operations_ok_judged"] = R("r4")
    c.extra["histories_cut_by_failing_operation"] = R("r7")
    c.extra["operations_skipped_not_applicable"] = R("r8")
    c.extra["undo_on_empty_stack"] = R("r9")
    c.extra["redo_on_empty_stack"] = R("r10")
    c.extra["successful_operations_adding_no_step"] = R("r11")
    c.extra["successful_operations_adding_several_steps"] = R("r12")
    c.extra["distinct_nontrivial"] = R("r5") + R("r6")
    c.rule = ("R1: TLC explores every behaviour of Undo.tla (past/future stacks of [before, after] steps over opaque documents, nested atomic groups, "
              "operations adding 0/1/2 steps, failing operations cutting the history) with <= 4 operations, <= 2 nested groups, <= 8 undo/redo calls and checks, in every "
              "reachable state, refinement of a timeline-with-cursor description of linear undo, UnwindRestores (undoing all steps gives the initial document, redoing them the "
              "current one), RewindRestores, EditClearsRedo, GroupIsOneStep. R2: TLC exports every history shape over E/U/R/B/X/Y within the generator bounds; the driver "
              "instantiates E from a table of 66 public EditState operations (234 parameter vectors; every current-layer operation also with the layer left where the previous operations put it) (in-range and boundary parameters) on 8 seed documents (1..3 layers; alpha, offset, hidden, locked, "
              "alpha-locked, position-locked layers; ragged rows; cells stored beyond the layer size; all font modes; SAUCE; 18-colour palette), plus every table entry alone, "
              "pairs and triples (exhaustive in the thorough tier) followed by a full unwind/rewind, plus seeded random histories of up to 40 steps. R3: after EVERY engine call "
              "the driver records result, undo_stack_len, can_redo and a digest of an observational snapshot of the whole document; Trace_Undo rebuilds the model's stacks from the "
              "RECORDED digests and checks UndoRestores / RedoRestores / UndoOk / RedoOk / EditLeavesStep / EditClearsRedo (property layer) and stack lengths, can_redo and a "
              "stricter digest (model layer). distinct_nontrivial = number of undo and redo calls that moved a step and whose restored document was compared.")
    c.assumptions = [
        "the document is what the public API shows: buffer size and modes, palette, font table, SAUCE (without the buffer-size mirror), per layer position, properties, "
        "offset, size, role and get_char of every cell inside the layer size; invisible cells compare as invisible only",
        "caret, current layer, selection and selection mask are editor state, not document",
        "a history is cut at the first operation that returns Err or panics (antecedent: each operation reports success); undo/redo are never called inside an open atomic group",
        "add_floating_layer is only driven on a pasted (floating) layer",
        "two 30-bit halves of a SipHash-1-3 digest stand for the snapshot (collisions ignored)",
    ]
    return c.finish()


def replay(path):
    """Re-run the recorded history with full snapshots; the driver prints the first differing field."""
    r = json.load(open(path))
    print(json.dumps({k: r.get(k) for k in ("property", "key", "pred", "occurrences")}))
    evs = r.get("case") or []
    if not evs and r.get("event"):
        evs = [r["event"]]
    cs = steps_of(evs)
    seed, steps = cs["seed"], cs["steps"]
    mini = (r.get("info") or {}).get("minimal") if isinstance(r.get("info"), dict) else None
    if "steps" in r:      # a hand-written case file: {"seed": n, "steps": [...]}
        seed, steps = r.get("seed", 0), r["steps"]
    elif mini and os.environ.get("VERIF_REPLAY_FULL") != "1":
        print(f"(minimal sub-history of the recorded one, {len(steps)} -> {len(mini['steps'])} steps; VERIF_REPLAY_FULL=1 replays the recorded history)")
        seed, steps = mini["seed"], mini["steps"]
    with tempfile.NamedTemporaryFile("w", suffix=".json", delete=False) as f:
        json.dump({"seed": seed, "steps": steps}, f)
        case = f.name
    p = subprocess.run([vlib.BIN, "c08", "--explain", case], cwd=vlib.ROOT, stdout=subprocess.PIPE, stderr=subprocess.DEVNULL, text=True,
                       env=dict(os.environ, VERIF_REPO=vlib.REPO))
    print(p.stdout[-6000:])
    os.unlink(case)
    return 1 if "RESULT: property violated" in p.stdout else 0
