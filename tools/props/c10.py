"""C10 - stored text is always valid Unicode."""
import os, json, random
import vlib
from vlib import Check
from props import termlib

BOUNDARY = [0, 0x7F, 0xD7FF, 0xD800, 0xDBFF, 0xDC00, 0xDFFF, 0xE000, 0xFFFF, 0x10FFFF, 0x110000, 2147483599, 99999999999]


def key(v, ev):
    pred = v.get("pred")
    info = v.get("info") or {}
    if v.get("prop") == "C10" and pred in ("CellsScalar", "EntryPointPanics", "StringWellFormed") and "src" in info:
        what = str(info.get("what", "")).split(":")[0]
        site = (":panic@" + ev["site"]) if ev and ev.get("site") else ""
        return f"{pred}:{info.get('src')}:{what}{site}"
    return termlib.key(v, ev)


def decfra_cases(c, thorough):
    rng = random.Random(c.seed + 4242)
    cps = list(BOUNDARY) + [rng.randrange(0, 2 ** 31) for _ in range(200 if thorough else 30)] + [0xD800 + rng.randrange(0x800) for _ in range(100 if thorough else 20)]
    cases = []
    for emu in ("ansi", "avatar", "pcboard", "ctrla", "renegade"):
        for i, cp in enumerate(cps):
            for alloc in (0, 1):
                pre = b"AB\r\n" if i % 2 else b""
                seq = pre + f"\x1b[{cp};1;1;2;3$x".encode() + b"\x1b[2;2HZ\x1b[1;1;2;2$z\x1b[1;1;2;3${"
                cases.append({"id": f"decfra-{emu}-{cp}-{alloc}", "emu": emu, "music": 0, "w": 3, "h": 2, "alloc": alloc, "bs": 0, "proj": "full", "bytes": list(seq)})
    # the same fill after the state another control function leaves behind: a font whose header declares more glyphs than there
    # are scalar values below the surrogates (CTerm font DCS with a PSF2 payload), loaded into the caret's font page
    import base64, struct
    def psf2(n):
        return struct.pack("<4sIIIIIII", bytes([0x72, 0xB5, 0x4A, 0x86]), 0, 32, 0, n, 1, 1, 8) + bytes(n)
    for n in (0xD900, 0x11000):
        b64 = base64.b64encode(psf2(n))
        for emu in ("ansi", "avatar", "pcboard", "ctrla", "renegade"):
            for slot in (0, 1, 42):
                pre = b"\x1bPCTerm:Font:%d:" % slot + b64 + b"\x1b\\" + (b"\x1b[0;%d D" % slot if slot else b"")
                for cp in (0xD7FF, 0xD800, 0xD8FF, 0xDBFF, 0xDC00, 0xDFFF, 0xE000, n - 1, n, 0x10FFFF, 0x110000):
                    seq = pre + f"\x1b[{cp};1;1;2;3$x".encode() + b"\x1b[2;2HZ\x1b[1;1;2;2$z"
                    cases.append({"id": f"decfra-font{n:x}@{slot}-{emu}-{cp}", "emu": emu, "music": 0, "w": 3, "h": 2, "alloc": 0, "bs": 0, "proj": "full", "model": 0, "quiet": len(pre) - (8 if slot else 2), "bytes": list(seq)})
    p = os.path.join(c.workdir, "cases-decfra.ndjson")
    with open(p, "w") as f:
        for cs in cases:
            f.write(json.dumps(cs, separators=(",", ":")) + "\n")
    return ("decfra", p), len(cases)


def drive_contained(trace, c):
    """The entry points under test may abort the process (dev profile: constructing an invalid char aborts).  The driver
    names every unit of work in a progress file before running it; an abort becomes a `cells` event with r = "abort"."""
    progress = trace + ".progress"
    start, aborts = 0, 0
    while True:
        args = ["c10", "--out", trace, "--seed", c.seed, "--tier", c.tier, "--progress", progress, "--start", start] + (["--append", 1] if start else [])
        rc, err, _ = vlib.drive(args, timeout=1200, allow_fail=True)
        if rc == 0:
            break
        try:
            pr = json.load(open(progress))
        except Exception:
            raise vlib.ToolError("c10 driver died without a progress record: " + err[-800:])
        if pr.get("done"):
            break
        with open(trace, "a") as f:
            f.write(json.dumps({"ev": "cells", "src": pr.get("src", "?"), "what": pr.get("what", "?"), "r": "abort", "codes": [], "site": vlib.classify_stderr(err)}, separators=(",", ":")) + "\n")
        aborts += 1
        start = int(pr["k"])
        if aborts > 100:
            raise vlib.ToolError("more than 100 aborts in the c10 driver")
    c.extra["worker_aborts"] = aborts


def run():
    c = Check("C10")
    thorough = c.tier == "thorough"
    c.mc("spec/codec", "MC_Utf8", "MC_Utf8.cfg", workers=4)
    c.mc(termlib.SPEC, "MC_Term", "MC_Term_content.cfg", workers=8, timeout=1200, xmx="8g")
    shard, n = decfra_cases(c, thorough)
    # random terminal streams with full cell projection on small screens (cells of every changed row are recorded)
    shards = [shard]
    for i in range(4 if thorough else 2):
        shards.append((f"r{i}", termlib.gen_cases(c.workdir, f"r{i}", ["--gen", 1500 if thorough else 500, "--gen-from", 2_000_000 + i * 1500, "--seed", c.seed, "--full"])))
    traces, crashes = termlib.run_shards(c, shards, procs=6)
    trace = os.path.join(c.workdir, "unicode.ndjson")
    drive_contained(trace, c)
    c.validate("spec/codec", "Trace_Unicode", "Trace_Unicode.cfg", [trace], key, procs=1)
    c.sample_from(trace, 2, skip_reset=False)
    c.extra["decfra_cases"] = n
    c.extra["cells_checked_nonterminal"] = sum(int(r.get("r6", 0)) for r in c.reports if "unicode" in r["trace"])
    c.extra["terminal_steps_with_cell_projection"] = sum(int(r.get("r6", 0)) for r in c.reports if "unicode" not in r["trace"])
    c.extra["distinct_nontrivial"] = n + sum(int(r.get("r4", 0)) + int(r.get("r5", 0)) for r in c.reports if "unicode" in r["trace"])
    c.rule = ("boundary and seeded code points (0, 0x7F, 0xD7FF, 0xD800..0xDFFF, 0xE000, 0xFFFF, 0x10FFFF, 0x110000, 2^31-49, saturating digit strings) through every entry point: "
              "DECFRA fill character through five ANSI-family emulations (cells recorded in full projection and judged CellsScalar by Trace_Term; a worker abort on an invalid char is a C10 "
              "violation), all 65536 16-bit clipboard cell values, PSF2 glyph tables around 0xD800 glyphs, IcyDraw character fields patched in the first and the continuation chunk, IcyDraw "
              "title / font-name bytes (overlong, truncated, surrogate, 0xFF), DECDMAC macro bodies in text and hex form with bytes >= 0x80 and repeat groups reaching / crossing the 32767-byte macro space at every alignment "
              "(bodies read through the cfg hook verif_macro_bytes); strings judged well-formed UTF-8 by Utf8.tla (long strings: excerpt + std::str::from_utf8 verdict). R1: MC_Utf8 (definitions agree), MC_Term Sane (model cells scalar).")
    c.assumptions = ["numeric values of cells and bytes of strings are read after the fact; constructing an invalid char is UB, so observation is reliable in practice only (dev profile: UB checks abort)"]
    return c.finish()


replay = termlib.replay
