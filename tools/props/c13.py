"""C13 - layer compositing obeys the stacking laws."""
import os, json
import vlib
from vlib import Check

SPEC = "spec/doc"
GENS = [("Gen_Layers_view.cfg", "layers_view.ndjson"), ("Gen_Layers_view3.cfg", "layers_view3.ndjson"), ("Gen_Layers_geo.cfg", "layers_geo.ndjson")]
MODES = {0: "normal", 1: "chars", 2: "attributes", -1: "none"}


def key(v, ev):
    """law + transformation + mode of the layer it is about (+ panic site): specific enough that another law, another
    transformation or another layer mode still alarms."""
    pred = v.get("pred")
    info = v.get("info") or {}
    if pred == "NoPanic":
        return "panic@" + str(info.get("site", "?"))
    if pred in ("L1", "L2", "L3", "L4", "L5", "L6", "L7"):
        return f"{pred}:{info.get('op')}:{MODES.get(info.get('mode'), info.get('mode'))}"
    return str(pred)


def gen():
    res = []
    for cfg, name in GENS:
        res.append(vlib.generate(SPEC, "MC_Layers", cfg, os.path.join(vlib.GEN, name), workers=2))
    return res


def split_cases(path, n):
    """Shard at case boundaries (reset events); the font line (first line) is copied into every shard."""
    with open(path) as f:
        head = f.readline()
        outs = [open(path.replace(".ndjson", f"-s{i}.ndjson"), "w") for i in range(n)]
        sizes = [0] * n
        for o in outs:
            o.write(head)
        cur = 0
        for line in f:
            if '"ev":"reset"' in line[:80]:
                cur = sizes.index(min(sizes))
            outs[cur].write(line)
            sizes[cur] += len(line)
    for o in outs:
        o.close()
    os.remove(path)
    return [o.name for o in outs]


def run():
    c = Check("C13")
    thorough = c.tier == "thorough"
    # R1: the declarative Shown satisfies every law and equals the top-down walk
    mcs = ["MC_Layers.cfg", "MC_Layers_view3.cfg", "MC_Layers_geo.cfg"] + (["MC_Layers_view4.cfg", "MC_Layers_geof.cfg"] if thorough else [])
    if os.environ.get("VERIF_SKIP_R1"):      # mutant experiments only: R1 does not depend on the engine
        mcs = []
    for cfg in mcs:
        c.mc(SPEC, "MC_Layers", cfg, workers=4, timeout=1500)
    g = gen()
    trace = os.path.join(c.workdir, "trace.ndjson")
    vlib.drive(["c13", "--out", trace, "--seed", c.seed, "--tier", c.tier, "--gen", ",".join(os.path.join(vlib.GEN, n) for _, n in GENS)])
    shards = split_cases(trace, 4)
    c.validate(SPEC, "Trace_Layers", "Trace_Layers.cfg", shards, key, procs=4)
    # samples: one TLC case and one random case (cut by sample_from when long)
    with open(shards[0]) as f:
        f.readline()
        for line in f:
            if '"ev":"law"' in line:
                c.samples.append(line[:1200] + ("...(truncated)" if len(line) > 1200 else ""))
                break
    c.extra["tlc_generated_cases"] = sum(x["n"] for x in g)
    laws = {f"L{i}": sum(int(r.get(f"r{3 + i}", 0)) for r in c.reports) for i in range(1, 8)}
    c.extra["law_events_with_visible_claims"] = laws
    c.extra["claims_checked"] = sum(int(r.get("r11", 0)) for r in c.reports)
    c.extra["model_cells_compared"] = sum(int(r.get("r12", 0)) for r in c.reports)
    c.extra["distinct_nontrivial"] = sum(laws.values())
    c.evaluations = c.extra["claims_checked"]
    c.rule = ("R1: for every stack of Layers.tla in three small universes (<=2 layers x all 96 per-position layer views; <=3 layers x 18 views; <=2 Normal layers of "
              "size <=2x2 at offsets -1..1 with position-dependent content) TLC checks that the declarative Shown satisfies L1..L7 under every transformation "
              "(remove k, edit hidden k, remove-below-opaque k, insert empty alpha layer at k, translate d, move k by d) and equals the top-down walk of Buffer::get_char; "
              "R2: TLC exports (stack, transformation) cases of those universes, the driver adds seeded random stacks (1..5 layers, 1..12 x 1..8, offsets -4..6, three modes, "
              "alpha/opaque, hidden, sparse content with transparent-colour half-block cells, short rows) and queries Buffer::get_char on the bounding box + 2 for both stacks; "
              "R3: Trace_Layers recomputes B = Apply(tr, A) and the claims <<law, pA, pB>> from the two stacks and checks every claim between the two OBSERVED grids "
              "(invisible == invisible); model layer compares each observed cell with Shown. distinct_nontrivial = number of (event, law) pairs whose claims touch a visible cell.")
    c.assumptions = ["non-terminal buffer, no overlay layer, default_font_page = 0 on every layer", "invisible cells are stored as AttributedChar::invisible()",
                     "L3 for Chars-mode layers speaks about invisible cells and space-on-black only (NUL-on-black is left to the model layer)",
                     "translated / moved layers stay at offsets -4..6"]
    return c.finish()


def replay(path):
    r = json.load(open(path))
    print(json.dumps({k: r[k] for k in ("property", "key", "pred", "info")}, indent=1))
    ev = r.get("event") or {}
    print("transformation:", json.dumps(ev.get("tr")))
    print("stack A:", json.dumps(ev.get("A")))
    print("stack B:", json.dumps(ev.get("B")))
    print("box:", ev.get("box"))
    return 1
