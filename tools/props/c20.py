"""C20 - RIPscrip and IGS command streams never crash or stall the engine."""
import os, json
from concurrent.futures import ThreadPoolExecutor
import vlib
from vlib import Check
from props import igslib, riplib

SPEC = "spec/gfx"


def key(v, ev):
    pred = v.get("pred")
    info = v.get("info") or {}
    if "Trace_Igs" in str(v.get("module", "")) or "/igs/" in str(v.get("trace", "")) or os.path.basename(str(v.get("trace", ""))).startswith("igs-"):
        return igslib.key(v, ev)
    if pred in ("Outcome", "PictureOutcome") and ev and ev.get("site"):
        return "panic@" + ev["site"]
    if pred in ("Abort", "Stall"):
        return f"{pred}:{info.get('emu')}:{info.get('msg')}"
    return f"{pred}:{info.get('emu')}"


def gen():
    igslib.gen()
    riplib.gen()
    return vlib.generate(SPEC, "MC_Gfx", "Gen_Gfx.cfg", os.path.join(vlib.GEN, "gfx_table.ndjson"))


def run():
    c = Check("C20")
    c.mc(SPEC, "MC_Gfx", "MC_Gfx.cfg", workers=4)
    g = gen()
    table = os.path.join(vlib.GEN, "gfx_table.ndjson")
    n_table = sum(1 for _ in open(table))
    n_shards = 8
    def one(k):
        trace = os.path.join(c.workdir, f"trace-{k}.ndjson")
        crashes = vlib.run_contained_indexed("c20", trace, extra=["--seed", c.seed, "--tier", c.tier, "--table", table, "--shard", k, "--shards", n_shards], case_timeout=8, mem_mb=2048)
        return trace, crashes
    with ThreadPoolExecutor(max_workers=n_shards) as ex:
        res = list(ex.map(one, range(n_shards)))
    traces = [t for t, _ in res]
    crashes = [x for _, cr in res for x in cr]
    c.validate(SPEC, "Trace_Gfx", "Trace_Gfx.cfg", traces, key, procs=n_shards, timeout=3000)
    by_case = {(os.path.basename(t), str(cr["case"])): cr for (t, crs) in res for cr in crs}
    for v in c.viols:
        ev = v.get("event") or {}
        if ev.get("ev") == "crash":
            k = (os.path.basename(v["trace"]), str(ev.get("case")))
            if k in by_case:
                v["event"] = by_case[k]
    c.sample_from(traces[0], 3)
    # the IGS lexer and loop engine: faithful model Igs.tla, observed through the cfg(icy_engine_verif) snapshot hook
    n_before = len(c.reports)
    igslib.run_into(c, c.tier == "thorough")
    # the RIPscrip command lexer: faithful model Rip.tla (53 commands), observed through the same kind of hook
    riplib.run_into(c, c.tier == "thorough")
    gfx_reports = c.reports[:n_before]
    c.extra["cases"] = sum(int(r.get("r4", 0)) for r in gfx_reports)
    c.extra["characters"] = sum(int(r.get("r5", 0)) for r in gfx_reports)
    c.extra["pictures_checked"] = sum(int(r.get("r6", 0)) for r in gfx_reports)
    c.extra["tlc_table_entries"] = n_table
    c.extra["worker_crashes"] = len(crashes)
    c.extra["distinct_nontrivial"] = c.extra["cases"] + int(c.extra.get("igs_cases", 0)) + int(c.extra.get("rip_lexer_cases", 0))
    c.rule = ("the command x parameter-length table exported by TLC from Gfx.tla (every RIP level-0/1/9 command x lengths 0..24 x digits {0,1,Z}; every IGS command x 0..12 parameters from "
              "{-50,0,1,99999,319,5}), each with three terminators and seeded digit mixes, plus seeded random command streams (text, ANSI, continuation lines, text variables, loops, chained "
              "commands); each character is one recorded step (outcome, step time), pending IGS loop steps are polled, the exposed canvas is read after every command terminator and must hold "
              "width x height x 4 bytes; hangs/aborts are contained per case. R1: the RIP framing automaton is total. "
              "IGS: Igs.tla is a deterministic character-level model of the lexer and the loop engine (TLC: totality, <= 1 executor call per character or poll, loops make progress, "
              "the lexer returns to Default after a terminator); the driver records the lexer snapshot (cfg hook) and every executor call after every character and every loop poll, "
              "Trace_Igs recomputes the step: property layer Outcome / ExecBound / StepTime / LoopProgress / Abort / Stall, model layer drift on the whole snapshot. "
              "RIP: Rip.tla is a deterministic character-level model of the command lexer and of every command's field automaton (53 commands as a data table; TLC: every self-ending "
              "command executes after exactly its remaining digits, | and LF end every command, at most one command per character, no stall); Trace_Rip recomputes every step and compares "
              "state, level, parameter_state, executed command text (to_rip_string) - model drift - while Outcome / StepTime / Abort / Stall decide the verdict. "
              "distinct_nontrivial = number of cases (all three drivers).")
    c.assumptions = ["step time limit 5 s, case watchdog 8 s on this machine", "the RIP and IGS lexer states are read through the cfg(icy_engine_verif) snapshot hooks (read-only)"]
    return c.finish()


def replay(path):
    r = json.load(open(path))
    print(json.dumps({k: r.get(k) for k in ("property", "key", "pred", "info", "occurrences")}, indent=1))
    if r.get("case"):
        head = r["case"][0]
        print("stream:", bytes(e["c"] for e in r["case"][1:] if e.get("ev") == "ch"))
    return 1
