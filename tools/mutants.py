#!/usr/bin/env python3
"""Self-test: apply seeded source mutants to a scratch worktree of /repo (never /repo itself) and run checks on it.
usage: python3 tools/mutants.py <mutants.json> [name ...]      (mutants.json: list of {name, file, old, new, checks:[ids], expect:"alarm"|"quiet"})
Results are appended to work/mutants/results.jsonl and printed."""
import json, os, subprocess, sys, time
ROOT = os.path.dirname(os.path.dirname(os.path.abspath(__file__)))
WT = os.environ.get("MUT_WT", "/tmp/wt-mut")


def sh(cmd, **kw):
    return subprocess.run(cmd, shell=isinstance(cmd, str), stdout=subprocess.PIPE, stderr=subprocess.STDOUT, text=True, **kw)


def main():
    spec = json.load(open(sys.argv[1]))
    only = set(sys.argv[2:])
    if not os.path.isdir(WT):
        r = sh(["git", "-C", "/repo", "worktree", "add", "--detach", WT, "HEAD"])
        if r.returncode != 0:
            print(r.stdout)
            return 2
    os.makedirs(os.path.join(ROOT, "work", "mutants"), exist_ok=True)
    out = open(os.path.join(ROOT, "work", "mutants", "results.jsonl"), "a")
    for m in spec:
        if only and m["name"] not in only:
            continue
        sh(["git", "-C", WT, "checkout", "-q", "--detach", sh(["git", "-C", "/repo", "rev-parse", "HEAD"]).stdout.strip()])
        sh(["git", "-C", WT, "checkout", "--", "."])
        edits = m.get("edits") or [{"file": m["file"], "old": m["old"], "new": m["new"]}]
        ok = True
        for e in edits:
            p = os.path.join(WT, e["file"])
            s = open(p).read()
            if s.count(e["old"]) < 1:
                print(f"[{m['name']}] pattern not found in {e['file']}")
                ok = False
                break
            open(p, "w").write(s.replace(e["old"], e["new"], 1))
        if not ok:
            continue
        for chk in m["checks"]:
            t0 = time.time()
            env = dict(os.environ, VERIF_REPO=WT, VERIF_SEED=str(m.get("seed", 0)), VERIF_TIER=m.get("tier", "quick"))
            r = sh(["python3", os.path.join(ROOT, "tools", "check.py"), chk], env=env, cwd=ROOT)
            viol = [l for l in r.stdout.splitlines() if l.startswith("VIOLATION")]
            rec = {"mutant": m["name"], "check": chk, "exit": r.returncode, "violations": len(viol), "first": viol[0][:300] if viol else "", "expect": m.get("expect", "alarm"),
                   "wall_s": round(time.time() - t0, 1)}
            if r.returncode == 2:
                rec["tail"] = r.stdout[-600:]
            verdict = "OK" if (rec["expect"] == "alarm") == (r.returncode == 1) and r.returncode != 2 else "UNEXPECTED"
            rec["verdict"] = verdict
            out.write(json.dumps(rec) + "\n")
            out.flush()
            print(json.dumps(rec))
    sh(["git", "-C", WT, "checkout", "--", "."])
    return 0


sys.exit(main())
