#!/usr/bin/env python3
"""Confirm a change seeded by an independent sub-agent and run the registered checks against it.

usage: python3 tools/seeded.py confirm <ID> [--src DIR] [--wt DIR] [--tier quick|thorough] [--checks C01,C09]
       python3 tools/seeded.py recheck <name> [--tier ..]       (re-run checks on seeded/<name>/patch.diff in a fresh scratch worktree)

<ID> is a property id; DIR defaults to /tmp/seed-<ID>-out (patch.diff, demo.rs, notes.md) and the scratch worktree to
/tmp/seed-<ID> (created from /repo HEAD when missing).  Nothing is ever applied to /repo itself.  Steps:
  1. patch applies to /repo HEAD                      2. `cargo test --offline` still gives the pinned 227 passed
  3. demo exits non-zero with the patch, 0 without     4. `VERIF_REPO=<wt> tools/check.py <ID>` -> exit code, VIOLATION lines
Results go to seeded/<name>/{patch.diff,demo.rs,notes.md,meta.json}."""
import json, os, re, shutil, subprocess, sys, time
ROOT = os.path.dirname(os.path.dirname(os.path.abspath(__file__)))
TARGET = "/tmp/seed-shared-target"
BASE = json.load(open("/root/.vp/BASELINE.json"))
STABLE = set(x.split("::", 1)[1] for x in BASE["stable_pass"])


def sh(cmd, **kw):
    return subprocess.run(cmd, shell=isinstance(cmd, str), stdout=subprocess.PIPE, stderr=subprocess.STDOUT, text=True, **kw)


def head():
    return sh(["git", "-C", "/repo", "rev-parse", "HEAD"]).stdout.strip()


def ensure_wt(wt):
    if not os.path.isdir(wt):
        r = sh(["git", "-C", "/repo", "worktree", "add", "--detach", wt, "HEAD"])
        assert r.returncode == 0, r.stdout
    sh(["git", "-C", wt, "checkout", "-q", "--detach", head()])
    sh(["git", "-C", wt, "checkout", "--", "."])


def cargo_env():
    return dict(os.environ, CARGO_TARGET_DIR=TARGET, CARGO_NET_OFFLINE="true")


def run_tests(wt):
    r = sh("cargo test --offline --no-fail-fast 2>&1", cwd=wt, env=cargo_env())
    ok = set(re.findall(r"^test (\S+) \.\.\. ok$", r.stdout, re.M))
    failed = set(re.findall(r"^test (\S+) \.\.\. FAILED$", r.stdout, re.M))
    missing = sorted(STABLE - ok)
    return {"passed": len(ok), "failed": len(failed), "baseline_missing": missing, "compiled": "error: could not compile" not in r.stdout, "tail": r.stdout[-400:] if missing else ""}


def run_demo(wt, name):
    r = sh(f"cargo run --offline -q --example {name} 2>&1", cwd=wt, env=cargo_env())
    return r.returncode, r.stdout[-1200:]


def run_check(wt, chk, tier, seed=0):
    t0 = time.time()
    env = dict(os.environ, VERIF_REPO=wt, VERIF_SEED=str(seed), VERIF_TIER=tier)
    r = sh(["python3", os.path.join(ROOT, "tools", "check.py"), chk], env=env, cwd=ROOT)
    viol = [l for l in r.stdout.splitlines() if l.startswith("VIOLATION")]
    rec = {"check": chk, "tier": tier, "exit": r.returncode, "violations": len(viol), "first": [v[:400] for v in viol[:3]], "wall_s": round(time.time() - t0, 1)}
    if r.returncode not in (0, 1):
        rec["tail"] = r.stdout[-800:]
    return rec


def readme():
    """seeded/README.md from the meta.json files"""
    rows = []
    for name in sorted(os.listdir(os.path.join(ROOT, "seeded"))):
        mp = os.path.join(ROOT, "seeded", name, "meta.json")
        if not os.path.exists(mp):
            continue
        m = json.load(open(mp))
        first = m["results"][0] if m.get("results") else {}
        last = (m.get("rechecks") or [{}])[-1].get("results", [first])[0] if m.get("rechecks") else first
        def cell(r):
            if not r:
                return "-"
            if r.get("exit") == 1:
                return f"detected ({r.get('violations')} keys, {r.get('wall_s')} s)"
            return "MISSED" if r.get("exit") == 0 else f"tool error (exit {r.get('exit')})"
        kv = (last.get("first") or [""])[0]
        k = re.search(r"key=(\S+)", kv)
        esc = lambda t: str(t).replace("|", "\\|")
        rows.append(f"| {name} | {m['property']} | {esc(m.get('summary', ''))} | {esc(m.get('needs', ''))} | {cell(first)} | {cell(last) if m.get('rechecks') else '(same)'} | `{k.group(1)[:90] if k else ''}` |")
    text = ("# Changes seeded by independent sub-agents\n\n"
            "Each directory holds `patch.diff` (applies to /repo HEAD with `git apply`), `demo.rs` (the agent's demonstration: fails with the change, passes without),\n"
            "`notes.md` (the agent's description) and `meta.json` (what was confirmed and what the registered check did).  The agents were given only the property text and a\n"
            "scratch worktree of /repo; nothing from /verif.  Every change was confirmed in a scratch worktree by `tools/seeded.py confirm`: the patch applies, `cargo test --offline`\n"
            "still has the pinned 227 passing tests, the demo exits non-zero with the change and zero without.  The check was then run with `VERIF_REPO=<scratch worktree>`.\n"
            "`first run` is the outcome with the machinery as it was when the change arrived; `after strengthening` the outcome of `tools/seeded.py recheck <name>` with the current\n"
            "machinery (see DESIGN.md section 0.6 for what was strengthened and why).  Re-run any of them with `python3 tools/seeded.py recheck <name>`.\n\n"
            "| name | property | change | needs to manifest | first run (quick tier) | after strengthening | violation key |\n|---|---|---|---|---|---|---|\n" + "\n".join(rows) + "\n")
    open(os.path.join(ROOT, "seeded", "README.md"), "w").write(text)
    print(text)
    return 0


def main():
    a = sys.argv[1:]
    mode, ident = a[0], (a[1] if len(a) > 1 else "")
    opt = dict(zip(a[2::2], a[3::2]))
    tier = opt.get("--tier", "quick")
    if mode == "recheck":
        name = ident
        d = os.path.join(ROOT, "seeded", name)
        meta = json.load(open(os.path.join(d, "meta.json")))
        wt = opt.get("--wt", f"/tmp/seedre-{name}")
        ensure_wt(wt)
        r = sh(["git", "-C", wt, "apply", os.path.join(d, "patch.diff")])
        assert r.returncode == 0, r.stdout
        checks = opt.get("--checks", ",".join(meta["checks_run"])).split(",")
        res = [run_check(wt, c, tier) for c in checks]
        print(json.dumps(res, indent=1))
        meta.setdefault("rechecks", []).append({"at": time.strftime("%Y-%m-%dT%H:%M:%S"), "repo_head": head(), "results": res})
        json.dump(meta, open(os.path.join(d, "meta.json"), "w"), indent=1)
        sh(["git", "-C", "/repo", "worktree", "remove", "--force", wt])
        return 0
    if mode == "readme":
        return readme()
    pid = ident
    src = opt.get("--src", f"/tmp/seed-{pid}-out")
    wt = opt.get("--wt", f"/tmp/seed-{pid}")
    name = opt.get("--name", pid)
    checks = opt.get("--checks", pid).split(",")
    patch = os.path.join(src, "patch.diff")
    ensure_wt(wt)
    demo_name = f"demo_{pid}"
    os.makedirs(os.path.join(wt, "examples"), exist_ok=True)
    shutil.copy(os.path.join(src, "demo.rs"), os.path.join(wt, "examples", demo_name + ".rs"))
    meta = {"property": pid, "name": name, "repo_head": head(), "confirmed_at": time.strftime("%Y-%m-%dT%H:%M:%S")}
    # demo without the change
    rc0, out0 = run_demo(wt, demo_name)
    meta["demo_without_change"] = {"exit": rc0, "tail": out0[-300:]}
    r = sh(["git", "-C", wt, "apply", "--check", patch])
    meta["applies_cleanly"] = r.returncode == 0
    if r.returncode != 0:
        print("patch does not apply:", r.stdout)
        return 2
    sh(["git", "-C", wt, "apply", patch])
    rc1, out1 = run_demo(wt, demo_name)
    meta["demo_with_change"] = {"exit": rc1, "tail": out1[-600:]}
    meta["tests_with_change"] = run_tests(wt)
    t = meta["tests_with_change"]
    meta["confirmed"] = bool(rc0 == 0 and rc1 != 0 and t["compiled"] and not t["baseline_missing"])
    print(json.dumps({k: meta[k] for k in ("demo_without_change", "demo_with_change", "tests_with_change", "confirmed")}, indent=1)[:3000])
    if not meta["confirmed"]:
        print("NOT CONFIRMED; nothing stored")
        return 1
    # the example file must not disturb the harness build: remove it before running checks
    os.remove(os.path.join(wt, "examples", demo_name + ".rs"))
    res = [run_check(wt, c, tier) for c in checks]
    meta["checks_run"] = checks
    meta["results"] = res
    meta["detected"] = any(x["exit"] == 1 for x in res)
    print(json.dumps(res, indent=1))
    d = os.path.join(ROOT, "seeded", name)
    os.makedirs(d, exist_ok=True)
    shutil.copy(patch, os.path.join(d, "patch.diff"))
    shutil.copy(os.path.join(src, "demo.rs"), os.path.join(d, "demo.rs"))
    if os.path.exists(os.path.join(src, "notes.md")):
        shutil.copy(os.path.join(src, "notes.md"), os.path.join(d, "notes.md"))
    json.dump(meta, open(os.path.join(d, "meta.json"), "w"), indent=1)
    if "--keep" not in a:
        sh(["git", "-C", "/repo", "worktree", "remove", "--force", wt])
        shutil.rmtree(wt, ignore_errors=True)
        shutil.rmtree(wt + "-target", ignore_errors=True)
    return 0


sys.exit(main())
