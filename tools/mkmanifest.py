#!/usr/bin/env python3
"""Regenerates MANIFEST.json from the table below (single source of truth for the interface file)."""
import json, os
ROOT = os.path.dirname(os.path.dirname(os.path.abspath(__file__)))
props = [json.loads(l) for l in open(os.path.join(ROOT, "properties.jsonl"))]

CLAIMED = {
    "C01": dict(cat="model_checking", tech="TLA+ terminal model (spec/term) + TLC trace validation of per-character executions of the real emulations; crash containment by worker processes",
                text="Every character fed to each of the ten text emulations is one recorded step judged by Trace_Term under TLC (outcome must be an action or an error; a worker abort is a crash event). Streams come from the control-function table x parameter classes, sub-language strings, front-end lead-ins, random bytes, on screens 1..132 x 1..60. Observation of generated executions, not a proof.",
                note="dev-profile build (overflow checks); catch_unwind per character; aborts attributed via progress file", ref="4/C01"),
    "C02": dict(cat="fault_enumeration", tech="format layouts specified in TLA+ (Loader.tla) from which TLC computes structure-aware faults for the engine's own files; every truncation / header extreme / corruption / re-wrapped IcyDraw chunk / SAUCE tail class loaded by the real loaders in crash-contained workers; outcomes judged by TLC (Trace_Loader), SAUCE splits compared with Sauce.tla",
                text="Loader.tla computes the field layout of each seed file from its real header bytes and TLC emits every boundary truncation (-1/0/+1) and every numeric-field extreme; together with all byte-level truncations, header byte/u16/u32 extremes, corruptions, IcyDraw chunk-payload mutations, terminal streams loaded as files, every SAUCE-tail class and random inputs (about 140 000 loads per quick run, all entry points of the property) each load must return a value or an error; worker aborts and hangs are attributed to the load. Decoder totality of the spec decoders (Sauce, Fonts, Tdf) is model-checked.",
                note="fault enumeration over the engine's own output plus random inputs; not a proof of the loaders", ref="4/C02"),
    "C03": dict(cat="model_checking", tech="complete control-function table x extreme parameter classes + macro/sixel/font/avatar extremes executed against the real emulations under a 5 s / 1 GiB sandbox; limits judged by TLC on the trace (Trace_Term), post-states compared with the clamped Term.tla model; GrowthBounded model-checked",
                text="Every CSI final x intermediate x parameter vector over {0,1,80,25,2^16,10^6,2^31-1} (all vectors up to length 1-2, seeded beyond), recursive macros, hex repeat groups, sixel raster/repeat/colour headers, font DCS payloads and Avatar repeats run in crash-contained workers with a 5 s watchdog and 1 GiB address space; a timeout, allocation failure, stack overflow or a >5 s step is a violation. The model's clamps are model-checked (GrowthBounded) and each post-state is compared with the model.",
                note="time and memory are measured on this machine with the property's own generous limits; file-header extremes are exercised by the C02 check", ref="4/C03"),
    "C04": dict(cat="model_checking", tech="TLA+ display-equivalence + token grammar of ANSI writer output (AnsiOut.tla) with an abstract writer and a reader model, model-checked on all rows of width <= 4; TLC-enumerated option space and small-scope buffers replayed; cell-wise equivalence judged by TLC on traces",
                text="AnsiOut.tla defines Shown (bold->bright, ice normalisation), display equivalence and the writer's token grammar; TLC checks that every stream the abstract writer may emit is read back to an equivalent row; all 6912 save-option configurations and 12568 small-scope buffers plus seeded random buffers go through Buffer::to_bytes / from_bytes; every reloaded cell is compared with its source cell by Trace_AnsiOut, a reader model over the tokenised output separates writer from reader faults (drift).",
                note="modern_terminal_output excluded as the property says; source cells in ice mode carry no blink attribute; control characters only with ControlCharHandling::IcyTerm", ref="4/C04"),
    "C05": dict(cat="model_checking", tech="format decoders of XBin/BIN/ADF/IDF/Tundra written in TLA+ from the format documents (XBin.tla, BinLike.tla), decode o every-legal-encoding model-checked; TLC-enumerated legal configurations + seeded pictures saved/reloaded and re-saved; PictureEq judged by TLC",
                text="BinLike.tla/XBin.tla decode each format from its document; TLC checks that every legal encoding of every picture <= 2x3 over 4-cell alphabets decodes to picture, palette and font; 156 TLC-enumerated legal configurations plus seeded pictures inside each format's representable set are saved (lossless path) and reloaded, and accepted (also mutated) files are loaded, re-saved and reloaded; size, characters, displayed colours, blink, mode, fonts and palette are compared by Trace_BinFmt, the spec decoders re-read the written bytes as model layer.",
                note="re-save half compares the glyph shown per cell (a writer may drop unused embedded fonts); spec decoding limited to pictures <= 2600 cells", ref="4/C05"),
    "C06": dict(cat="model_checking", tech="XBin row codec specified from x_bin.htm with an ABSTRACT encoder (XBin.tla) plus a transcribed greedy compressor (XBinCompressor.tla), both model-checked; exhaustive small-scope rows and seeded buffers compressed by the engine; ValidStream / decode equality judged by TLC on every row",
                text="XBin.tla: ValidStream (runs 1..64, no run crosses a row, exact width, only SAUCE after) and DecodeRows; TLC checks the abstract encoder sound and crossing streams rejected; every row of width <= 4-5 (orbit representatives to width 7, 2x2 alphabet to width 10) over 3 chars x 3 attrs x 2 font pages and seeded buffers 1..200 x 1..30 are compressed by the real writer; each compressed stream must be valid and decode (incl. font-page bit) to the cells, and the engine's decodes of compressed and raw files must agree; byte equality with the transcribed compressor is drift only.",
                note="orbit reduction for widths 6-7 assumes the compressor only tests cells for equality (checked exhaustively up to width 5)", ref="4/C06"),
    "C07": dict(cat="model_checking", tech="IcyDraw chunk/record codec specified in TLA+ from ICEDFormat.md (IcyDraw.tla), decode o encode model-checked; TLC-enumerated geometry x flag x row-shape cases and seeded documents saved/reloaded; DocEq judged by TLC, spec decoder of the chunk payloads as model layer",
                text="IcyDraw.tla decodes header, layer records, cell records (short/long/invisible/end-of-row), continuation chunks, palette, SAUCE and font chunks; TLC checks Decode(Encode(l)) = l for all layers <= 3x2 over six cell classes and decoder totality; 1555 row shapes, 31104 geometry x flag cases (sampled in quick) and seeded 1-6 layer documents are saved losslessly and reloaded; the reloaded document is compared field by field with the source (DocEq) by TLC, and the spec decoder of the recorded chunk payloads must agree with both.",
                note="PNG framing, zlib and base64 are unwrapped by the harness with the same crates; continuation chunks (> 3 MB) only in R1", ref="4/C07"),
    "C08": dict(cat="model_checking", tech="TLA+ model of the undo/redo stacks with nested atomic groups over opaque documents (Undo.tla), model-checked; every history shape exported by TLC instantiated with 66 public editing operations; recorded document digests validated against the model by TLC",
                text="Undo.tla models doc / past / future / open groups; TLC checks UnwindRestores, RewindRestores, EditClearsRedo, GroupIsOneStep on >1M states; 21868 TLC history shapes (edit, undo, redo, begin/end group) are instantiated with 66 operations x 213 parameter vectors on 8 seed documents (pairs, triples, random histories up to 40 steps); after every call the undo stack length, can_redo and a digest of the observational snapshot are recorded; Trace_Undo judges that each undo returns the digest recorded before the edit and each redo the one after, that undo/redo never fail, and that a new edit discards redo.",
                note="documents are compared through a digest of the observational snapshot (every cell via get_char, sizes, offsets, properties, palette, fonts, SAUCE); histories are cut at the first operation that reports an error", ref="4/C08"),
    "C09": dict(cat="model_checking", tech="caret-in-screen / fixed-grid invariants evaluated by TLC on the recorded geometry after every character (Trace_Term)",
                text="After every character of every generated stream (until a resize request) the recorded caret, terminal size and buffer size must satisfy CaretInScreen, and Viewdata/Mode 7 the fixed 40x24 grid; evaluated by TLC on traces of the real engine. Bounded/sampled exploration of the input space.",
                note="geometry read through the public API after each character", ref="4/C09"),
    "C10": dict(cat="model_checking", tech="boundary code points pushed through every entry point (DECFRA, clipboard records, glyph tables, IcyDraw cell records and strings); recorded cell values / string bytes judged by TLC against Utf8.tla (Scalar, WellFormed); MC_Utf8 and MC_Term Sane on the model",
                text="All 65536 16-bit clipboard values, boundary and seeded 32-bit values in DECFRA (five emulations, full cell projection) and in IcyDraw character fields (first and continuation chunk), PSF2 glyph tables around 0xD800 glyphs and ill-formed title / font-name bytes are fed to the real engine; every stored character must be a Unicode scalar value and every string well-formed UTF-8, evaluated by TLC on the recorded values. A worker abort on an invalid char (UB check) is also a violation.",
                note="materialising an invalid char is UB: observation after the fact is reliable in practice only", ref="4/C10"),
    "C11": dict(cat="model_checking", tech="SAUCE split/join specified in TLA+ (Sauce.tla) and model-checked on a scaled-down layout; TLC-enumerated field-length / comment / flag / width / writer cases replayed; metadata and picture equality judged by TLC",
                text="Sauce.tla defines File = content EOF [COMNT n*64] record, Split per SAUCE rev 5 and the per-variant field table; TLC checks Split(Join(c, m)) = <c, m> and totality on all strings of the scaled layout; 13240 TLC cases over ten writers are saved with SAUCE and reloaded: every field the variant carries must come back, the buffer width must follow the record, and picture(content+SAUCE) = picture(content) when the record equals the loader defaults; byte-exact Split of the file tail is the model layer.",
                note="'can carry' = SAUCE rev 5 defines the field for the data/file type and the engine's extractor populates it", ref="4/C11"),
    "C12": dict(cat="model_checking", tech="TLA+ pixel model of the colour optimiser scan (ColorOpt.tla) model-checked over glyph/colour classes; TLC witnesses instantiated with real glyphs; rendered-image equality and per-cell rewrite rules validated by TLC on traces",
                text="ColorOpt.tla defines Pixel/RenderEq and the optimiser as a scan carrying the previous attribute; TLC checks PixelsOk/OnlyAllowed for every carried-colour state x next-cell class; 9000 TLC witnesses are instantiated with real glyphs of built-in (and derived user) fonts, every glyph of all built-in fonts is swept, random 1-4 layer documents are optimised with both whitespace settings; the property layer is equality of the two render_to_rgba images and sizes, the model layer re-derives every rewrite.",
                note="reference renderer = Buffer::render_to_rgba; direct RGB 0,0,0 (equals the transparent colour) and font pages without a font are outside the stated domain", ref="4/C12"),
    "C13": dict(cat="model_checking", tech="declarative TLA+ definition of the shown cell (Layers.tla) with the stacking laws as relations; laws model-checked on per-position and geometry universes; TLC-exported (stack, transformation) cases replayed; laws judged between observed grids by TLC",
                text="Layers.tla defines Shown(stack, pos) declaratively and the walk of Buffer::get_char; TLC checks every law L1..L7 for every transformation on <=3-4 layer universes and Shown = Walk; 61k TLC-exported cases plus seeded stacks (1-5 layers, all modes, transparent-colour cells) are replayed; the property layer compares the two OBSERVED grids under each law, the model layer compares every observed cell with Shown.",
                note="non-terminal buffers, no overlay, default font page 0 (the statement does not speak about those)", ref="4/C13"),
    "C14": dict(cat="model_checking", tech="TLA+ queue model (SixelQueue) with independent Submit/Finish/Poll/Clear actions; every TLC behaviour enacted against the real Buffer through a cfg-guarded gate hook; traces validated by TLC; decoder character machine model (SixelDecoder)",
                text="TLC explores every interleaving of submissions, completions, polls and clears for K<=4 images and checks arrival order / no loss / no duplicate / shadow rule / poll-never-waits on the model; every maximal behaviour is then enacted on the real engine (completion order forced through the gate) and each observed queue/layer state is judged by Trace_Sixel. Decoder payloads (all <=4-token payloads + seeded) are decoded by the real parser and judged Rectangular.",
                note="completion order controlled by the gate hook; scheduling inside a decode not explored; K<=4", ref="4/C14"),
    "C15": dict(cat="model_checking", tech="token grammars and byte-level reader models of six text formats (TextOut.tla) model-checked with abstract writers; all attribute pairs and row shapes exported by TLC and replayed; per-format cell equivalence judged by TLC",
                text="TextOut.tla specifies Avatar, PCBoard, Ctrl-A, Renegade, ASCII and ATASCII output and readers; TLC checks writer/reader consistency for rows of width <= 4 under three screen preparations; all 16384 ordered attribute pairs and 300 row shapes per format plus random pictures inside the stated domain are written and parsed back by the engine; cells are compared (character, fg 0..15, bg 0..7; ATASCII inverse video) by Trace_TextOut.",
                note="printable CP437 = 0x20-0x7E, 0x80-0xFE minus each format's lead-in characters; foreground of blank cells not compared", ref="4/C15"),
    "C16": dict(cat="model_checking", tech="TLA+ model of the palette table checked by TLC; TLC-generated operation sequences replayed into the Rust code; recorded traces validated by Trace_Palette under TLC",
                text="Palette.tla models the index table; TLC checks InsertOk on all operation sequences <= 5 and exports witnesses that are replayed into icy_engine::Palette; every recorded insert (direct, via SGR/CSI t), every palette-file export/import and the 6-bit codec are judged by Trace_Palette. Bounded + sampled, not a proof of the Rust code.",
                note="trusts the harness projection (get_rgb of every index after each call) and TLC", ref="4/C16"),
    "C17": dict(cat="model_checking", tech="font carriers (PSF1/PSF2/raw/CTerm DCS/XBin/ADF/IDF/IcyDraw blocks) and TheDraw TDF specified in TLA+ (Fonts.tla, Tdf.tla), decode o encode model-checked; TLC-enumerated height x count x carrier and TDF layout cases with seeded glyph data replayed; equality judged by TLC",
                text="Fonts.tla / Tdf.tla decode every carrier from the format descriptions; TLC checks round trips and totality on scaled-down layouts; 290 height x glyph-count x carrier cases, all built-in font pages and SAUCE fonts, and 1872 TDF layout cases (types, defined-glyph subsets, sizes, names, bundles) with seeded random glyph bytes are encoded and decoded by the engine; dimensions, counts and glyph bytes are compared by Trace_Fonts, the spec decoder of the carrier bytes is the model layer.",
                note="TheDrawFont glyph tables are private: glyph data is observed through the engine's re-encoding (decoded by Tdf.tla) and a digest of its renderer", ref="4/C17"),
    "C18": dict(cat="model_checking", tech="exhaustive enumeration of the finite domain; every engine result judged by TLC against Attr.tla/Cp437.tla identities",
                text="The domain is finite and enumerated completely: every (byte, mode), every (fg,bg,blink,bold,mode), every code of every converter is one recorded engine call, judged by Trace_Attr; MC_Attr shows the design codec is an inverse pair.",
                note="exhaustive over the stated domain; trusts the harness to record the engine's return values", ref="4/C18"),
    "C19": dict(cat="model_checking", tech="bitwise shift-register specification in TLA+ (Crc.tla); recorded engine results validated by TLC",
                text="Crc.tla defines both CRCs as polynomial division; TLC proves table = bitwise on the model and validates every recorded update/one-shot/incremental value, including 16-byte blocks hitting every slice-table entry; thorough tier covers all 2^16 CRC-16 states.",
                note="quick tier relies on generating sets for register values; strings are seeded samples beyond the exhaustive block/two-byte sets", ref="4/C19"),
}

m = {
    "version": 1,
    "setup_cmd": "python3 tools/setup.py",
    "hooks": {"guard": "icy_engine_verif", "enable": "harness/.cargo/config.toml passes --cfg icy_engine_verif to rustc for the harness build (path dependency on /repo)",
              "baseline_off_cmd": "cd /repo && cargo test --workspace --no-fail-fast --offline", "source_commits": [], "add_only": True},
    "engines": [{"name": "tlc-pipeline", "path": "tools/check.py", "serves_properties": sorted(CLAIMED), "kind_free_text": "TLA+ specs (spec/) model-checked by TLC, Rust driver (harness/) replaying TLC-generated cases into icy_engine and recording ndjson traces, trace validation by TLC (Trace_*.tla)"}],
    "checks": [],
    "not_applicable": [],
    "notes": "See DESIGN.md. Exit 0 = held (KNOWN-FINDING lines for listed findings), 1 = VIOLATION, 2 = tool error.",
}
hooks_file = os.path.join(ROOT, "HOOK_COMMITS.txt")
if os.path.exists(hooks_file):
    m["hooks"]["source_commits"] = [l.split()[0] for l in open(hooks_file) if l.strip() and not l.startswith("#")]
for p in props:
    pid = p["id"]
    if pid in CLAIMED:
        c = CLAIMED[pid]
        m["checks"].append({
            "property_id": pid,
            "quick_cmd": f"VERIF_TIER=quick python3 tools/check.py {pid}",
            "thorough_cmd": f"VERIF_TIER=thorough python3 tools/check.py {pid}",
            "evidence_file": f"/verif/evidence/{pid}.json",
            "replay_cmd_template": f"python3 tools/check.py {pid} --replay {{path}}",
            "engine": "tlc-pipeline",
            "level_claimed": {"category": c["cat"], "text": c["text"], "design_ref": "DESIGN.md section " + c["ref"]},
            "level_note": c["note"],
            "technique": c["tech"],
        })
    else:
        m["not_applicable"].append({"property_id": pid, "reason": "check not built yet (work in progress; see DESIGN.md section 9)"})
json.dump(m, open(os.path.join(ROOT, "MANIFEST.json"), "w"), indent=1)
print("claimed:", sorted(CLAIMED))
