#!/bin/bash
# Verifies that every commit of /repo after the pinned snapshot compiles and passes the pinned suite (227 passed / 52 failed),
# in a scratch worktree with a shared target directory. Output: /verif/notes/fix-commits-verified.txt
set -u
WT=/tmp/wt-verify
OUT=/verif/notes/fix-commits-verified.txt
git -C /repo worktree remove --force $WT 2>/dev/null
git -C /repo worktree add -q --detach $WT cdb5b60 || exit 2
touch $OUT; sed -i '/^done$/d' $OUT   # incremental: commits already listed with a result are kept
for c in $(git -C /repo log --reverse --format=%h cdb5b60..HEAD); do
  grep -q "^$c .*227 passed; 52 failed" $OUT && continue
  git -C $WT checkout -q --detach $c
  res=$(cd $WT && CARGO_TARGET_DIR=/tmp/wt-verify-target cargo test --workspace --no-fail-fast --offline 2>&1 | grep -E "^test result: (FAILED|ok)\. [0-9]+ passed" | head -1)
  echo "$c $(git -C /repo log --format=%s -1 $c | cut -c1-70) :: ${res:-BUILD-FAILED}" >> $OUT
done
git -C /repo worktree remove --force $WT
rm -rf /tmp/wt-verify-target
echo done >> $OUT
