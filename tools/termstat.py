#!/usr/bin/env python3
"""Ad-hoc analysis of a terminal trace: first C09/C01 violation per case with the bytes leading to it."""
import json, sys
from collections import Counter, defaultdict
path = sys.argv[1]
first = {}
emu = None; case = None; bytes_ = []
hist = Counter()
for line in open(path):
    e = json.loads(line)
    if e['ev'] == 'reset':
        emu = e['emu']; case = e['case']; bytes_ = []; resized = False; continue
    if e['ev'] != 'ch': continue
    bytes_.append(e['c'])
    if e.get('a') == 'Resize': resized = True
    if case in first: continue
    fv = max(0, e['bh'] - e['th'])
    bad = None
    if e['r'] == 'panic': bad = 'panic ' + e['site']
    elif not resized:
        if not (0 <= e['cx'] <= e['tw'] - 1): bad = 'x'
        elif not (fv <= e['cy'] <= fv + e['th'] - 1): bad = 'y<' if e['cy'] < fv else 'y>'
        elif emu in ('viewdata', 'mode7') and (e['bw'] != 40 or e['bh'] != 24): bad = 'grid'
    if bad:
        tail = bytes(bytes_[-14:])
        first[case] = (emu, bad, tail, (e['cx'], e['cy'], e['tw'], e['th'], e['bh']))
        # classify by last ESC sequence final / control byte
        t = tail
        k = t.rfind(b'\x1b')
        sig = t[k:] if k >= 0 and len(t) - k <= 12 else t[-1:]
        # strip digits
        sig2 = bytes(c for c in sig if not (48 <= c <= 57))
        hist[(emu, bad, sig2)] += 1
for k, v in hist.most_common(80):
    print(v, k)
print(len(first), "cases with a violation")
if len(sys.argv) > 2:
    for c, v in list(first.items())[:int(sys.argv[2])]:
        print(c, v)
