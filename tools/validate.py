#!/usr/bin/env python3
"""Validate MANIFEST.json and evidence files against the schemas (uses the tooling venv's jsonschema)."""
import json, glob, sys
import jsonschema
jsonschema.validate(json.load(open('/verif/MANIFEST.json')), json.load(open('/root/.vp/MANIFEST.schema.json')))
es = json.load(open('/root/.vp/EVIDENCE.schema.json'))
for p in sorted(glob.glob('/verif/evidence/*.json')):
    jsonschema.validate(json.load(open(p)), es)
    print("ok", p)
print("manifest ok")
