#!/usr/bin/env python3
"""Shared machinery of the icy_engine verification checks (stdlib only).

Pipeline per property (DESIGN.md section 2):
  build harness against /repo's working tree  ->  R1: TLC model-checks the design module
  ->  R2: TLC-generated cases + seeded cases are replayed by the Rust driver into the real engine
  ->  R3: the recorded ndjson traces are validated by the Trace_* module under TLC
  ->  violations are matched against KNOWN_FINDINGS.txt, evidence is written, exit code decided.

Exit codes: 0 = property held on everything explored (known findings are printed as KNOWN-FINDING lines),
            1 = at least one violation that is not a listed finding (VIOLATION property=<id> replay=<path>),
            2 = tool trouble (build failure, TLC crash, our own timeout) - never reported as a violation.
"""
import json, os, re, subprocess, sys, time, glob, hashlib, shutil, signal
from concurrent.futures import ThreadPoolExecutor

ROOT = os.path.dirname(os.path.dirname(os.path.abspath(__file__)))
# The registered checks always build from /repo's working tree.  For experiments (seeded mutants in scratch
# worktrees, several at a time) VERIF_REPO=<dir> redirects the engine source, the build output, the work directory
# and the evidence directory to that tree, leaving /repo, /verif/work and /verif/evidence untouched.
REPO = os.environ.get("VERIF_REPO", "/repo").rstrip("/")
SCRATCH = REPO != "/repo"
WORK = os.path.join(REPO, "verif-work") if SCRATCH else os.path.join(ROOT, "work")
EVIDENCE = os.path.join(WORK, "evidence") if SCRATCH else os.path.join(ROOT, "evidence")
GEN = os.path.join(ROOT, "gen")
HARNESS = os.path.join(ROOT, "harness")
TARGET = os.path.join(REPO, "verif-target") if SCRATCH else os.path.join(HARNESS, "target")
BIN = os.path.join(TARGET, "debug", "icyverif")
JAR = "/opt/veriftools/tla/tla2tools.jar:/opt/veriftools/tla/CommunityModules-deps.jar"
LIBDIR = os.path.join(ROOT, "spec", "lib")


class ToolError(Exception):
    pass


def log(*a):
    print(*a, file=sys.stderr, flush=True)


def brief(out, n=25):
    """Last lines of a tool's output that matter (TLC repeats its semantic errors once per module)."""
    lines = [l for l in out.splitlines() if l.strip() and not l.startswith(("Semantic processing", "Parsing file", "Linting"))]
    seen, res = set(), []
    for l in lines:
        if l not in seen:
            seen.add(l)
            res.append(l)
    return "\n".join(res[-n:])


def sh(cmd, cwd=None, timeout=None, env=None):
    e = dict(os.environ)
    if env:
        e.update(env)
    p = subprocess.run(cmd, cwd=cwd, timeout=timeout, env=e, stdout=subprocess.PIPE, stderr=subprocess.STDOUT, text=True, errors="replace")
    return p.returncode, p.stdout


# ------------------------------------------------------------------------------------------------ build
def build_harness():
    """(Re)build the Rust driver against /repo's current working tree (path dependency => always current)."""
    lock = os.path.join(HARNESS, "Cargo.lock")
    if not os.path.exists(lock):
        shutil.copy(os.path.join(REPO, "Cargo.lock"), lock)
    t0 = time.time()
    env = {"CARGO_NET_OFFLINE": "true"}
    cmd = ["cargo", "build", "--offline"]
    if SCRATCH:
        cmd += ["--config", f'paths=["{REPO}"]']
        env["CARGO_TARGET_DIR"] = TARGET
    rc, out = sh(cmd, cwd=HARNESS, timeout=1800, env=env)
    if rc != 0 and "Cargo.lock" in out and ("needs to be updated" in out or "failed to select a version" in out):
        shutil.copy(os.path.join(REPO, "Cargo.lock"), lock)
        rc, out = sh(cmd, cwd=HARNESS, timeout=1800, env=env)
    if rc != 0:
        log(out[-6000:])
        raise ToolError("cargo build of the harness failed (does /repo compile?)")
    log(f"[build] harness built in {time.time() - t0:.1f}s")
    return BIN


# ------------------------------------------------------------------------------------------------ TLC
_LINE = re.compile(r'^<<"([A-Z]+)", "(.*)">>$')


def _unescape(s):
    return s.replace('\\"', '"').replace("\\\\", "\\")


def parse_tlc_output(out):
    """Extract PrintT lines <<"TAG", "json">> and the state counts."""
    tagged = {}
    for line in out.splitlines():
        m = _LINE.match(line.strip())
        if m:
            try:
                tagged.setdefault(m.group(1), []).append(json.loads(_unescape(m.group(2))))
            except Exception:
                tagged.setdefault("UNPARSED", []).append(line)
    st = re.search(r"(\d+) states generated, (\d+) distinct states found", out)
    gen, dist = (int(st.group(1)), int(st.group(2))) if st else (0, 0)
    return tagged, gen, dist


def tlc(spec_dir, module, cfg, workers=1, timeout=900, env=None, xmx="4g", extra=None, deque=False, tag=None):
    meta = os.path.join(WORK, "tlcmeta", f"{module}-{tag or os.getpid()}-{time.time_ns() % 10**9}")
    os.makedirs(meta, exist_ok=True)
    jopts = ["-XX:+UseParallelGC", "-Xss1g", f"-Xmx{xmx}", "-DTLA-Library=" + os.pathsep.join([LIBDIR] + [os.path.join(ROOT, "spec", d) for d in ("doc", "codec", "term")])]
    if deque:
        jopts.append("-Dtlc2.tool.queue.IStateQueue=StateDeque")
    cmd = ["java"] + jopts + ["-cp", JAR, "tlc2.TLC", "-workers", str(workers), "-metadir", meta, "-cleanup", "-noGenerateSpecTE", "-checkpoint", "0",
                               "-config", cfg] + (extra or []) + [module + ".tla"]
    t0 = time.time()
    try:
        rc, out = sh(cmd, cwd=os.path.join(ROOT, spec_dir), timeout=timeout, env=env)
    except subprocess.TimeoutExpired:
        shutil.rmtree(meta, ignore_errors=True)
        raise ToolError(f"TLC timed out after {timeout}s on {module} ({cfg})")
    shutil.rmtree(meta, ignore_errors=True)
    return rc, out, time.time() - t0


def model_check(spec_dir, module, cfg, workers=4, timeout=900, xmx="8g"):
    """R1: exhaustive exploration of a design module. An invariant violation here is a defect of the *specification*
    (the specs are fixed inputs of the checks), hence a tool error, never a verdict about the code."""
    rc, out, wall = tlc(spec_dir, module, cfg, workers=workers, timeout=timeout, xmx=xmx, extra=["-coverage", "1"] if False else None)
    tagged, gen, dist = parse_tlc_output(out)
    ok = "Model checking completed. No error has been found." in out
    if not ok:
        log(brief(out))
        raise ToolError(f"R1 model checking of {module} ({cfg}) did not complete cleanly")
    log(f"[R1] {module} {cfg}: {dist} distinct states, {gen} generated, {wall:.1f}s")
    return {"module": module, "cfg": cfg, "states": dist, "transitions": gen, "wall_s": round(wall, 1), "tagged": tagged}


def generate(spec_dir, module, cfg, out_path, tagname="WITNESS", workers=1, timeout=900, force=False, deps=(), env=None):
    """R2 generator: run TLC with a generator config; collect PrintT("WITNESS", json) lines into an ndjson file.
    Cached: regenerated only when one of the spec files is newer than the output."""
    srcs = [os.path.join(ROOT, spec_dir, f) for f in os.listdir(os.path.join(ROOT, spec_dir)) if f.endswith((".tla", ".cfg"))]
    srcs += [os.path.join(LIBDIR, f) for f in os.listdir(LIBDIR)]
    if not force and os.path.exists(out_path) and all(os.path.getmtime(s) <= os.path.getmtime(out_path) for s in srcs):
        n = sum(1 for _ in open(out_path))
        return {"cached": True, "n": n, "states": 0, "transitions": 0}
    rc, out, wall = tlc(spec_dir, module, cfg, workers=workers, timeout=timeout, env=env)
    tagged, gen, dist = parse_tlc_output(out)
    if "Model checking completed. No error has been found." not in out and "Finished in" not in out:
        log(brief(out))
        raise ToolError(f"generator {module} ({cfg}) failed")
    if "Error:" in out and "No error has been found" not in out:
        log(brief(out))
        raise ToolError(f"generator {module} ({cfg}) reported an error")
    os.makedirs(os.path.dirname(out_path), exist_ok=True)
    tmp = out_path + ".tmp"
    with open(tmp, "w") as f:
        for extra_tag in ("ALPHABET",):
            for w in tagged.get(extra_tag, []):
                f.write(json.dumps({"tag": extra_tag, **w}, separators=(",", ":")) + "\n")
        for w in tagged.get(tagname, []):
            f.write(json.dumps(w, separators=(",", ":")) + "\n")
    os.replace(tmp, out_path)
    log(f"[R2-gen] {module} {cfg}: {len(tagged.get(tagname, []))} witnesses, {dist} distinct states, {wall:.1f}s")
    return {"cached": False, "n": len(tagged.get(tagname, [])), "states": dist, "transitions": gen}


def validate_trace(spec_dir, module, cfg, trace_path, timeout=1800, xmx="3g", extra_env=None):
    """R3: run the trace module over one ndjson file."""
    n = sum(1 for _ in open(trace_path))
    if n == 0:
        return {"trace": trace_path, "total": 0, "consumed": 0, "viol": [], "drift": [], "report": {"viol": 0, "drift": 0, "steps": 0}, "states": 0, "wall_s": 0.0}
    env = {"TRACE": trace_path}
    if extra_env:
        env.update(extra_env)
    rc, out, wall = tlc(spec_dir, module, cfg, workers=1, timeout=timeout, env=env, xmx=xmx, deque=True, tag=os.path.basename(trace_path))
    tagged, gen, dist = parse_tlc_output(out)
    rep = tagged.get("REPORT", [None])[-1]
    if rep is None or rep.get("consumed") != rep.get("total") or "UNPARSED" in tagged:
        log(brief(out))
        raise ToolError(f"trace validation of {trace_path} with {module} failed to consume the trace (report={rep})")
    if int(rep.get("viol", 0)) != len(tagged.get("VIOL", [])):
        raise ToolError(f"VIOL line count {len(tagged.get('VIOL', []))} differs from register {rep.get('viol')} for {trace_path}")
    return {"trace": trace_path, "total": rep["total"], "consumed": rep["consumed"], "viol": tagged.get("VIOL", []), "drift": tagged.get("DRIFT", []),
            "report": rep, "states": dist, "wall_s": round(wall, 1)}


def validate_traces(spec_dir, module, cfg, paths, procs=8, timeout=1800, xmx="3g"):
    with ThreadPoolExecutor(max_workers=procs) as ex:
        return list(ex.map(lambda p: validate_trace(spec_dir, module, cfg, p, timeout=timeout, xmx=xmx), paths))


# ------------------------------------------------------------------------------------------------ driver
def drive(args, timeout=1800, allow_fail=False):
    t0 = time.time()
    try:
        p = subprocess.run([BIN] + [str(a) for a in args], cwd=ROOT, timeout=timeout, stdout=subprocess.DEVNULL, stderr=subprocess.PIPE, text=True, errors="replace",
                           env=dict(os.environ, VERIF_REPO=REPO))
    except subprocess.TimeoutExpired:
        raise ToolError(f"driver {args[0]} timed out after {timeout}s")
    if p.returncode != 0 and not allow_fail:
        log(p.stderr[-4000:])
        raise ToolError(f"driver {' '.join(map(str, args))} exited with {p.returncode}")
    for l in p.stderr.splitlines()[-6:]:
        log("[drive] " + l)
    return p.returncode, p.stderr, time.time() - t0


# ------------------------------------------------------------------------------------------------ findings
def load_findings():
    """KNOWN_FINDINGS.txt: `finding: property=<id> key=<key> :: text` suppress exactly that key;
    `fixed: ...` lines are documentation and suppress nothing."""
    res = {}
    path = os.path.join(ROOT, "KNOWN_FINDINGS.txt")
    if os.path.exists(path):
        for line in open(path):
            line = line.strip()
            m = re.match(r"finding:\s+property=(\S+)\s+key=(\S+)\s*(?:::\s*(.*))?$", line)
            if m:
                res.setdefault(m.group(1), {})[m.group(2)] = m.group(3) or ""
    return res


def read_events(path, wanted):
    """Return {line_no(1-based): event} for the wanted line numbers."""
    wanted = set(wanted)
    res = {}
    if not wanted:
        return res
    mx = max(wanted)
    with open(path) as f:
        for i, line in enumerate(f, 1):
            if i in wanted:
                res[i] = json.loads(line)
            if i >= mx:
                break
    return res


def case_context(path, line_no, max_events=400):
    """Events of the case containing line_no: from the last `reset` at or before it up to line_no."""
    evs = []
    with open(path) as f:
        for i, line in enumerate(f, 1):
            if i > line_no:
                break
            if '"ev":"reset"' in line or '"ev": "reset"' in line:
                evs = []
            evs.append(line.rstrip("\n"))
    if len(evs) > max_events:
        evs = evs[:1] + evs[-max_events:]
    return [json.loads(e) for e in evs]


class Check:
    """One run of one property's check."""

    def __init__(self, pid, level="model_checking"):
        self.pid = pid
        self.level = level
        self.tier = os.environ.get("VERIF_TIER", "quick")
        self.seed = int(os.environ.get("VERIF_SEED", "0") or 0)
        self.t0 = time.time()
        self.states = 0
        self.transitions = 0
        self.trace_states = 0
        self.traces = 0
        self.events = 0
        self.evaluations = 0
        self.mc_runs = []
        self.samples = []
        self.viols = []      # dicts: key, pred, info, trace, l
        self.drift = 0
        self.drift_samples = []
        self.reports = []
        self.extra = {}
        self.assumptions = []
        self.rule = ""
        self.exhaustive = False
        self.workdir = os.path.join(WORK, pid)
        os.makedirs(self.workdir, exist_ok=True)
        for f in glob.glob(os.path.join(self.workdir, "*.ndjson")):
            os.remove(f)

    # -- R1
    def mc(self, spec_dir, module, cfg, **kw):
        r = model_check(spec_dir, module, cfg, **kw)
        self.states += r["states"]
        self.transitions += r["transitions"]
        self.mc_runs.append({k: r[k] for k in ("module", "cfg", "states", "transitions", "wall_s")})
        return r

    # -- R3
    def validate(self, spec_dir, module, cfg, paths, keyfn, procs=8, timeout=1800, xmx="3g"):
        paths = [p for p in paths if os.path.exists(p)]
        results = validate_traces(spec_dir, module, cfg, paths, procs=procs, timeout=timeout, xmx=xmx)
        for r in results:
            self.traces += 1
            self.events += r["total"]
            self.trace_states += r["states"]
            self.drift += int(r["report"].get("drift", 0))
            self.drift_samples += r["drift"][:5]
            self.reports.append({"trace": os.path.relpath(r["trace"], ROOT), **{k: v for k, v in r["report"].items()}})
            lines = [v["l"] for v in r["viol"] if isinstance(v.get("l"), int)]
            evs = read_events(r["trace"], lines) if lines else {}
            for v in r["viol"]:
                ev = evs.get(v.get("l"))
                key = keyfn(v, ev)
                self.viols.append({"key": key, "prop": v.get("prop"), "pred": v.get("pred"), "info": v.get("info"), "trace": r["trace"], "l": v.get("l"), "event": ev})
        return results

    def add_violation(self, key, pred, info, replay_obj):
        self.viols.append({"key": key, "prop": self.pid, "pred": pred, "info": info, "trace": None, "l": None, "event": replay_obj})

    def sample_from(self, path, n=3, skip_reset=True):
        try:
            with open(path) as f:
                k = 0
                for line in f:
                    if skip_reset and '"ev":"reset"' in line:
                        continue
                    if len(line) > 1500:
                        line = line[:1500] + "...(truncated)"
                        self.samples.append(line)
                    else:
                        self.samples.append(json.loads(line))
                    k += 1
                    if k >= n:
                        break
        except Exception:
            pass

    # -- verdict
    def finish(self):
        known = load_findings().get(self.pid, {})
        os.makedirs(os.path.join(WORK, "replay"), exist_ok=True)
        by_key = {}
        for v in self.viols:
            if v.get("prop") not in (self.pid, None) and v.get("prop") != "TOOL":
                # violation of another property observed by a shared trace module: not this check's business
                continue
            by_key.setdefault(v["key"], []).append(v)
        new, kn = [], []
        for key, vs in sorted(by_key.items()):
            if vs[0].get("prop") == "TOOL":
                raise ToolError(f"trace module reported a tool problem: {vs[0]}")
            (kn if key in known else new).append((key, vs))
        for key, vs in kn:
            print(f"KNOWN-FINDING: property={self.pid} key={key} ({len(vs)} occurrence(s)) {known[key]}")
        rc = 0
        for n, (key, vs) in enumerate(new):
            v = vs[0]
            path = os.path.join(WORK, "replay", f"{self.pid}-{n}.json")
            ctx = None
            if v.get("trace") and isinstance(v.get("l"), int):
                try:
                    ctx = case_context(v["trace"], v["l"])
                except Exception:
                    ctx = None
            with open(path, "w") as f:
                json.dump({"property": self.pid, "key": key, "pred": v["pred"], "info": v["info"], "occurrences": len(vs), "event": v.get("event"),
                           "case": ctx, "seed": self.seed, "tier": self.tier}, f, indent=1)
            print(f"VIOLATION property={self.pid} replay={path}  key={key} pred={v['pred']} occurrences={len(vs)} info={json.dumps(v['info'])[:300]}")
            rc = 1
        self.write_evidence(len(new), [k for k, _ in kn], [k for k, _ in new])
        return rc

    def write_evidence(self, n_new, known_keys, new_keys):
        cov = {
            "states": max(1, self.states + self.trace_states),
            "transitions": max(1, self.transitions + self.events),
            "traces_validated_against_impl": self.traces,
            "samples": self.samples[:6] if self.samples else ["(no sample)"],
            "evaluations": max(1, self.evaluations or self.events),
            "distinct_nontrivial": max(2, self.extra.get("distinct_nontrivial", 0)),
            "rule": self.rule,
            "exhaustive": self.exhaustive,
            "model_checking_runs": self.mc_runs,
            "mc_states": self.states,
            "mc_transitions": self.transitions,
            "trace_events": self.events,
            "trace_states": self.trace_states,
            "model_drift_events": self.drift,
            "model_drift_samples": self.drift_samples[:5],
            "trace_reports": self.reports[:40],
            "known_finding_keys": known_keys,
            "new_violation_keys": new_keys,
        }
        cov.update({k: v for k, v in self.extra.items() if k != "distinct_nontrivial"})
        ev = {"property_id": self.pid, "tier": self.tier if self.tier in ("quick", "thorough") else "quick", "seed": self.seed, "level": self.level,
              "coverage": cov, "assumptions": self.assumptions, "wall_s": round(time.time() - self.t0, 1), "violations": n_new}
        os.makedirs(EVIDENCE, exist_ok=True)
        with open(os.path.join(EVIDENCE, f"{self.pid}.json"), "w") as f:
            json.dump(ev, f, indent=1)


def main_wrapper(fn):
    try:
        rc = fn()
        sys.exit(rc)
    except ToolError as e:
        print(f"TOOL-ERROR: {e}")
        sys.exit(2)
    except subprocess.TimeoutExpired as e:
        print(f"TOOL-ERROR: timeout {e}")
        sys.exit(2)
    except SystemExit:
        raise
    except BaseException as e:       # a bug of the machinery is a tool error, never a verdict
        import traceback
        traceback.print_exc()
        print(f"TOOL-ERROR: {type(e).__name__}: {e}")
        sys.exit(2)


# ------------------------------------------------------------------------------------------------ crash-contained driver runs
def classify_stderr(err):
    e = err[-3000:]
    if "has overflowed its stack" in e or "stack overflow" in e:
        return "stack_overflow"
    if "invalid value for `char`" in e or "char::from_u32_unchecked" in e:
        return "invalid_char"
    if "unsafe precondition" in e:
        return "unsafe_precondition"
    if "memory allocation of" in e or "capacity overflow" in e or "alloc" in e.lower() and "failed" in e.lower():
        return "alloc"
    return "signal"


def run_contained(driver, cases_path, out_path, extra=(), case_timeout=20, mem_mb=4096, overall_timeout=3000):
    """Run `icyverif <driver> --cases F --out T` restarting after every case that kills the worker (abort, stack
    overflow, allocation failure, hang).  Each such case is recorded as a `crash` event in the trace, with the case
    itself attached for the replay file.  Returns the list of crash records."""
    cases = [json.loads(l) for l in open(cases_path)]
    start = 0
    crashes = []
    t0 = time.time()
    progress = out_path + ".progress"
    if os.path.exists(out_path):
        os.remove(out_path)
    while start < len(cases):
        if time.time() - t0 > overall_timeout:
            raise ToolError(f"driver {driver} exceeded the overall time limit")
        p = subprocess.run([BIN, driver, "--cases", cases_path, "--out", out_path, "--start", str(start), "--progress", progress,
                            "--case-timeout", str(case_timeout), "--mem-mb", str(mem_mb)] + [str(x) for x in extra],
                           cwd=ROOT, stdout=subprocess.DEVNULL, stderr=subprocess.PIPE, text=True, errors="replace",
                           env=dict(os.environ, VERIF_REPO=REPO, RUST_BACKTRACE="0"), timeout=overall_timeout)
        if p.returncode == 0:
            break
        try:
            k, what = open(progress).read().split()[:2]
            k = int(k)
        except Exception:
            log(p.stderr[-3000:])
            raise ToolError(f"driver {driver} died without a progress record (exit {p.returncode})")
        if what == "done":
            break
        kind = "timeout" if what == "timeout" else "abort"
        msg = "timeout" if kind == "timeout" else classify_stderr(p.stderr)
        c = cases[k]
        rec = {"ev": "crash", "case": str(c.get("id", k)), "emu": c.get("emu", c.get("fmt", "?")), "kind": kind, "msg": msg, "sig": p.returncode,
               "n": len(c.get("bytes", [])), "detail": p.stderr[-400:].replace("\n", " | ")}
        with open(out_path, "a") as f:
            f.write(json.dumps(rec, separators=(",", ":")) + "\n")
        crashes.append(dict(rec, input=c))
        log(f"[drive] case {k} ({c.get('id')}) killed the worker: {kind}/{msg}")
        start = k + 1
        if len(crashes) > 200:
            raise ToolError("more than 200 worker crashes in one run - giving up")
    return crashes


def run_contained_indexed(driver, out_path, extra=(), case_timeout=10, mem_mb=2048, overall_timeout=3000):
    """Like run_contained, for drivers that enumerate their cases themselves (deterministically): after a case that kills
    the worker the case is fetched with --dump-case, recorded as a `crash` event and the driver restarted behind it."""
    start = 0
    crashes = []
    t0 = time.time()
    progress = out_path + ".progress"
    if os.path.exists(out_path):
        os.remove(out_path)
    base = [BIN, driver] + [str(x) for x in extra]
    env = dict(os.environ, VERIF_REPO=REPO, RUST_BACKTRACE="0")
    while True:
        if time.time() - t0 > overall_timeout:
            raise ToolError(f"driver {driver} exceeded the overall time limit")
        p = subprocess.run(base + ["--out", out_path, "--start", str(start), "--progress", progress, "--case-timeout", str(case_timeout), "--mem-mb", str(mem_mb)],
                           cwd=ROOT, stdout=subprocess.DEVNULL, stderr=subprocess.PIPE, text=True, errors="replace", env=env, timeout=overall_timeout)
        if p.returncode == 0:
            for l in p.stderr.splitlines()[-2:]:
                log("[drive] " + l)
            break
        try:
            k, what = open(progress).read().split()[:2]
            k = int(k)
        except Exception:
            log(p.stderr[-3000:])
            raise ToolError(f"driver {driver} died without a progress record (exit {p.returncode})")
        if what == "done":
            break
        kind = "timeout" if what == "timeout" else "abort"
        msg = "timeout" if kind == "timeout" else classify_stderr(p.stderr)
        d = subprocess.run(base + ["--dump-case", str(k)], cwd=ROOT, stdout=subprocess.PIPE, stderr=subprocess.DEVNULL, text=True, env=env)
        try:
            c = json.loads(d.stdout.strip().splitlines()[-1])
        except Exception:
            c = {}
        rec = {"ev": "crash", "case": str(k), "emu": c.get("ext", "?"), "seed": c.get("seed", "?"), "mut": c.get("mut", "?"), "kind": kind, "msg": msg, "sig": p.returncode,
               "n": len(c.get("bytes", [])), "detail": p.stderr[-400:].replace("\n", " | ")}
        with open(out_path, "a") as f:
            f.write(json.dumps(rec, separators=(",", ":")) + "\n")
        crashes.append(dict(rec, input=c))
        log(f"[drive] case {k} ({c.get('ext')}/{c.get('seed')}/{c.get('mut')}) killed the worker: {kind}/{msg}")
        start = k + 1
        if len(crashes) > 100:
            raise ToolError("more than 100 worker crashes in one run - giving up")
    return crashes
