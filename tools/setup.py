#!/usr/bin/env python3
print("setup placeholder")
