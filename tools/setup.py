#!/usr/bin/env python3
"""setup_cmd: build the harness offline and pre-generate the TLC case files (gen/)."""
import os, sys
sys.path.insert(0, os.path.dirname(os.path.abspath(__file__)))
import vlib


def main():
    vlib.build_harness()
    import gens
    gens.all_gens()
    print("setup ok")
    return 0


vlib.main_wrapper(main)
