#!/usr/bin/env python3
"""Entry point: python3 tools/check.py <property id> [--tier quick|thorough] [--replay path] [--no-build]"""
import argparse, importlib, os, sys
sys.path.insert(0, os.path.dirname(os.path.abspath(__file__)))
import vlib


def main():
    ap = argparse.ArgumentParser()
    ap.add_argument("pid")
    ap.add_argument("--tier", default=None)
    ap.add_argument("--replay", default=None)
    ap.add_argument("--no-build", action="store_true")
    a = ap.parse_args()
    if a.tier:
        os.environ["VERIF_TIER"] = a.tier
    os.environ.setdefault("VERIF_TIER", "quick")
    if os.environ["VERIF_TIER"] not in ("quick", "thorough"):
        os.environ["VERIF_TIER"] = "quick"
    os.chdir(vlib.ROOT)
    mod = importlib.import_module("props." + a.pid.lower())

    def run():
        if not a.no_build:
            vlib.build_harness()
        if a.replay:
            return mod.replay(a.replay)
        return mod.run()
    vlib.main_wrapper(run)


if __name__ == "__main__":
    main()
