"""All TLC generator runs (R2 case files under gen/). Cached by mtime; called from setup and lazily from the checks."""
import os
import vlib


def palette():
    return vlib.generate("spec/doc", "MC_Palette", "Gen_Palette.cfg", os.path.join(vlib.GEN, "palette.ndjson"))


def all_gens():
    palette()
