"""All TLC generator runs (R2 case files under gen/). Cached by mtime; called from setup and lazily from the checks.
Every tools/props/cNN.py may define gen(); setup calls all of them."""
import os, importlib, glob
import vlib


def all_gens():
    here = os.path.join(os.path.dirname(os.path.abspath(__file__)), "props")
    for f in sorted(glob.glob(os.path.join(here, "c*.py"))):
        mod = importlib.import_module("props." + os.path.basename(f)[:-3])
        if hasattr(mod, "gen"):
            mod.gen()
