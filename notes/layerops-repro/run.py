import json, subprocess, os, sys
A=[65,7,0,0,0]; B=[66,7,0,0,0]; SP=[32,7,0,0,0]
def L(w,h,g,**kw):
    l=dict(w=w,h=h,ox=0,oy=0,pv=[],vis=1,lock=0,pl=0,alpha=1,al=0,mode=0,role="normal",title={"b":"L","n":0},col=[],g=g)
    l.update(kw); return l
def op(n,a=[],p=[]): return {"op":n,"a":a,"p":p}
def doc(layers,cur=0,bw=2,bh=1): return dict(bw=bw,bh=bh,cur=cur,layers=layers)
P=lambda **kw: dict(dict(title={"b":"L","n":0},col=[],vis=1,lock=0,pl=0,al=0,alpha=1,mode=0,ox=0,oy=0),**kw)
cases={
 "ClearLayerMovesCurrent_RawCurrentIndex": (doc([L(2,1,[[A,SP]],pv=[1,1])]), [op("clear_layer",[0]), op("rotate_layer"), op("move_layer",[1,1]), op("undo")]),
 "TransparentUndoFails": (doc([L(2,1,[[A,SP]])],0), [op("duplicate_layer",[0]), op("clear_layer",[1]), op("undo"), op("make_layer_transparent"), op("undo")]),
 "MergeThroughBaseFlags_locked": (doc([L(2,1,[[A,A]],lock=1), L(2,1,[[B]])],1), [op("merge_layer_down",[1])]),
 "MergeThroughBaseFlags_poslocked": (doc([L(1,1,[[A]],ox=1,pl=1), L(1,1,[[B]])],1), [op("merge_layer_down",[1])]),
 "MergeIgnoresUpperFlags": (doc([L(2,1,[[A,A]]), L(2,1,[[B]],vis=0,lock=1)],1), [op("merge_layer_down",[1])]),
 "MergeChecksCurrentRole": (doc([L(1,1,[[A]]), L(1,1,[[B]]), L(1,1,[[A]],role="pimage")],2), [op("merge_layer_down",[1])]),
 "PropertiesNoRangeCheck": (doc([L(1,1,[[A]])]), [op("update_layer_properties",[1],P(title={"b":"P","n":0}))]),
 "PropertiesCarryOffset": (doc([L(1,1,[[A]],pl=1)]), [op("move_layer",[1,0]), op("update_layer_properties",[0],P(pl=1,ox=1))]),
 "NegativeLayerSize_rotate": (doc([L(1,1,[[A]])]), [op("set_layer_size",[0,-1,1]), op("rotate_layer")]),
 "NegativeLayerSize_transparent": (doc([L(1,1,[[A]])]), [op("set_layer_size",[0,1,-1]), op("make_layer_transparent")]),
 "SizeKeepsStorage": (doc([L(2,1,[[A,B]])]), [op("set_layer_size",[0,1,1]), op("set_layer_size",[0,2,1])]),
 "RotateTruncatesGlyph": (doc([L(1,1,[[[0x1DC,7,0,0,0]]])]), [op("rotate_layer")]),
 "FloatingUndoAssumesPaste": (doc([L(1,1,[[A]])]), [op("add_floating_layer"), op("undo")]),
 "AtomicClearsRedo": (doc([L(1,1,[[A]])]), [op("remove_layer",[0]), op("add_new_layer",[0]), op("undo"), op("make_layer_transparent"), op("redo")]),
 "AtomicClearsRedo_contrast": (doc([L(1,1,[[A]])]), [op("remove_layer",[0]), op("add_new_layer",[0]), op("undo"), op("rotate_layer"), op("redo")]),
 "IndexPlusOneOverflow": (doc([L(1,1,[[A]])]), [op("raise_layer",[-1])]),
 "LowerBottomIsOk": (doc([L(1,1,[[A]])]), [op("remove_layer",[0]), op("lower_layer",[0])]),
 "RemoveKeepsIndex": (doc([L(1,1,[[A]],title={"b":"a","n":0}), L(1,1,[[A]],title={"b":"b","n":0}), L(1,1,[[A]],title={"b":"c","n":0})],1), [op("remove_layer",[0])]),
 "MoveLockedStillPushes": (doc([L(1,1,[[A]],pl=1)]), [op("move_layer",[3,3])]),
 "EditsIgnoreLocks": (doc([L(2,1,[[A,SP]],lock=1)]), [op("make_layer_transparent"), op("rotate_layer"), op("clear_layer",[0])]),
}
BIN=os.environ.get("BIN","/tmp/builderL/verif/harness/target/debug/icyverif")
def short(d): return "cur=%d ["%d["cur"]+" | ".join("%dx%d@%d,%d%s%s%s%s %s%s %s g=%s"%(l["w"],l["h"],l["ox"],l["oy"]," pv=%s"%l["pv"] if l["pv"] else "","" if l["vis"] else " hidden"," locked" if l["lock"] else "", " poslock" if l["pl"] else "", l["title"]["b"],"+copy"*l["title"]["n"],l["role"],json.dumps(l["g"],separators=(',',':'))) for l in d["layers"])+"]"
for name,(d,ops) in cases.items():
    if len(sys.argv)>1 and sys.argv[1]!=name: continue
    f=f"/tmp/builderL/repro/{name}.json"
    json.dump({"d":d,"ops":ops}, open(f,"w"))
    subprocess.run([BIN,"layerops","--case",f,"--out",f"/tmp/builderL/repro/{name}.ndjson","--shards","1"],stderr=subprocess.DEVNULL,cwd="/tmp/builderL/verif")
    print("==",name)
    for line in open(f"/tmp/builderL/repro/{name}-s0.ndjson"):
        e=json.loads(line)
        if e["ev"]=="env": continue
        if e["ev"]=="reset": print("   start:",short(e["d"]))
        else: print("   %s%s -> %s ul=%d %s %s"%(e["o"]["op"],e["o"]["a"],e["r"],e["ul"],short(e["d"]) if e["r"]!="panic" else "", e.get("site","") or e.get("msg","")))
