//! C20 / RIPscrip lexer driver: feeds character streams one character at a time to a real `rip::Parser` and records,
//! after EVERY character, the lexer snapshot (cfg(icy_engine_verif) hook `verif_snapshot`) and the RIP text of the
//! commands that character executed (`verif_recorded`).  The trace is validated against spec/gfx/Rip.tla by
//! spec/gfx/Trace_Rip.tla.
//!
//! Case sources: (1) TLC-generated strings (gen/rip_cases.ndjson, one shortest string per lexer class) with several
//! endings, (2) the command table exported by TLC x parameter strings of every length 0..=width+2 over several digit
//! alphabets (incl. lower case, a non-digit, continuation lines), (3) seeded random RIP-like streams (text and ANSI
//! between commands, continuation lines, nested "!|", text variables, suspend/resume, CSI ! queries), (4) a few
//! "wild" byte streams that leave the modelled part of the fallback ANSI parser.
use crate::util::{guard, panic_site, rng, Args, Out};
use icy_engine::{ansi, rip, Buffer, BufferParser, Caret};
use rand::rngs::StdRng;
use rand::Rng;
use serde_json::{json, Value};
use std::sync::atomic::{AtomicU64, Ordering};
use std::sync::Arc;
use std::time::{Duration, Instant};

pub struct RCase {
    pub id: String,
    pub chars: Vec<u32>,
    /// positions before which the client sets `terminal_state.cleared_screen`
    pub cls: Vec<usize>,
}

fn s2c(s: &str) -> Vec<u32> {
    s.chars().map(|c| c as u32).collect()
}

fn codes(s: &str) -> Value {
    Value::Array(s.chars().map(|c| json!(c as u32)).collect())
}

pub fn run_case(c: &RCase, out: &mut Out) {
    let mut buf = Buffer::create((80, 25));
    buf.is_terminal_buffer = true;
    let mut caret = Caret::default();
    let mut p = rip::Parser::new(Box::<ansi::Parser>::default(), std::path::PathBuf::from("/nonexistent"));
    p.record_rip_commands = true;
    out.ev(&json!({"ev":"reset","case":c.id,"emu":"rip","n":c.chars.len()}));
    let mut seen = 0usize;
    for (i, &code) in c.chars.iter().enumerate() {
        let ch = char::from_u32(code).unwrap_or('?');
        let cls = c.cls.contains(&i);
        if cls {
            buf.terminal_state.cleared_screen = true;
        }
        let before = caret.get_position();
        let t0 = Instant::now();
        let res = guard(|| p.print_char(&mut buf, 0, &mut caret, ch));
        let us = t0.elapsed().as_micros() as u64;
        let (r, site) = match &res {
            Ok(Ok(_)) => ("ok", None),
            Ok(Err(_)) => ("err", None),
            Err(pi) => ("panic", Some(panic_site(pi))),
        };
        let s = p.verif_snapshot();
        let mut rec = vec![];
        while seen < s.recorded {
            rec.push(codes(&p.verif_recorded(seen).unwrap_or_default()));
            seen += 1;
        }
        let mut ev = json!({"ev":"ch","i":i,"c":code,"r":r,"us":us,"tag":s.state,"lvl":s.level,"ps":s.parameter_state,
                            "hc":i32::from(s.has_command),"cnt":s.rip_counter,"rec":rec,"mv":i32::from(caret.get_position() != before)});
        if cls {
            ev["cls"] = json!(1);
        }
        if let Some(s) = site {
            ev["site"] = json!(s);
        }
        out.ev(&ev);
        if r == "panic" {
            break;
        }
    }
}

// ------------------------------------------------------------------------------------------------ generators
pub struct Cmd {
    lvl: u32,
    ch: u32,
    kind: String,
    w: usize,
}

impl Cmd {
    fn prefix(&self) -> Vec<u32> {
        let mut v = s2c("!|");
        if self.lvl == 1 { v.push('1' as u32); }
        if self.lvl == 9 { v.push('9' as u32); }
        v.push(self.ch);
        v
    }
    fn name(&self) -> String {
        format!("{}{}", if self.lvl == 0 { String::new() } else { self.lvl.to_string() }, if self.ch == 27 { "ESC".to_string() } else { char::from_u32(self.ch).unwrap().to_string() })
    }
}

const B36: &[u8] = b"0123456789ABCDEFGHIJKLMNOPQRSTUVWXYZabcdefghijklmnopqrstuvwxyz";
const TEXTCH: &[u8] = b"ab XY09$<>^m[];:,.-_?*#=@'\"()";
const NONDIGIT: &[u8] = b" .-_$<>?*#@/:;[]^~";

fn pick(r: &mut StdRng, a: &[u8]) -> u32 {
    a[r.gen_range(0..a.len())] as u32
}

/// `n` parameter characters in digit alphabet `alpha`; positions behind `w` (the text tail) come from the text alphabet
fn params(r: &mut StdRng, n: usize, w: usize, alpha: usize) -> Vec<u32> {
    let mut v: Vec<u32> = (0..n)
        .map(|k| {
            if k >= w {
                return if r.gen_bool(0.04) { [0xE9u32, 0x20AC, 0x1F600][r.gen_range(0..3)] } else { pick(r, TEXTCH) };
            }
            match alpha {
                0 => '0' as u32,
                1 => '1' as u32,
                2 => 'Z' as u32,
                3 => 'z' as u32,
                4 | 6 => pick(r, b"01Z"),
                _ => pick(r, B36),
            }
        })
        .collect();
    if alpha == 6 && n > 0 {
        let k = r.gen_range(0..n);
        v[k] = pick(r, NONDIGIT);
    }
    if alpha == 7 && n > 0 {
        let k = r.gen_range(0..=n);
        let ins: &str = ["\\\r\n", "\\\n", "\\\r\r\n", "\\\\\n"][r.gen_range(0..4)];
        for (j, c) in s2c(ins).into_iter().enumerate() { v.insert(k + j, c); }
    }
    if alpha == 8 && n > 0 {
        let k = r.gen_range(0..n);
        v.insert(k, '\\' as u32);
    }
    v
}

const ENDINGS: &[&str] = &["|", "\r\n", "|#|\r\n", "", "!|*", "\\\r\n|"];

fn table_cases(cmds: &[Cmd], thorough: bool, seed: u64, out: &mut Vec<RCase>) {
    let mut r = rng(seed, 424_242);
    let mut k = 0usize;
    for cm in cmds {
        // (prefix behind the command letter, number of fixed digits that follow, longest parameter list)
        let mut shapes: Vec<(Vec<u32>, usize, usize)> = vec![];
        match cm.kind.as_str() {
            "imm" => shapes.push((vec![], 0, 2)),
            "fix" => shapes.push((vec![], cm.w, cm.w + 2)),
            "pal" => shapes.push((vec![], 32, 34)),
            "tail" => shapes.push((vec![], cm.w, cm.w + 6)),
            "var" => shapes.push((vec![], 0, 5)),
            "poly" => {
                shapes.push((vec![], 2, 2));
                for n in 0..=3usize { shapes.push((s2c(&format!("0{n}")), 4 * n + 6, 4 * n + 8)); }
                shapes.push((s2c("0z"), 40, if thorough { 4 * 36 + 7 } else { 0 }));
            }
            _ => {}
        }
        for (pre, w, maxlen) in shapes {
            for len in 0..=maxlen {
                let alphas: Vec<usize> = if thorough { (0..9).collect() } else { vec![k % 4, 4 + k % 2, 6 + k % 3] };
                for a in alphas {
                    let ends: Vec<usize> = if thorough { vec![0, 1, 2 + (k % 4)] } else { vec![k % 6] };
                    for e in ends {
                        let mut chars = cm.prefix();
                        chars.extend(&pre);
                        let tail_from = if cm.kind == "tail" || cm.kind == "var" || k % 2 == 1 { w } else { usize::MAX };
                        chars.extend(params(&mut r, len, tail_from, a));
                        if cm.kind == "var" && k % 3 != 0 { chars.push('$' as u32); }
                        chars.extend(s2c(ENDINGS[e]));
                        chars.extend(s2c("!|c0A|x"));          // probe: the lexer is usable again
                        out.push(RCase { id: format!("t-{}-{}-a{}-e{}", cm.name(), len, a, e), chars, cls: vec![] });
                        k += 1;
                    }
                }
            }
        }
    }
}

/// coordinates on and around the edges of the 640 x 350 canvas (and of the 80 x 43 text grid): every field of every
/// fixed-width command takes each of them while the others stay at a base value, plus seeded random combinations
const EDGE: &[&str] = &["00", "01", "0Z", "27", "HR", "HS", "HT", "9P", "9Q", "9R", "ZZ", "A0"];

fn edge_cases(cmds: &[Cmd], thorough: bool, seed: u64, out: &mut Vec<RCase>) {
    let mut r = rng(seed, 515_151);
    for cm in cmds {
        if cm.kind != "fix" && cm.kind != "tail" || cm.w < 2 { continue; }
        let nf = cm.w / 2;                       // fields are two digits wide with few exceptions: good enough for edge values
        let mut combos: Vec<Vec<&str>> = vec![];
        for base in ["00", "50"] {
            for f in 0..nf {
                for e in EDGE {
                    let mut v = vec![base; nf];
                    v[f] = e;
                    combos.push(v);
                }
            }
        }
        for _ in 0..(if thorough { 300 } else { 30 }) {
            combos.push((0..nf).map(|_| EDGE[r.gen_range(0..EDGE.len())]).collect());
        }
        for (k, v) in combos.iter().enumerate() {
            let mut chars = cm.prefix();
            chars.extend(s2c(&v.concat()));
            if cm.w % 2 == 1 { chars.push('0' as u32); }
            chars.extend(s2c(if cm.kind == "tail" { "txt|" } else { "|" }));
            out.push(RCase { id: format!("e-{}-{}", cm.name(), k), chars, cls: vec![] });
        }
    }
}

fn tlc_cases(paths: &[Vec<u32>], thorough: bool, out: &mut Vec<RCase>) {
    for (k, p) in paths.iter().enumerate() {
        let ends: Vec<usize> = if thorough { vec![0, 1, 2, 3] } else { vec![k % 4] };
        for e in ends {
            let mut chars = p.clone();
            chars.extend(s2c(["|", "\r\n", "0|", "Z\n"][e]));
            chars.extend(s2c("!|c0A|"));
            out.push(RCase { id: format!("g-{k}-e{e}"), chars, cls: vec![] });
        }
    }
}

fn rip_token(r: &mut StdRng, cmds: &[Cmd], out: &mut Vec<u32>) {
    match r.gen_range(0..32) {
        0 => out.extend(s2c("plain text ")),
        1 => out.extend(s2c("\r\n")),
        2 => out.extend(s2c("\x1b[2J\x1b[1;1H")),
        3 => out.extend(s2c("!|*")),
        4 => out.extend(s2c("\\\r\n")),
        5 => out.extend(s2c(["\x1b[!", "\x1b[0!", "\x1b[1!", "\x1b[2!", "\x1b[2!", "\x1b[5!", "\x1b[;1!", "\x1b[12!", "\x1b[1;2!"][r.gen_range(0..9)])),
        6 => out.extend(s2c("!|w0000000000|")),                    // suspend / resume text
        7 => out.extend(s2c(["!|#", "|#\r\n", "!|1", "!|9", "!!|", "!x", "!\r\n|", "|", "!"][r.gen_range(0..9)])),
        8 => out.extend(s2c(["\x1b[0;1;33m", "\x1b[N", "\x1b[|", "\x1b7", "\x1b8", "\x1bc", "\x1b!", "\x1b\x1b[m", "\x1b[1?", "\x1b[5n", "\x1b[3X"][r.gen_range(0..11)])),
        9 => { for _ in 0..r.gen_range(1..12) { out.push(pick(r, b"abc XYZ019!|\\$#*")); } }
        _ => {
            if r.gen_bool(0.6) || out.is_empty() { out.push('!' as u32); }
            let cm = &cmds[r.gen_range(0..cmds.len())];
            out.extend(&cm.prefix()[1..]);
            let w = match cm.kind.as_str() { "pal" => 32, "poly" => 2 + 4 * r.gen_range(0..4), "var" => 0, _ => cm.w };
            let n = match r.gen_range(0..8) { 0 => 0, 1 => r.gen_range(0..5), 2..=4 => w, 5 => w + r.gen_range(0..4), 6 => r.gen_range(0..(w + 3)), _ => r.gen_range(0..45) };
            let a = match r.gen_range(0..10) { 0 => 0, 1 => 2, 2 => 3, 3 | 4 => 4, 5 => 6, 6 => 7, 7 => 8, _ => 5 };
            let tail_from = if cm.kind == "tail" || cm.kind == "var" { w } else { usize::MAX };
            if cm.kind == "poly" && r.gen_bool(0.7) {
                let np = r.gen_range(0..4usize);
                out.extend(s2c(&format!("0{np}")));
                out.extend(params(r, n.saturating_sub(2), tail_from, a));
            } else {
                out.extend(params(r, n, tail_from, a));
            }
            if cm.kind == "tail" && r.gen_bool(0.4) { out.extend(s2c(["some text$DATE$", "icon.icn<>Label<>cmd^m", "file.rip", " a b ", "x\\|y"][r.gen_range(0..5)])); }
            if cm.kind == "var" && r.gen_bool(0.7) { out.extend(s2c("RIPVER$")); }
            if r.gen_bool(0.7) { out.extend(s2c(if r.gen_bool(0.5) { "|" } else { "\r\n" })); }
        }
    }
}

pub fn gen_case(seed: u64, k: u64, cmds: &[Cmd]) -> RCase {
    let mut r = rng(seed, 7_700_000 + k);
    let mut chars = vec![];
    let n = match r.gen_range(0..10) { 0 => r.gen_range(1..3), 1..=6 => r.gen_range(3..20), _ => r.gen_range(20..60) };
    for _ in 0..n {
        rip_token(&mut r, cmds, &mut chars);
    }
    let wild = k % 25 == 24;
    if wild {
        // outside the modelled part of the fallback parser (DCS, OSC, APS, CSI sub-states): property layer only from there on
        for _ in 0..r.gen_range(1..6) {
            let at = r.gen_range(0..=chars.len());
            let ins: Vec<u32> = match r.gen_range(0..5) {
                0 => s2c("\x1bP0;1|17/ab\x1b\\"),
                1 => s2c("\x1b]8;;x\x1b\\"),
                2 => s2c("\x1b_app\x1b\\"),
                3 => s2c("\x1b[?25l"),
                _ => (0..r.gen_range(1..30)).map(|_| r.gen_range(0..256u32)).collect(),
            };
            for (j, c) in ins.into_iter().enumerate() { chars.insert(at + j, c); }
        }
    }
    let mut cls = vec![];
    if r.gen_bool(0.15) && !chars.is_empty() {
        for _ in 0..r.gen_range(1..3) { cls.push(r.gen_range(0..chars.len())); }
    }
    RCase { id: format!("r{seed}-{k}{}", if wild { "-wild" } else { "" }), chars, cls }
}

pub fn rip(a: &Args) {
    let out_path = a.str("out", "work/C20/rip-trace.ndjson");
    let progress = a.str("progress", &format!("{out_path}.progress"));
    let start = a.usize("start", 0);
    let seed = a.u64("seed", 0);
    let thorough = a.str("tier", "quick") == "thorough";
    let limit_s = a.u64("case-timeout", 10);
    let shard = a.usize("shard", 0);
    let shards = a.usize("shards", 1).max(1);
    crate::term::set_mem_limit(a.u64("mem-mb", 2048));
    if a.has("hex") {
        // replay one stream given as hex bytes (reproducers): events to --out, last line to stderr
        let h = a.str("hex", "");
        let chars: Vec<u32> = (0..h.len() / 2).filter_map(|i| u32::from_str_radix(&h[2 * i..2 * i + 2], 16).ok()).collect();
        let mut out = Out::create(&out_path);
        run_case(&RCase { id: "hex".into(), chars, cls: vec![] }, &mut out);
        out.flush();
        if let Some(l) = std::fs::read_to_string(&out_path).unwrap_or_default().lines().last() { eprintln!("{l}"); }
        return;
    }
    let gen_path = a.str("gen", "gen/rip_cases.ndjson");
    let rows: Vec<Value> = std::fs::read_to_string(&gen_path).map(|t| t.lines().filter_map(|l| serde_json::from_str(l).ok()).collect()).unwrap_or_default();
    if rows.is_empty() {
        eprintln!("rip: no generated cases in {gen_path}");
        std::process::exit(2);
    }
    let mut cmds = vec![];
    let mut paths: Vec<Vec<u32>> = vec![];
    for row in &rows {
        if row["t"] == "cmd" {
            cmds.push(Cmd { lvl: row["lvl"].as_u64().unwrap_or(0) as u32, ch: row["ch"].as_u64().unwrap_or(0) as u32, kind: row["kind"].as_str().unwrap_or("").to_string(), w: row["w"].as_u64().unwrap_or(0) as usize });
        } else if let Some(s) = row["s"].as_array() {
            paths.push(s.iter().map(|x| x.as_u64().unwrap_or(0) as u32).collect());
        }
    }
    paths.sort();
    paths.dedup();
    let mut all = vec![];
    tlc_cases(&paths, thorough, &mut all);
    let n_tlc = all.len();
    table_cases(&cmds, thorough, seed, &mut all);
    edge_cases(&cmds, thorough, seed, &mut all);
    let n_table = all.len() - n_tlc;
    let n_rand = a.u64("random", if thorough { 60000 } else { 4000 });
    for k in 0..n_rand {
        all.push(gen_case(seed, k, &cmds));
    }
    let mine: Vec<&RCase> = all.iter().enumerate().filter(|(i, _)| i % shards == shard).map(|(_, c)| c).collect();
    if a.has("dump-case") {
        if let Some(c) = mine.get(a.usize("dump-case", 0)) {
            println!("{}", json!({"ext":"rip","seed":c.id,"mut":"","bytes":c.chars}));
        }
        return;
    }
    let case_no = Arc::new(AtomicU64::new(u64::MAX));
    {
        let case_no = case_no.clone();
        let progress = progress.clone();
        std::thread::spawn(move || {
            let mut last = (u64::MAX, Instant::now());
            loop {
                std::thread::sleep(Duration::from_millis(100));
                let c = case_no.load(Ordering::Relaxed);
                if c == u64::MAX { continue; }
                if c != last.0 { last = (c, Instant::now()); continue; }
                if last.1.elapsed() > Duration::from_secs(limit_s) {
                    let _ = std::fs::write(&progress, format!("{c} timeout\n"));
                    unsafe { libc::_exit(3) };
                }
            }
        });
    }
    let mut out = if start > 0 { Out::append(&out_path) } else { Out::create(&out_path) };
    for (i, c) in mine.iter().enumerate().skip(start) {
        let _ = std::fs::write(&progress, format!("{i} running\n"));
        case_no.store(i as u64, Ordering::Relaxed);
        run_case(c, &mut out);
        out.flush();
    }
    case_no.store(u64::MAX, Ordering::Relaxed);
    let _ = std::fs::write(&progress, format!("{} done\n", mine.len()));
    eprintln!("rip: shard {shard}/{shards}: {} cases ({n_tlc} TLC strings, {n_table} table, {n_rand} random in all shards), {} events", mine.len() - start.min(mine.len()), out.n);
}
