//! C20 / IGS lexer driver: feeds IGS command streams character by character into `igs::Parser` built over a RECORDING
//! executor and writes, after every character and after every `get_next_action` poll, the lexer snapshot
//! (cfg(icy_engine_verif) hook), the result of the call and the commands handed to the executor.
//! Model: spec/gfx/Igs.tla, validation: spec/gfx/Trace_Igs.tla.
//!
//! events
//!   reset {case, exec: "stub"|"real", n, polls}
//!   ch    {i, c, r: ok|err|panic, act, ms, us, ex: [exec..], sn: snapshot, [site]}
//!   poll  {i, k, r: some|none|panic, act, ms, us, ex: [exec..], sn: snapshot, [site]}
//!   exec     = {cmd: Debug name, ps: [i32..], s: [code points], xr: ok|err|panic, xact, xms}
//!   snapshot = {st, cmd, nums, str, ls, lc, lp, gdc: 0|1, loop: [] | [i, from, to, step, delay]}
use crate::util::{guard, panic_site, rng, Args, Out};
use icy_engine::igs::{self, CommandExecutor, VerifIgsCommands};
use icy_engine::{Buffer, BufferParser, CallbackAction, Caret, EngineResult, Size};
use rand::rngs::StdRng;
use rand::Rng;
use serde_json::{json, Value};
use std::sync::atomic::{AtomicU64, Ordering};
use std::sync::{Arc, Mutex};
use std::time::{Duration, Instant};

// ------------------------------------------------------------------------------------------------ recording executor
type Log = Arc<Mutex<Vec<Value>>>;

struct RecExec {
    log: Log,
    inner: Option<igs::DrawExecutor>,
}

fn act_name(a: &CallbackAction) -> (&'static str, u32) {
    match a {
        CallbackAction::Update => ("Update", 0),
        CallbackAction::NoUpdate => ("NoUpdate", 0),
        CallbackAction::Beep => ("Beep", 0),
        CallbackAction::SendString(_) => ("SendString", 0),
        CallbackAction::PlayMusic(_) => ("PlayMusic", 0),
        CallbackAction::ChangeBaudEmulation(_) => ("ChangeBaudEmulation", 0),
        CallbackAction::ResizeTerminal(_, _) => ("ResizeTerminal", 0),
        CallbackAction::Pause(ms) => ("Pause", (*ms).min(i32::MAX as u32)),
    }
}

fn codes(s: &str) -> Vec<u32> {
    s.chars().map(|c| c as u32).collect()
}

/// The stub executor's law (the model takes the executor's answer from the trace, so this only has to be varied):
/// first parameter mod 100 = 11 -> Err, 10 -> Pause(first parameter), 19 -> Update, 91 -> Beep, otherwise NoUpdate.
fn stub_result(ps: &[i32]) -> EngineResult<CallbackAction> {
    match ps.first().map(|p| p.rem_euclid(100)) {
        Some(11) => Err(std::io::Error::other("stub executor: refused").into()),
        Some(10) => Ok(CallbackAction::Pause(ps[0].unsigned_abs())),
        Some(19) => Ok(CallbackAction::Update),
        Some(91) => Ok(CallbackAction::Beep),
        _ => Ok(CallbackAction::NoUpdate),
    }
}

impl CommandExecutor for RecExec {
    fn get_resolution(&self) -> Size {
        match &self.inner {
            Some(d) => d.get_resolution(),
            None => Size::new(320, 200),
        }
    }
    fn get_picture_data(&mut self) -> Option<(Size, Vec<u8>)> {
        None
    }
    fn execute_command(&mut self, buf: &mut Buffer, caret: &mut Caret, command: VerifIgsCommands, parameters: &[i32], string_parameter: &str) -> EngineResult<CallbackAction> {
        let idx = {
            let mut l = self.log.lock().unwrap_or_else(|e| e.into_inner());
            l.push(json!({"cmd": format!("{command:?}"), "ps": parameters, "s": codes(string_parameter), "xr": "panic", "xact": "", "xms": 0}));
            l.len() - 1
        };
        let res = match &mut self.inner {
            Some(d) => d.execute_command(buf, caret, command, parameters, string_parameter),
            None => stub_result(parameters),
        };
        let mut l = self.log.lock().unwrap_or_else(|e| e.into_inner());
        match &res {
            Ok(a) => {
                let (n, ms) = act_name(a);
                l[idx]["xr"] = json!("ok");
                l[idx]["xact"] = json!(n);
                l[idx]["xms"] = json!(ms);
            }
            Err(_) => l[idx]["xr"] = json!("err"),
        }
        res
    }
}

// ------------------------------------------------------------------------------------------------ one case
pub struct ICase {
    pub id: String,
    pub real: bool,
    pub polls: usize,
    pub bytes: Vec<u8>,
}

fn snapshot(p: &igs::Parser) -> Value {
    let s = p.verif_snapshot();
    let lp: Vec<Vec<Vec<u32>>> = s.loop_parameters.iter().map(|g| g.iter().map(|x| codes(x)).collect()).collect();
    let lo: Vec<i32> = match s.cur_loop {
        Some((i, f, t, st, d)) => vec![i, f, t, st, d],
        None => vec![],
    };
    json!({"st": s.state, "cmd": s.command.unwrap_or_default(), "nums": s.parsed_numbers, "str": codes(&s.parsed_string), "ls": s.loop_state,
           "lc": s.loop_cmd as u32, "lp": lp, "gdc": s.got_double_colon as u8, "loop": lo})
}

fn take(log: &Log) -> Vec<Value> {
    std::mem::take(&mut *log.lock().unwrap_or_else(|e| e.into_inner()))
}

pub fn run_case(c: &ICase, out: &mut Vec<Value>) {
    let mut buf = Buffer::create((80, 25));
    buf.is_terminal_buffer = true;
    let mut caret = Caret::default();
    let log: Log = Arc::new(Mutex::new(Vec::new()));
    let exe: Arc<Mutex<Box<dyn CommandExecutor>>> =
        Arc::new(Mutex::new(Box::new(RecExec { log: log.clone(), inner: if c.real { Some(igs::DrawExecutor::default()) } else { None } })));
    let mut p = igs::Parser::new(exe);
    out.push(json!({"ev":"reset","case":c.id,"exec":if c.real {"real"} else {"stub"},"n":c.bytes.len(),"polls":c.polls}));
    for (i, &b) in c.bytes.iter().enumerate() {
        let t0 = Instant::now();
        let res = guard(|| p.print_char(&mut buf, 0, &mut caret, b as char));
        let us = t0.elapsed().as_micros() as u64;
        let ex = take(&log);
        match res {
            Ok(r) => {
                let (rk, act, ms) = match &r {
                    Ok(a) => { let (n, ms) = act_name(a); ("ok", n, ms) }
                    Err(_) => ("err", "", 0),
                };
                out.push(json!({"ev":"ch","i":i,"c":b,"r":rk,"act":act,"ms":ms,"us":us,"ex":ex,"sn":snapshot(&p)}));
            }
            Err(pi) => {
                out.push(json!({"ev":"ch","i":i,"c":b,"r":"panic","act":"","ms":0,"us":us,"ex":ex,"sn":{},"site":panic_site(&pi)}));
                return;
            }
        }
        // the caller's side of the loop command: pending iterations are fetched by polling get_next_action.
        // A poll without a pending loop is a no-op and only recorded when it unexpectedly does something.
        let mut pending = out.last().map(|e| e["sn"]["loop"].as_array().map(|a| !a.is_empty()).unwrap_or(false)).unwrap_or(false);
        for k in 0..c.polls.max(1) {
            let t0 = Instant::now();
            let res = guard(|| p.get_next_action(&mut buf, &mut caret, 0));
            let us = t0.elapsed().as_micros() as u64;
            let ex = take(&log);
            match res {
                Ok(r) => {
                    let (rk, act, ms) = match &r {
                        Some(a) => { let (n, ms) = act_name(a); ("some", n, ms) }
                        None => ("none", "", 0),
                    };
                    let quiet = r.is_none() && ex.is_empty();
                    let sn = snapshot(&p);
                    let now_pending = sn["loop"].as_array().map(|a| !a.is_empty()).unwrap_or(false);
                    if pending || !quiet || now_pending {
                        out.push(json!({"ev":"poll","i":i,"k":k,"r":rk,"act":act,"ms":ms,"us":us,"ex":ex,"sn":sn}));
                    }
                    pending = now_pending;
                    if quiet { break; }
                }
                Err(pi) => {
                    out.push(json!({"ev":"poll","i":i,"k":k,"r":"panic","act":"","ms":0,"us":us,"ex":ex,"sn":{},"site":panic_site(&pi)}));
                    return;
                }
            }
        }
    }
}

// ------------------------------------------------------------------------------------------------ generators
/// every letter of IgsCommands::from_char, the loop command, and letters that are no command
const CMDS: &[u8] = b"AbBCDEFfgGqHIJkKLzMnNOPQRsStTUVWYZ<?cdilmprvwX";
const NON_CMDS: &[u8] = b"ahx0-;\x1b ";

const VALS: &[&str] = &["-50", "0", "1", "99999", "2147483647", "9999999999", "10", "11", "19", "91", "319", "", " 7", "2147483599", "214748364"];

fn push_params(b: &mut Vec<u8>, ps: &[&str]) {
    for (k, p) in ps.iter().enumerate() {
        if k > 0 { b.push(b','); }
        b.extend(p.as_bytes());
    }
}

/// every command letter x 0..=maxn parameters over the value classes, with the usual terminators
fn table_cases(thorough: bool, seed: u64, out: &mut Vec<ICase>) {
    let mut r = rng(seed, 4242);
    let maxn = if thorough { 14 } else { 8 };
    let mut letters: Vec<u8> = CMDS.to_vec();
    letters.push(b'&');
    letters.extend(NON_CMDS);
    for &l in &letters {
        for n in 0..=maxn {
            let variants = if thorough { 6 } else { 3 };
            for v in 0..variants {
                let ps: Vec<&str> = (0..n).map(|k| if v == 0 { VALS[(n + k) % 6] } else { VALS[r.gen_range(0..VALS.len())] }).collect();
                let mut b = b"G#".to_vec();
                b.push(l);
                if v % 2 == 0 { b.push(b'>'); }
                push_params(&mut b, &ps);
                if l == b'W' { b.extend(b",txt"); b.push(if v == 1 { b'\n' } else { b'@' }); }
                b.extend(match (n + v) % 5 { 0 => b":".as_slice(), 1 => b":\r\n", 2 => b":\n", 3 => b"\n", _ => b":L 1,2:\nh" });
                out.push(ICase { id: format!("tab-{}-{n}-{v}", l as char), real: false, polls: 4, bytes: b });
            }
        }
    }
}

/// loop headers over boundary (from, to, step, delay) tuples x each loopable command x parameter shapes
fn loop_cases(thorough: bool, seed: u64, out: &mut Vec<ICase>) {
    let mut r = rng(seed, 777);
    let edge: &[&str] = &["0", "1", "2", "3", "7", "10", "99999", "2147483647", "9999999999", "", "2147483599", "2147483598"];
    let mut tuples: Vec<[&str; 4]> = vec![];
    // systematic small ones: from/to in 0..3, step 0..2, delay 0/1
    for f in 0..4 { for t in 0..4 { for s in 0..3 { tuples.push([edge[f], edge[t], edge[s], if (f + t + s) % 3 == 0 { "1" } else { "0" }]); } } }
    // boundary ones
    for &f in edge { for &t in edge {
        for &s in &["0", "1", "3", "99999", "2147483647", "9999999999"] {
            if thorough || r.gen_range(0..4) == 0 { tuples.push([f, t, s, ["0", "2", "65535", "99999", "9999999999"][r.gen_range(0..5)]]); }
        }
    } }
    let shapes: &[&str] = &["4,x,0,x,199:", "4,x,y,+1,-2:", "3,!5,+x,-y:", "8,0,100,x,0:0,100,x,199:", "0,", "0:", "2,1,_\r\n2:", "1,:", "2,+,-:", "3,+2147483647,--2147483648,!-2147483648:",
                            "2,x1, y:", "4,1,2:3,4:", "6,1,2:3,4:5,6:", "1,99999999999:", "2,++5,+-5:", "1,x,", "3,10,11,19:11,0,0:19,0,0:", "1,11:"];
    let mut k = 0usize;
    for tp in &tuples {
        let n_cmd = if thorough { 3 } else { 1 };
        for _ in 0..n_cmd {
            let cmd: u8 = match r.gen_range(0..12) { 0 => b'&', 1 => b'h', 2 => b' ', _ => CMDS[r.gen_range(0..CMDS.len())] };
            let sep = [b',', b',', b',', b'|', b'@'][r.gen_range(0..5)];
            let shape = shapes[k % shapes.len()];
            let mut b = b"G#&".to_vec();
            if k % 3 == 0 { b.push(b'>'); }
            push_params(&mut b, &tp[..]);
            b.push(b',');
            if k % 11 == 5 { b.push(b'>'); b.push(b'C'); }        // chain-gang style command string: the last letter wins
            b.push(cmd);
            b.push(sep);
            b.extend(shape.as_bytes());
            b.extend(match k % 4 { 0 => b"".as_slice(), 1 => b"\r\n", 2 => b"L 1,2,3,4:", _ => b"&0,2,1,0,L,0,:" });
            out.push(ICase { id: format!("loop-{k}"), real: false, polls: if k % 7 == 0 { 3 } else { 8 }, bytes: b });
            k += 1;
        }
    }
}

fn rnd_num(r: &mut StdRng) -> String {
    match r.gen_range(0..14) {
        0 => "-50".into(), 1 => "0".into(), 2 => "1".into(), 3 => "99999".into(), 4 => r.gen_range(0..320).to_string(), 5 => r.gen_range(0..16).to_string(),
        6 => r.gen_range(-50..400).to_string(), 7 => "".into(), 8 => "319".into(), 9 => "10".into(), 10 => "11".into(), 11 => "x".into(), _ => r.gen_range(0..4).to_string(),
    }
}

fn rnd_loop_param(r: &mut StdRng) -> String {
    let pre = ["", "", "", "+", "-", "!", "+-", "--"][r.gen_range(0..8)];
    let body = match r.gen_range(0..8) { 0 => "x".to_string(), 1 => "y".to_string(), 2 => "".to_string(), 3 => r.gen_range(0..700).to_string(), 4 => "99999".to_string(), 5 => " 3".to_string(), _ => r.gen_range(0..20).to_string() };
    format!("{pre}{body}")
}

/// IGS-like stream; `wild` = also values and separators outside the property's parameter domain
fn rnd_stream(r: &mut StdRng, wild: bool) -> Vec<u8> {
    let mut b = vec![];
    let n = match r.gen_range(0..10) { 0 => r.gen_range(1..3), 1..=7 => r.gen_range(2..9), _ => r.gen_range(9..30) };
    for _ in 0..n {
        match r.gen_range(0..24) {
            0 => b.extend(b"text\r\n"),
            1 => b.extend(b"\x1b[2J"),
            2 => b.extend(b"\r\n"),
            3 => b.extend(b"G"),
            4 if wild => { for _ in 0..r.gen_range(1..12) { const W: &[u8] = b"G#&LW,:_@xy+-!|\r\n 019>h"; b.push(W[r.gen_range(0..W.len())]); } }
            5..=9 => {
                // loop
                if r.gen_bool(0.7) || b.is_empty() { b.extend(b"G#"); }
                b.push(b'&');
                if r.gen_bool(0.5) { b.push(b'>'); }
                let (f, t) = (r.gen_range(0..40), r.gen_range(0..40));
                let step = if wild && r.gen_range(0..12) == 0 { 0 } else { r.gen_range(1..6) };
                let delay = if r.gen_bool(0.7) { 0 } else { r.gen_range(0..4) };
                b.extend(format!("{f},{t},{step},{delay},").as_bytes());
                if r.gen_bool(0.1) { b.extend(b">C"); }
                b.push(if wild && r.gen_bool(0.1) { b"&h "[r.gen_range(0..3)] } else { CMDS[r.gen_range(0..CMDS.len())] });
                b.push([b',', b',', b'|', b'@'][r.gen_range(0..4)]);
                let groups = r.gen_range(1..4);
                let per = r.gen_range(0..5);
                let count = if r.gen_bool(0.8) { groups * per } else { r.gen_range(0..12) };
                b.extend(count.to_string().as_bytes());
                b.push(b',');
                for g in 0..groups {
                    for k in 0..per {
                        if k > 0 { b.push(b','); }
                        if r.gen_bool(0.05) { b.extend(b"_\r\n"); }
                        b.extend(rnd_loop_param(r).as_bytes());
                    }
                    b.push(if g + 1 == groups && r.gen_bool(0.3) { b',' } else { b':' });
                }
            }
            _ => {
                if r.gen_bool(0.6) || b.is_empty() { b.extend(b"G#"); }
                let c = if wild && r.gen_bool(0.05) { NON_CMDS[r.gen_range(0..NON_CMDS.len())] } else { CMDS[r.gen_range(0..CMDS.len())] };
                b.push(c);
                if r.gen_bool(0.7) { b.push(if r.gen_bool(0.8) { b'>' } else { b' ' }); }
                let n = r.gen_range(0..9);
                for k in 0..n {
                    if k > 0 { b.push(b','); }
                    if r.gen_bool(0.04) { b.extend(b"_\r\n"); }
                    let v = rnd_num(r);
                    if !wild && (v.starts_with('-') || v == "x") { b.extend(b"5"); } else { b.extend(v.as_bytes()); }
                }
                if c == b'W' { b.extend(b",some text"); b.push(if r.gen_bool(0.85) { b'@' } else { b'\n' }); }
                else { b.push(if r.gen_bool(0.9) { b':' } else { b',' }); }
                if r.gen_bool(0.25) { b.extend(if r.gen_bool(0.5) { b"\r\n".as_slice() } else { b"\n" }); }
            }
        }
    }
    if wild && r.gen_bool(0.1) { for _ in 0..r.gen_range(1..40) { b.push(r.gen()); } }
    b
}

fn all_cases(thorough: bool, seed: u64, gen: &[Value]) -> Vec<ICase> {
    let mut out = vec![];
    // 1. TLC-generated strings (one shortest per lexer class); each continued by a closing tail so that pending work shows
    for (k, g) in gen.iter().enumerate() {
        if let Some(h) = g["hist"].as_array() {
            let bytes: Vec<u8> = h.iter().map(|x| x.as_u64().unwrap_or(0) as u8).collect();
            for (t, tail) in [b"".as_slice(), b":\n", b",1:x:"].iter().enumerate() {
                let mut b = bytes.clone();
                b.extend(*tail);
                out.push(ICase { id: format!("tlc-{k}-{t}"), real: false, polls: 6, bytes: b });
            }
        }
    }
    table_cases(thorough, seed, &mut out);
    loop_cases(thorough, seed, &mut out);
    let n_rand = if thorough { 24000 } else { 1600 };
    for k in 0..n_rand {
        let mut r = rng(seed, 1_000_000 + k);
        let real = k % 2 == 0;
        // the real DrawExecutor only sees streams inside the property's parameter domain
        let bytes = rnd_stream(&mut r, !real);
        out.push(ICase { id: format!("rnd-{seed}-{k}"), real, polls: [2, 8, 30][(k % 3) as usize], bytes });
    }
    out
}

pub fn igs(a: &Args) {
    let out_path = a.str("out", "work/C20-igs/trace.ndjson");
    let progress = a.str("progress", &format!("{out_path}.progress"));
    let start = a.usize("start", 0);
    let seed = a.u64("seed", 0);
    let thorough = a.str("tier", "quick") == "thorough";
    let limit_s = a.u64("case-timeout", 10);
    let shard = a.usize("shard", 0);
    let shards = a.usize("shards", 1).max(1);
    crate::term::set_mem_limit(a.u64("mem-mb", 2048));
    if a.has("one") {
        // debugging aid: --one "G#L 1,2:" [--real] [--polls n] prints the events of a single stream to stderr
        let c = ICase { id: "one".into(), real: a.has("real"), polls: a.usize("polls", 8), bytes: a.str("one", "").replace("\\n", "\n").replace("\\r", "\r").into_bytes() };
        let mut evs = vec![];
        run_case(&c, &mut evs);
        for e in &evs { eprintln!("{e}"); }
        return;
    }
    let gen: Vec<Value> = std::fs::read_to_string(a.str("gen", "gen/igs.ndjson")).map(|t| t.lines().filter_map(|l| serde_json::from_str(l).ok()).collect()).unwrap_or_default();
    let all = all_cases(thorough, seed, &gen);
    let mine: Vec<&ICase> = all.iter().enumerate().filter(|(i, _)| i % shards == shard).map(|(_, c)| c).collect();
    if a.has("dump-case") {
        if let Some(c) = mine.get(a.usize("dump-case", 0)) {
            println!("{}", json!({"ext":"igs","seed":c.id,"mut":if c.real {"real"} else {"stub"},"bytes":c.bytes}));
        }
        return;
    }
    let case_no = Arc::new(AtomicU64::new(u64::MAX));
    {
        let case_no = case_no.clone();
        let progress = progress.clone();
        std::thread::spawn(move || {
            let mut last = (u64::MAX, Instant::now());
            loop {
                std::thread::sleep(Duration::from_millis(100));
                let c = case_no.load(Ordering::Relaxed);
                if c == u64::MAX { continue; }
                if c != last.0 { last = (c, Instant::now()); continue; }
                if last.1.elapsed() > Duration::from_secs(limit_s) {
                    let _ = std::fs::write(&progress, format!("{c} timeout\n"));
                    unsafe { libc::_exit(3) };
                }
            }
        });
    }
    let mut out = if start > 0 { Out::append(&out_path) } else { Out::create(&out_path) };
    for (i, c) in mine.iter().enumerate().skip(start) {
        let _ = std::fs::write(&progress, format!("{i} running\n"));
        case_no.store(i as u64, Ordering::Relaxed);
        let mut evs = vec![];
        run_case(c, &mut evs);
        for e in &evs { out.ev(e); }
        out.flush();
    }
    case_no.store(u64::MAX, Ordering::Relaxed);
    let _ = std::fs::write(&progress, format!("{} done\n", mine.len()));
    eprintln!("igs: shard {shard}/{shards}: {} cases, {} events", mine.len() - start.min(mine.len()), out.n);
}
