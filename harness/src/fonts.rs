//! Driver for C17: bitmap and TheDraw fonts survive every encoding the engine uses.
//!
//! Bitmap fonts: one event per (font, carrier)
//!   {"ev":"font","case":..,"carrier":"psf2|u8|rawfile|dcs|xbin|xbin2|adf|idf|icy","cls":..,"idx":0|1,"slot":..,
//!    "r":"ok|save-err|save-panic|load-err|load-panic|missing","site":..,
//!    "in":{"w","h","n","g":[n*h glyph bytes],"ng":glyphs.len()},"bytes":[carrier bytes],"out":{same}|{}}
//! carrier bytes: the PSF2 file, the raw glyph data, the code points of the DCS string, the whole XBin/ADF/IDF file,
//! the decoded FONT_<slot> chunk payload of the IcyDraw file.
//! TheDraw fonts: one event per file
//!   {"ev":"tdf","case":..,"cls":..,"mode":"single|bundle","r":"ok|save-err|save-panic|load-err|load-panic|re-err","site":..,
//!    "in":[{"name":[..],"type":0..2,"sp":..,"glyphs":[[] | [w,h,[data]] x 94]}..],"bytes":[file],
//!    "out":[{"name","type","sp","def":[0|1 x 94]}..],"re":[re-encoding of the fonts read back]}
//! (TheDrawFont keeps its glyph table private: the glyph data of the fonts read back is observed through their
//! re-encoding, which the specification's own decoder Tdf.tla reads.)
use crate::icy::{digest, unwrap_chunks};
use crate::util::{guard, panic_site, rng, Args, Out};
use icy_engine::{ansi, editor::EditState, get_crc32, TextPane, AttributedChar, BitFont, Buffer, BufferParser, Caret, FontGlyph, FontType, IceMode, SaveOptions, TextAttribute, TheDrawFont, FONT_NAMES, SAUCE_FONT_NAMES};
use rand::rngs::StdRng;
use rand::Rng;
use serde_json::{json, Value};
use std::path::Path;

fn font_value(f: &BitFont) -> Value {
    let mut g: Vec<u8> = Vec::new();
    for c in 0..f.length.max(0) as u32 {
        if let Some(gl) = char::from_u32(c).and_then(|c| f.get_glyph(c)) {
            g.extend_from_slice(&gl.data);
        }
    }
    json!({"w": f.size.width, "h": f.size.height, "n": f.length, "g": g, "ng": f.glyphs.len()})
}

fn random_font(r: &mut StdRng, name: &str, h: u8, n: usize) -> BitFont {
    let mut data: Vec<u8> = (0..n * h as usize).map(|_| match r.gen_range(0..8) { 0 => 0, 1 => 255, _ => r.gen() }).collect();
    // keep the raw data clear of the PSF magics (the sniffing loaders are probed separately, class "psf?-magic")
    if data.len() >= 2 && data[0] == 0x36 && data[1] == 0x04 { data[0] = 0x37; }
    if data.len() >= 4 && data[0..4] == [0x72, 0xb5, 0x4a, 0x86] { data[0] = 0x73; }
    let mut f = BitFont::create_8(name, 8, h, &data);
    f.length = n as i32;
    f
}

struct Res {
    r: &'static str,
    site: String,
    bytes: Vec<Value>,
    out: Value,
}

fn fail(r: &'static str, site: String, bytes: Vec<Value>) -> Res { Res { r, site, bytes, out: json!({}) } }
fn bytes_value(b: &[u8]) -> Vec<Value> { b.iter().map(|x| json!(*x)).collect() }

/// Save with `save`, record the carrier bytes, load with `load`.
fn through<S, L>(save: S, load: L) -> Res
where S: FnOnce() -> Result<Vec<Value>, String>, L: FnOnce() -> Result<Option<BitFont>, String> {
    let bytes = match guard(save) {
        Ok(Ok(b)) => b,
        Ok(Err(e)) => return fail("save-err", e, vec![]),
        Err(p) => return fail("save-panic", panic_site(&p), vec![]),
    };
    match guard(load) {
        Ok(Ok(Some(f))) => Res { r: "ok", site: String::new(), bytes, out: font_value(&f) },
        Ok(Ok(None)) => fail("missing", "no font at the expected slot after loading".into(), bytes),
        Ok(Err(e)) => fail("load-err", e, bytes),
        Err(p) => fail("load-panic", panic_site(&p), bytes),
    }
}

fn picture(size: (i32, i32), fonts: &[(usize, &BitFont)], ice: bool) -> Buffer {
    let mut buf = Buffer::new(size);
    if ice { buf.ice_mode = IceMode::Ice; }
    for (slot, f) in fonts { buf.set_font(*slot, (*f).clone()); }
    for (i, (slot, _)) in fonts.iter().enumerate() {
        let mut a = TextAttribute::new(7, 0);
        a.set_font_page(*slot);
        buf.layers[0].set_char((i as i32, 0), AttributedChar::new((b'A' + i as u8) as char, a));
    }
    buf
}

static WITH_SAUCE: std::sync::atomic::AtomicBool = std::sync::atomic::AtomicBool::new(false);

/// One (font, carrier) experiment; `other` is the second font of the XBin 512-character mode.
fn run_font(out: &mut Out, case: &str, cls: &str, carrier: &str, f: &BitFont, other: Option<&BitFont>, slot: usize, variant: u64) {
    run_font_after(out, case, cls, carrier, f, other, slot, variant, None)
}

/// `prior`: a font that already occupies the slot when `f` arrives (dcs: uploaded first through the same parser; xbin / adf / idf /
/// icy: set first on the buffer that is saved).
#[allow(clippy::too_many_arguments)]
fn run_font_after(out: &mut Out, case: &str, cls: &str, carrier: &str, f: &BitFont, other: Option<&BitFont>, slot: usize, variant: u64, prior: Option<&BitFont>) {
    let h = f.size.height as u8;
    let input = font_value(f);
    let lossless = variant % 2 == 0;
    let mut opts = SaveOptions::default();
    opts.lossles_output = lossless;
    // the file may carry a SAUCE record that NAMES a font (family 3c switches it on)
    opts.save_sauce = WITH_SAUCE.load(std::sync::atomic::Ordering::Relaxed);
    let mut idx = 0;
    let cell: std::cell::RefCell<Vec<u8>> = std::cell::RefCell::new(Vec::new());
    let res = match carrier {
        "psf2" => through(|| f.to_psf2_bytes().map(|b| { *cell.borrow_mut() = b.clone(); bytes_value(&b) }).map_err(|e| e.to_string()),
                          || BitFont::from_bytes("back", &cell.borrow()).map(Some).map_err(|e| e.to_string())),
        "u8" => through(|| { let b = f.convert_to_u8_data(); *cell.borrow_mut() = b.clone(); Ok(bytes_value(&b)) },
                        || Ok(Some(if variant % 2 == 0 { BitFont::create_8("back", 8, h, &cell.borrow()) } else { BitFont::from_basic(8, h, &cell.borrow()) }))),
        "rawfile" => through(|| { let b = f.convert_to_u8_data(); *cell.borrow_mut() = b.clone(); Ok(bytes_value(&b)) },
                             || BitFont::from_bytes("back.f16", &cell.borrow()).map(Some).map_err(|e| e.to_string())),
        "dcs" => {
            let seq = std::cell::RefCell::new(String::new());
            through(|| { let s = f.encode_as_ansi(slot); let v = s.chars().map(|c| json!(c as u32)).collect(); *seq.borrow_mut() = s; Ok(v) },
                    || {
                        let mut buf = Buffer::create((80, 25));
                        buf.is_terminal_buffer = true;
                        let mut caret = Caret::default();
                        let mut parser = ansi::Parser::default();
                        if let Some(p) = prior {
                            for ch in p.encode_as_ansi(slot).chars() {
                                parser.print_char(&mut buf, 0, &mut caret, ch).map_err(|e| e.to_string())?;
                            }
                        }
                        for ch in seq.borrow().chars() {
                            parser.print_char(&mut buf, 0, &mut caret, ch).map_err(|e| e.to_string())?;
                        }
                        // a font is uploaded to be used: in two of three variants the slot is then selected (CSI 0 ; slot SP D) and
                        // text is printed with it before the slot is read back
                        if variant % 3 != 0 {
                            for ch in format!("\x1b[0;{slot} DAb").chars() {
                                let _ = parser.print_char(&mut buf, 0, &mut caret, ch);
                            }
                        }
                        Ok(buf.get_font(slot).filter(|x| x.name.starts_with("custom font")).cloned())
                    })
        }
        "xbin" | "adf" | "idf" => {
            let ext = match carrier { "xbin" => "xb", x => x };
            let size = if carrier == "adf" { (80, 1) } else { (variant as i32 % 3 + 1, 1) };
            let fonts: Vec<(usize, &BitFont)> = prior.map(|p| (0, p)).into_iter().chain([(0, f)]).collect();
            let mut buf = picture(size, &fonts, carrier != "xbin" || variant % 4 < 2);
            // the container around the font: formats that end with (or place the font next to) the palette get palettes whose last
            // 6-bit value is also a marker byte (0x1A = DOS end of file, 0x00, 0x3F)
            // (cycled by a counter of its own: `variant` is correlated with the carrier)
            static PAL_CLASS: std::sync::atomic::AtomicU64 = std::sync::atomic::AtomicU64::new(0);
            match PAL_CLASS.fetch_add(1, std::sync::atomic::Ordering::Relaxed) % 5 {
                3 => buf.palette.set_color(15, icy_engine::Color::new(105, 105, 105)),       // 6-bit 26 = 0x1A
                4 => buf.palette.set_color(15, icy_engine::Color::new(0, 0, 0)),
                _ => {}
            }
            through(|| buf.to_bytes(ext, &opts).map(|b| { *cell.borrow_mut() = b.clone(); bytes_value(&b) }).map_err(|e| e.to_string()),
                    || Buffer::from_bytes(Path::new(&format!("case.{ext}")), true, &cell.borrow()).map(|b| b.get_font(0).cloned()).map_err(|e| e.to_string()))
        }
        "xbin2" => {
            let o = other.expect("second font");
            let buf = picture((2, 1), &[(0, f), (1, o)], variant % 4 < 2);
            idx = (variant % 2) as usize;
            through(|| buf.to_bytes("xb", &opts).map(|b| { *cell.borrow_mut() = b.clone(); bytes_value(&b) }).map_err(|e| e.to_string()),
                    || Buffer::from_bytes(Path::new("case.xb"), true, &cell.borrow()).map(|b| b.get_font(idx).cloned()).map_err(|e| e.to_string()))
        }
        _ => { // "icy"
            let mut buf = Buffer::new((2, 1));
            if let Some(p) = prior { buf.set_font(slot, p.clone()); }
            buf.set_font(slot, f.clone());
            let mut o = SaveOptions::default();
            o.lossles_output = true;
            through(|| {
                        let file = buf.to_bytes("icy", &o).map_err(|e| e.to_string())?;
                        let chunks = unwrap_chunks(&file)?;
                        // a writer may leave a chunk out when the loader reconstructs the font anyway: the verdict is what is loaded back,
                        // the missing chunk only shows as model drift (carrier-bytes-vs-font-written)
                        let payload = chunks.into_iter().find(|(k, _)| *k == format!("FONT_{slot}")).map(|(_, d)| d).unwrap_or_default();
                        *cell.borrow_mut() = file;
                        Ok(bytes_value(&payload))
                    },
                    || Buffer::from_bytes(Path::new("case.icy"), true, &cell.borrow()).map(|b| b.get_font(slot).cloned()).map_err(|e| e.to_string()))
        }
    };
    let input = if carrier == "xbin2" && idx == 1 { font_value(other.unwrap()) } else { input };
    let h = digest(&json!([carrier, idx, input]));
    out.ev(&json!({"ev":"font","case":case,"carrier":carrier,"cls":cls,"idx":idx,"slot":slot,"r":res.r,"site":res.site,"in":input,"bytes":res.bytes,"out":res.out}));
    out.ev(&json!({"ev":"sum","kind":"font","case":case,"h":h,"ok":(res.r == "ok") as u8,"n":1}));
}

fn supports(carrier: &str, h: i32, n: i32) -> bool {
    match carrier { "psf2" | "icy" => true, "adf" | "idf" => h == 16 && n == 256, _ => n == 256 }
}

const CARRIERS: [&str; 9] = ["psf2", "u8", "rawfile", "dcs", "xbin", "xbin2", "adf", "idf", "icy"];

// ------------------------------------------------------------------------------------------------ TheDraw fonts
fn tdf_type(t: i64) -> FontType { match t { 0 => FontType::Outline, 1 => FontType::Block, _ => FontType::Color } }
fn tdf_type_no(t: FontType) -> u8 { match t { FontType::Outline => 0, FontType::Block => 1, FontType::Color => 2 } }

fn glyph_data(r: &mut StdRng, t: i64, w: usize, h: usize, full: bool) -> Vec<u8> {
    let mut d = Vec::new();
    let trailing_cr = r.gen_bool(0.3);
    for y in 0..h {
        let len = if full { w } else { r.gen_range(0..=w) };
        for _ in 0..len {
            match t {
                0 => d.push(*b"@ ABCDEFGHIJKLMNOPQ&".get(r.gen_range(0..20)).unwrap()),
                1 => d.push(match r.gen_range(0..4) { 0 => b' ', 1 => 0xF7, 2 => 0xDB, _ => { let mut c: u8 = r.gen_range(1..=255); if c == 13 { c = 14; } c } }),
                _ => {
                    let mut c: u8 = match r.gen_range(0..3) { 0 => b' ', 1 => 0xDB, _ => r.gen_range(1..=255) };
                    if c == 13 { c = 14; }
                    d.push(c);
                    d.push(match r.gen_range(0..6) { 0 => 0, 1 => 13, 2 => 255, _ => r.gen() }); // the attribute may be ANY byte, also 00 and 0D
                }
            }
        }
        if y + 1 < h || trailing_cr { d.push(13); }
    }
    d
}

struct TdfIn { name: String, t: i64, sp: i32, glyphs: Vec<Option<(usize, usize, Vec<u8>)>> }

fn build_tdf(f: &TdfIn) -> TheDrawFont {
    let mut font = TheDrawFont::new(f.name.clone(), tdf_type(f.t), f.sp);
    for (k, g) in f.glyphs.iter().enumerate() {
        if let Some((w, h, d)) = g {
            font.set_glyph((33 + k as u8) as char, FontGlyph { size: (*w, *h).into(), data: d.clone() });
        }
    }
    font
}

fn tdf_in_value(f: &TdfIn) -> Value {
    json!({"name": f.name.as_bytes(), "type": f.t, "sp": f.sp,
           "glyphs": f.glyphs.iter().map(|g| match g { Some((w, h, d)) => json!([w, h, d]), None => json!([]) }).collect::<Vec<_>>()})
}

fn tdf_name(r: &mut StdRng, n: usize) -> String {
    (0..n).map(|_| match r.gen_range(0..6) { 0 => ' ', 1 => '~', _ => r.gen_range(0x21u8..0x7F) as char }).collect()
}

fn small_tdf(r: &mut StdRng) -> TdfIn {
    let t = r.gen_range(0..3);
    let mut glyphs = vec![None; 94];
    for _ in 0..r.gen_range(0..4) {
        let (w, h) = (r.gen_range(1..=4), r.gen_range(1..=3));
        glyphs[r.gen_range(0..94)] = Some((w, h, glyph_data(r, t, w, h, false)));
    }
    let nl = r.gen_range(0..=12);
    TdfIn { name: tdf_name(r, nl), t, sp: r.gen_range(0..=40), glyphs }
}


/// What the engine's own renderer draws for every defined glyph: [] (undefined) or [width, rows, crcHi, crcLo] with the CRC-32
/// over the drawn cells (position, character, colours, attribute bits).  A second, independent view of the glyph data.
fn render_digest(f: &TheDrawFont) -> Value {
    Value::Array((33u8..=126).map(|code| {
        if !f.has_char(code) { return json!([]); }
        let mut ed = EditState::default();
        match guard(|| f.render(&mut ed, code)) {
            Ok(Some(size)) => {
                let mut bytes: Vec<u8> = Vec::new();
                let layer = &ed.get_buffer().layers[0];
                for y in 0..layer.get_height() { for x in 0..layer.get_width() {
                    let ch = layer.get_char((x, y));
                    if ch.is_visible() {
                        bytes.extend([x as u8, y as u8]);
                        bytes.extend((ch.ch as u32).to_le_bytes());
                        bytes.extend(ch.attribute.get_foreground().to_le_bytes());
                        bytes.extend(ch.attribute.get_background().to_le_bytes());
                        bytes.extend(ch.attribute.attr.to_le_bytes());
                    }
                } }
                let crc = get_crc32(&bytes);
                json!([size.width, size.height, crc >> 16, crc & 0xFFFF])
            }
            Ok(None) => json!([0, 0, 0, 0]),
            Err(_) => json!([-1, -1, 0, 0]),
        }
    }).collect())
}

fn run_tdf(out: &mut Out, case: &str, cls: &str, fonts: &[TdfIn], single: bool) {
    let input: Vec<Value> = fonts.iter().map(tdf_in_value).collect();
    // one digest per font of the file: distinct fonts are what is counted
    let hs: Vec<String> = input.iter().map(digest).collect();
    let ok = run_tdf_inner(out, case, cls, fonts, single, input);
    out.ev(&json!({"ev":"sum","kind":"tdf","case":case,"h":hs,"ok":ok as u8,"n":fonts.len()}));
}

fn run_tdf_inner(out: &mut Out, case: &str, cls: &str, fonts: &[TdfIn], single: bool, input: Vec<Value>) -> bool {
    let built: Vec<TheDrawFont> = fonts.iter().map(build_tdf).collect();
    let mode = if single { "single" } else { "bundle" };
    let mut ev = json!({"ev":"tdf","case":case,"cls":cls,"mode":mode,"r":"ok","site":"","in":input,"bytes":[],"out":[],"re":[],"rin":built.iter().map(render_digest).collect::<Vec<_>>(),"rout":[]});
    let saved = guard(|| if single { built[0].as_tdf_bytes() } else { TheDrawFont::create_font_bundle(&built) }.map_err(|e| e.to_string()));
    let bytes = match saved {
        Ok(Ok(b)) => b,
        Ok(Err(e)) => { ev["r"] = json!("save-err"); ev["site"] = json!(e); out.ev(&ev); return false; }
        Err(p) => { ev["r"] = json!("save-panic"); ev["site"] = json!(panic_site(&p)); out.ev(&ev); return false; }
    };
    ev["bytes"] = json!(bytes);
    let back = match guard(|| TheDrawFont::from_tdf_bytes(&bytes).map_err(|e| e.to_string())) {
        Ok(Ok(f)) => f,
        Ok(Err(e)) => { ev["r"] = json!("load-err"); ev["site"] = json!(e); out.ev(&ev); return false; }
        Err(p) => { ev["r"] = json!("load-panic"); ev["site"] = json!(panic_site(&p)); out.ev(&ev); return false; }
    };
    ev["out"] = Value::Array(back.iter().map(|f| json!({"name": f.name.as_bytes(), "type": tdf_type_no(f.font_type), "sp": f.spaces,
        "def": (33u8..=126).map(|c| f.has_char(c) as u8).collect::<Vec<_>>()})).collect());
    ev["rout"] = Value::Array(back.iter().map(render_digest).collect());
    match guard(|| if back.is_empty() { Ok(vec![]) } else if single && back.len() == 1 { back[0].as_tdf_bytes() } else { TheDrawFont::create_font_bundle(&back) }.map_err(|e| e.to_string())) {
        Ok(Ok(b)) => { ev["re"] = json!(b); out.ev(&ev); return true; }
        Ok(Err(e)) => { ev["r"] = json!("re-err"); ev["site"] = json!(e); }
        Err(p) => { ev["r"] = json!("re-err"); ev["site"] = json!(panic_site(&p)); }
    }
    out.ev(&ev);
    false
}

pub fn c17(a: &Args) {
    let mut out = Out::create(&a.str("out", "work/C17/trace.ndjson"));
    let seed = a.u64("seed", 0);
    let thorough = a.str("tier", "quick") == "thorough";
    let only = a.str("only", "");
    let read = |path: String| -> Vec<Value> { std::fs::read_to_string(path).map(|t| t.lines().filter_map(|l| serde_json::from_str(l).ok()).collect()).unwrap_or_default() };
    let font_cases = read(a.str("gen", "gen/fonts.ndjson"));
    let tdf_cases = read(a.str("gentdf", "gen/tdf.ndjson"));
    let mut n_font = 0usize;
    let mut n_tdf = 0usize;

    // (1) TLC case table heights x glyph counts x carriers, glyph bytes seeded random
    if only.is_empty() || only == "table" {
        let mut r = rng(seed, 17);
        let mut idx: Vec<usize> = (0..font_cases.len()).collect();
        // deterministic order of the table (TLC prints in its own order): sort by (carrier, n, h)
        idx.sort_by_key(|i| (font_cases[*i]["c"].as_str().unwrap_or("").to_string(), font_cases[*i]["n"].as_i64().unwrap_or(0), font_cases[*i]["h"].as_i64().unwrap_or(0)));
        for (k, i) in idx.iter().enumerate() {
            let c = &font_cases[*i];
            let (carrier, h, n) = (c["c"].as_str().unwrap_or("psf2"), c["h"].as_i64().unwrap_or(16), c["n"].as_i64().unwrap_or(256));
            // quick tier: boundary heights always, the rest sampled by seed (every second case)
            let boundary = h == 1 || h == 32 || h == 16;
            if !thorough && !boundary && (k as u64 + seed) % 2 != 0 { continue; }
            let f = random_font(&mut r, &format!("font {h}"), h as u8, n as usize);
            let o = random_font(&mut r, "second", h as u8, 256);
            let slot = if carrier == "icy" || carrier == "dcs" { [0usize, 1, 42, 255, 256, 300][r.gen_range(0..6)] } else { 0 };
            run_font(&mut out, &format!("table-{carrier}-{h}-{n}"), "random", carrier, &f, Some(&o), slot, k as u64 + seed);
            n_font += 1;
        }
    }

    // (2) every built-in font page and every SAUCE font, through one carrier each in the quick tier (rotating with the seed), all carriers in the thorough tier
    if only.is_empty() || only == "builtin" {
        let mut named: Vec<(String, BitFont)> = Vec::new();
        for p in 0..=42usize {
            match guard(|| BitFont::from_ansi_font_page(p).map_err(|e| e.to_string())) {
                Ok(Ok(f)) => named.push((format!("page-{p}"), f)),
                Ok(Err(e)) => out.ev(&json!({"ev":"font","case":format!("page-{p}"),"carrier":"builtin","cls":"builtin","idx":0,"slot":p,"r":"load-err","site":e,"in":{},"bytes":[],"out":{}})),
                Err(pi) => out.ev(&json!({"ev":"font","case":format!("page-{p}"),"carrier":"builtin","cls":"builtin","idx":0,"slot":p,"r":"load-panic","site":panic_site(&pi),"in":{},"bytes":[],"out":{}})),
            }
        }
        for name in SAUCE_FONT_NAMES {
            if let Ok(Ok(f)) = guard(|| BitFont::from_sauce_name(name).map_err(|e| e.to_string())) { named.push((format!("sauce-{name}"), f)); }
        }
        let _ = FONT_NAMES;
        for (k, (label, f)) in named.iter().enumerate() {
            let usable: Vec<&str> = CARRIERS.iter().copied().filter(|c| *c != "xbin2" && *c != "rawfile" && supports(c, f.size.height, f.length)).collect();
            let chosen: Vec<&str> = if thorough { usable.clone() } else { vec![usable[(k + seed as usize) % usable.len()]] };
            for carrier in chosen {
                run_font(&mut out, label, "builtin", carrier, f, None, if carrier == "icy" || carrier == "dcs" { 1 + k % 40 } else { 0 }, k as u64 + seed);
                n_font += 1;
            }
        }
    }

    // (2b) "the default font" as its own input class for the IcyDraw carrier (a writer may treat it specially): the built-in
    //      page 0 in several slots, a font that only carries the default font's NAME (other glyphs), the default glyphs
    //      under another name, and every built-in page through IcyDraw in a slot other than its own
    if only.is_empty() || only == "builtin" {
        if let Ok(Ok(def)) = guard(|| BitFont::from_ansi_font_page(0).map_err(|e| e.to_string())) {
            for slot in [0usize, 1, 5, 42, 300] {
                run_font(&mut out, &format!("default-slot-{slot}"), "default-font", "icy", &def, None, slot, slot as u64);
                n_font += 1;
            }
            let mut r = rng(seed, 19);
            let data: Vec<u8> = (0..256 * 16).map(|_| r.gen()).collect();
            let mut imp = BitFont::create_8(def.name.clone(), 8, 16, &data);
            imp.name = def.name.clone();
            for slot in [0usize, 3] {
                run_font(&mut out, &format!("default-name-other-glyphs-{slot}"), "default-font", "icy", &imp, None, slot, slot as u64);
                n_font += 1;
            }
            // names beyond ASCII (string records are length-prefixed: bytes and characters differ) and of extreme length
            for (ni, nm) in ["f\u{f6}nt", "\u{df}", "\u{65e5}\u{672c}\u{8a9e}\u{30d5}\u{30a9}\u{30f3}\u{30c8}", "a\u{2068}b\u{2069}", "", "x"].iter().enumerate() {
                let mut f = imp.clone();
                f.name = (*nm).to_string();
                run_font(&mut out, &format!("name-class-{ni}"), "font-name", "icy", &f, None, [0usize, 2, 300][ni % 3], ni as u64);
                n_font += 1;
            }
            let long = "n".repeat(300);
            let mut f = imp.clone();
            f.name = long;
            run_font(&mut out, "name-class-long", "font-name", "icy", &f, None, 1, 0);
            n_font += 1;
            let mut renamed = def.clone();
            renamed.name = "my copy".to_string();
            for slot in [0usize, 2] {
                run_font(&mut out, &format!("default-glyphs-other-name-{slot}"), "default-font", "icy", &renamed, None, slot, slot as u64);
                n_font += 1;
            }
        }
    }

    // (3) raw glyph data that begins with a PSF magic, for every glyph height class (loaders that sniff file types must not
    //     mistake raw glyph data of ANY size for a PSF file), through every carrier that takes the height
    if only.is_empty() || only == "magic" {
        let mut r = rng(seed, 18);
        for (cls, prefix) in [("psf1-magic", vec![0x36u8, 0x04, 0x00, 0x10]), ("psf2-magic", vec![0x72, 0xb5, 0x4a, 0x86]), ("psf1-magic-mode2", vec![0x36u8, 0x04, 0x02, 0x08])] {
            for h in [1u8, 2, 7, 8, 9, 13, 14, 15, 16, 17, 19, 20, 31, 32] {
                let mut data: Vec<u8> = (0..256 * h as usize).map(|_| r.gen()).collect();
                let n = prefix.len().min(data.len());
                data[..n].copy_from_slice(&prefix[..n]);
                let f = BitFont::create_8("magic", 8, h, &data);
                for carrier in ["dcs", "icy", "psf2", "u8"] {
                    if !supports(carrier, h as i32, 256) { continue; }
                    run_font(&mut out, &format!("{carrier}-{cls}-h{h}"), cls, carrier, &f, None, if carrier == "dcs" || carrier == "icy" { 5 } else { 0 }, h as u64);
                    n_font += 1;
                }
            }
        }
    }

    // (3b) slot history: the font arrives in a slot that another font already occupies (a host uploads fonts one after another;
    //      an editor replaces the font of a slot).  Classes of (prior, font) pairs: blank fonts of different heights, the same
    //      glyph bytes behind leading blank glyphs at another height, a built-in font with one glyph edited in place.
    if only.is_empty() || only == "history" {
        let mut r = rng(seed, 19);
        let rand8 = random_font(&mut r, "rand8", 8, 256);
        let rand16 = random_font(&mut r, "rand16", 16, 256);
        let zp16 = { let mut d = vec![0u8; 128 * 16]; d.extend(rand8.convert_to_u8_data()); BitFont::create_8("zero-prefixed", 8, 16, &d) };
        let mut edited = BitFont::default();
        if let Some(g) = edited.get_glyph_mut('A') { g.data[0] ^= 0xFF; }
        // the checksum is a cache the caller must refresh after editing glyphs in place (writers recognise built-in fonts by it)
        edited.calculate_checksum();
        let fonts: Vec<(&str, BitFont)> = vec![
            ("blank8", BitFont::create_8("blank8", 8, 8, &vec![0u8; 256 * 8])), ("blank14", BitFont::create_8("blank14", 8, 14, &vec![0u8; 256 * 14])),
            ("blank16", BitFont::create_8("blank16", 8, 16, &vec![0u8; 256 * 16])), ("rand8", rand8), ("rand16", rand16), ("zero-prefixed16", zp16),
            ("default", BitFont::default()), ("edited-default", edited), ("edited-default-stale", { let mut e = BitFont::default(); if let Some(g) = e.get_glyph_mut('B') { g.data[3] ^= 0x3C; } e })];
        for (pn, p) in &fonts {
            for (fname, f) in &fonts {
                if pn == fname { continue; }
                for carrier in ["dcs", "icy", "xbin", "adf", "idf"] {
                    if !supports(carrier, f.size.height, 256) { continue; }
                    let slot = if carrier == "dcs" || carrier == "icy" { [0usize, 1, 42][r.gen_range(0..3)] } else { 0 };
                    run_font_after(&mut out, &format!("{carrier}-{fname}-after-{pn}"), "history", carrier, f, None, slot, 0, Some(p));
                    n_font += 1;
                }
            }
        }
    }

    // (3c) two sources for one font: the file embeds the glyphs AND its SAUCE record names a font. Fonts that carry the name of a
    //      SAUCE font (every 8x16 one) but edited glyphs, through the carriers that can hold a SAUCE record, with and without it:
    //      what is embedded wins
    if only.is_empty() || only == "named" {
        for (ni, name) in icy_engine::SAUCE_FONT_NAMES.iter().enumerate() {
            let Ok(mut f) = BitFont::from_sauce_name(name) else { continue };
            if f.size.height != 16 || f.length != 256 { continue; }
            if let Some(g) = f.get_glyph_mut('A') { g.data[1] ^= 0x66; g.data[14] ^= 0x18; }
            f.calculate_checksum();
            for carrier in ["adf", "xbin", "idf", "icy"] {
                for sauce in [true, false] {
                    WITH_SAUCE.store(sauce, std::sync::atomic::Ordering::Relaxed);
                    run_font(&mut out, &format!("{carrier}-edited-{}-sauce{}", name.replace(' ', "_"), sauce as u8), "named", carrier, &f, None, 0, ni as u64);
                    n_font += 1;
                }
            }
        }
        WITH_SAUCE.store(false, std::sync::atomic::Ordering::Relaxed);
    }

    // (4) TheDraw fonts: TLC case table type x defined subset x size x name length x bundle size
    if only.is_empty() || only == "tdf" {
        let mut idx: Vec<usize> = (0..tdf_cases.len()).collect();
        idx.sort_by_key(|i| { let c = &tdf_cases[*i]; (c["type"].as_i64(), c["def"].as_str().map(str::to_string), c["w"].as_i64(), c["h"].as_i64(), c["bundle"].as_i64(), c["name"].as_i64()) });
        for (k, i) in idx.iter().enumerate() {
            let c = &tdf_cases[*i];
            let gv = |key: &str| c[key].as_i64().unwrap_or(0);
            let (t, w, h, nl, bundle) = (gv("type"), gv("w") as usize, gv("h") as usize, gv("name") as usize, gv("bundle") as usize);
            let def = c["def"].as_str().unwrap_or("none");
            let heavy = def == "all" && w == 30 && h == 12;
            let take = if thorough { !heavy || nl % 4 == 0 } else if heavy { (k as u64 + seed) % 13 == 0 } else { (k as u64 + seed) % 6 == 0 };
            if !take { continue; }
            let mut r = rng(seed, 40_000 + k as u64);
            let mut glyphs = vec![None; 94];
            let which: Vec<usize> = match def { "none" => vec![], "first" => vec![0], "last" => vec![93], _ => (0..94).collect() };
            for g in which { glyphs[g] = Some((w, h, glyph_data(&mut r, t, w, h, true))); }
            let primary = TdfIn { name: tdf_name(&mut r, nl), t, sp: [0, 1, 40][k % 3], glyphs };
            let mut fonts = vec![primary];
            while fonts.len() < bundle { fonts.push(small_tdf(&mut r)); }
            let pos = if bundle > 1 { r.gen_range(0..bundle) } else { 0 };
            fonts.swap(0, pos); // the case font sits at a random position of the bundle
            let single = bundle == 1 && k % 2 == 0;
            let block: usize = fonts[pos].glyphs.iter().flatten().map(|(_, _, d)| d.len() + 3).sum();
            run_tdf(&mut out, &format!("tdf-{t}-{def}-{w}x{h}-n{nl}-b{bundle}"), if block > 65535 { "block>64K" } else { "table" }, &fonts, single);
            n_tdf += 1;
        }
        // the 64 KiB boundary of the glyph block (16-bit block size and offsets): colour fonts with 85..=93 full-size glyphs,
        // the last glyph narrowed so that the block ends a few bytes below / at / above 65535
        for n in 85..=93usize {
            for last_w in [30usize, 20, 9, 1] {
                let mut r = rng(seed, 70_000 + (n * 31 + last_w) as u64);
                let mut glyphs = vec![None; 94];
                for g in 0..n { let w = if g + 1 == n { last_w } else { 30 }; glyphs[g] = Some((w, 12, glyph_data(&mut r, 2, w, 12, true))); }
                let f = TdfIn { name: format!("big{n}"), t: 2, sp: 1, glyphs };
                let block: usize = f.glyphs.iter().flatten().map(|(_, _, d)| d.len() + 3).sum();
                if !(block + 1500 > 65535 && block < 65535 + 1500) { continue; }
                run_tdf(&mut out, &format!("tdf-64k-n{n}-w{last_w}"), if block > 65535 { "block>64K" } else { "block-near-64K" }, &[f], n % 2 == 0);
                n_tdf += 1;
            }
        }
        // seeded random fonts: ragged rows, random subsets
        for d in 0..(if thorough { 200 } else { 40 }) {
            let mut r = rng(seed, 60_000 + d);
            let nf = match r.gen_range(0..4) { 0 => 1, 1 => 34, _ => r.gen_range(1..=6) };
            let fonts: Vec<TdfIn> = (0..nf).map(|_| {
                let t = r.gen_range(0..3);
                let mut glyphs = vec![None; 94];
                let cnt = match r.gen_range(0..4) { 0 => 0, 1 => 94, _ => r.gen_range(0..20) };
                for _ in 0..cnt {
                    let (w, h) = (r.gen_range(1..=if nf > 6 { 6 } else { 30 }), r.gen_range(1..=if nf > 6 { 4 } else { 12 }));
                    let k = r.gen_range(0..94);
                    let at = if cnt == 94 { (0..94).find(|i| glyphs[*i].is_none()).unwrap_or(k) } else { k };
                    glyphs[at] = Some((w, h, glyph_data(&mut r, t, w, h, false)));
                }
                let nl = r.gen_range(0..=12);
                TdfIn { name: tdf_name(&mut r, nl), t, sp: r.gen_range(0..=40), glyphs }
            }).collect();
            let block: usize = fonts.iter().map(|f| f.glyphs.iter().flatten().map(|(_, _, d)| d.len() + 3).sum::<usize>()).max().unwrap_or(0);
            run_tdf(&mut out, &format!("tdf-rnd-{seed}-{d}"), if block > 65535 { "block>64K" } else { "random" }, &fonts, nf == 1 && d % 2 == 0);
            n_tdf += 1;
        }
    }
    out.flush();
    eprintln!("c17: {n_font} bitmap font round trips, {n_tdf} TheDraw files, {} events ({} + {} TLC cases available)", out.n, font_cases.len(), tdf_cases.len());
}
