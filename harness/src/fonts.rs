//! (stub) driver module - see tools/HOWTO.md
use crate::util::Args;

pub fn c17(_a: &Args) {
    eprintln!("c17: driver not built yet");
    std::process::exit(2);
}
