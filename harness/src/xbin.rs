//! (stub) driver module - see tools/HOWTO.md
use crate::util::Args;

pub fn c06(_a: &Args) {
    eprintln!("c06: driver not built yet");
    std::process::exit(2);
}
