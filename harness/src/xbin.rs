//! C06 driver: XBin compression is transparent and conforms to the XBin specification.
//!
//! One `xb` event per buffer: source cells, the compressed and the uncompressed file as the engine wrote them
//! (header / length of the palette+font tables that were cut out / image bytes up to EOF), and the engine's own
//! decode of both files.  Everything is judged by spec/codec/Trace_XBin.tla.
//!
//! Cases: (1) the small-scope classes exported by TLC from Gen_XBin (gen/xbin.ndjson): every row of the class is
//! one row of some buffer (rows are packed 200 per buffer); (2) seeded random buffers 1..=200 x 1..=30.
use crate::util::{guard, msg_class, panic_site, rng, Args, Out};
use icy_engine::{AttributedChar, BitFont, Buffer, IceMode, SaveOptions, TextAttribute, TextPane};
use rand::Rng;
use serde_json::{json, Value};
use std::path::Path;

pub fn pack(ch: u32, fg: u32, bg: u32, bl: u32, pg: u32) -> u32 {
    ch + 256 * fg + 4096 * bg + 65536 * bl + 131072 * pg
}

/// Engine cell -> packed code (same layout as `pack`, + 262144*bold + 524288*invisible); anything that does not fit
/// the layout becomes a code >= 2^24 that can never equal a source code.
pub fn pack_cell(c: AttributedChar) -> u32 {
    let ch = c.ch as u32;
    let fg = c.attribute.get_foreground();
    let bg = c.attribute.get_background();
    let pg = c.get_font_page() as u32;
    if ch > 255 || fg > 15 || bg > 15 || pg > 1 {
        return (1 << 24) + (ch & 0xFF) + ((fg & 0xF) << 8) + ((bg & 0xF) << 12) + ((pg as u32 & 0xF) << 16);
    }
    pack(ch, fg, bg, c.attribute.is_blinking() as u32, pg) + 262_144 * (c.attribute.is_bold() as u32) + 524_288 * (!c.is_visible() as u32)
}

pub fn unpack_cell(code: u32) -> AttributedChar {
    let mut at = TextAttribute::new((code >> 8) & 15, (code >> 12) & 15);
    at.set_is_blinking((code >> 16) & 1 == 1);
    at.set_font_page(((code >> 17) & 1) as usize);
    AttributedChar::new(char::from_u32(code & 255).unwrap(), at)
}

pub fn cells_of(buf: &Buffer) -> Value {
    let (w, h) = (buf.get_width(), buf.get_height());
    let mut v = Vec::with_capacity((w.max(0) * h.max(0)) as usize);
    for y in 0..h {
        for x in 0..w {
            v.push(pack_cell(buf.get_char((x, y))));
        }
    }
    json!({"st":"ok","w":w,"h":h,"cells":v})
}

pub struct Case {
    pub k: &'static str,
    pub w: i32,
    pub h: i32,
    pub ice: bool,
    pub cells: Vec<u32>,
    pub sauce: bool,
    pub ml: bool,
}

fn second_font() -> BitFont {
    BitFont::from_ansi_font_page(42).unwrap()
}

pub fn build(case: &Case, font1: &BitFont) -> (Buffer, u32) {
    let mut buf = Buffer::new((case.w, case.h));
    buf.is_terminal_buffer = false;
    buf.ice_mode = if case.ice { IceMode::Ice } else { IceMode::Blink };
    let mut pages = [false; 2];
    for (i, &c) in case.cells.iter().enumerate() {
        let (x, y) = (i as i32 % case.w, i as i32 / case.w);
        pages[((c >> 17) & 1) as usize] = true;
        buf.layers[0].set_char((x, y), unpack_cell(c));
    }
    if pages[1] {
        buf.set_font(1, font1.clone());
    }
    (buf, pages[0] as u32 + pages[1] as u32)
}

/// Split a file the engine wrote into header / (cut) tables / image..EOF.  The cut length is re-derived by
/// Trace_XBin from the header (MidLen) and a disagreement is a tool error.
fn file_rec(res: Result<Result<Vec<u8>, String>, crate::util::PanicInfo>) -> (Value, Option<Vec<u8>>) {
    match res {
        Ok(Ok(bytes)) => {
            if bytes.len() < 11 {
                return (json!({"st":"ok","hdr":bytes,"mid":0,"img":[]}), Some(bytes));
            }
            let (fh, flags) = (bytes[9] as usize, bytes[10]);
            let mut mid = 0;
            if flags & 1 != 0 { mid += 48; }
            if flags & 2 != 0 { mid += fh * if flags & 16 != 0 { 512 } else { 256 }; }
            let mid = mid.min(bytes.len() - 11);
            (json!({"st":"ok","hdr":&bytes[..11],"mid":mid,"img":&bytes[11 + mid..]}), Some(bytes))
        }
        Ok(Err(e)) => (json!({"st":format!("err:{}", msg_class(&e)),"hdr":[],"mid":0,"img":[]}), None),
        Err(p) => (json!({"st":format!("panic:{}", panic_site(&p)),"hdr":[],"mid":0,"img":[]}), None),
    }
}

fn load_rec(bytes: &Option<Vec<u8>>) -> Value {
    let Some(bytes) = bytes else { return json!({"st":"nofile","w":0,"h":0,"cells":[]}) };
    match guard(|| Buffer::from_bytes(Path::new("c06.xb"), true, bytes).map_err(|e| e.to_string())) {
        Ok(Ok(b)) => cells_of(&b),
        Ok(Err(e)) => json!({"st":format!("err:{}", msg_class(&e)),"w":0,"h":0,"cells":[]}),
        Err(p) => json!({"st":format!("panic:{}", panic_site(&p)),"w":0,"h":0,"cells":[]}),
    }
}

struct Sink {
    outs: Vec<Out>,
    bytes: Vec<usize>,
    id: u64,
    font1: BitFont,
    rows: std::collections::BTreeMap<String, u64>,
}

impl Sink {
    fn emit(&mut self, case: &Case) {
        let (buf, nf) = build(case, &self.font1);
        let mut opts = SaveOptions::new();
        opts.lossles_output = true;
        opts.save_sauce = case.sauce;
        opts.compress = true;
        let (c, cb) = file_rec(guard(|| buf.to_bytes("xb", &opts).map_err(|e| e.to_string())));
        opts.compress = false;
        let (r, rb) = file_rec(guard(|| buf.to_bytes("xb", &opts).map_err(|e| e.to_string())));
        let dc = load_rec(&cb);
        let dr = load_rec(&rb);
        self.id += 1;
        let ev = json!({"ev":"xb","k":case.k,"id":self.id,"w":case.w,"h":case.h,"ice":case.ice as u8,"nf":nf,"sauce":case.sauce as u8,"ml":case.ml as u8,
                        "src":case.cells,"c":c,"r":r,"dc":dc,"dr":dr});
        let i = (0..self.outs.len()).min_by_key(|&i| self.bytes[i]).unwrap();
        self.bytes[i] += case.cells.len() * 40 + 200;
        self.outs[i].ev(&ev);
        // the DEFAULT save path (lossles_output = false: the colour optimiser runs before the writer): the picture may be normalised,
        // but compressed and uncompressed must still decode to the same cells (every fourth buffer)
        if self.id % 4 == 0 {
            let mut o = SaveOptions::new();
            o.save_sauce = case.sauce;
            o.compress = true;
            let (_, cb) = file_rec(guard(|| buf.to_bytes("xb", &o).map_err(|e| e.to_string())));
            o.compress = false;
            let (_, rb) = file_rec(guard(|| buf.to_bytes("xb", &o).map_err(|e| e.to_string())));
            let (dc, dr) = (load_rec(&cb), load_rec(&rb));
            self.outs[i].ev(&json!({"ev":"xbd","id":self.id,"k":case.k,"w":case.w,"h":case.h,"ice":case.ice as u8,"nf":nf,"dc":dc,"dr":dr}));
        }
        *self.rows.entry(format!("{}:nf{}:w{}", case.k, nf, case.w)).or_insert(0) += case.h as u64;
    }
}

/// restricted-growth strings of length w over at most `k` symbols (canonical representatives under renaming)
fn rg_strings(w: usize, k: u8) -> Vec<Vec<u8>> {
    fn rec(cur: &mut Vec<u8>, mx: u8, w: usize, k: u8, out: &mut Vec<Vec<u8>>) {
        if cur.len() == w { out.push(cur.clone()); return; }
        for s in 0..=(mx.min(k - 1)) {
            cur.push(s);
            rec(cur, if s == mx { mx + 1 } else { mx }, w, k, out);
            cur.pop();
        }
    }
    let mut out = vec![];
    rec(&mut vec![], 0, w, k, &mut out);
    out
}

/// Packs a stream of rows into buffers of at most `maxh` rows; a trailing one-row buffer is avoided so that a
/// buffer never consists of font page 1 alone.
struct Packer { k: &'static str, w: i32, maxh: usize, rows: Vec<u32>, nbuf: u64, ml_every: u64 }

impl Packer {
    fn push(&mut self, row: &[u32], sink: &mut Sink) {
        self.rows.extend_from_slice(row);
        if self.rows.len() >= (self.maxh + 1) * self.w as usize {
            // keep one row back so that the last buffer is never a single row
            let keep = self.rows.split_off(self.maxh * self.w as usize);
            self.flush_rows(sink);
            self.rows = keep;
        }
    }
    fn flush_rows(&mut self, sink: &mut Sink) {
        if self.rows.is_empty() { return; }
        let h = self.rows.len() / self.w as usize;
        let only_page1 = self.rows.iter().all(|c| (c >> 17) & 1 == 1);
        if only_page1 {
            // cannot happen with the enumeration orders used below (page is the fastest digit); keep the domain honest
            eprintln!("c06: skipped a buffer using only font page 1 ({} rows)", h);
            self.rows.clear();
            return;
        }
        self.nbuf += 1;
        let case = Case { k: self.k, w: self.w, h: h as i32, ice: self.nbuf % 2 == 0, cells: std::mem::take(&mut self.rows), sauce: false, ml: self.nbuf % self.ml_every == 1 % self.ml_every };
        sink.emit(&case);
    }
    fn finish(&mut self, sink: &mut Sink) {
        // at most maxh + 1 rows are pending
        let h = self.rows.len() / self.w as usize;
        if h > self.maxh {
            let keep = self.rows.split_off((h - 2) * self.w as usize); // last buffer gets two rows
            self.flush_rows(sink);
            self.rows = keep;
        }
        self.flush_rows(sink);
    }
}

struct Class { chars: Vec<u32>, attrs: Vec<[u32; 3]>, pages: Vec<u32> }

fn class_of(v: &Value) -> Class {
    let nums = |x: &Value| x.as_array().map(|a| a.iter().map(|n| n.as_u64().unwrap_or(0) as u32).collect::<Vec<u32>>()).unwrap_or_default();
    Class {
        chars: nums(&v["chars"]),
        attrs: v["attrs"].as_array().map(|a| a.iter().map(|t| { let n = nums(t); [n[0], n[1], n[2]] }).collect()).unwrap_or_default(),
        pages: nums(&v["pages"]),
    }
}

/// every row of width w over the class (page = fastest digit of the first cell), restricted to `pages`
fn enum_full(cl: &Class, pages: &[u32], w: usize, k: &'static str, sink: &mut Sink, maxh: usize, ml_every: u64) {
    let alpha: Vec<u32> = cl.chars.iter().flat_map(|&c| cl.attrs.iter().flat_map(move |a| pages.iter().map(move |&p| pack(c, a[0], a[1], a[2], p)))).collect();
    let n = alpha.len();
    let mut digits = vec![0usize; w];
    let mut p = Packer { k, w: w as i32, maxh, rows: vec![], nbuf: 0, ml_every };
    let mut row = vec![0u32; w];
    loop {
        for i in 0..w { row[i] = alpha[digits[i]]; }
        p.push(&row, sink);
        let mut i = 0;
        loop {
            if i == w { p.finish(sink); return; }
            digits[i] += 1;
            if digits[i] < n { break; }
            digits[i] = 0;
            i += 1;
        }
    }
}

/// canonical representatives under renaming of characters, attributes and font pages (restricted-growth strings in
/// each coordinate); `stride`/`phase` select every stride-th representative (seeded sample) when stride > 1
fn enum_canon(cl: &Class, pages: &[u32], w: usize, k: &'static str, sink: &mut Sink, maxh: usize, ml_every: u64, stride: u64, phase: u64) -> u64 {
    let rc = rg_strings(w, cl.chars.len() as u8);
    let ra = rg_strings(w, cl.attrs.len() as u8);
    let rp = rg_strings(w, pages.len() as u8);
    let mut p = Packer { k, w: w as i32, maxh, rows: vec![], nbuf: 0, ml_every };
    let mut row = vec![0u32; w];
    let mut idx = 0u64;
    let mut n = 0u64;
    for cs in &rc {
        for as_ in &ra {
            for ps in &rp {
                idx += 1;
                if stride > 1 && idx % stride != phase % stride { continue; }
                for i in 0..w {
                    let a = cl.attrs[as_[i] as usize];
                    row[i] = pack(cl.chars[cs[i] as usize], a[0], a[1], a[2], pages[ps[i] as usize]);
                }
                p.push(&row, sink);
                n += 1;
            }
        }
    }
    p.finish(sink);
    n
}

fn random_case(seed: u64, i: u64) -> Case {
    let mut r = rng(seed, 60_000 + i);
    let special = [63, 64, 65, 127, 128, 129];
    let w: i32 = match i % 4 { 0 => special[(i / 4) as usize % 6], 1 => r.gen_range(1..=200), 2 => r.gen_range(1..=12), _ => r.gen_range(60..=140) };
    let h: i32 = if r.gen_bool(0.3) { r.gen_range(1..=4) } else { r.gen_range(1..=30) };
    let ice = r.gen_bool(0.5);
    let two = r.gen_bool(0.5);
    let style = r.gen_range(0..5);
    let maxbg = if ice { 16 } else { 8 };
    let maxfg = if two { 8 } else { 16 };
    let rnd_cell = |r: &mut rand::rngs::StdRng| pack(r.gen_range(0..256), r.gen_range(0..maxfg), r.gen_range(0..maxbg), if ice { 0 } else { r.gen_range(0..2) }, if two { r.gen_range(0..2) } else { 0 });
    // small alphabet (long runs): a few characters x a few attributes x pages, chosen independently per coordinate
    let nch = r.gen_range(1..=4);
    let nat = r.gen_range(1..=3);
    let chars: Vec<u32> = (0..nch).map(|_| r.gen_range(0..256)).collect();
    let attrs: Vec<(u32, u32, u32)> = (0..nat).map(|_| (r.gen_range(0..maxfg), r.gen_range(0..maxbg), if ice { 0 } else { r.gen_range(0..2) })).collect();
    let keep = [0.5, 0.8, 0.95, 0.99][r.gen_range(0..4)];
    let mut cells = Vec::with_capacity((w * h) as usize);
    let (mut ci, mut ai, mut pi) = (0usize, 0usize, 0u32);
    for _ in 0..(w * h) {
        let c = match style {
            0 => rnd_cell(&mut r), // full byte range, no runs
            1 => { if r.gen_bool(0.9) && !cells.is_empty() { *cells.last().unwrap() } else { rnd_cell(&mut r) } } // full range with repeats
            _ => {
                // each coordinate keeps its value with probability `keep` (long character / attribute / full runs)
                if !r.gen_bool(keep) { ci = r.gen_range(0..nch); }
                if !r.gen_bool(keep) { ai = r.gen_range(0..nat); }
                if two && !r.gen_bool(keep) { pi = r.gen_range(0..2); }
                let a = attrs[ai];
                pack(chars[ci], a.0, a.1, a.2, pi)
            }
        };
        cells.push(c);
    }
    if two && cells.iter().all(|c| (c >> 17) & 1 == 1) {
        cells[0] &= !(1 << 17); // a buffer using only the second font is not a 512-character picture
    }
    Case { k: "rnd", w, h, ice, cells, sauce: i % 5 == 0, ml: (w as i64) * (w as i64) * (h as i64) <= 120_000 }
}

/// Rows that reach the 64-cell cap of a run: a run of `len` cells of each run type, followed by EVERY suffix of `s` cells over
/// 3 characters x 3 attributes (the run's own character / attribute and two others).  One buffer per 30 rows (the height bound of the property).
fn cap_cases(ice: bool) -> Vec<Case> {
    let chars = [65u32, 66, 219];
    let attrs = [(7u32, 0u32), (1, 2), (7, 4)];
    let sym = |ci: usize, ai: usize| pack(chars[ci], attrs[ai].0, attrs[ai].1, 0, 0);
    let mut res = vec![];
    for ty in 0..4 {
        for &len in &[63usize, 64, 65, 127, 128, 129] {
            for s in 0..=(if len < 100 { 3usize } else { 2 }) {
                let w = len + s;
                let mut rows: Vec<Vec<u32>> = vec![];
                for code in 0..9usize.pow(s as u32) {
                    let mut row: Vec<u32> = (0..len).map(|i| match ty { 0 => sym(0, 0), 1 => sym(0, i % 2), 2 => sym(i % 2, 0), _ => sym(i % 2, i % 2) }).collect();
                    let mut c = code;
                    for _ in 0..s { row.push(sym(c % 3, (c / 3) % 3)); c /= 9; }
                    rows.push(row);
                }
                for chunk in rows.chunks(30) {
                    res.push(Case { k: "rnd", w: w as i32, h: chunk.len() as i32, ice, cells: chunk.concat(), sauce: false, ml: false });
                }
            }
        }
    }
    res
}

/// `--case <replay.json>`: rebuild the buffer of one recorded event and run it again
fn replay_case(path: &str) -> Case {
    let text = std::fs::read_to_string(path).unwrap_or_else(|e| { eprintln!("c06: cannot read {path}: {e}"); std::process::exit(2) });
    let v: Value = serde_json::from_str(&text).unwrap_or(Value::Null);
    let e = if v["event"].is_object() { &v["event"] } else { &v };
    let k = match e["k"].as_str().unwrap_or("") { "exh3" => "exh3", "exh2" => "exh2", _ => "rnd" };
    Case { k, w: e["w"].as_i64().unwrap_or(1) as i32, h: e["h"].as_i64().unwrap_or(1) as i32, ice: e["ice"].as_u64().unwrap_or(0) == 1,
           cells: e["src"].as_array().map(|a| a.iter().map(|n| n.as_u64().unwrap_or(0) as u32).collect()).unwrap_or_default(),
           sauce: e["sauce"].as_u64().unwrap_or(0) == 1, ml: true }
}

pub fn c06(a: &Args) {
    let prefix = a.str("out", "work/C06/trace");
    let shards = a.usize("shards", 4).max(1);
    let seed = a.u64("seed", 0);
    if a.has("case") {
        let mut sink = Sink { outs: vec![Out::create(&format!("{prefix}-0.ndjson"))], bytes: vec![0], id: 0, font1: second_font(), rows: Default::default() };
        sink.emit(&replay_case(&a.str("case", "")));
        sink.outs[0].flush();
        return;
    }
    let thorough = a.str("tier", "quick") == "thorough";
    let full3 = a.usize("full3", if thorough { 5 } else { 4 });     // widths <= full3: every row of the 3x3x2 class
    let canon3 = a.usize("canon3", 7);                                // widths full3 < w <= canon3: canonical representatives
    let stride6 = a.u64("stride6", if thorough { 1 } else { 16 });    // sampling stride for the canonical rows of width 6
    let stride7 = a.u64("stride7", if thorough { 2 } else { 16 });    // ... and of width 7 (8.5 million representatives)
    let full2 = a.usize("full2", if thorough { 10 } else { 8 });
    let n_rnd = a.u64("random", if thorough { 2500 } else { 260 });
    let maxh = a.usize("rows-per-buffer", 200);
    let ml_every = a.u64("ml-every", 8);
    let mut sink = Sink {
        outs: (0..shards).map(|i| Out::create(&format!("{prefix}-{i}.ndjson"))).collect(),
        bytes: vec![0; shards], id: 0, font1: second_font(), rows: Default::default(),
    };
    let gen = a.str("gen", "gen/xbin.ndjson");
    let text = std::fs::read_to_string(&gen).unwrap_or_else(|e| { eprintln!("c06: cannot read {gen}: {e}"); std::process::exit(2) });
    let mut classes = 0;
    for line in text.lines() {
        let Ok(v) = serde_json::from_str::<Value>(line) else { continue };
        let w = v["w"].as_u64().unwrap_or(0) as usize;
        let cl = class_of(&v);
        classes += 1;
        match v["kind"].as_str().unwrap_or("") {
            "exh3" => {
                if w <= full3 {
                    enum_full(&cl, &cl.pages, w, "exh3", &mut sink, maxh, ml_every);
                    enum_full(&cl, &cl.pages[..1], w, "exh3", &mut sink, maxh, ml_every);
                } else if w <= canon3 {
                    let stride = if w >= 7 { stride7 } else if w == 6 { stride6 } else { 1 };
                    enum_canon(&cl, &cl.pages, w, "exh3", &mut sink, maxh, ml_every, stride, seed);
                    enum_canon(&cl, &cl.pages[..1], w, "exh3", &mut sink, maxh, ml_every, 1, seed);
                }
            }
            "exh2" => {
                if w <= full2 {
                    enum_full(&cl, &cl.pages, w, "exh2", &mut sink, maxh, ml_every);
                } else {
                    enum_canon(&cl, &cl.pages, w, "exh2", &mut sink, maxh, ml_every, 1, seed);
                }
            }
            _ => {}
        }
    }
    let exh_buffers = sink.id;
    for i in 0..n_rnd {
        sink.emit(&random_case(seed, i));
    }
    let caps = cap_cases(seed % 2 == 1);
    for cs in &caps {
        sink.emit(cs);
    }
    // the last bytes of the image block are marker bytes of the container (0x1A = DOS end of file, in front of a SAUCE record;
    // 0x00; 0xFF): last cell with that character, that attribute byte, or both, ending each type of run, with and without SAUCE
    let mut n_end = 0;
    for &mark in &[0x1Au32, 0x00, 0xFF] {
        for shape in 0..6 {
            for (w, h) in [(1i32, 1i32), (2, 1), (5, 2), (80, 2)] {
                for sauce in [true, false] {
                    let (mfg, mbg) = (mark & 0x0F, (mark >> 4) & 0x0F);
                    let other = pack(66, 7, 0, 0, 0);
                    let last = match shape % 3 { 0 => pack(mark, 7, 0, 0, 0), 1 => pack(65, mfg, mbg, 0, 0), _ => pack(mark, mfg, mbg, 0, 0) };
                    let mut cells = vec![other; (w * h) as usize];
                    let n = cells.len();
                    cells[n - 1] = last;
                    // shapes 3..5: the cell before the last one shares the character / the attribute / both (the last cell ends a run)
                    if shape >= 3 && n >= 2 {
                        cells[n - 2] = match shape { 3 => pack(last & 0xFF, 7, 4, 0, 0), 4 => pack(67, (last >> 8) & 0x0F, (last >> 12) & 0x0F, 0, 0), _ => last };
                    }
                    sink.emit(&Case { k: "rnd", w, h, ice: true, cells, sauce, ml: true });
                    n_end += 1;
                }
            }
        }
    }
    let n_rnd = n_rnd + caps.len() as u64 + n_end;
    for o in sink.outs.iter_mut() { o.flush(); }
    let summary = json!({"classes":classes,"buffers":sink.id,"exhaustive_buffers":exh_buffers,"random_buffers":n_rnd,"rows":sink.rows,
                         "params":{"full3":full3,"canon3":canon3,"stride6":stride6,"stride7":stride7,"full2":full2,"rows_per_buffer":maxh}});
    std::fs::write(format!("{prefix}-summary.json"), serde_json::to_string(&summary).unwrap()).unwrap();
    eprintln!("c06: {} classes, {} buffers ({} exhaustive, {} random), {} rows", classes, sink.id, exh_buffers, n_rnd, sink.rows.values().sum::<u64>());
}
