//! C08 driver: edit / undo / redo histories on the real `icy_engine::editor::EditState`.
//!
//! A case = a seed document + a list of steps (E = one public editing operation, U = undo(), R = redo(),
//! B = begin_atomic_undo(), X = drop of the innermost guard, Y = guard.end(), Z = undo until the stack is empty,
//! W = redo until nothing is redoable).  After EVERY engine call one ndjson event is written with the result,
//! `undo_stack_len()`, `can_redo()` and two digests of an observational snapshot of the whole document
//! (see `snap`).  `Trace_Undo.tla` judges the events.
//!
//! Case sources: (1) history shapes exported by TLC from MC_Undo (Gen_Undo.cfg), E instantiated from the operation
//! table; (2) every table entry alone, pairs and triples (sampled in quick, exhaustive in thorough) in the canonical
//! shape E^k Z W Z W; (3) seeded random histories up to 40 steps.
//! `--explain case.json` re-runs one history with full snapshots and prints the first differing field.
use crate::util::{guard, panic_site, rng, Args, Out};
use icy_engine::editor::{AtomicUndoGuard, EditState, UndoState};
use icy_engine::{
    attribute, AddType, AttributedChar, BitFont, Buffer, Color, FontMode, IceMode, Layer, Line, Mode, Palette, PaletteMode, Position, Properties, Rectangle,
    Role, SauceData, SauceString, Selection, Shape, Size, TextAttribute, TextPane,
};
use rand::rngs::StdRng;
use rand::Rng;
use serde_json::{json, Value};
use std::collections::hash_map::DefaultHasher;
use std::hash::Hasher;

pub const W: i32 = 8;
pub const H: i32 = 5;
pub const N_SEEDS: usize = 8;

// ------------------------------------------------------------------------------------------------ snapshot
/// Receiver of the observational snapshot. `strict = false`: the field belongs to the document as the property
/// describes it; `strict = true`: additional engine state compared only by the model layer.
trait Sink {
    fn ints(&mut self, strict: bool, path: &dyn Fn() -> String, v: &[i64]);
    fn text(&mut self, strict: bool, path: &dyn Fn() -> String, s: &str);
}

struct HashSink {
    w: DefaultHasher,
    x: DefaultHasher,
}

impl HashSink {
    fn new() -> Self {
        HashSink { w: DefaultHasher::new(), x: DefaultHasher::new() }
    }
    fn digests(&self) -> (Value, Value) {
        let f = |h: u64| json!([(h & 0x3FFF_FFFF) as i64, ((h >> 30) & 0x3FFF_FFFF) as i64]);
        (f(self.w.finish()), f(self.x.finish()))
    }
}

impl Sink for HashSink {
    fn ints(&mut self, strict: bool, _p: &dyn Fn() -> String, v: &[i64]) {
        self.x.write_usize(v.len());
        for i in v {
            self.x.write_i64(*i);
        }
        if !strict {
            self.w.write_usize(v.len());
            for i in v {
                self.w.write_i64(*i);
            }
        }
    }
    fn text(&mut self, strict: bool, _p: &dyn Fn() -> String, s: &str) {
        self.x.write_usize(s.len());
        self.x.write(s.as_bytes());
        if !strict {
            self.w.write_usize(s.len());
            self.w.write(s.as_bytes());
        }
    }
}

#[derive(Default, Clone)]
struct TextSink {
    items: Vec<(bool, String, String)>,
}

impl Sink for TextSink {
    fn ints(&mut self, strict: bool, p: &dyn Fn() -> String, v: &[i64]) {
        self.items.push((strict, p(), format!("{v:?}")));
    }
    fn text(&mut self, strict: bool, p: &dyn Fn() -> String, s: &str) {
        self.items.push((strict, p(), s.to_string()));
    }
}

fn glyph_hash(f: &BitFont) -> i64 {
    // order-independent over the glyph map
    let mut acc: u64 = 0;
    for (ch, g) in &f.glyphs {
        let mut h = DefaultHasher::new();
        h.write_u32(*ch as u32);
        h.write(&g.data);
        acc = acc.wrapping_add(h.finish());
    }
    (acc >> 2) as i64
}

fn cell(ch: AttributedChar) -> [i64; 5] {
    [ch.ch as i64, ch.attribute.get_foreground() as i64, ch.attribute.get_background() as i64, ch.attribute.attr as i64, ch.attribute.get_font_page() as i64]
}

/// The observational snapshot of the whole document, through the public API only.
fn snap(es: &EditState, s: &mut dyn Sink) {
    let b = es.get_buffer();
    s.ints(false, &|| "buffer.size".into(), &[b.get_width() as i64, b.get_height() as i64]);
    s.ints(false, &|| "buffer.buffer_type".into(), &[b.buffer_type.to_byte() as i64]);
    s.ints(false, &|| "buffer.ice_mode".into(), &[b.ice_mode.to_byte() as i64]);
    s.ints(false, &|| "buffer.palette_mode".into(), &[b.palette_mode.to_byte() as i64]);
    s.ints(false, &|| "buffer.font_mode".into(), &[b.font_mode.to_byte() as i64]);
    s.ints(false, &|| "buffer.is_terminal_buffer".into(), &[b.is_terminal_buffer as i64]);
    // palette
    s.ints(false, &|| "palette.len".into(), &[b.palette.len() as i64]);
    for i in 0..b.palette.len().min(512) {
        let (r, g, bl) = b.palette.get_rgb(i as u32);
        s.ints(false, &|| format!("palette[{i}]"), &[r as i64, g as i64, bl as i64]);
    }
    s.text(false, &|| "palette.title".into(), &b.palette.title);
    s.text(false, &|| "palette.author".into(), &b.palette.author);
    s.text(false, &|| "palette.description".into(), &b.palette.description);
    // font table
    let mut slots: Vec<usize> = b.font_iter().map(|(k, _)| *k).collect();
    slots.sort_unstable();
    s.ints(false, &|| "fonts.slots".into(), &slots.iter().map(|x| *x as i64).collect::<Vec<_>>());
    for k in &slots {
        if let Some(f) = b.get_font(*k) {
            s.text(false, &|| format!("font[{k}].name"), &f.name);
            s.ints(false, &|| format!("font[{k}].size,length,glyphs"), &[f.size.width as i64, f.size.height as i64, f.length as i64, f.glyphs.len() as i64]);
            s.ints(false, &|| format!("font[{k}].glyph-data-hash"), &[glyph_hash(f)]);
        }
    }
    // SAUCE
    match b.get_sauce() {
        None => s.ints(false, &|| "sauce.present".into(), &[0]),
        Some(sd) => {
            s.ints(false, &|| "sauce.present".into(), &[1]);
            s.text(false, &|| "sauce.title".into(), &sd.title.to_string());
            s.text(false, &|| "sauce.author".into(), &sd.author.to_string());
            s.text(false, &|| "sauce.group".into(), &sd.group.to_string());
            s.text(false, &|| "sauce.comments".into(), &sd.comments.iter().map(|c| c.to_string()).collect::<Vec<_>>().join("|"));
            s.text(false, &|| "sauce.data_type".into(), &format!("{:?}", sd.data_type));
            s.text(false, &|| "sauce.file_type".into(), &format!("{:?}", sd.sauce_file_type));
            s.text(false, &|| "sauce.font".into(), &format!("{:?}", sd.font_opt));
            s.ints(false, &|| "sauce.flags(ice,letter_spacing,aspect)".into(), &[sd.use_ice as i64, sd.use_letter_spacing as i64, sd.use_aspect_ratio as i64]);
            s.text(false, &|| "sauce.creation_time".into(), &sd.creation_time.to_string());
            // mirror of the buffer size, rewritten by Buffer::set_size: not part of the property's "SAUCE data"
            s.ints(true, &|| "sauce.buffer_size".into(), &[sd.buffer_size.width as i64, sd.buffer_size.height as i64]);
        }
    }
    // layers
    s.ints(false, &|| "layers.len".into(), &[b.layers.len() as i64]);
    for (i, l) in b.layers.iter().enumerate() {
        let p = &l.properties;
        s.text(false, &|| format!("layer[{i}].title"), &p.title);
        let col = match &p.color { None => vec![-1], Some(c) => { let (r, g, b) = c.get_rgb(); vec![r as i64, g as i64, b as i64] } };
        s.ints(false, &|| format!("layer[{i}].color"), &col);
        s.ints(false, &|| format!("layer[{i}].flags(visible,locked,position_locked,alpha_locked,has_alpha)"),
            &[p.is_visible as i64, p.is_locked as i64, p.is_position_locked as i64, p.is_alpha_channel_locked as i64, p.has_alpha_channel as i64]);
        s.ints(false, &|| format!("layer[{i}].mode"), &[match p.mode { Mode::Normal => 0, Mode::Chars => 1, Mode::Attributes => 2 }]);
        s.ints(false, &|| format!("layer[{i}].offset"), &[p.offset.x as i64, p.offset.y as i64]);
        s.ints(false, &|| format!("layer[{i}].size"), &[l.get_width() as i64, l.get_height() as i64]);
        s.ints(false, &|| format!("layer[{i}].role"), &[match l.role { Role::Normal => 0, Role::PastePreview => 1, Role::PasteImage => 2, Role::Image => 3 }]);
        s.ints(false, &|| format!("layer[{i}].transparency"), &[l.transparency as i64]);
        s.ints(false, &|| format!("layer[{i}].default_font_page"), &[l.default_font_page as i64]);
        let (w, h) = (l.get_width().clamp(0, 64), l.get_height().clamp(0, 64));
        for y in 0..h {
            for x in 0..w {
                let ch = l.get_char((x, y));
                if ch.is_visible() {
                    s.ints(false, &|| format!("layer[{i}].cell({x},{y})"), &cell(ch));
                } else {
                    s.ints(false, &|| format!("layer[{i}].cell({x},{y})"), &[-1]); // invisible cells compare as invisible only
                }
            }
        }
        // strict part: what is stored but currently out of sight
        let po = l.get_preview_offset();
        s.ints(true, &|| format!("layer[{i}].preview_offset"), &match po { None => vec![], Some(p) => vec![p.x as i64, p.y as i64] });
        s.ints(true, &|| format!("layer[{i}].sixels,hyperlinks"), &[l.sixels.len() as i64, l.hyperlinks().len() as i64]);
        for (y, line) in l.lines.iter().enumerate().take(128) {
            for (x, ch) in line.chars.iter().enumerate().take(128) {
                if (x as i32 >= l.get_width() || y as i32 >= l.get_height()) && ch.is_visible() {
                    s.ints(true, &|| format!("layer[{i}].stored-outside-size({x},{y})"), &cell(*ch));
                }
            }
        }
    }
}

fn digests(es: &EditState) -> (Value, Value) {
    let mut h = HashSink::new();
    snap(es, &mut h);
    h.digests()
}

fn full_snapshot(es: &EditState) -> TextSink {
    let mut t = TextSink::default();
    snap(es, &mut t);
    t
}

/// First differing fields between two full snapshots (weak fields first).
fn diff(want: &TextSink, got: &TextSink, strict: bool) -> Vec<String> {
    use std::collections::BTreeMap;
    let sel = |t: &TextSink| t.items.iter().filter(|i| i.0 == strict).map(|i| (i.1.clone(), i.2.clone())).collect::<Vec<_>>();
    let (a, b) = (sel(want), sel(got));
    let mb: BTreeMap<_, _> = b.iter().cloned().collect();
    let ma: BTreeMap<_, _> = a.iter().cloned().collect();
    let mut res = vec![];
    for (k, v) in &a {
        match mb.get(k) {
            Some(v2) if v2 == v => {}
            Some(v2) => res.push(format!("{k}: expected {v}, observed {v2}")),
            None => res.push(format!("{k}: expected {v}, field absent")),
        }
    }
    for (k, v) in &b {
        if !ma.contains_key(k) {
            res.push(format!("{k}: not expected, observed {v}"));
        }
    }
    res
}

// ------------------------------------------------------------------------------------------------ seed documents
fn chr(c: i64) -> AttributedChar {
    let mk = |ch: u8, fg: u32, bg: u32, attr: u16, page: usize| {
        let mut a = TextAttribute::new(fg, bg);
        a.attr = attr;
        a.set_font_page(page);
        AttributedChar::new(ch as char, a)
    };
    match c.rem_euclid(10) {
        0 => mk(b'A', 7, 0, 0, 0),
        1 => mk(219, 12, 1, 0, 0),
        2 => mk(b' ', 7, 0, 0, 0),
        3 => mk(220, 14, 9, 0, 0),
        4 => mk(b'/', 2, 3, attribute::BLINK, 0),
        5 => AttributedChar::invisible(),
        6 => mk(b'x', 7, 0, 0, 1),
        7 => mk(179, 3, 0, 0, 0),
        8 => mk(b'q', 15, 4, attribute::BOLD | attribute::UNDERLINE, 0),
        _ => mk(201, 11, 0, 0, 0),
    }
}

fn fill(l: &mut Layer, salt: i64, sparse: bool) {
    for y in 0..l.get_height() {
        for x in 0..l.get_width() {
            let k = (x as i64) * 3 + (y as i64) * 7 + salt;
            if sparse && k % 3 == 0 {
                continue;
            }
            l.set_char((x, y), chr(k));
        }
    }
}

/// cells on font page 1 are only meaningful in documents that have a font in slot 1
fn strip_font_pages(buf: &mut Buffer) {
    for l in &mut buf.layers {
        for line in &mut l.lines {
            for ch in &mut line.chars {
                if ch.is_visible() && ch.get_font_page() != 0 {
                    ch.set_font_page(0);
                }
            }
        }
    }
}

fn alpha_layer(title: &str, size: (i32, i32), off: (i32, i32), salt: i64) -> Layer {
    let mut l = Layer::new(title, size);
    l.properties.has_alpha_channel = true;
    l.set_offset(off);
    fill(&mut l, salt, true);
    l
}

fn sauce(k: i64, size: Size) -> Option<SauceData> {
    if k.rem_euclid(3) == 0 {
        return None;
    }
    let mut s = SauceData::default();
    if k.rem_euclid(3) == 1 {
        s.title = SauceString::from("Title one");
        s.author = SauceString::from("me");
        s.use_ice = true;
    } else {
        s.title = SauceString::from("Another");
        s.group = SauceString::from("grp");
        s.comments.push(SauceString::from("a comment"));
        s.use_letter_spacing = true;
        s.font_opt = Some("IBM VGA".to_string());
    }
    s.buffer_size = size;
    Some(s)
}

fn palette(k: i64) -> Palette {
    match k.rem_euclid(3) {
        0 => Palette::dos_default(),
        1 => {
            let mut p = Palette::dos_default();
            p.push(Color::new(1, 2, 3));
            p.push(Color::new(250, 128, 0));
            p.title = "eighteen".into();
            p
        }
        _ => {
            let mut p = Palette::new();
            for i in 0..16u8 {
                p.push(Color::new(i * 16, 255 - i * 16, i));
            }
            p
        }
    }
}

fn font(k: i64) -> BitFont {
    BitFont::from_ansi_font_page(3 + k.rem_euclid(3) as usize).unwrap_or_default()
}

/// Seed documents: 1..=3 layers, alpha / offset / hidden / locked variants, ragged rows, stored cells beyond the size,
/// all font modes, SAUCE, extended palette.
pub fn seed_doc(id: usize) -> EditState {
    let mut buf = Buffer::new((W, H));
    fill(&mut buf.layers[0], id as i64, false);
    match id % N_SEEDS {
        0 => {}
        1 => buf.layers.push(alpha_layer("top", (4, 3), (2, 1), 1)),
        2 => {
            let mut hidden = alpha_layer("hidden", (5, 4), (-1, -1), 2);
            hidden.properties.is_visible = false;
            buf.layers.push(hidden);
            let mut locked = alpha_layer("locked", (3, 2), (6, 4), 4);
            locked.properties.is_locked = true;
            buf.layers.push(locked);
        }
        3 => {
            let mut a = alpha_layer("alpha-locked", (W, H), (0, 0), 5);
            a.properties.is_alpha_channel_locked = true;
            a.properties.mode = Mode::Chars;
            buf.layers.push(a);
            let mut p = alpha_layer("pos-locked", (4, 4), (1, 0), 6);
            p.properties.is_position_locked = true;
            p.properties.mode = Mode::Attributes;
            p.properties.color = Some(Color::new(9, 8, 7));
            buf.layers.push(p);
        }
        4 => {
            buf.layers[0].lines.truncate(3);
            buf.layers[0].lines[1].chars.truncate(3);
            buf.layers[0].lines[2] = Line::new();
            buf.font_mode = FontMode::Unlimited;
            buf.set_font(1, font(1));
            buf.palette = palette(1);
            buf.palette_mode = PaletteMode::RGB;
            buf.layers[0].set_char((5, 0), AttributedChar::new('Z', TextAttribute::new(17, 16)));
            buf.ice_mode = IceMode::Ice;
            buf.set_sauce(sauce(1, Size::new(W, H)), false);
        }
        5 => {
            buf.layers[0].set_size((6, 4)); // rows and columns stored beyond the current size
            buf.layers.push(alpha_layer("full", (W, H), (1, 1), 7));
        }
        6 => {
            buf.font_mode = FontMode::Single;
            buf.ice_mode = IceMode::Blink;
            buf.palette_mode = PaletteMode::Free16;
            let mut l = alpha_layer("blanks", (W, H), (0, 0), 8);
            for x in 0..W {
                l.set_char((x, 2), chr(2));
            }
            buf.layers.push(l);
        }
        _ => {
            buf.font_mode = FontMode::FixedSize;
            buf.set_font(1, font(0));
            buf.layers.push(alpha_layer("second", (W, H), (1, 0), 9));
            buf.layers.push(alpha_layer("third", (W, H), (0, 1), 10));
        }
    }
    if !buf.has_font(1) {
        strip_font_pages(&mut buf);
    }
    EditState::from_buffer(buf)
}

// ------------------------------------------------------------------------------------------------ operations
/// The public editing operations that can be driven, each with in-range and boundary parameter vectors
/// (for the 8x5 seed documents with up to 3-4 layers).
pub fn op_table() -> Vec<(&'static str, Vec<Vec<i64>>)> {
    let v = |a: &[&[i64]]| a.iter().map(|x| x.to_vec()).collect::<Vec<_>>();
    vec![
        // edit_operations.rs
        ("set_char", v(&[&[0, 0, 0, 0], &[0, 7, 4, 1], &[1, 1, 1, 3], &[2, 0, 0, 5], &[1, 3, 2, 8], &[0, 8, 5, 0], &[0, 2, 1, 2], &[-1, 1, 0, 4]])),
        ("set_char_mirror", v(&[&[0, 1, 1, 1], &[1, 0, 0, 4]])),
        ("swap_char", v(&[&[0, 0, 0, 7, 4], &[1, 0, 0, 1, 1], &[0, 2, 2, 2, 2], &[0, 0, 0, 8, 0]])),
        ("paste", v(&[&[0, 1, 1, 2, 2], &[1, -1, -1, 3, 2], &[2, 6, 3, 4, 4]])),
        // (sizes shared with set_layer_size and with the seed documents: an operation that compares two sizes needs them to coincide)
        ("resize_buffer", v(&[&[0, 10, 6], &[0, 4, 3], &[1, 10, 6], &[1, 4, 3], &[1, 8, 5], &[0, 1, 1], &[1, 1, 1], &[0, 8, 5], &[0, 6, 4], &[1, 6, 4]])),
        ("center_line", v(&[&[0, 1], &[1, 0], &[2, 4]])),
        ("justify_line_left", v(&[&[0, 1], &[1, 0], &[2, 4]])),
        ("justify_line_right", v(&[&[0, 1], &[1, 0], &[2, 4]])),
        ("delete_row", v(&[&[0, 0], &[0, 4], &[1, 1], &[0, 5], &[2, 2]])),
        ("insert_row", v(&[&[0, 0], &[0, 4], &[1, 1], &[0, 5], &[2, 2]])),
        ("insert_column", v(&[&[0, 0], &[0, 7], &[1, 2], &[0, 8]])),
        ("delete_column", v(&[&[0, 0], &[0, 7], &[1, 2], &[0, 8]])),
        ("erase_row", v(&[&[0, 3, 2], &[1, 0, 0]])),
        ("erase_row_to_start", v(&[&[0, 3, 2], &[1, 0, 0]])),
        ("erase_row_to_end", v(&[&[0, 3, 2], &[1, 7, 1]])),
        ("erase_column", v(&[&[0, 3, 2], &[1, 0, 0]])),
        ("erase_column_to_start", v(&[&[0, 3, 2], &[1, 1, 0]])),
        ("erase_column_to_end", v(&[&[0, 3, 2], &[1, 1, 4]])),
        ("undo_caret_position", v(&[&[3, 2]])),
        ("switch_to_palette", v(&[&[0], &[1], &[2]])),
        ("update_sauce_data", v(&[&[0], &[1], &[2]])),
        // layer_operations.rs
        ("add_new_layer", v(&[&[0], &[1], &[2], &[5]])),
        ("remove_layer", v(&[&[0], &[1], &[2], &[3]])),
        ("raise_layer", v(&[&[0], &[1], &[2]])),
        ("lower_layer", v(&[&[0], &[1], &[2], &[3]])),
        ("duplicate_layer", v(&[&[0], &[1], &[2]])),
        ("clear_layer", v(&[&[0], &[1], &[2]])),
        ("anchor_layer", v(&[&[1], &[2]])),
        ("add_floating_layer", v(&[&[1], &[2]])),
        ("merge_layer_down", v(&[&[0], &[1], &[2], &[3]])),
        ("toggle_layer_visibility", v(&[&[0], &[1], &[2]])),
        ("move_layer", v(&[&[0, 1, 1], &[1, -2, 0], &[1, 0, 0], &[2, 7, 4], &[-1, 2, 1]])),
        ("set_layer_size", v(&[&[0, 6, 4], &[0, 10, 7], &[1, 2, 2], &[1, 8, 5], &[2, 1, 1], &[0, 8, 5], &[1, 0, 0], &[0, 4, 3], &[0, 10, 6], &[1, 4, 3]])),
        ("stamp_layer_down", v(&[&[1], &[2], &[0], &[-1]])),
        ("rotate_layer", v(&[&[0], &[1], &[2], &[-1]])),
        ("make_layer_transparent", v(&[&[0], &[1], &[2], &[-1]])),
        ("update_layer_properties", v(&[&[0, 0], &[1, 1], &[1, 2], &[1, 3], &[2, 4], &[0, 5], &[1, 6], &[1, 7], &[3, 0]])),
        // area_operations.rs
        ("justify_left", v(&[&[0], &[1], &[2], &[-1]])),
        ("center", v(&[&[0], &[1], &[2], &[-1]])),
        ("justify_right", v(&[&[0], &[1], &[2], &[-1]])),
        ("flip_x", v(&[&[0], &[1], &[2], &[-1]])),
        ("flip_y", v(&[&[0], &[1], &[2], &[-1]])),
        ("crop", v(&[&[]])),
        ("crop_rect", v(&[&[1, 1, 5, 3], &[0, 0, 8, 5], &[-1, -1, 4, 4], &[6, 3, 6, 6], &[2, 2, 0, 0]])),
        ("erase_selection", v(&[&[0], &[1], &[-1]])),
        ("scroll_area_up", v(&[&[0], &[1], &[2], &[-1]])),
        ("scroll_area_down", v(&[&[0], &[1], &[2], &[-1]])),
        ("scroll_area_left", v(&[&[0], &[1], &[2], &[-1]])),
        ("scroll_area_right", v(&[&[0], &[1], &[2], &[-1]])),
        // selection_operations.rs
        ("set_selection", v(&[&[1, 1, 5, 3, 0], &[0, 0, 8, 5, 0], &[2, 0, 4, 5, 0], &[-2, -1, 3, 2, 0], &[1, 1, 5, 3, 1], &[3, 1, 6, 4, 2], &[0, 2, 8, 3, 3], &[6, 3, 12, 9, 0]])),
        ("clear_selection", v(&[&[]])),
        ("deselect", v(&[&[]])),
        ("add_selection_to_mask", v(&[&[]])),
        ("inverse_selection", v(&[&[]])),
        ("enumerate_selections", v(&[&[0], &[1], &[2]])),
        // font_operations.rs
        ("switch_to_font_page", v(&[&[0], &[1], &[2]])),
        ("add_ansi_font", v(&[&[1], &[2], &[0], &[43]])),
        ("set_ansi_font", v(&[&[1], &[5]])),
        ("set_sauce_font", v(&[&[0], &[1], &[2]])),
        ("add_font", v(&[&[0], &[1]])),
        ("set_font", v(&[&[0], &[1]])),
        ("set_palette_mode", v(&[&[0], &[1], &[2], &[3]])),
        ("set_ice_mode", v(&[&[0], &[1], &[2]])),
        ("replace_font_usage", v(&[&[0, 1], &[1, 0], &[1, 2]])),
        ("change_font_slot", v(&[&[0, 1], &[1, 2], &[1, 0], &[2, 3]])),
        ("remove_font", v(&[&[0], &[1], &[2]])),
    ]
}

pub enum OpRes {
    Ok,
    Err(String),
    Skip,
}

fn clipboard_block(x: i32, y: i32, w: u32, h: u32, page1: bool) -> Vec<u8> {
    // the format of EditState::get_clipboard_data
    let mut data = vec![0u8];
    data.extend(i32::to_le_bytes(x));
    data.extend(i32::to_le_bytes(y));
    data.extend(u32::to_le_bytes(w));
    data.extend(u32::to_le_bytes(h));
    for j in 0..h {
        for i in 0..w {
            let mut ch = chr((i * 5 + j * 3 + 1) as i64);
            if !page1 { ch.set_font_page(0); }
            data.extend(u16::to_le_bytes(ch.ch as u16));
            data.extend(u16::to_le_bytes(ch.attribute.attr));
            data.extend(u16::to_le_bytes(ch.attribute.get_font_page() as u16));
            data.extend(u32::to_le_bytes(ch.attribute.get_background()));
            data.extend(u32::to_le_bytes(ch.attribute.get_foreground()));
        }
    }
    data
}

fn props_variant(p: &Properties, k: i64) -> Properties {
    let mut n = p.clone();
    match k.rem_euclid(8) {
        0 => n.is_locked = !n.is_locked,
        1 => {
            n.title = format!("{}*", n.title);
            n.color = Some(Color::new(10, 20, 30));
        }
        2 => n.has_alpha_channel = !n.has_alpha_channel,
        3 => n.is_alpha_channel_locked = !n.is_alpha_channel_locked,
        4 => n.is_position_locked = !n.is_position_locked,
        5 => n.mode = if n.mode == Mode::Normal { Mode::Chars } else { Mode::Normal },
        6 => n.offset = Position::new(n.offset.x + 1, n.offset.y - 1),
        _ => n.is_visible = !n.is_visible,
    }
    n
}

/// One public call (preceded, where the operation reads them, by the non-undoable context setters
/// `set_current_layer` and caret position, which are not part of the document).
pub fn apply(es: &mut EditState, name: &str, a: &[i64]) -> OpRes {
    let g = |i: usize| a.get(i).copied().unwrap_or(0);
    let gi = |i: usize| g(i) as i32;
    let gu = |i: usize| g(i).max(0) as usize;
    // a layer argument of -1 leaves the current layer where the previous operations left it (the raw index may be stale: clear_layer,
    // remove_layer and undo steps move or invalidate it, and a client does not re-select the layer before every call)
    let cur = |es: &mut EditState, l: i64| if l >= 0 { es.set_current_layer(l as usize) };
    let caret = |es: &mut EditState, x: i32, y: i32| es.get_caret_mut().set_position(Position::new(x, y));
    let r = match name {
        "set_char" | "set_char_mirror" => {
            cur(es, g(0));
            es.set_mirror_mode(name == "set_char_mirror");
            let mut ch = chr(g(3));
            if !es.get_buffer().has_font(ch.get_font_page()) { ch.set_font_page(0); } // a cell may only name a font the document has
            let r = es.set_char((gi(1), gi(2)), ch);
            es.set_mirror_mode(false);
            r
        }
        "swap_char" => { cur(es, g(0)); es.swap_char((gi(1), gi(2)), (gi(3), gi(4))) }
        "paste" => { cur(es, g(0)); let p1 = es.get_buffer().has_font(1); es.paste_clipboard_data(&clipboard_block(gi(1), gi(2), gu(3) as u32, gu(4) as u32, p1)) }
        "resize_buffer" => es.resize_buffer(g(0) != 0, (gi(1), gi(2))),
        "center_line" => { cur(es, g(0)); caret(es, 0, gi(1)); es.center_line() }
        "justify_line_left" => { cur(es, g(0)); caret(es, 0, gi(1)); es.justify_line_left() }
        "justify_line_right" => { cur(es, g(0)); caret(es, 0, gi(1)); es.justify_line_right() }
        "delete_row" => { cur(es, g(0)); caret(es, 0, gi(1)); es.delete_row() }
        "insert_row" => { cur(es, g(0)); caret(es, 0, gi(1)); es.insert_row() }
        "insert_column" => { cur(es, g(0)); caret(es, gi(1), 0); es.insert_column() }
        "delete_column" => { cur(es, g(0)); caret(es, gi(1), 0); es.delete_column() }
        "erase_row" => { cur(es, g(0)); caret(es, gi(1), gi(2)); es.erase_row() }
        "erase_row_to_start" => { cur(es, g(0)); caret(es, gi(1), gi(2)); es.erase_row_to_start() }
        "erase_row_to_end" => { cur(es, g(0)); caret(es, gi(1), gi(2)); es.erase_row_to_end() }
        "erase_column" => { cur(es, g(0)); caret(es, gi(1), gi(2)); es.erase_column() }
        "erase_column_to_start" => { cur(es, g(0)); caret(es, gi(1), gi(2)); es.erase_column_to_start() }
        "erase_column_to_end" => { cur(es, g(0)); caret(es, gi(1), gi(2)); es.erase_column_to_end() }
        "undo_caret_position" => { caret(es, gi(0), gi(1)); es.undo_caret_position() }
        "switch_to_palette" => es.switch_to_palette(palette(g(0))),
        "update_sauce_data" => { let sz = es.get_buffer().get_size(); es.update_sauce_data(sauce(g(0), sz)) }
        "add_new_layer" => es.add_new_layer(gu(0)),
        "remove_layer" => es.remove_layer(gu(0)),
        "raise_layer" => es.raise_layer(gu(0)),
        "lower_layer" => es.lower_layer(gu(0)),
        "duplicate_layer" => es.duplicate_layer(gu(0)),
        "clear_layer" => es.clear_layer(gu(0)),
        "anchor_layer" => { cur(es, g(0)); es.anchor_layer() }
        "add_floating_layer" => {
            // only meaningful on a freshly pasted (floating) layer - anything else is outside its contract
            cur(es, g(0));
            match es.get_cur_layer() { Some(l) if l.role.is_paste() => es.add_floating_layer(), _ => return OpRes::Skip }
        }
        "merge_layer_down" => { cur(es, g(0)); es.merge_layer_down(gu(0)) }
        "toggle_layer_visibility" => es.toggle_layer_visibility(gu(0)),
        "move_layer" => { cur(es, g(0)); es.move_layer(Position::new(gi(1), gi(2))) }
        "set_layer_size" => es.set_layer_size(gu(0), (gi(1), gi(2))),
        "stamp_layer_down" => { cur(es, g(0)); es.stamp_layer_down() }
        "rotate_layer" => { cur(es, g(0)); es.rotate_layer() }
        "make_layer_transparent" => { cur(es, g(0)); es.make_layer_transparent() }
        "update_layer_properties" => {
            let p = match es.get_buffer().layers.get(gu(0)) { Some(l) => props_variant(&l.properties, g(1)), None => Properties::default() };
            es.update_layer_properties(gu(0), p)
        }
        "justify_left" => { cur(es, g(0)); es.justify_left() }
        "center" => { cur(es, g(0)); es.center() }
        "justify_right" => { cur(es, g(0)); es.justify_right() }
        "flip_x" => { cur(es, g(0)); es.flip_x() }
        "flip_y" => { cur(es, g(0)); es.flip_y() }
        "crop" => es.crop(),
        "crop_rect" => es.crop_rect(Rectangle::from(gi(0), gi(1), gi(2), gi(3))),
        "erase_selection" => { cur(es, g(0)); es.erase_selection() }
        "scroll_area_up" => { cur(es, g(0)); es.scroll_area_up() }
        "scroll_area_down" => { cur(es, g(0)); es.scroll_area_down() }
        "scroll_area_left" => { cur(es, g(0)); es.scroll_area_left() }
        "scroll_area_right" => { cur(es, g(0)); es.scroll_area_right() }
        "set_selection" => {
            let (x0, y0, x1, y1) = (gi(0), gi(1), gi(2).max(gi(0)), gi(3).max(gi(1)));
            let mut sel: Selection = Rectangle::from_coords(x0, y0, x1, y1).into();
            match g(4) {
                1 => sel.shape = Shape::Lines,
                2 => sel.add_type = AddType::Subtract,
                3 => sel.add_type = AddType::Add,
                _ => {}
            }
            es.set_selection(sel)
        }
        "clear_selection" => es.clear_selection(),
        "deselect" => es.deselect(),
        "add_selection_to_mask" => es.add_selection_to_mask(),
        "inverse_selection" => es.inverse_selection(),
        "enumerate_selections" => {
            match g(0) {
                0 => es.enumerate_selections(|_, ch, _| Some(ch.is_visible() && !ch.is_transparent())),
                1 => es.enumerate_selections(|_, _, _| None),
                _ => es.enumerate_selections(|_, _, sel| Some(!sel)),
            }
            Ok(())
        }
        "switch_to_font_page" => es.switch_to_font_page(gu(0)),
        "add_ansi_font" => es.add_ansi_font(gu(0)),
        "set_ansi_font" => es.set_ansi_font(gu(0)),
        "set_sauce_font" => es.set_sauce_font(["IBM VGA", "IBM VGA50", "no such font"][gu(0) % 3]),
        "add_font" => es.add_font(font(g(0))),
        "set_font" => es.set_font(font(g(0))),
        "set_palette_mode" => es.set_palette_mode(PaletteMode::from_byte(g(0) as u8)),
        "set_ice_mode" => es.set_ice_mode(IceMode::from_byte(g(0) as u8)),
        "replace_font_usage" => es.replace_font_usage(gu(0), gu(1)),
        "change_font_slot" => es.change_font_slot(gu(0), gu(1)),
        "remove_font" => es.remove_font(gu(0)),
        _ => return OpRes::Err(format!("unknown operation {name}")),
    };
    match r {
        Ok(()) => OpRes::Ok,
        Err(e) => OpRes::Err(e.to_string()),
    }
}

/// Input class of one call, observed just before it is made: which kind of layer it targets and whether its
/// position / slot arguments are inside the current ranges. Only used to NAME findings (keys), never to judge.
///   A = target layer has a locked alpha channel, L = is locked, H = is hidden, oob = a position outside the target layer,
///   cp = caret font page != 0, occ = destination font slot already occupied
fn classify(es: &EditState, name: &str, a: &[i64]) -> String {
    let g = |i: usize| a.get(i).copied().unwrap_or(0);
    let b = es.get_buffer();
    let n = b.layers.len();
    let current_layer_ops = ["set_char", "set_char_mirror", "swap_char", "center_line", "justify_line_left", "justify_line_right", "delete_row", "insert_row",
        "insert_column", "delete_column", "erase_row", "erase_row_to_start", "erase_row_to_end", "erase_column", "erase_column_to_start", "erase_column_to_end",
        "anchor_layer", "move_layer", "stamp_layer_down", "rotate_layer", "make_layer_transparent", "justify_left", "center", "justify_right", "flip_x", "flip_y",
        "erase_selection", "scroll_area_up", "scroll_area_down", "scroll_area_left", "scroll_area_right"];
    let indexed_ops = ["remove_layer", "raise_layer", "lower_layer", "duplicate_layer", "clear_layer", "merge_layer_down", "toggle_layer_visibility", "set_layer_size", "update_layer_properties"];
    let target = if n == 0 { None } else if current_layer_ops.contains(&name) { Some((g(0).max(0) as usize).min(n - 1)) } else if indexed_ops.contains(&name) && (g(0) as usize) < n && g(0) >= 0 { Some(g(0) as usize) } else { None };
    let mut cls: Vec<&str> = vec![];
    if let Some(t) = target {
        let l = &b.layers[t];
        if l.properties.has_alpha_channel && l.properties.is_alpha_channel_locked { cls.push("A"); }
        if l.properties.is_locked { cls.push("L"); }
        if !l.properties.is_visible { cls.push("H"); }
        let inside = |x: i64, y: i64| x >= 0 && y >= 0 && x < l.get_width() as i64 && y < l.get_height() as i64;
        let oob = match name {
            "set_char" | "set_char_mirror" => !inside(g(1), g(2)),
            "swap_char" => !inside(g(1), g(2)) || !inside(g(3), g(4)),
            "delete_row" | "insert_row" => g(1) < 0 || g(1) >= l.get_height() as i64,
            "insert_column" | "delete_column" => g(1) < 0 || g(1) >= l.get_width() as i64,
            _ => false,
        };
        if oob { cls.push("oob"); }
    }
    match name {
        "set_font" | "set_ansi_font" | "set_sauce_font" => if es.get_caret().get_font_page() != 0 { cls.push("cp") },
        "add_ansi_font" => if b.has_font(g(0).max(0) as usize) { cls.push("occ") },
        "change_font_slot" => if b.has_font(g(1).max(0) as usize) { cls.push("occ") },
        _ => {}
    }
    cls.join(",")
}

// ------------------------------------------------------------------------------------------------ cases
#[derive(Clone, Debug)]
pub enum Step {
    Op(String, Vec<i64>),
    Undo,
    Redo,
    Begin,
    EndDrop,
    EndExplicit,
    UndoAll,
    RedoAll,
}

#[derive(Clone, Debug)]
pub struct Case {
    pub seed: usize,
    pub src: &'static str,
    pub steps: Vec<Step>,
}

#[derive(Default)]
pub struct Stats {
    pub cases: usize,
    pub ops_ok: usize,
    pub ops_err: usize,
    pub ops_panic: usize,
    pub ops_skip: usize,
    pub undo: usize,
    pub redo: usize,
    pub groups: usize,
    pub undo_fail: usize,
    pub per_op_ok: std::collections::BTreeMap<String, usize>,
    pub per_op_cut: std::collections::BTreeMap<String, usize>,
    pub op_panic_sites: std::collections::BTreeMap<String, usize>,
}

impl Stats {
    fn merge(&mut self, o: Stats) {
        self.cases += o.cases;
        self.ops_ok += o.ops_ok;
        self.ops_err += o.ops_err;
        self.ops_panic += o.ops_panic;
        self.ops_skip += o.ops_skip;
        self.undo += o.undo;
        self.redo += o.redo;
        self.groups += o.groups;
        self.undo_fail += o.undo_fail;
        for (k, v) in o.per_op_ok { *self.per_op_ok.entry(k).or_default() += v; }
        for (k, v) in o.per_op_cut { *self.per_op_cut.entry(k).or_default() += v; }
        for (k, v) in o.op_panic_sites { *self.op_panic_sites.entry(k).or_default() += v; }
    }
}

/// Observer of a run: the trace writer, or the explainer.
trait Watch {
    fn event(&mut self, ev: Value, es: &EditState);
}

struct TraceWatch<'a> {
    out: &'a mut Out,
}

impl Watch for TraceWatch<'_> {
    fn event(&mut self, mut ev: Value, es: &EditState) {
        if ev.get("doc").is_none() {
            let (d, x) = digests(es);
            ev["doc"] = d;
            ev["x"] = x;
        }
        self.out.ev(&ev);
    }
}

/// Runs one case against a fresh EditState. Every engine call goes through `guard`.
fn run_case(case: &Case, id: usize, w: &mut dyn Watch, st: &mut Stats) {
    st.cases += 1;
    let mut es = seed_doc(case.seed);
    let mut guards: Vec<AtomicUndoGuard> = Vec::new();
    let obs = |es: &EditState| -> Option<(usize, i64)> { guard(|| (es.undo_stack_len(), es.can_redo() as i64)).ok() };
    let Some((ul, cr)) = obs(&es) else { return };
    w.event(json!({"ev":"reset","seed":case.seed,"case":id,"src":case.src,"ul":ul,"cr":cr,"layers":es.get_buffer().layers.len()}), &es);
    let mut queue: std::collections::VecDeque<Step> = case.steps.iter().cloned().collect();
    let mut budget = 400;
    'steps: while let Some(step) = queue.pop_front() {
        budget -= 1;
        if budget == 0 {
            break;
        }
        match step {
            Step::Op(name, args) => {
                let cls = guard(|| classify(&es, &name, &args)).unwrap_or_default();
                let res = guard(|| apply(&mut es, &name, &args));
                let (r, extra) = match res {
                    Ok(OpRes::Ok) => ("ok", json!({})),
                    Ok(OpRes::Skip) => ("skip", json!({})),
                    Ok(OpRes::Err(e)) => ("err", json!({"msg": e.chars().take(80).collect::<String>()})),
                    Err(p) => ("panic", json!({"site": panic_site(&p)})),
                };
                match r {
                    "ok" => { st.ops_ok += 1; *st.per_op_ok.entry(name.clone()).or_default() += 1; }
                    "skip" => st.ops_skip += 1,
                    "err" => { st.ops_err += 1; *st.per_op_cut.entry(name.clone()).or_default() += 1; }
                    _ => { st.ops_panic += 1; *st.per_op_cut.entry(name.clone()).or_default() += 1; *st.op_panic_sites.entry(extra["site"].as_str().unwrap_or("?").to_string()).or_default() += 1; }
                }
                if r == "ok" || r == "skip" {
                    let Some((ul, cr)) = obs(&es) else { break 'steps };
                    let mut ev = json!({"ev":"op","op":name,"args":args,"r":r,"ul":ul,"cr":cr});
                    if !cls.is_empty() { ev["cls"] = json!(cls); }
                    let snap_ok = guard(|| w.event(ev.take(), &es));
                    if snap_ok.is_err() { break 'steps; }
                } else {
                    // the history is cut here: the document may be half-edited, nothing after this is judged
                    let mut ev = json!({"ev":"op","op":name,"args":args,"r":r,"ul":0,"cr":0,"doc":[0, 0],"x":[0, 0]});
                    if let Some(o) = extra.as_object() { for (k, v) in o { ev[k] = v.clone(); } }
                    w.event(ev, &es);
                    break 'steps;
                }
            }
            Step::Undo | Step::Redo => {
                if !guards.is_empty() {
                    continue; // never undo inside an open group (the generator does not produce this)
                }
                let is_undo = matches!(step, Step::Undo);
                if is_undo { st.undo += 1 } else { st.redo += 1 }
                let res = guard(|| if is_undo { es.undo() } else { es.redo() });
                let name = if is_undo { "undo" } else { "redo" };
                match res {
                    Ok(Ok(())) => {
                        let Some((ul, cr)) = obs(&es) else { break 'steps };
                        if guard(|| w.event(json!({"ev":name,"r":"ok","ul":ul,"cr":cr}), &es)).is_err() { break 'steps; }
                    }
                    Ok(Err(e)) => {
                        st.undo_fail += 1;
                        w.event(json!({"ev":name,"r":"err","msg":e.to_string().chars().take(80).collect::<String>(),"ul":0,"cr":0,"doc":[0, 0],"x":[0, 0]}), &es);
                        break 'steps;
                    }
                    Err(p) => {
                        st.undo_fail += 1;
                        w.event(json!({"ev":name,"r":"panic","site":panic_site(&p),"ul":0,"cr":0,"doc":[0, 0],"x":[0, 0]}), &es);
                        break 'steps;
                    }
                }
            }
            Step::Begin => {
                st.groups += 1;
                let Ok(g) = guard(|| es.begin_atomic_undo("group")) else { break 'steps };
                guards.push(g);
                let Some((ul, cr)) = obs(&es) else { break 'steps };
                w.event(json!({"ev":"begin","ul":ul,"cr":cr}), &es);
            }
            Step::EndDrop | Step::EndExplicit => {
                let Some(mut g) = guards.pop() else { continue };
                let explicit = matches!(step, Step::EndExplicit);
                if let Err(p) = guard(move || { if explicit { g.end(); } drop(g); }) {
                    w.event(json!({"ev":"end","kind": if explicit { "end" } else { "drop" },"r":"panic","site":panic_site(&p),"ul":0,"cr":0,"doc":[0, 0],"x":[0, 0]}), &es);
                    break 'steps;
                }
                let Some((ul, cr)) = obs(&es) else { break 'steps };
                w.event(json!({"ev":"end","kind": if explicit { "end" } else { "drop" },"ul":ul,"cr":cr}), &es);
            }
            Step::UndoAll => {
                if guards.is_empty() {
                    let n = obs(&es).map(|o| o.0).unwrap_or(0).min(120);
                    for _ in 0..n { queue.push_front(Step::Undo); }
                }
            }
            Step::RedoAll => {
                // redo until nothing is redoable: re-queue itself after one redo
                if guards.is_empty() && obs(&es).map(|o| o.1).unwrap_or(0) == 1 {
                    queue.push_front(Step::RedoAll);
                    queue.push_front(Step::Redo);
                }
            }
        }
    }
    // guards and the state may be poisoned after a panic: drop them under guard
    let _ = guard(move || { while let Some(g) = guards.pop() { drop(g); } });
    let _ = guard(move || drop(es));
}

// ------------------------------------------------------------------------------------------------ case generators
fn shape_steps(shape: &str, mut next_op: impl FnMut() -> Step) -> Vec<Step> {
    shape.chars().filter_map(|c| match c {
        'E' | 'D' => Some(next_op()),
        'U' => Some(Step::Undo),
        'R' => Some(Step::Redo),
        'B' => Some(Step::Begin),
        'X' => Some(Step::EndDrop),
        'Y' => Some(Step::EndExplicit),
        'Z' => Some(Step::UndoAll),
        'W' => Some(Step::RedoAll),
        _ => None,
    }).collect()
}

struct Table {
    ops: Vec<(&'static str, Vec<Vec<i64>>)>,
    flat: Vec<(usize, usize)>, // (op, variant)
}

impl Table {
    fn new() -> Self {
        let ops = op_table();
        let mut flat = vec![];
        for (i, o) in ops.iter().enumerate() { for j in 0..o.1.len() { flat.push((i, j)); } }
        Table { ops, flat }
    }
    fn step(&self, k: usize) -> Step {
        let (i, j) = self.flat[k % self.flat.len()];
        Step::Op(self.ops[i].0.to_string(), self.ops[i].1[j].clone())
    }
    fn rep(&self, i: usize) -> Step {
        // representative variant of operation i
        let o = &self.ops[i % self.ops.len()];
        Step::Op(o.0.to_string(), o.1[0].clone())
    }
    fn random(&self, r: &mut StdRng) -> Step {
        // uniform over operation NAMES first (so rare operations are not drowned by many-variant ones), then variants
        let o = &self.ops[r.gen_range(0..self.ops.len())];
        let mut args = o.1[r.gen_range(0..o.1.len())].clone();
        if !args.is_empty() && r.gen_bool(0.25) {
            let k = r.gen_range(0..args.len());
            args[k] += r.gen_range(-1..=1);
        }
        Step::Op(o.0.to_string(), args)
    }
}

fn gen_cases(seed: u64, thorough: bool, gen_path: &str) -> Vec<Case> {
    let t = Table::new();
    let mut cases = vec![];
    let nflat = t.flat.len();
    let nops = t.ops.len();

    // (1) TLC-generated shapes (every interleaving of E/U/R/B/X/Y within the generator bounds), E := seeded table entries
    if let Ok(text) = std::fs::read_to_string(gen_path) {
        let mut r = rng(seed, 100);
        let reps = if thorough { 4 } else { 1 };
        for line in text.lines() {
            let Ok(v) = serde_json::from_str::<Value>(line) else { continue };
            let Some(shape) = v["shape"].as_str() else { continue };
            for _ in 0..reps {
                let sd = r.gen_range(0..N_SEEDS);
                let steps = shape_steps(shape, || t.random(&mut r));
                cases.push(Case { seed: sd, src: "tlc-shape", steps });
            }
        }
    }
    let n_shapes = cases.len();

    // (2a) every table entry alone on every seed document: E Z W Z W, and E U R U R with no-op tails
    for k in 0..nflat {
        for sd in 0..N_SEEDS {
            let mut steps = vec![t.step(k)];
            steps.extend(shape_steps("ZWZWUR", || unreachable!()));
            cases.push(Case { seed: sd, src: "single", steps });
        }
    }
    // (2a') context pairs: an operation that changes what later undo records depend on (layer size, layer flags, selection,
    //       caret font page, visibility, offset, stored rows/columns) followed by every table entry, and the reverse order for
    //       set_layer_size; all seed documents in thorough, two (rotating with the seed) in quick
    // (... and every operation that moves or invalidates the CURRENT LAYER index: later operations record that index)
    let ctx = ["set_layer_size", "update_layer_properties", "set_selection", "switch_to_font_page", "toggle_layer_visibility", "move_layer", "delete_column", "delete_row",
               "clear_layer", "remove_layer", "duplicate_layer", "add_new_layer", "raise_layer", "lower_layer", "merge_layer_down"];
    let mut n = seed as usize;
    for (ci, cj) in t.flat.iter().copied().filter(|(i, _)| ctx.contains(&t.ops[*i].0)) {
        let c = Step::Op(t.ops[ci].0.to_string(), t.ops[ci].1[cj].clone());
        for k in 0..nflat {
            n += 1;
            let seeds: Vec<usize> = if thorough { (0..N_SEEDS).collect() } else { vec![n % N_SEEDS, (n + 3) % N_SEEDS] };
            for sd in seeds {
                let mut steps = vec![c.clone(), t.step(k)];
                steps.extend(shape_steps("ZWZW", || unreachable!()));
                cases.push(Case { seed: sd, src: "ctx-pair", steps });
                if t.ops[ci].0 == "set_layer_size" {
                    let mut steps = vec![t.step(k), c.clone()];
                    steps.extend(shape_steps("ZWZW", || unreachable!()));
                    cases.push(Case { seed: sd, src: "ctx-pair", steps });
                }
            }
        }
    }
    // (2b) pairs: exhaustive over all table entries x all seeds (thorough) / seeded sample (quick)
    let mut r = rng(seed, 200);
    if thorough {
        for a in 0..nflat { for b in 0..nflat { for sd in 0..N_SEEDS {
            let mut steps = vec![t.step(a), t.step(b)];
            steps.extend(shape_steps("ZWZW", || unreachable!()));
            cases.push(Case { seed: sd, src: "pair", steps });
        }}}
    } else {
        for _ in 0..6000 {
            let mut steps = vec![t.step(r.gen_range(0..nflat)), t.step(r.gen_range(0..nflat))];
            steps.extend(shape_steps("ZWZW", || unreachable!()));
            cases.push(Case { seed: r.gen_range(0..N_SEEDS), src: "pair", steps });
        }
    }
    // (2c) triples: exhaustive over one representative per operation (thorough, seed document rotating) / sample (quick)
    if thorough {
        let mut n = 0usize;
        for a in 0..nops { for b in 0..nops { for c in 0..nops {
            let mut steps = vec![t.rep(a), t.rep(b), t.rep(c)];
            steps.extend(shape_steps("ZWZ", || unreachable!()));
            cases.push(Case { seed: (n + seed as usize) % N_SEEDS, src: "triple", steps });
            n += 1;
        }}}
    } else {
        for _ in 0..4000 {
            let mut steps = vec![t.random(&mut r), t.random(&mut r), t.random(&mut r)];
            steps.extend(shape_steps("ZWZ", || unreachable!()));
            cases.push(Case { seed: r.gen_range(0..N_SEEDS), src: "triple", steps });
        }
    }
    // (3) seeded random histories, up to 40 steps, groups nested up to depth 2, closed by a full unwind / rewind
    let n_rand = if thorough { 6000 } else { 600 };
    for h in 0..n_rand {
        let mut r = rng(seed, 10_000 + h as u64);
        let len = r.gen_range(1..=40);
        let mut steps = vec![];
        let mut depth = 0;
        for _ in 0..len {
            let k = r.gen_range(0..100);
            if k < 62 { steps.push(t.random(&mut r)); }
            else if k < 76 { if depth == 0 { steps.push(Step::Undo) } else { steps.push(t.random(&mut r)) } }
            else if k < 86 { if depth == 0 { steps.push(Step::Redo) } else { steps.push(t.random(&mut r)) } }
            else if k < 93 { if depth < 2 { depth += 1; steps.push(Step::Begin) } }
            else if depth > 0 { depth -= 1; steps.push(if r.gen_bool(0.3) { Step::EndExplicit } else { Step::EndDrop }) }
        }
        while depth > 0 { depth -= 1; steps.push(Step::EndDrop); }
        steps.push(Step::UndoAll);
        steps.push(Step::RedoAll);
        steps.push(Step::UndoAll);
        cases.push(Case { seed: r.gen_range(0..N_SEEDS), src: "random", steps });
    }
    eprintln!("c08: {} cases ({} from TLC shapes, {} table entries of {} operations)", cases.len(), n_shapes, nflat, nops);
    cases
}

// ------------------------------------------------------------------------------------------------ naming of findings
// The verdict comes from Trace_Undo.tla alone.  To give a violation a KEY that names its cause rather than the
// incidental history around it, the driver shrinks the violating history to a 1-minimal one that still violates the
// same predicate (delta debugging, in-process) and names the operation whose undo/redo step first failed to restore
// the (strict) snapshot in that minimal history.  `Judge` mirrors the property layer of Trace_Undo on digests.
type Dg = (u64, u64);

fn digest_pair(es: &EditState) -> Dg {
    let mut h = HashSink::new();
    snap(es, &mut h);
    (h.w.finish(), h.x.finish())
}

struct Ent {
    b: Option<Dg>,
    a: Option<Dg>,
    tag: String,
}

#[derive(Clone, Debug, PartialEq)]
struct Verdict {
    pred: String,
    op: String,
    site: String,
}

struct Judge {
    past: Vec<Ent>,
    future: Vec<Ent>,
    open: Vec<usize>,
    cur: Dg,
    taint: Option<String>,
    verdict: Option<Verdict>,
    done: bool,
}

impl Judge {
    fn new() -> Self {
        Judge { past: vec![], future: vec![], open: vec![], cur: (0, 0), taint: None, verdict: None, done: false }
    }
    fn fail(&mut self, pred: &str, op: String, site: &str) {
        self.verdict = Some(Verdict { pred: pred.to_string(), op, site: site.to_string() });
        self.done = true;
    }
}

impl Watch for Judge {
    fn event(&mut self, ev: Value, es: &EditState) {
        if self.done {
            return;
        }
        let kind = ev["ev"].as_str().unwrap_or("").to_string();
        let r = ev["r"].as_str().unwrap_or("ok").to_string();
        if r == "err" || r == "panic" {
            if kind == "undo" || kind == "redo" {
                let tag = if kind == "undo" { self.past.last() } else { self.future.last() }.map(|e| e.tag.clone()).unwrap_or_else(|| "none".into());
                let name = if kind == "undo" { "Undo" } else { "Redo" };
                let op = self.taint.clone().unwrap_or(tag);
                self.fail(&format!("{name}{}", if r == "panic" { "Panics" } else { "Fails" }), op, ev["site"].as_str().unwrap_or(""));
            }
            self.done = true;
            return;
        }
        let now = digest_pair(es);
        let ul = ev["ul"].as_u64().unwrap_or(0) as usize;
        let cr = ev["cr"].as_i64().unwrap_or(0);
        match kind.as_str() {
            "reset" => {}
            "op" if r == "ok" => {
                let cls = ev["cls"].as_str().unwrap_or("");
                let tag = if cls.is_empty() { ev["op"].as_str().unwrap_or("").to_string() } else { format!("{}#{}", ev["op"].as_str().unwrap_or(""), cls) };
                let k = ul as i64 - self.past.len() as i64;
                if k == 0 {
                    if now.0 != self.cur.0 { self.fail("EditLeavesStep", tag, ""); return; }
                    if cr == 0 { self.future.clear(); }
                } else if k > 0 {
                    if cr == 1 { self.fail("EditClearsRedo", tag, ""); return; }
                    for i in 0..k {
                        self.past.push(Ent { b: if i == 0 { Some(self.cur) } else { None }, a: if i == k - 1 { Some(now) } else { None }, tag: tag.clone() });
                    }
                    self.future.clear();
                }
            }
            "undo" | "redo" => {
                let is_undo = kind == "undo";
                let e = if is_undo { self.past.pop() } else { self.future.pop() };
                if let Some(e) = e {
                    let want = if is_undo { e.b } else { e.a };
                    if let Some(wd) = want {
                        if wd.0 != now.0 {
                            let op = self.taint.clone().unwrap_or(e.tag.clone());
                            self.fail(if is_undo { "UndoRestores" } else { "RedoRestores" }, op, "");
                            return;
                        }
                        if wd.1 != now.1 && self.taint.is_none() { self.taint = Some(e.tag.clone()); }
                    }
                    if is_undo { self.future.push(e) } else { self.past.push(e) }
                }
            }
            "begin" => { self.open.push(self.past.len()); self.future.clear(); }
            "end" => {
                if let Some(base) = self.open.pop() {
                    if self.past.len() > base {
                        let inner: Vec<Ent> = self.past.drain(base..).collect();
                        let tag = if inner.len() == 1 { inner[0].tag.clone() } else { format!("group({})", inner.iter().map(|e| e.tag.as_str()).collect::<Vec<_>>().join("+")) };
                        // the engine may close the group into any number n >= 1 of steps: first `before` and last `after` are known
                        let n = if ul > base { ul - base } else { 1 };
                        for i in 0..n {
                            self.past.push(Ent { b: if i == 0 { inner[0].b } else { None }, a: if i == n - 1 { inner[inner.len() - 1].a } else { None }, tag: tag.clone() });
                        }
                    } else if ul > self.past.len() {
                        self.past.push(Ent { b: Some(now), a: Some(now), tag: "group()".into() });
                    }
                }
            }
            _ => {}
        }
        if self.past.len() != ul {
            // lengths disagree: only "undoing everything gives the initial document" is still known (as in Trace_Undo!Forget)
            let b0 = self.past.first().and_then(|e| e.b);
            self.past = (0..ul).map(|i| Ent { b: if i == 0 { b0 } else { None }, a: None, tag: "?".into() }).collect();
            for e in &mut self.future { e.b = None; e.a = None; }
        }
        self.cur = now;
    }
}

fn judge(case: &Case) -> Option<Verdict> {
    let mut j = Judge::new();
    let mut st = Stats::default();
    run_case(case, 0, &mut j, &mut st);
    j.verdict
}

/// 1-minimal sub-history with the same failing predicate (and panic site).
fn minimize(case: &Case) -> (Case, Option<Verdict>) {
    let Some(v0) = judge(case) else { return (case.clone(), None) };
    let same = |c: &Case| judge(c).map(|v| v.pred == v0.pred && v.site == v0.site).unwrap_or(false);
    let mut cur = case.clone();
    let mut chunk = (cur.steps.len() / 2).max(1);
    loop {
        let mut i = 0;
        let mut removed = false;
        while i < cur.steps.len() {
            let mut t = cur.clone();
            let end = (i + chunk).min(t.steps.len());
            t.steps.drain(i..end);
            if same(&t) { cur = t; removed = true; } else { i += chunk; }
        }
        if chunk == 1 && !removed { break; }
        if chunk > 1 { chunk = (chunk / 2).max(1); }
    }
    let v = judge(&cur);
    (cur, v)
}

fn step_json(s: &Step) -> Value {
    match s {
        Step::Op(n, a) => json!({"ev":"op","op":n,"args":a}),
        Step::Undo => json!({"ev":"undo"}),
        Step::Redo => json!({"ev":"redo"}),
        Step::Begin => json!({"ev":"begin"}),
        Step::EndDrop => json!({"ev":"end","kind":"drop"}),
        Step::EndExplicit => json!({"ev":"end","kind":"end"}),
        Step::UndoAll => json!({"ev":"undo_all"}),
        Step::RedoAll => json!({"ev":"redo_all"}),
    }
}

fn keys(inp: &str, outp: &str) {
    let text = std::fs::read_to_string(inp).expect("cases file");
    let v: Value = serde_json::from_str(&text).expect("cases json");
    let mut res = vec![];
    for c in v.as_array().cloned().unwrap_or_default() {
        let case = parse_case(&c);
        let (min, verdict) = minimize(&case);
        match verdict {
            Some(vd) => res.push(json!({"pred": vd.pred, "op": vd.op, "site": vd.site, "seed": min.seed, "min": min.steps.iter().map(step_json).collect::<Vec<_>>()})),
            None => res.push(json!({"pred": "", "op": "", "site": "", "seed": case.seed, "min": []})),
        }
    }
    std::fs::write(outp, serde_json::to_string(&res).unwrap()).expect("write keys");
}

// ------------------------------------------------------------------------------------------------ explain
struct ExplainWatch {
    stack: Vec<(TextSink, TextSink, String)>,   // (before, after, operation) per undo step
    future: Vec<(TextSink, TextSink, String)>,
    open: Vec<usize>,
    cur: TextSink,
    n: usize,
    found: bool,
}

impl Watch for ExplainWatch {
    fn event(&mut self, ev: Value, es: &EditState) {
        self.n += 1;
        let kind = ev["ev"].as_str().unwrap_or("").to_string();
        let r = ev["r"].as_str().unwrap_or("ok").to_string();
        let label = if kind == "op" { format!("{} {}", ev["op"].as_str().unwrap_or(""), ev["args"]) } else { kind.clone() };
        if r == "err" || r == "panic" {
            println!("{:3} {label}: {r} {} {}", self.n, ev["msg"].as_str().unwrap_or(""), ev["site"].as_str().unwrap_or(""));
            if kind != "op" { self.found = true; println!("    => {kind}() itself failed on a history of successful operations"); }
            return;
        }
        let now = full_snapshot(es);
        let ul = ev["ul"].as_u64().unwrap_or(0) as usize;
        println!("{:3} {label}: {r}, undo_stack_len={ul}, can_redo={}", self.n, ev["cr"]);
        let mut report = |what: &str, want: &TextSink, op: &str| {
            let d = diff(want, &now, false);
            let ds = diff(want, &now, true);
            if !d.is_empty() {
                println!("    => {what} the step added by `{op}`: {} field(s) of the document differ; first: {}", d.len(), d[0]);
                for x in d.iter().skip(1).take(4) { println!("       also: {x}"); }
            } else if !ds.is_empty() {
                println!("    (model layer) {what} `{op}`: document restored, but {} stored-but-unobservable field(s) differ; first: {}", ds.len(), ds[0]);
            }
            !d.is_empty()
        };
        match kind.as_str() {
            "reset" => {}
            "op" => {
                if r == "ok" {
                    let k = ul as i64 - self.stack.len() as i64;
                    if k == 0 && !diff(&self.cur, &now, false).is_empty() {
                        println!("    => the operation changed the document but added no undo step");
                        self.found = true;
                    }
                    for i in 0..k.max(0) {
                        let b = if i == 0 { self.cur.clone() } else { TextSink::default() };
                        let a = if i == k - 1 { now.clone() } else { TextSink::default() };
                        self.stack.push((b, a, label.clone()));
                    }
                    if k > 0 { self.future.clear(); }
                }
            }
            "undo" => {
                if let Some(e) = self.stack.pop() {
                    if !e.0.items.is_empty() && report("after undoing", &e.0, &e.2) { self.found = true; }
                    self.future.push(e);
                }
            }
            "redo" => {
                if let Some(e) = self.future.pop() {
                    if !e.1.items.is_empty() && report("after redoing", &e.1, &e.2) { self.found = true; }
                    self.stack.push(e);
                }
            }
            "begin" => { self.open.push(self.stack.len()); self.future.clear(); }
            "end" => {
                if let Some(base) = self.open.pop() {
                    if self.stack.len() > base {
                        let inner: Vec<_> = self.stack.drain(base..).collect();
                        self.stack.push((inner[0].0.clone(), inner[inner.len() - 1].1.clone(), "atomic group".into()));
                    } else if ul > self.stack.len() {
                        self.stack.push((now.clone(), now.clone(), "empty atomic group".into()));
                    }
                }
            }
            _ => {}
        }
        while self.stack.len() > ul { self.stack.pop(); }
        self.cur = now;
    }
}

fn parse_case(v: &Value) -> Case {
    let mut steps = vec![];
    for s in v["steps"].as_array().cloned().unwrap_or_default() {
        let ev = s["ev"].as_str().unwrap_or("");
        match ev {
            "op" => steps.push(Step::Op(s["op"].as_str().unwrap_or("").to_string(), s["args"].as_array().map(|a| a.iter().map(|x| x.as_i64().unwrap_or(0)).collect()).unwrap_or_default())),
            "undo" => steps.push(Step::Undo),
            "redo" => steps.push(Step::Redo),
            "begin" => steps.push(Step::Begin),
            "end" => steps.push(if s["kind"].as_str() == Some("end") { Step::EndExplicit } else { Step::EndDrop }),
            "undo_all" => steps.push(Step::UndoAll),
            "redo_all" => steps.push(Step::RedoAll),
            _ => {}
        }
    }
    Case { seed: v["seed"].as_u64().unwrap_or(0) as usize, src: "replay", steps }
}

fn explain(path: &str) {
    let text = std::fs::read_to_string(path).expect("case file");
    let v: Value = serde_json::from_str(&text).expect("case json");
    let case = parse_case(&v);
    println!("replaying history on seed document {} ({} steps)", case.seed, case.steps.len());
    let mut w = ExplainWatch { stack: vec![], future: vec![], open: vec![], cur: full_snapshot(&seed_doc(case.seed)), n: 0, found: false };
    let mut st = Stats::default();
    run_case(&case, 0, &mut w, &mut st);
    println!("{}", if w.found { "RESULT: property violated by this history (see => lines)" } else { "RESULT: no difference found on replay" });
}

// ------------------------------------------------------------------------------------------------ entry point
pub fn c08(a: &Args) {
    crate::util::install_panic_hook();
    if a.has("explain") {
        explain(&a.str("explain", ""));
        return;
    }
    if a.has("keys") {
        keys(&a.str("keys", ""), &a.str("out", "work/C08/keys.json"));
        return;
    }
    let out = a.str("out", "work/C08/trace.ndjson");
    let seed = a.u64("seed", 0);
    let thorough = a.str("tier", "quick") == "thorough";
    let shards = a.usize("shards", 4).max(1);
    let cases = gen_cases(seed, thorough, &a.str("gen", "gen/undo_shapes.ndjson"));
    let cases = std::sync::Arc::new(cases);
    let mut handles = vec![];
    for s in 0..shards {
        let cases = cases.clone();
        let path = out.replace(".ndjson", &format!("-s{s}.ndjson"));
        handles.push(std::thread::Builder::new().stack_size(64 << 20).spawn(move || {
            let mut o = Out::create(&path);
            let mut st = Stats::default();
            for (i, c) in cases.iter().enumerate() {
                if i % shards != s { continue; }
                let mut w = TraceWatch { out: &mut o };
                run_case(c, i, &mut w, &mut st);
            }
            o.flush();
            (st, o.n)
        }).unwrap());
    }
    let mut total = Stats::default();
    let mut events = 0;
    for h in handles {
        let (st, n) = h.join().expect("driver thread");
        total.merge(st);
        events += n;
    }
    let never_ok: Vec<&str> = op_table().iter().map(|o| o.0).filter(|n| !total.per_op_ok.contains_key(*n)).collect();
    let summary = json!({"cases": total.cases, "events": events, "ops_ok": total.ops_ok, "ops_err": total.ops_err, "ops_panic": total.ops_panic, "ops_skip": total.ops_skip,
        "undo_calls": total.undo, "redo_calls": total.redo, "groups": total.groups, "undo_redo_failures": total.undo_fail,
        "operations_in_table": op_table().len(), "operations_succeeded_at_least_once": total.per_op_ok.len(), "operations_never_ok": never_ok,
        "cut_by_operation": total.per_op_cut, "panic_sites_inside_operations": total.op_panic_sites});
    let sp = out.replace(".ndjson", "-summary.json");
    std::fs::write(&sp, serde_json::to_string_pretty(&summary).unwrap()).expect("summary");
    eprintln!("c08: {} cases, {} events, ops ok/err/panic/skip = {}/{}/{}/{}, undo/redo failures {}", total.cases, events, total.ops_ok, total.ops_err, total.ops_panic, total.ops_skip, total.undo_fail);
}
