//! (stub) driver module - see tools/HOWTO.md
use crate::util::Args;

pub fn c08(_a: &Args) {
    eprintln!("c08: driver not built yet");
    std::process::exit(2);
}
