//! (stub) driver module - see tools/HOWTO.md
use crate::util::Args;

pub fn c12(_a: &Args) {
    eprintln!("c12: driver not built yet");
    std::process::exit(2);
}
