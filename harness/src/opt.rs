//! C12 - default (colour-optimised) saving never changes the rendered picture.
//!
//! Every document is built as a real `Buffer` (1..=4 Normal-mode layers, alpha / offset / hidden, a font table whose
//! slots all hold fonts, a palette with extended entries), optimised with `ColorOptimizer::new(buf, opts).optimize(buf)`
//! for both settings of `normalize_whitespaces`, and both buffers are rendered with `Buffer::render_to_rgba`.
//! Events (validated by spec/doc/Trace_ColorOpt.tla):
//!   reset{fonts,pal,names}   font table (glyph bitmaps) and palette shared by the following documents
//!   opt{..}                  one optimiser run: per cell <<original composited, optimised stored, optimised shown>>,
//!                            sizes, image comparison (equal? first differing pixel)
//!   panic{site}              the optimiser or the renderer panicked
//! Document families: "sweep" (every glyph of one font), "classes" (TLC witnesses <carried colours, glyph class, cell
//! colours, bold> instantiated with real glyphs of one font), "multi" (seeded random multi-layer, multi-font documents).
use crate::util::{guard, panic_site, rng, Args, Out};
use icy_engine::{AttributedChar, BitFont, Buffer, Color, ColorOptimizer, Layer, Line, SaveOptions, TextAttribute, TextPane, SAUCE_FONT_NAMES};
use rand::rngs::StdRng;
use rand::seq::SliceRandom;
use rand::Rng;
use serde_json::{json, Value};

fn col_out(c: u32) -> i64 {
    if c & 0x8000_0000 != 0 { -((c & 0x7FFF_FFFF) as i64) - 1 } else { c as i64 }
}
fn cell_json(c: AttributedChar) -> Value {
    json!([c.ch as u32, col_out(c.attribute.get_foreground()), col_out(c.attribute.get_background()), c.attribute.attr, c.attribute.get_font_page()])
}

struct FontInfo {
    name: String,
    font: BitFont,
    blanks: Vec<u32>,     // no pixel set
    solids: Vec<u32>,     // every pixel of the font's own box set
    near_solid: Vec<u32>, // the glyphs with the most set pixels that are not solid
    near_blank: Vec<u32>, // the glyphs with the fewest set pixels that are not blank
    mixed: Vec<u32>,      // everything else
}

fn ones(font: &BitFont, ch: u32) -> Option<u32> {
    font.get_glyph(char::from_u32(ch)?).map(|g| g.data.iter().map(|b| b.count_ones()).sum())
}

fn font_info(name: String, font: BitFont) -> FontInfo {
    let full = (font.size.width * font.size.height) as u32;
    let mut counts: Vec<(u32, u32)> = (0..font.length.max(0) as u32).filter_map(|c| ones(&font, c).map(|n| (c, n))).collect();
    let blanks: Vec<u32> = counts.iter().filter(|x| x.1 == 0).map(|x| x.0).collect();
    let solids: Vec<u32> = counts.iter().filter(|x| x.1 == full).map(|x| x.0).collect();
    counts.retain(|x| x.1 != 0 && x.1 != full);
    counts.sort_by_key(|x| (x.1, x.0));
    let near_blank: Vec<u32> = counts.iter().take(4).map(|x| x.0).collect();
    let near_solid: Vec<u32> = counts.iter().rev().take(6).map(|x| x.0).collect();
    let mixed: Vec<u32> = counts.iter().map(|x| x.0).filter(|c| !near_blank.contains(c) && !near_solid.contains(c)).collect();
    FontInfo { name, font, blanks, solids, near_solid, near_blank, mixed }
}

fn all_fonts() -> Vec<FontInfo> {
    let mut v = Vec::new();
    for p in 0..=42usize {
        match BitFont::from_ansi_font_page(p) {
            Ok(f) => v.push(font_info(format!("page{p}"), f)),
            Err(e) => {
                eprintln!("c12: built-in font page {p} does not load: {e}");
                std::process::exit(2);
            }
        }
    }
    for n in SAUCE_FONT_NAMES {
        match BitFont::from_sauce_name(n) {
            Ok(f) => v.push(font_info(format!("sauce:{n}"), f)),
            Err(e) => {
                eprintln!("c12: SAUCE font {n} does not load: {e}");
                std::process::exit(2);
            }
        }
    }
    v
}

fn font_json(f: &BitFont) -> Value {
    let g: Vec<Value> = (0..f.length.max(0) as u32).map(|c| match char::from_u32(c).and_then(|ch| f.get_glyph(ch)) { Some(g) => json!(g.data), None => json!([]) }).collect();
    json!({"w": f.size.width, "h": f.size.height, "g": g})
}

/// A user font derived from a built-in one: the densest glyph becomes "all but one pixel", the sparsest "exactly one pixel",
/// character 219 becomes solid.  Character 32 and the other blank glyphs are left alone.  (Documents with their own fonts
/// are ordinary - XBin and IcyDraw files embed them; no built-in font has a glyph within 12 pixels of solid.)
fn derive(fi: &FontInfo, r: &mut StdRng) -> FontInfo {
    let mut font = fi.font.clone();
    let (w, h) = (font.size.width.min(8) as u32, font.size.height as usize);
    let row_full: u8 = if w >= 8 { 0xFF } else { !(0xFFu8 >> w) };
    let dense = *fi.near_solid.first().unwrap_or(&1);
    let sparse = *fi.near_blank.first().unwrap_or(&2);
    if let Some(g) = font.get_glyph_mut(ch(219)) {
        g.data = vec![row_full; h];
    }
    if dense != 219 {
        if let Some(g) = font.get_glyph_mut(ch(dense)) {
            g.data = vec![row_full; h];
            let (y, x) = (r.gen_range(0..h), r.gen_range(0..w));
            g.data[y] &= !(128u8 >> x);
        }
    }
    if sparse != 219 && sparse != dense && sparse != 32 {
        if let Some(g) = font.get_glyph_mut(ch(sparse)) {
            g.data = vec![0; h];
            let (y, x) = (r.gen_range(0..h), r.gen_range(0..w));
            g.data[y] |= 128u8 >> x;
        }
    }
    font_info(format!("derived:{}", fi.name), font)
}

/// Palette: the 16 DOS colours plus extended entries (how the engine stores RGB colours coming from SGR 38/48;2).
const EXT: [(u8, u8, u8); 6] = [(255, 128, 0), (1, 2, 3), (0, 0, 171), (254, 254, 254), (90, 17, 203), (0, 0, 0)];

struct Table<'a> {
    slots: Vec<(usize, &'a FontInfo)>,
}
impl Table<'_> {
    fn user_font(&self) -> bool {
        self.slots.iter().any(|(_, f)| f.name.starts_with("derived:"))
    }
}

fn new_buffer(size: (i32, i32), table: &Table) -> Buffer {
    let mut buf = Buffer::new(size);
    buf.is_terminal_buffer = false;
    for (r, g, b) in EXT {
        buf.palette.push(Color::new(r, g, b));
    }
    buf.clear_font_table();
    for (slot, fi) in &table.slots {
        buf.set_font(*slot, fi.font.clone());
    }
    // documents with more than one font exist in every font mode (the mode restricts what an editor offers, not what a file holds)
    if table.slots.len() > 1 {
        static MODE: std::sync::atomic::AtomicU64 = std::sync::atomic::AtomicU64::new(0);
        buf.font_mode = match MODE.fetch_add(1, std::sync::atomic::Ordering::Relaxed) % 4 { 0 => icy_engine::FontMode::Unlimited, 1 => icy_engine::FontMode::Single, 2 => icy_engine::FontMode::FixedSize, _ => icy_engine::FontMode::Sauce };
    }
    // a font editor changes the glyphs of the document's font IN PLACE (font_iter_mut): for derived fonts in slot 0 the same
    // glyphs are written again that way, so that the document does not depend on how set_font treated the font object
    for (slot, fi) in &table.slots {
        if fi.name.starts_with("derived:") {
            for (s, f) in buf.font_iter_mut() {
                if s == slot {
                    for (c, g) in &fi.font.glyphs {
                        if let Some(t) = f.get_glyph_mut(*c) { t.data = g.data.clone(); }
                    }
                }
            }
        }
    }
    buf.layers.clear();
    buf
}

fn emit_table(out: &mut Out, table: &Table, family: &str) {
    let mut fonts = serde_json::Map::new();
    for (slot, fi) in &table.slots {
        fonts.insert(slot.to_string(), font_json(&fi.font));
    }
    let probe = new_buffer((1, 1), table);
    let pal: Vec<Value> = (0..probe.palette.len()).map(|i| { let (r, g, b) = probe.palette.get_rgb(i as u32); json!([r, g, b]) }).collect();
    let names: Vec<Value> = table.slots.iter().map(|(s, fi)| json!([s, fi.name])).collect();
    out.ev(&json!({"ev":"reset","family":family,"fonts":fonts,"pal":pal,"names":names}));
}

fn rnd_color(r: &mut StdRng, background: bool) -> u32 {
    match r.gen_range(0..100) {
        0..=34 => if background && r.gen_bool(0.4) { 0 } else { r.gen_range(0..8) },
        35..=59 => r.gen_range(8..16),
        60..=79 => 16 + r.gen_range(0..EXT.len() as u32),
        _ => {
            // directly encoded RGB (bit 31); never 0,0,0 which is TextAttribute::TRANSPARENT_COLOR
            let rgb = r.gen_range(1..0x0100_0000u32);
            0x8000_0000 | rgb
        }
    }
}

fn rnd_attr(r: &mut StdRng, slot: usize) -> TextAttribute {
    let mut at = TextAttribute::new(rnd_color(r, false), rnd_color(r, true));
    at.attr = match r.gen_range(0..10) { 0..=2 => 1, 3 => 8, 4 => 16 | 1, _ => 0 };
    at.set_font_page(slot);
    at
}

fn pick(r: &mut StdRng, v: &[u32]) -> Option<u32> {
    if v.is_empty() { None } else { Some(v[r.gen_range(0..v.len())]) }
}

fn rnd_glyph(r: &mut StdRng, fi: &FontInfo) -> u32 {
    let any = |r: &mut StdRng| r.gen_range(0..fi.font.length.max(1) as u32);
    match r.gen_range(0..100) {
        0..=24 => pick(r, &fi.blanks).unwrap_or_else(|| any(r)),
        25..=44 => pick(r, &fi.solids).unwrap_or_else(|| any(r)),
        45..=59 => pick(r, &fi.near_solid).unwrap_or_else(|| any(r)),
        60..=67 => pick(r, &fi.near_blank).unwrap_or_else(|| any(r)),
        _ => any(r),
    }
}

fn ch(c: u32) -> char {
    char::from_u32(c).unwrap_or(' ')
}

fn full_layer(size: (i32, i32), cells: &[AttributedChar]) -> Layer {
    let mut l = Layer::new("l", size);
    l.lines = (0..size.1).map(|y| Line { chars: (0..size.0).map(|x| cells.get((y * size.0 + x) as usize).copied().unwrap_or_else(AttributedChar::invisible)).collect() }).collect();
    l
}

/// One optimiser run per setting of normalize_whitespaces; records cells, sizes and the image comparison.
fn run_doc(out: &mut Out, buf: &Buffer, family: &str, user_font: bool, doc: usize, stats: &mut Stats) {
    for norm in [false, true] {
        let mut opts = SaveOptions::default();
        opts.normalize_whitespaces = norm;
        let r = guard(|| {
            let o = ColorOptimizer::new(buf, &opts).optimize(buf);
            let (s1, p1) = buf.render_to_rgba(buf.get_rectangle());
            let (s2, p2) = o.render_to_rgba(o.get_rectangle());
            (o, s1, p1, s2, p2)
        });
        match r {
            Err(p) => out.ev(&json!({"ev":"panic","family":family,"userfont":user_font as u8,"doc":doc,"norm":norm as u8,"site":panic_site(&p),"msg":p.msg})),
            Ok((o, s1, p1, s2, p2)) => {
                let (w, h) = (buf.get_width(), buf.get_height());
                let fs = buf.get_font(0).map(|f| f.size).unwrap_or_default();
                let mut first_diff = json!([]);
                let img_eq = s1 == s2 && p1 == p2;
                if !img_eq && s1 == s2 {
                    if let Some(i) = p1.iter().zip(p2.iter()).position(|(a, b)| a != b) {
                        let px = (i / 4) as i32 % s1.width;
                        let py = (i / 4) as i32 / s1.width;
                        first_diff = json!([px, py, px / fs.width.max(1), py / fs.height.max(1)]);
                    }
                }
                let mut cells = Vec::with_capacity((w * h) as usize);
                let single = o.layers.len() == 1;
                for y in 0..h {
                    for x in 0..w {
                        let orig = buf.get_char((x, y));
                        let shown = o.get_char((x, y));
                        let raw = if single { o.layers[0].get_char((x, y)) } else { shown };
                        let (oj, rj, sj) = (cell_json(orig), cell_json(raw), cell_json(shown));
                        if rj != oj { stats.changed += 1; }
                        if rj == sj { cells.push(json!([oj, rj])); } else { cells.push(json!([oj, rj, sj])); }
                    }
                }
                stats.cells += (w * h) as usize;
                out.ev(&json!({"ev":"opt","family":family,"userfont":user_font as u8,"doc":doc,"norm":norm as u8,"layers":buf.layers.len(),"size":[w,h],"osize":[o.get_width(),o.get_height()],
                    "olayers":o.layers.len(),"dims":[[s1.width,s1.height],[s2.width,s2.height]],"img_eq":img_eq as u8,"first_diff":first_diff,"cells":cells}));
            }
        }
    }
}

#[derive(Default)]
struct Stats {
    cells: usize,
    changed: usize,
}

/// Concrete colour for a colour of the scaled-down model (MC_ColorOpt.Colors), consistently within one witness.
fn model_color(c: i64, low: u32, ext: u32, rgb: u32) -> u32 {
    match c {
        0 => 0,
        1 => low,
        7 => 7,
        9 => low + 8,
        16 => 16 + ext,
        _ => 0x8000_0000 | rgb,
    }
}

pub fn c12(a: &Args) {
    let mut out = Out::create(&a.str("out", "work/C12/trace.ndjson"));
    let seed = a.u64("seed", 0);
    let thorough = a.str("tier", "quick") == "thorough";
    let mut fonts = all_fonts();
    let n_builtin = fonts.len();
    // user fonts derived from built-in ones (font 0, an 8x8 font, others rotating with the seed)
    let n_derived = if thorough { 12 } else { 4 };
    for i in 0..n_derived {
        let base = match i { 0 => 0, 1 => 32, _ => (seed as usize * 5 + i * 13) % n_builtin };
        let mut r = rng(seed, 119_000 + i as u64);
        let d = derive(&fonts[base], &mut r);
        fonts.push(d);
    }
    let mut stats = Stats::default();
    let mut doc = 0usize;

    // facts about the built-in fonts the property depends on (reported once, on stderr)
    let bad_space: Vec<&str> = fonts.iter().filter(|f| ones(&f.font, 32).map(|n| n != 0).unwrap_or(false)).map(|f| f.name.as_str()).collect();
    let no_solid = fonts.iter().filter(|f| f.solids.is_empty()).count();
    eprintln!("c12: {} fonts ({n_builtin} built-in); fonts whose character 32 is not blank: {:?}; fonts without a solid glyph: {}", fonts.len(), bad_space, no_solid);

    // (1) sweep: every glyph of every built-in font page 0..=42 and every SAUCE font, shuffled, random attributes
    let sweeps = if thorough { 3 } else { 1 };
    for (fi_idx, fi) in fonts.iter().enumerate() {
        let table = Table { slots: vec![(0, fi)] };
        emit_table(&mut out, &table, "sweep");
        for s in 0..sweeps {
            let mut r = rng(seed, 120_000 + (fi_idx * 10 + s) as u64);
            let n = fi.font.length.max(1) as u32;
            let mut glyphs: Vec<u32> = (0..n).chain(0..n).collect();
            glyphs.shuffle(&mut r);
            let w = 32;
            let h = (glyphs.len() as i32 + w - 1) / w;
            let cells: Vec<AttributedChar> = glyphs.iter().map(|g| AttributedChar::new(ch(*g), rnd_attr(&mut r, 0))).collect();
            let mut buf = new_buffer((w, h), &table);
            buf.layers.push(full_layer((w, h), &cells));
            doc += 1;
            run_doc(&mut out, &buf, "sweep", table.user_font(), doc, &mut stats);
        }
    }

    // (2) classes: TLC witnesses {prev:[fg,bg], g:class, fg, bg, bold} as <setter cell, tested cell> pairs
    let mut wit: Vec<Value> = Vec::new();
    let gen = a.str("gen", "");
    if !gen.is_empty() {
        match std::fs::read_to_string(&gen) {
            Ok(t) => wit = t.lines().filter_map(|l| serde_json::from_str(l).ok()).collect(),
            Err(_) => {
                eprintln!("c12: cannot read {gen}");
                std::process::exit(2);
            }
        }
    }
    let n_class_fonts = if thorough { 16 } else { 5 };
    // font 0 (CP437), an 8x8 font, then fonts rotating with the seed
    let mut class_fonts: Vec<usize> = vec![0, 32, n_builtin, n_builtin + 1];
    let mut k = seed as usize * 7 + 1;
    while class_fonts.len() < n_class_fonts {
        k = (k + 11) % fonts.len();
        if !class_fonts.contains(&k) {
            class_fonts.push(k);
        }
    }
    let mut n_wit = 0;
    for (ci, &fidx) in class_fonts.iter().enumerate() {
        let fi = &fonts[fidx];
        let table = Table { slots: vec![(0, fi)] };
        emit_table(&mut out, &table, "classes");
        let mut r = rng(seed, 121_000 + ci as u64);
        let mut cells: Vec<AttributedChar> = Vec::new();
        for w in &wit {
            let class = w["g"].as_str().unwrap_or("mixed");
            let pool: &[u32] = match class { "blank" => &fi.blanks, "blank32" => &[32], "solid" => &fi.solids, "nearsolid" => &fi.near_solid, "nearblank" => &fi.near_blank, _ => &fi.mixed };
            let pool: Vec<u32> = if class == "blank" { pool.iter().copied().filter(|c| *c != 32).collect() } else { pool.to_vec() };
            let Some(g) = pick(&mut r, &pool) else { continue };
            if class == "blank32" && !fi.blanks.contains(&32) {
                continue;
            }
            let (low, ext, rgb) = (r.gen_range(1..8), r.gen_range(0..EXT.len() as u32), r.gen_range(1..0x0100_0000u32));
            let mc = |c: &Value| model_color(c.as_i64().unwrap_or(0), low, ext, rgb);
            let setter_glyph = pick(&mut r, &fi.mixed).unwrap_or(65);
            let mut sat = TextAttribute::new(mc(&w["prev"][0]), mc(&w["prev"][1]));
            sat.set_font_page(0);
            cells.push(AttributedChar::new(ch(setter_glyph), sat));
            let mut at = TextAttribute::new(mc(&w["fg"]), mc(&w["bg"]));
            at.attr = w["bold"].as_u64().unwrap_or(0) as u16;
            at.set_font_page(0);
            cells.push(AttributedChar::new(ch(g), at));
            n_wit += 1;
        }
        let (w, rows_per_doc) = (80, 25);
        for chunk in cells.chunks((w * rows_per_doc) as usize) {
            let h = (chunk.len() as i32 + w - 1) / w;
            let mut buf = new_buffer((w, h), &table);
            buf.layers.push(full_layer((w, h), chunk));
            doc += 1;
            run_doc(&mut out, &buf, "classes", table.user_font(), doc, &mut stats);
        }
    }
    eprintln!("c12: {} TLC witnesses x {} fonts instantiated ({} pairs)", wit.len(), class_fonts.len(), n_wit);

    // (3) multi: random documents of 1..=4 layers (alpha, offset, hidden) over font tables of 1..=3 slots
    let n_tables = if thorough { 120 } else { 8 };
    let docs_per_table = if thorough { 30 } else { 10 };
    for t in 0..n_tables {
        let mut r = rng(seed, 122_000 + t as u64);
        // slot 0 decides the cell box; mix sizes (8x16 with 8x8 / 8x14 / 8x19 fonts) on purpose
        let nslots = r.gen_range(1..=3);
        let mut slots: Vec<(usize, &FontInfo)> = Vec::new();
        for s in 0..nslots {
            let fi = &fonts[r.gen_range(0..fonts.len())];
            let slot = if s == 0 { 0 } else { *[1usize, 2, 5, 17, 42].choose(&mut r).unwrap() + s };
            slots.push((slot, fi));
        }
        let table = Table { slots };
        emit_table(&mut out, &table, "multi");
        for _ in 0..docs_per_table {
            let (w, h) = (r.gen_range(1..=40), r.gen_range(1..=12));
            let mut buf = new_buffer((w, h), &table);
            let nl = r.gen_range(1..=4);
            for li in 0..nl {
                let base = li == 0 && r.gen_bool(0.7);
                let (lw, lh) = if base { (w, h) } else { (r.gen_range(1..=w + 3), r.gen_range(1..=h + 2)) };
                let mut layer = Layer::new(format!("l{li}"), (lw, lh));
                let density = if base { *[0.6, 0.9, 1.0].choose(&mut r).unwrap() } else { *[0.1, 0.4, 0.8, 1.0].choose(&mut r).unwrap() };
                layer.lines = (0..lh).map(|_| Line { chars: (0..lw).map(|_| {
                    if r.gen_bool(density) {
                        let (slot, fi) = table.slots[r.gen_range(0..table.slots.len())];
                        AttributedChar::new(ch(rnd_glyph(&mut r, fi)), rnd_attr(&mut r, slot))
                    } else {
                        AttributedChar::invisible()
                    }
                }).collect() }).collect();
                layer.properties.has_alpha_channel = !base && r.gen_bool(0.7);
                if !base {
                    layer.set_offset((r.gen_range(-3..=5), r.gen_range(-2..=4)));
                }
                layer.properties.is_visible = base || r.gen_bool(0.8);
                buf.layers.push(layer);
            }
            doc += 1;
            run_doc(&mut out, &buf, "multi", table.user_font(), doc, &mut stats);
        }
    }
    // (4) pages: neighbouring cells with the SAME colours and flags on DIFFERENT font pages, for every pair of glyph shape
    //     classes and for the codes whose class differs between the two fonts (whatever the optimiser remembers about the
    //     previous cell must not leak across a font-page change)
    let n_pairs = if thorough { 60 } else { 10 };
    for t in 0..n_pairs {
        let mut r = rng(seed, 123_000 + t as u64);
        let fa = &fonts[if t % 2 == 0 { 0 } else { r.gen_range(0..fonts.len()) }];
        // every other pair mixes glyph heights (a blank is painted over the rows of ITS page's box)
        let other_h: Vec<usize> = (0..fonts.len()).filter(|&k| fonts[k].font.size.height != fa.font.size.height).collect();
        let fb = if t % 4 < 2 && !other_h.is_empty() { &fonts[other_h[r.gen_range(0..other_h.len())]] } else { &fonts[r.gen_range(0..fonts.len())] };
        let slot_b = *[1usize, 2, 5, 17, 27, 42].choose(&mut r).unwrap();
        let table = Table { slots: vec![(0, fa), (slot_b, fb)] };
        emit_table(&mut out, &table, "pages");
        let classes = |fi: &FontInfo| -> Vec<Vec<u32>> { vec![fi.blanks.clone(), fi.solids.clone(), fi.near_solid.clone(), fi.near_blank.clone(), fi.mixed.clone()] };
        let (ca, cb) = (classes(fa), classes(fb));
        let mut cells: Vec<AttributedChar> = Vec::new();
        let mut pair = |cells: &mut Vec<AttributedChar>, r: &mut StdRng, ga: u32, gb: u32, first_b: bool| {
            let at = rnd_attr(r, 0);
            let (mut a0, mut a1) = (at, at);
            a0.set_font_page(if first_b { slot_b } else { 0 });
            a1.set_font_page(if first_b { 0 } else { slot_b });
            cells.push(AttributedChar::new(ch(if first_b { gb } else { ga }), a0));
            cells.push(AttributedChar::new(ch(if first_b { ga } else { gb }), a1));
        };
        for pa in &ca {
            for pb in &cb {
                for rep in 0..3 {
                    let (Some(ga), Some(gb)) = (pick(&mut r, pa), pick(&mut r, pb)) else { continue };
                    pair(&mut cells, &mut r, ga, gb, rep % 2 == 1);
                }
            }
        }
        // a plain blank (and the other blank-looking codes) next to a glyph of the other page, in both orders, on both pages
        for &g in &[32u32, 0, 255] {
            for rep in 0..6 {
                let (Some(ga), Some(gb)) = (pick(&mut r, &fa.mixed), pick(&mut r, &fb.mixed)) else { continue };
                pair(&mut cells, &mut r, ga, g, rep % 2 == 1);
                pair(&mut cells, &mut r, g, gb, rep % 2 == 0);
            }
        }
        // the same code on both pages where its class differs
        let class_of = |cs: &Vec<Vec<u32>>, g: u32| cs.iter().position(|p| p.contains(&g));
        for g in 0..256u32 {
            if class_of(&ca, g) != class_of(&cb, g) {
                pair(&mut cells, &mut r, g, g, g % 2 == 1);
            }
        }
        let w = 40;
        for chunk in cells.chunks((w * 12) as usize) {
            let h = (chunk.len() as i32 + w - 1) / w;
            let mut buf = new_buffer((w, h), &table);
            buf.layers.push(full_layer((w, h), chunk));
            doc += 1;
            run_doc(&mut out, &buf, "pages", table.user_font(), doc, &mut stats);
        }
    }
    // (5) row ends: the LAST visible cell of a row is a "blank-looking" code (0, 32, 255, the font's own blank glyphs) or a
    //     glyph with ink under one of those codes, on a black or coloured background, followed by nothing / invisible cells /
    //     default blanks - for EVERY font (what is a blank is a property of the font page, not of the code)
    for (fi_idx, fi) in fonts.iter().enumerate() {
        let table = Table { slots: vec![(0, fi)] };
        emit_table(&mut out, &table, "rowends");
        let mut r = rng(seed, 124_000 + fi_idx as u64);
        let mut codes: Vec<u32> = vec![0, 32, 255];
        codes.extend(fi.blanks.iter().take(3));
        codes.extend(fi.near_blank.iter().take(2));
        if let Some(g) = pick(&mut r, &fi.mixed) { codes.push(g); }
        let w = 12;
        let mut rows: Vec<Vec<AttributedChar>> = Vec::new();
        for &c in &codes {
            for (bg, tail) in [(0u32, 0usize), (0, 1), (0, 2), (4, 0), (0, 3)] {
                let mut at = TextAttribute::new(r.gen_range(1..16), bg);
                at.set_font_page(0);
                let lead = r.gen_range(0..4);
                let mut row: Vec<AttributedChar> = (0..lead).map(|_| AttributedChar::new(ch(rnd_glyph(&mut r, fi)), rnd_attr(&mut r, 0))).collect();
                row.push(AttributedChar::new(ch(c), at));
                match tail {
                    1 => { for _ in 0..3 { row.push(AttributedChar::invisible()); } }
                    2 => { let mut d = TextAttribute::default(); d.set_font_page(0); for _ in 0..3 { row.push(AttributedChar::new(' ', d)); } }
                    3 => { let mut d = TextAttribute::new(7, 0); d.set_font_page(0); while row.len() < w as usize { row.push(AttributedChar::new(ch(0), d)); } }
                    _ => {}
                }
                while row.len() < w as usize { row.push(AttributedChar::invisible()); }
                row.truncate(w as usize);
                rows.push(row);
            }
        }
        let h = rows.len() as i32;
        let cells: Vec<AttributedChar> = rows.concat();
        let mut buf = new_buffer((w, h), &table);
        buf.layers.push(full_layer((w, h), &cells));
        doc += 1;
        run_doc(&mut out, &buf, "rowends", table.user_font(), doc, &mut stats);
    }
    out.flush();
    eprintln!("c12: {doc} documents, {} events, {} cells, {} rewritten by the optimiser", out.n, stats.cells, stats.changed);
}
