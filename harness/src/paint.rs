//! Driver for the model of the editor's painting helpers (spec/doc/Paint.tla; model layer): `icy_engine::paint::get_halfblock`
//! over every (cell painted over, half, colour, transparency flag) of a small complete domain, and `get_line_points` over every
//! pair of end points of a small grid plus seeded long lines.  The first event (`ink`) carries what the model is not told about
//! glyphs: per glyph code used the number of set pixels in its upper and lower half and the cell size of the font.
use crate::util::{guard, panic_site, rng, Args, Out};
// (a line walk that never reaches its end point would not return: the lib runs the driver under a timeout)
use icy_engine::paint::{get_halfblock, get_line_points};
use icy_engine::{AttributedChar, Buffer, Position, TextAttribute};
use rand::Rng;
use serde_json::{json, Value};

fn col(c: u32) -> i64 {
    if c == TextAttribute::TRANSPARENT_COLOR { -1 } else { c as i64 }
}

fn cell_json(c: AttributedChar) -> Value {
    json!([c.ch as u32, col(c.attribute.get_foreground()), col(c.attribute.get_background())])
}

pub fn paint(a: &Args) {
    crate::util::install_panic_hook();
    let mut out = Out::create(&a.str("out", "work/C08-paint/paint.ndjson"));
    let seed = a.u64("seed", 0);
    let thorough = a.str("tier", "quick") == "thorough";
    let buf = Buffer::new((4, 4));
    let font = buf.get_font(0).expect("font 0").clone();
    let chars: Vec<u32> = vec![32, 219, 220, 223, 0, 65, 176, 178, 221, 222, 254, 95, 34, 300];
    let mut ink = vec![];
    for &c in &chars {
        let g = char::from_u32(c).and_then(|ch| font.get_glyph(ch));
        match g {
            Some(g) => {
                let n = g.data.len();
                let up: u32 = g.data[..n / 2].iter().map(|b| b.count_ones()).sum();
                let lo: u32 = g.data[n / 2..n / 2 + n / 2].iter().map(|b| b.count_ones()).sum();
                ink.push(json!([c, 1, up, lo]));
            }
            None => ink.push(json!([c, 0, 0, 0])),
        }
    }
    out.ev(&json!({"ev": "ink", "w": font.size.width, "h": font.size.height, "g": ink}));
    let colours: Vec<u32> = if thorough { (0..16).collect() } else { vec![0, 1, 7, 8, 9, 15] };
    let t = TextAttribute::TRANSPARENT_COLOR;
    let mut n = 0;
    for &c in &chars {
        let mut attrs: Vec<(u32, u32)> = vec![];
        for &fg in &colours { for &bg in &colours { attrs.push((fg, bg)); } }
        attrs.extend([(t, t), (7, t), (t, 1), (16, 0), (0, 16), (300, 2)]);
        for (fg, bg) in attrs {
            let cur = AttributedChar::new(char::from_u32(c).unwrap(), TextAttribute::new(fg, bg));
            for top in [true, false] {
                for &color in colours.iter().chain([16u32, 255].iter()) {
                    for tflag in [false, true] {
                        let pos = Position::new(1, if top { 2 } else { 3 });
                        let r = guard(|| get_halfblock(&buf, cur, pos, color, tflag));
                        let mut e = json!({"ev": "hb", "cur": cell_json(cur), "top": top, "color": color, "tflag": tflag, "ctransp": cur.is_transparent()});
                        match r {
                            Ok(o) => { e["r"] = json!("ok"); e["out"] = cell_json(o); }
                            Err(p) => { e["r"] = json!("panic"); e["site"] = json!(panic_site(&p)); e["out"] = json!([0, 0, 0]); }
                        }
                        out.ev(&e);
                        n += 1;
                    }
                }
            }
        }
    }
    // negative rows: pos.y % 2 of a negative odd row is -1 in Rust (not "top")
    for y in [-1, -2, -3, 0, 1] {
        let cur = AttributedChar::new(' ', TextAttribute::new(7, 1));
        let r = guard(|| get_halfblock(&buf, cur, Position::new(0, y), 4, false));
        if let Ok(o) = r {
            out.ev(&json!({"ev": "hb", "cur": cell_json(cur), "top": y % 2 == 0, "color": 4, "tflag": false, "ctransp": cur.is_transparent(), "r": "ok", "out": cell_json(o), "y": y}));
            n += 1;
        }
    }
    let k = if thorough { 5 } else { 3 };
    let mut lines = 0;
    for fx in -k..=k { for fy in -k..=k { for tx in -k..=k { for ty in -k..=k {
        let p = guard(|| get_line_points(Position::new(fx, fy), Position::new(tx, ty))).unwrap_or_default();
        out.ev(&json!({"ev": "line", "f": [fx, fy], "t": [tx, ty], "p": p.iter().map(|q| json!([q.x, q.y])).collect::<Vec<_>>()}));
        lines += 1;
    }}}}
    let mut r = rng(seed, 81);
    for _ in 0..(if thorough { 2000 } else { 300 }) {
        let (f, t) = ((r.gen_range(-40..120), r.gen_range(-40..60)), (r.gen_range(-40..120), r.gen_range(-40..60)));
        let p = guard(|| get_line_points(Position::new(f.0, f.1), Position::new(t.0, t.1))).unwrap_or_default();
        out.ev(&json!({"ev": "line", "f": [f.0, f.1], "t": [t.0, t.1], "p": p.iter().map(|q| json!([q.x, q.y])).collect::<Vec<_>>()}));
        lines += 1;
    }
    out.flush();
    eprintln!("paint: {n} half-block calls, {lines} lines, {} events", out.n);
}
