//! Drivers for the small, pure components: palette (C16), attribute/code-page codecs (C18), CRCs (C19).
use crate::util::{guard, hi_lo, panic_site, rng, Args, Out};
use icy_engine::{
    ansi, ascii, atascii, from_ega_data, get_crc16, get_crc32, mode7, petscii, to_ega_data, update_crc16, update_crc32, viewdata, AttributedChar, Buffer,
    BufferParser, Caret, Color, IceMode, Palette, PaletteFormat, TextAttribute, UnicodeConverter,
};
use rand::Rng;
use serde_json::{json, Value};

fn pal_colors(p: &Palette) -> Value {
    Value::Array((0..p.len()).map(|i| { let (r, g, b) = p.get_rgb(i as u32); json!([r, g, b]) }).collect())
}

// ------------------------------------------------------------------ C16
/// titles / authors / descriptions / colour names: ordinary text and text that resembles colour lines, headers or comments
const META_STRINGS: [&str; 16] = ["My Palette 16", "A. Uthor", "dark tones", "Some Body 1996 04 12", "255 255 255 white", "10 20 30", "FFAA00", "#FFAA00", "Columns: 3",
    "Name: other", "GIMP Palette", "JASC-PAL", "0100", "16", "$ff0000", "a;b,c"];

pub fn c16(a: &Args) {
    let mut out = Out::create(&a.str("out", "work/C16/trace.ndjson"));
    let seed = a.u64("seed", 0);
    let thorough = a.str("tier", "quick") == "thorough";

    // (1) behaviours exported by TLC from MC_Palette (Gen_Palette.cfg): every witness is an operation sequence
    let gen = a.str("gen", "gen/palette.ndjson");
    let mut n_gen = 0;
    if let Ok(text) = std::fs::read_to_string(&gen) {
        for line in text.lines() {
            let Ok(v) = serde_json::from_str::<Value>(line) else { continue };
            let mut p = Palette::new();
            DEFINED.store(p.len(), std::sync::atomic::Ordering::Relaxed);
            out.ev(&json!({"ev":"reset","colors":pal_colors(&p),"src":"tlc"}));
            for op in v["hist"].as_array().unwrap_or(&vec![]) {
                apply_pal_op(&mut p, op, &mut out);
            }
            // TLC exports one shortest behaviour per reached palette: complete the edge coverage by inserting every colour
            // of the model's universe into the reached palette
            for c in [[0u8, 0, 0], [0, 0, 170], [1, 2, 3], [3, 2, 1]] {
                let mut q = p.clone();
                DEFINED.store(q.len(), std::sync::atomic::Ordering::Relaxed);
            out.ev(&json!({"ev":"reset","colors":pal_colors(&q),"src":"tlc-edge"}));
                apply_pal_op(&mut q, &json!({"op":"ins","arg":c}), &mut out);
            }
            n_gen += 1;
        }
    }
    eprintln!("c16: {n_gen} TLC-generated behaviours replayed");

    // (2) seeded random histories on palettes of 0..=300 colours
    let n_hist = if thorough { 400 } else { 40 };
    for h in 0..n_hist {
        let mut r = rng(seed, 1000 + h);
        let mut p = match h % 4 {
            0 => Palette::new(),
            1 => Palette::dos_default(),
            2 => { let mut p = Palette::new(); for i in 0..r.gen_range(1..300) { let mut c = Color::new(r.gen(), r.gen(), r.gen()); if i % 3 == 0 { c.name = Some(format!("c{i}")); } p.push(c); } p }
            _ => { let mut p = Palette::dos_default(); for _ in 0..r.gen_range(0..40) { let c = r.gen_range(0..4u8); p.push(Color::new(c, c, 0)); } p } // with duplicates
        };
        DEFINED.store(p.len(), std::sync::atomic::Ordering::Relaxed);
            out.ev(&json!({"ev":"reset","colors":pal_colors(&p),"src":"rnd"}));
        let len = r.gen_range(1..=40);
        for _ in 0..len {
            let k = r.gen_range(0..100);
            let op = if k < 70 {
                let c = if r.gen_bool(0.4) && p.len() > 0 { let (x, y, z) = p.get_rgb(r.gen_range(0..p.len()) as u32); [x, y, z] } else if r.gen_bool(0.5) { [r.gen_range(0..3u8), r.gen_range(0..3u8), r.gen_range(0..3u8)] } else { [r.gen(), r.gen(), r.gen()] };
                json!({"op":"ins","arg":c})
            } else if k < 80 {
                json!({"op":"set","arg":[r.gen_range(0..(p.len() + 3)), [r.gen::<u8>(), r.gen::<u8>(), r.gen::<u8>()]]})
            } else if k < 88 {
                // a named colour (as palette files with colour names produce), often one that is inserted again later
                let c = if r.gen_bool(0.5) { [r.gen_range(0..3u8), r.gen_range(0..3u8), r.gen_range(0..3u8)] } else { [r.gen(), r.gen(), r.gen()] };
                json!({"op":"setn","arg":[r.gen_range(0..(p.len() + 3)), c, r.gen_range(1..3)]})
            } else if k < 97 {
                json!({"op":"resize","arg":r.gen_range(0..300)})
            } else {
                json!({"op":"clear","arg":0})
            };
            apply_pal_op(&mut p, &op, &mut out);
            if p.len() > 320 { break; }
        }
    }

    // (3) colours added through the terminal (SGR 38/48;2, SGR 38/48;5, CSI Ps;r;g;b t)
    for h in 0..(if thorough { 60 } else { 12 }) {
        let mut r = rng(seed, 5000 + h);
        let mut buf = Buffer::create((80, 25));
        buf.is_terminal_buffer = true;
        let mut caret = Caret::default();
        let mut parser = ansi::Parser::default();
        out.ev(&json!({"ev":"reset","colors":pal_colors(&buf.palette),"src":"term"}));
        for _ in 0..30 {
            let (cr, cg, cb): (u8, u8, u8) = if r.gen_bool(0.3) { (r.gen_range(0..2) * 170, r.gen_range(0..2) * 170, r.gen_range(0..2) * 170) } else { (r.gen(), r.gen(), r.gen()) };
            let s = match r.gen_range(0..5) {
                0 => format!("\x1b[38;2;{cr};{cg};{cb}m"),
                1 => format!("\x1b[48;2;{cr};{cg};{cb}m"),
                2 => format!("\x1b[38;5;{}m", r.gen_range(0..256)),
                3 => format!("\x1b[48;5;{}m", r.gen_range(0..256)),
                _ => format!("\x1b[{};{cr};{cg};{cb}t", r.gen_range(0..2)),
            };
            let res = guard(|| { for ch in s.chars() { let _ = parser.print_char(&mut buf, 0, &mut caret, ch); } });
            if let Err(p) = res {
                out.ev(&json!({"ev":"panic","site":panic_site(&p),"via":s}));
                break;
            }
            out.ev(&json!({"ev":"add","via":s.replace('\x1b', "ESC"),"colors":pal_colors(&buf.palette)}));
        }
        // colours requested through SGR 38;2 / 48;2 in every position of a longer SGR sequence (alone, followed by other attributes,
        // two colours in one sequence), components at 0 / 1 / 255 and in between: the index the caret gets resolves to exactly the
        // requested RGB value ("adding a colour returns an index that resolves to exactly that RGB value")
        for k in 0..24u32 {
            let comp = |r: &mut rand::rngs::StdRng, j: u32| -> u8 { match (k + j) % 4 { 0 => 0, 1 => 255, 2 => 1, _ => r.gen() } };
            let (f, b) = ((comp(&mut r, 0), comp(&mut r, 1), comp(&mut r, 2)), (comp(&mut r, 3), comp(&mut r, 1), comp(&mut r, 0)));
            let s = match k % 6 {
                0 => format!("\x1b[38;2;{};{};{}m", f.0, f.1, f.2),
                1 => format!("\x1b[38;2;{};{};{};1m", f.0, f.1, f.2),
                2 => format!("\x1b[38;2;{};{};{};48;2;{};{};{}m", f.0, f.1, f.2, b.0, b.1, b.2),
                3 => format!("\x1b[1;48;2;{};{};{};5m", b.0, b.1, b.2),
                4 => format!("\x1b[0;38;2;{};{};{};48;2;{};{};{};4m", f.0, f.1, f.2, b.0, b.1, b.2),
                _ => format!("\x1b[48;2;{};{};{};38;2;{};{};{}m", b.0, b.1, b.2, f.0, f.1, f.2),
            };
            let res = guard(|| { for ch in s.chars() { let _ = parser.print_char(&mut buf, 0, &mut caret, ch); } });
            if res.is_err() { break; }
            let at = caret.get_attribute();
            let has_f = k % 6 != 3;
            let has_b = matches!(k % 6, 2 | 3 | 4 | 5);
            let (fr, fg_, fb) = buf.palette.get_rgb(at.get_foreground());
            let (br, bg_, bb) = buf.palette.get_rgb(at.get_background());
            out.ev(&json!({"ev":"addc","via":s.replace('\x1b', "ESC"),"colors":pal_colors(&buf.palette),
                "fg": if has_f { json!({"req":[f.0, f.1, f.2],"got":[fr, fg_, fb]}) } else { json!({}) },
                "bg": if has_b { json!({"req":[b.0, b.1, b.2],"got":[br, bg_, bb]}) } else { json!({}) }}));
        }
    }

    // (4) palette files: export -> import
    let fmts: [(&str, PaletteFormat); 5] = [("hex", PaletteFormat::Hex), ("pal", PaletteFormat::Pal), ("gpl", PaletteFormat::Gpl), ("ice", PaletteFormat::Ice), ("txt", PaletteFormat::Txt)];
    let sizes: Vec<usize> = if thorough { vec![0, 1, 2, 15, 16, 17, 64, 255, 256] } else { vec![0, 1, 16, 17, 256] };
    let mut fcase = 0u64;
    for (name, fmt) in &fmts {
        for &n in &sizes {
            for meta in 0..8u32 {
                for names in 0..2 {
                    for rep in 0..(if thorough { 3 } else { 1 }) {
                        fcase += 1;
                        let mut r = rng(seed, 9000 + fcase);
                        let mut p = Palette::new();
                        for i in 0..n {
                            let mut c = match (rep + i) % 4 { 0 => Color::new(r.gen(), r.gen(), r.gen()), 1 => Color::new(r.gen_range(0..10), r.gen_range(0..10), r.gen_range(0..10)), 2 => Color::new(r.gen_range(100..=255), 0, r.gen_range(0..100)), _ => Color::new(255, 255, 255) };
                            if names == 1 && i % 2 == 0 { c.name = Some(if i % 6 == 0 { META_STRINGS[(fcase as usize + i) % META_STRINGS.len()].to_string() } else { format!("Colour {i}") }); }
                            p.push(c);
                        }
                        // boundary content: black / duplicate entries at the ends (an importer may take them for padding)
                        if n > 0 {
                            match fcase % 6 {
                                0 => p.set_color(n as u32 - 1, Color::new(0, 0, 0)),
                                1 => { for k in 0..n.min(3) { p.set_color((n - 1 - k) as u32, Color::new(0, 0, 0)); } }
                                2 => p.set_color(0, Color::new(0, 0, 0)),
                                3 => { if n > 1 { let c = p.get_color(0); p.set_color(n as u32 - 1, c); } }
                                _ => {}
                            }
                        }
                        // metadata strings (single line, no leading / trailing blanks) that look like other line types of the formats
                        if meta & 1 != 0 { p.title = META_STRINGS[fcase as usize % META_STRINGS.len()].to_string(); }
                        if meta & 2 != 0 { p.author = META_STRINGS[(fcase as usize / 3) % META_STRINGS.len()].to_string(); }
                        if meta & 4 != 0 { p.description = META_STRINGS[(fcase as usize / 7) % META_STRINGS.len()].to_string(); }
                        let variant = format!("n={n},title={},author={},descr={},names={names}", meta & 1, (meta >> 1) & 1, (meta >> 2) & 1);
                        // both entry points: by format, and (every other case, for the formats it knows) by file name
                        let by_name = fcase % 2 == 0 && *name != "ice";
                        let res = guard(|| {
                            let bytes = p.export_palette(fmt);
                            if by_name { Palette::import_palette(std::path::Path::new(&format!("palette.{name}")), &bytes).map(|q| pal_colors(&q)).map_err(|e| e.to_string()) }
                            else { Palette::load_palette(fmt, &bytes).map(|q| pal_colors(&q)).map_err(|e| e.to_string()) }
                        });
                        match res {
                            Ok(Ok(outc)) => out.ev(&json!({"ev":"file","fmt":name,"variant":variant,"in":pal_colors(&p),"out":outc,"ok":1})),
                            Ok(Err(e)) => out.ev(&json!({"ev":"file","fmt":name,"variant":variant,"in":pal_colors(&p),"out":[],"ok":0,"err":e})),
                            Err(pi) => out.ev(&json!({"ev":"file","fmt":name,"variant":variant,"in":pal_colors(&p),"out":[],"ok":0,"err":panic_site(&pi)})),
                        }
                    }
                }
            }
        }
    }

    // (4b) files of exactly a "magic" length (sizes of raw colour tables and powers of two: a loader that sniffs the kind of file
    //      from its length must not mistake a text palette for one): for every text format palettes are searched whose export
    //      has exactly L bytes, L in {48, 64, 192, 256, 768, 1024} and L +- 1
    {
        let mut r = rng(seed, 9999);
        for (name, fmt) in &fmts {
            for target in [48usize, 64, 192, 256, 768, 1024] {
                for delta in [0i64, -1, 1] {
                    let want = (target as i64 + delta) as usize;
                    let mut found = None;
                    for attempt in 0..4000 {
                        // number of colours around want / (typical line length), digit classes varied
                        let per = match *name { "hex" => 7, "pal" => 10, "gpl" => 18, "ice" => 12, _ => 10 };
                        let n = ((want / per).max(1) as i64 + r.gen_range(-6..=6)).clamp(1, 256) as usize;
                        let mut p = Palette::new();
                        for _ in 0..n {
                            let c = |r: &mut rand::rngs::StdRng| match r.gen_range(0..3) { 0 => r.gen_range(0..10u8), 1 => r.gen_range(10..100), _ => r.gen_range(100..=255) };
                            p.push(Color::new(c(&mut r), c(&mut r), c(&mut r)));
                        }
                        if attempt % 3 == 0 { p.title = "t".repeat(r.gen_range(0..12)); }
                        if p.export_palette(fmt).len() == want { found = Some(p); break; }
                    }
                    let Some(p) = found else { continue };
                    let variant = format!("len={want}");
                    for by_name in [false, true] {
                        if by_name && *name == "ice" { continue; }
                        let res = guard(|| {
                            let bytes = p.export_palette(fmt);
                            if by_name { Palette::import_palette(std::path::Path::new(&format!("palette.{name}")), &bytes).map(|q| pal_colors(&q)).map_err(|e| e.to_string()) }
                            else { Palette::load_palette(fmt, &bytes).map(|q| pal_colors(&q)).map_err(|e| e.to_string()) }
                        });
                        match res {
                            Ok(Ok(outc)) => out.ev(&json!({"ev":"file","fmt":name,"variant":variant,"in":pal_colors(&p),"out":outc,"ok":1})),
                            Ok(Err(e)) => out.ev(&json!({"ev":"file","fmt":name,"variant":variant,"in":pal_colors(&p),"out":[],"ok":0,"err":e})),
                            Err(pi) => out.ev(&json!({"ev":"file","fmt":name,"variant":variant,"in":pal_colors(&p),"out":[],"ok":0,"err":panic_site(&pi)})),
                        }
                    }
                }
            }
        }
    }

    // (5) 6-bit VGA codec (XBin/IDF: from_63/as_vec_63; ADF: from_ega_data/to_ega_data)
    for rr in 0..64u8 {
        let gs: Vec<u8> = if thorough { (0..64).collect() } else { let mut r = rng(seed, 20000 + rr as u64); vec![rr, 63 - rr, r.gen_range(0..64)] };
        for gg in gs {
            let six: Vec<u8> = (0..64u8).flat_map(|b| [rr, gg, b]).collect();
            let p = Palette::from_63(&six);
            let back = p.as_vec_63();
            let o: Vec<Value> = back.chunks(3).map(|c| json!([c[0], c[1], c[2]])).collect();
            out.ev(&json!({"ev":"vga","codec":"63","r":rr,"g":gg,"exp":pal_colors(&p),"out":o}));
        }
        // EGA: 16 colours at fixed offsets of a 64-entry table; use b = 16 values per event x 4 events
        let gg = 63 - rr;
        let mut outs = vec![];
        let mut exps = vec![];
        for chunk in 0..4u8 {
            let mut data = vec![0u8; 192];
            let offs = [0usize, 1, 2, 3, 4, 5, 20, 7, 56, 57, 58, 59, 60, 61, 62, 63];
            for (i, o) in offs.iter().enumerate() { data[3 * o] = rr; data[3 * o + 1] = gg; data[3 * o + 2] = chunk * 16 + i as u8; }
            let p = from_ega_data(&data);
            let back = to_ega_data(&p);
            for (i, o) in offs.iter().enumerate() { let _ = i; outs.push(json!([back[3 * o], back[3 * o + 1], back[3 * o + 2]])); }
            if let Value::Array(v) = pal_colors(&p) { exps.extend(v); }
        }
        out.ev(&json!({"ev":"vga","codec":"ega","r":rr,"g":gg,"exp":exps,"out":outs}));
    }
    for c in 0..=255u8 {
        let once = Palette::from_63(&Palette::from(&[c, c, c]).as_vec_63());
        let twice = Palette::from_63(&once.as_vec_63());
        out.ev(&json!({"ev":"vga8","c":c,"once":once.get_rgb(0).0,"twice":twice.get_rgb(0).0}));
    }
    out.flush();
    eprintln!("c16: {} events", out.n);
}

/// number of palette indices the API has defined so far in the current case (reset by `pal_reset`)
static DEFINED: std::sync::atomic::AtomicUsize = std::sync::atomic::AtomicUsize::new(0);

fn apply_pal_op(p: &mut Palette, op: &Value, out: &mut Out) {
    let name = op["op"].as_str().unwrap_or("");
    let arg = &op["arg"];
    let rgb = |v: &Value| (v[0].as_u64().unwrap_or(0) as u8, v[1].as_u64().unwrap_or(0) as u8, v[2].as_u64().unwrap_or(0) as u8);
    let res = guard(|| match name {
        "ins" => { let (r, g, b) = rgb(arg); let ret = p.insert_color_rgb(r, g, b); json!({"ev":"ins","c":[r, g, b],"ret":ret}) }
        "set" => { let i = arg[0].as_u64().unwrap_or(0) as u32; let (r, g, b) = rgb(&arg[1]); p.set_color_rgb(i, r, g, b); json!({"ev":"set","i":i,"c":[r, g, b]}) }
        "setn" => { let i = arg[0].as_u64().unwrap_or(0) as u32; let (r, g, b) = rgb(&arg[1]); let n = arg[2].as_u64().unwrap_or(1);
                    let mut c = Color::new(r, g, b); c.name = Some(format!("name {n}")); p.set_color(i, c); json!({"ev":"setn","i":i,"c":[r, g, b],"n":n}) }
        "resize" => { let n = arg.as_u64().unwrap_or(0) as usize; p.resize(n); json!({"ev":"resize","n":n}) }
        _ => { p.clear(); json!({"ev":"clear"}) }
    });
    match res {
        Ok(mut v) => {
            v["colors"] = pal_colors(p);
            // what the indices the API has handed out or been given RESOLVE to (get_rgb), also beyond the stored length: a set at
            // index i defines the indices 0..=i whether or not the vector grew
            let hi = if name == "set" || name == "setn" { arg[0].as_u64().unwrap_or(0) as usize + 1 } else { 0 };
            let before = if name == "resize" || name == "clear" { 0 } else { DEFINED.load(std::sync::atomic::Ordering::Relaxed) };
            let n = p.len().max(hi).max(before).min(400);
            DEFINED.store(n, std::sync::atomic::Ordering::Relaxed);
            v["lk"] = Value::Array((0..n).map(|i| { let (r, g, b) = p.get_rgb(i as u32); json!([r, g, b]) }).collect());
            out.ev(&v);
        }
        Err(pi) => out.ev(&json!({"ev":"panic","site":panic_site(&pi),"op":op})),
    }
}

// ------------------------------------------------------------------ C18
fn mode_of(m: u8) -> IceMode { match m { 0 => IceMode::Unlimited, 1 => IceMode::Blink, _ => IceMode::Ice } }

pub fn c18(a: &Args) {
    let mut out = Out::create(&a.str("out", "work/C18/trace.ndjson"));
    // every byte x every mode: decode, re-encode
    for m in 0..3u8 {
        for b in 0..=255u8 {
            let at = TextAttribute::from_u8(b, mode_of(m));
            let re = at.as_u8(mode_of(m));
            out.ev(&json!({"ev":"dec","b":b,"m":m,"fg":at.get_foreground(),"bg":at.get_background(),"bl":at.is_blinking() as u8,"bo":at.is_bold() as u8,"re":re}));
        }
    }
    // every (fg, bg, blink, bold) x every mode: encode, decode
    for m in 0..3u8 {
        for fg in 0..16u32 { for bg in 0..16u32 { for bl in 0..2u8 { for bo in 0..2u8 {
            let mut at = TextAttribute::new(fg, bg);
            at.set_is_blinking(bl == 1);
            at.set_is_bold(bo == 1);
            let byte = at.as_u8(mode_of(m));
            let d = TextAttribute::from_u8(byte, mode_of(m));
            out.ev(&json!({"ev":"enc","m":m,"fg":fg,"bg":bg,"bl":bl,"bo":bo,"byte":byte,"fg2":d.get_foreground(),"bg2":d.get_background(),"bl2":d.is_blinking() as u8,"bo2":d.is_bold() as u8}));
        }}}}
    }
    // code pages: every code through every converter and back
    let convs: Vec<(&str, Box<dyn UnicodeConverter>)> = vec![
        ("cp437", Box::<ascii::CP437Converter>::default()),
        ("atascii", Box::<atascii::CharConverter>::default()),
        ("petscii", Box::<petscii::CharConverter>::default()),
        ("viewdata", Box::<viewdata::CharConverter>::default()),
        ("mode7", Box::<mode7::CharConverter>::default()),
    ];
    for (name, c) in &convs {
        // the converters take a whole cell: every font page a caret can carry x the colour classes an emulation leaves in a cell
        // (default, inverse video as ATASCII / Viewdata write it, bright on colour)
        for (page, fg, bg) in [(0usize, 7u32, 0u32), (1, 7, 0), (2, 7, 0), (3, 7, 0), (0, 0, 7), (0, 15, 1), (1, 0, 7), (0, 7, 7)] {
        for code in 0..256u32 {
            let r = guard(|| { let mut attr = TextAttribute::new(fg, bg); attr.set_font_page(page); let u = c.convert_to_unicode(AttributedChar::new(char::from_u32(code).unwrap(), attr)); let back = c.convert_from_unicode(u, page); (u as u32, back as u32) });
            match r {
                Ok((u, back)) => out.ev(&json!({"ev":"cp","conv":name,"page":page,"fg":fg,"bg":bg,"code":code,"uni":u,"back":back})),
                Err(p) => out.ev(&json!({"ev":"cp","conv":name,"page":page,"fg":fg,"bg":bg,"code":code,"uni":-1,"back":-1,"site":panic_site(&p)})),
            }
        }
        }
        // every font page a caret can carry (the converters take the page as a parameter; the cell typed carries the same page)
        for (page, fg, bg) in [(0usize, 7u32, 0u32), (1, 7, 0), (2, 7, 0), (3, 7, 0), (0, 0, 7), (0, 15, 1), (1, 0, 7), (0, 7, 7)] {
        for t in "ABCDEFGHIJKLMNOPQRSTUVWXYZabcdefghijklmnopqrstuvwxyz0123456789 ".chars() {
            let r = guard(|| { let code = c.convert_from_unicode(t, page); let mut attr = TextAttribute::new(fg, bg); attr.set_font_page(page); let back = c.convert_to_unicode(AttributedChar::new(code, attr)); (code as u32, back as u32) });
            match r {
                Ok((code, back)) => out.ev(&json!({"ev":"typed","conv":name,"page":page,"fg":fg,"bg":bg,"ch":t as u32,"code":code,"back":back})),
                Err(p) => out.ev(&json!({"ev":"typed","conv":name,"page":page,"fg":fg,"bg":bg,"ch":t as u32,"code":-1,"back":-1,"site":panic_site(&p)})),
            }
        }
        }
    }
    out.flush();
    eprintln!("c18: {} events", out.n);
}

// ------------------------------------------------------------------ C19
pub fn c19(a: &Args) {
    let path = a.str("out", "work/C19/trace");
    let seed = a.u64("seed", 0);
    let thorough = a.str("tier", "quick") == "thorough";
    let shards = a.usize("shards", 8);
    let mut outs: Vec<Out> = (0..shards).map(|i| Out::create(&format!("{path}-{i}.ndjson"))).collect();
    let mut k = 0usize;
    let mut emit = |v: Value, outs: &mut Vec<Out>| { let n = outs.len(); outs[k % n].ev(&v); k += 1; };
    // CRC-16 rows: update_crc16(s, b) for all b
    let mut states: Vec<u32> = vec![0, 0xFFFF];
    for i in 0..16 { states.push(1 << i); }
    if thorough { states = (0..65536).collect(); } else { let mut r = rng(seed, 1); for _ in 0..150 { states.push(r.gen_range(0..65536)); } }
    for s in states {
        let row: Vec<u32> = (0..=255u8).map(|b| update_crc16(s as u16, b) as u32).collect();
        emit(json!({"ev":"row16","s":s,"r":row}), &mut outs);
    }
    // CRC-32 fast path (16 bytes at a time): every position x every byte value, so that every entry of every
    // slice table is exercised through the public one-shot function (no reference to the table itself)
    {
        let mut r = rng(seed, 7);
        let variants = if thorough { 6 } else { 2 };
        for p in 1..=16usize {
            for var in 0..variants {
                let base: Vec<u8> = if var < 2 { vec![0u8; 16] } else { (0..16).map(|_| r.gen()).collect() };
                let pre: Vec<u8> = if var % 2 == 0 { vec![] } else { (0..16).map(|_| r.gen()).collect() };
                let post: Vec<u8> = (0..(var % 4)).map(|_| r.gen()).collect();
                let c32: Vec<Value> = (0..=255u8).map(|v| { let mut s = pre.clone(); let mut b = base.clone(); b[p - 1] = v; s.extend(b); s.extend(&post); hi_lo(get_crc32(&s)) }).collect();
                emit(json!({"ev":"blk","p":p,"pre":pre,"base":base,"post":post,"c32":c32}), &mut outs);
            }
            // neighbouring blocks that are EQUAL except for the varied byte (runs of equal bytes are what real data looks like:
            // anything a block loop carries over from the previous block shows only here), with a blank and a random block
            for (k, fill) in [Some(32u8), None].iter().enumerate() {
                let base: Vec<u8> = match fill { Some(b) => vec![*b; 16], None => (0..16).map(|_| r.gen()).collect() };
                let pre: Vec<u8> = base.iter().cycle().take(16 * (1 + k)).copied().collect();
                let post: Vec<u8> = base.iter().take(k * 5).copied().collect();
                let c32: Vec<Value> = (0..=255u8).map(|v| { let mut s = pre.clone(); let mut b = base.clone(); b[p - 1] = v; s.extend(b); s.extend(&post); hi_lo(get_crc32(&s)) }).collect();
                emit(json!({"ev":"blk","p":p,"pre":pre,"base":base,"post":post,"c32":c32}), &mut outs);
            }
        }
    }
    // update_crc32 rows
    let mut st32: Vec<u32> = vec![0, 0xFFFF_FFFF];
    for i in 0..32 { st32.push(1 << i); }
    { let mut r = rng(seed, 2); for _ in 0..(if thorough { 400 } else { 30 }) { st32.push(r.gen()); } }
    for s in st32 {
        let row: Vec<Value> = (0..=255u8).map(|b| hi_lo(update_crc32(s, b))).collect();
        emit(json!({"ev":"row32","s":hi_lo(s),"r":row}), &mut outs);
    }
    // callers of the incremental API (model layer: C19 speaks about the routines, not about who calls them): a font's checksum is
    // its glyph bytes fed through update_crc32 from 0, however often it is recomputed and whatever was edited in between
    {
        use icy_engine::BitFont;
        let mut r = rng(seed, 9);
        let fold = |f: &BitFont| f.convert_to_u8_data().iter().fold(0u32, |c, b| update_crc32(c, *b));
        for k in 0..6 {
            let mut f = match k { 0 => BitFont::default(), 1 => BitFont::from_ansi_font_page(5).unwrap_or_default(), _ => BitFont::create_8("user", 8, [8u8, 14, 16, 19][k % 4], &(0..256 * [8usize, 14, 16, 19][k % 4]).map(|_| r.gen()).collect::<Vec<u8>>()) };
            let first = f.get_checksum() == fold(&f);
            f.calculate_checksum();
            let again = f.get_checksum() == fold(&f);
            if let Some(g) = f.get_glyph_mut('A') { g.data[0] ^= 0x81; }
            f.calculate_checksum();
            let edited = f.get_checksum() == fold(&f);
            if let Some(g) = f.get_glyph_mut('A') { g.data[0] ^= 0x81; }
            f.calculate_checksum();
            let restored = f.get_checksum() == fold(&f);
            emit(json!({"ev":"user","who":"font-checksum","k":k,"first":first,"again":again,"edited":edited,"restored":restored}), &mut outs);
        }
    }
    // strings: one-shot vs incremental vs bitwise (TLC)
    let mut r = rng(seed, 3);
    let reps = if thorough { 12 } else { 2 };
    for len in 0..=48usize {
        for rep in 0..reps {
            let bytes: Vec<u8> = (0..len).map(|i| match rep % 3 { 0 => r.gen(), 1 => (i as u8).wrapping_mul(37), _ => if r.gen_bool(0.5) { 0 } else { 0xFF } }).collect();
            emit(str_event(&bytes), &mut outs);
        }
    }
    for len in [64usize, 100, 257] { let bytes: Vec<u8> = (0..len).map(|_| r.gen()).collect(); emit(str_event(&bytes), &mut outs); }
    // every length up to a few 64-byte lines (a block loop of any width - 16, 32, 64 bytes - meets every remainder), judged bitwise
    for len in 49..=(if thorough { 330usize } else { 200 }) { let bytes: Vec<u8> = (0..len).map(|i| if len % 2 == 0 { r.gen() } else { (i as u8).wrapping_mul(101) }).collect(); emit(str_event(&bytes), &mut outs); }
    // long inputs around powers of two (an implementation may switch algorithms by input size)
    let long: &[usize] = if thorough { &[1023, 1024, 4095, 4096, 4097, 16384, 32768, 65535, 65536, 65537, 131072, 262149] } else { &[4096, 65535, 65536, 65537, 131077] };
    for &len in long { let bytes: Vec<u8> = (0..len).map(|_| r.gen()).collect(); emit(str_event(&bytes), &mut outs); }
    // two-byte strings: packed per first byte
    let firsts: Vec<u32> = if thorough { (0..256).collect() } else { let mut v = vec![0, 1, 0x80, 0xFF]; for _ in 0..12 { v.push(r.gen_range(0..256)); } v };
    for a0 in firsts {
        let c16: Vec<u32> = (0..=255u8).map(|b| get_crc16(&[a0 as u8, b]) as u32).collect();
        let c32: Vec<Value> = (0..=255u8).map(|b| hi_lo(get_crc32(&[a0 as u8, b]))).collect();
        emit(json!({"ev":"two","a":a0,"c16":c16,"c32":c32}), &mut outs);
    }
    for o in &mut outs { o.flush(); }
    eprintln!("c19: {k} events in {shards} shards");
}

fn str_event(bytes: &[u8]) -> Value {
    let one16 = get_crc16(bytes);
    let mut inc16 = 0u16;
    for b in bytes { inc16 = update_crc16(inc16, *b); }
    let one32 = get_crc32(bytes);
    let mut inc32 = 0xFFFF_FFFFu32;
    for b in bytes { inc32 = update_crc32(inc32, *b); }
    inc32 = !inc32;
    if bytes.len() > 512 {
        // long inputs: TLC does not re-divide 64 KiB bit by bit; the one-shot value is compared with the byte-wise feed, whose
        // single steps are judged against the bitwise definition by the update rows
        return json!({"ev":"long","len":bytes.len(),"one16":one16,"inc16":inc16,"one32":hi_lo(one32),"inc32":hi_lo(inc32)});
    }
    json!({"ev":"str","bytes":bytes,"one16":one16,"inc16":inc16,"one32":hi_lo(one32),"inc32":hi_lo(inc32)})
}
