//! Terminal driver (C01, C03, C09, C10 and the readers of C04/C15): feeds byte streams, one character at a time,
//! to the real text-mode emulations attached to a terminal buffer and records one event per character.
//!
//! Case file (ndjson, `--cases`): {"id":..,"emu":"ansi|avatar|pcboard|ctrla|renegade|petscii|atascii|viewdata|mode7|ascii",
//!   "music":0..3,"w":..,"h":..,"alloc":0|1,"bs":0|1,"proj":"geo|full","bytes":[..]}
//! or built-in seeded generators (`--gen N`).  Crash containment: a panic is caught per character; aborts, stack
//! overflows and hangs kill this process - the orchestrator (tools/vlib.py run_worker) sees which case was running from
//! the progress file, records a `crash` event and restarts the driver after that case.
use crate::util::{guard, panic_site, rng, Args, Out};
use icy_engine::{ansi, ascii, atascii, avatar, ctrla, mode7, pcboard, petscii, renegade, viewdata, Buffer, BufferParser, CallbackAction, Caret, TextPane};
use rand::rngs::StdRng;
use rand::Rng;
use serde_json::{json, Value};
use std::io::Write;
use std::sync::atomic::{AtomicU64, Ordering};
use std::sync::Arc;
use std::time::{Duration, Instant};

pub const EMUS: [&str; 10] = ["ansi", "avatar", "pcboard", "ctrla", "renegade", "petscii", "atascii", "viewdata", "mode7", "ascii"];

pub fn make_parser(emu: &str, music: u64, bs: bool) -> Box<dyn BufferParser> {
    match emu {
        "ansi" => {
            let mut p = ansi::Parser::default();
            p.ansi_music = match music { 1 => ansi::MusicOption::Conflicting, 2 => ansi::MusicOption::Banana, 3 => ansi::MusicOption::Both, _ => ansi::MusicOption::Off };
            p.bs_is_ctrl_char = bs;
            Box::new(p)
        }
        "avatar" => Box::<avatar::Parser>::default(),
        "pcboard" => Box::<pcboard::Parser>::default(),
        "ctrla" => Box::<ctrla::Parser>::default(),
        "renegade" => Box::<renegade::Parser>::default(),
        "petscii" => Box::<petscii::Parser>::default(),
        "atascii" => Box::<atascii::Parser>::default(),
        "viewdata" => Box::<viewdata::Parser>::default(),
        "mode7" => Box::<mode7::Parser>::default(),
        _ => Box::<ascii::Parser>::default(),
    }
}

pub fn make_buffer(w: i32, h: i32, alloc: bool) -> Buffer {
    let mut buf = Buffer::create((w, h));
    buf.is_terminal_buffer = true;
    if !alloc {
        buf.layers[0].lines.clear();
    }
    buf
}

fn action_name(a: &CallbackAction) -> (&'static str, Option<Vec<u8>>) {
    match a {
        CallbackAction::Update => ("Update", None),
        CallbackAction::NoUpdate => ("NoUpdate", None),
        CallbackAction::Beep => ("Beep", None),
        CallbackAction::SendString(s) => ("SendString", Some(s.chars().map(|c| (c as u32).min(255) as u8).collect())),
        CallbackAction::PlayMusic(_) => ("PlayMusic", None),
        CallbackAction::ChangeBaudEmulation(_) => ("ChangeBaud", None),
        CallbackAction::ResizeTerminal(_, _) => ("Resize", None),
        CallbackAction::Pause(_) => ("Pause", None),
    }
}

fn cell_json(c: &icy_engine::AttributedChar) -> Value {
    json!([c.ch as u32, c.attribute.get_foreground(), c.attribute.get_background(), c.attribute.attr, c.attribute.get_font_page()])
}

/// Snapshot of what is compared between steps to find changed rows.
struct Snap {
    lens: Vec<usize>,
    rows: Vec<Vec<icy_engine::AttributedChar>>,
    tabs: Vec<i32>,
}

fn snap(buf: &Buffer, full: bool) -> Snap {
    let l = &buf.layers[0];
    Snap {
        lens: l.lines.iter().map(|x| x.chars.len()).collect(),
        rows: if full { l.lines.iter().map(|x| x.chars.clone()).collect() } else { vec![] },
        tabs: buf.terminal_state.get_tabs().to_vec(),
    }
}

fn state_event(buf: &Buffer, caret: &Caret, prev: &Snap, cur: &Snap, full: bool, first: bool) -> Value {
    let ts = &buf.terminal_state;
    let l = &buf.layers[0];
    let pos = caret.get_position();
    let at = caret.get_attribute();
    let mut v = json!({
        "cx": pos.x, "cy": pos.y, "tw": ts.get_width(), "th": ts.get_height(), "bw": buf.get_width(), "bh": buf.get_height(),
        "lw": l.get_width(), "lh": l.get_height(), "nl": l.lines.len(), "fv": buf.get_first_visible_line(),
        "mtb": ts.get_margins_top_bottom().map(|(a, b)| vec![a, b]).unwrap_or_default(),
        "mlr": ts.get_margins_left_right().map(|(a, b)| vec![a, b]).unwrap_or_default(),
        "aw": matches!(ts.auto_wrap_mode, icy_engine::AutoWrapMode::AutoWrap) as u8,
        "om": matches!(ts.origin_mode, icy_engine::OriginMode::WithinMargins) as u8,
        "dm": ts.dec_margin_mode_left_right as u8,
        "im": caret.insert_mode as u8, "vis": caret.is_visible() as u8, "ice": caret.ice_mode() as u8,
        "ca": [at.get_foreground(), at.get_background(), at.attr, at.get_font_page()],
        "pal": buf.palette.len(), "ps": buf.sixel_threads.len(), "ls": l.sixels.len(), "hl": l.hyperlinks().len(),
    });
    // rows whose length (or, in full projection, content) changed
    let mut ll = vec![];
    let mut rows = vec![];
    for y in 0..cur.lens.len() {
        let changed_len = first || y >= prev.lens.len() || prev.lens[y] != cur.lens[y];
        if changed_len {
            ll.push(json!([y, cur.lens[y]]));
        }
        if full {
            let changed = first || y >= prev.rows.len() || prev.rows[y].len() != cur.rows[y].len() || prev.rows[y].iter().zip(cur.rows[y].iter()).any(|(a, b)| a != b || a.get_font_page() != b.get_font_page());
            if changed {
                rows.push(json!([y, cur.rows[y].iter().map(cell_json).collect::<Vec<_>>()]));
            }
        }
    }
    v["ll"] = Value::Array(ll);
    if full {
        v["rows"] = Value::Array(rows);
    }
    if first || prev.tabs != cur.tabs {
        v["tabs"] = json!(cur.tabs);
    }
    v
}

pub struct Case {
    pub id: String,
    pub emu: String,
    pub music: u64,
    pub w: i32,
    pub h: i32,
    pub alloc: bool,
    pub bs: bool,
    pub full: bool,
    pub model: bool,
    /// the first `quiet` bytes are fed without one event each (long payloads that only set up state); a panic is still recorded
    pub quiet: usize,
    pub bytes: Vec<u8>,
    pub toks: Vec<usize>, // optional token boundaries (indices into bytes where a token ends), informational
}

impl Case {
    pub fn from_json(v: &Value) -> Case {
        Case {
            id: v["id"].as_str().map(str::to_string).unwrap_or_else(|| v["id"].to_string()),
            emu: v["emu"].as_str().unwrap_or("ansi").to_string(),
            music: v["music"].as_u64().unwrap_or(0),
            w: v["w"].as_i64().unwrap_or(80) as i32,
            h: v["h"].as_i64().unwrap_or(25) as i32,
            alloc: v["alloc"].as_u64().unwrap_or(1) != 0 || v["alloc"].as_bool().unwrap_or(false),
            bs: v["bs"].as_u64().unwrap_or(0) != 0,
            full: v["proj"].as_str().unwrap_or("geo") == "full",
            model: v["model"].as_u64().unwrap_or(1) != 0,
            quiet: v["quiet"].as_u64().unwrap_or(0) as usize,
            bytes: v["bytes"].as_array().map(|a| a.iter().map(|x| x.as_u64().unwrap_or(0) as u8).collect()).unwrap_or_default(),
            toks: vec![],
        }
    }
    pub fn to_json(&self) -> Value {
        json!({"id": self.id, "emu": self.emu, "music": self.music, "w": self.w, "h": self.h, "alloc": self.alloc as u8, "bs": self.bs as u8,
               "proj": if self.full { "full" } else { "geo" }, "model": self.model as u8, "bytes": self.bytes})
    }
}

/// Run one case; events are appended to `evs`.  Returns the number of characters fed.
pub fn run_case(c: &Case, evs: &mut Vec<Value>, step_clock: Option<&AtomicU64>) -> usize {
    let mut buf = make_buffer(c.w, c.h, c.alloc);
    let mut caret = Caret::default();
    let mut parser = make_parser(&c.emu, c.music, c.bs);
    let s0 = snap(&buf, c.full);
    let mut reset = json!({"ev":"reset","case":c.id,"emu":c.emu,"music":c.music,"w":c.w,"h":c.h,"alloc":c.alloc as u8,"bs":c.bs as u8,"proj": if c.full {"full"} else {"geo"}, "model": c.model as u8, "n": c.bytes.len()});
    let st0 = state_event(&buf, &caret, &s0, &s0, c.full, true);
    for (k, v) in st0.as_object().unwrap() {
        reset[k] = v.clone();
    }
    evs.push(reset);
    let mut prev = s0;
    let mut fed = 0;
    for (i, &b) in c.bytes.iter().enumerate() {
        if let Some(clk) = step_clock {
            clk.fetch_add(1, Ordering::Relaxed);
        }
        let t0 = Instant::now();
        let res = guard(|| parser.print_char(&mut buf, 0, &mut caret, b as char));
        let us = t0.elapsed().as_micros() as u64;
        fed += 1;
        let (r, a, s, site, msg) = match &res {
            Ok(Ok(act)) => { let (n, s) = action_name(act); ("ok", n, s, None, None) }
            Ok(Err(e)) => ("err", "None", None, None, Some(e.to_string())),
            Err(p) => ("panic", "None", None, Some(panic_site(p)), Some(p.msg.clone())),
        };
        if i < c.quiet && r != "panic" && us <= 200_000 {
            continue;
        }
        let cur = snap(&buf, c.full);
        let mut ev = state_event(&buf, &caret, &prev, &cur, c.full, false);
        ev["ev"] = json!("ch");
        ev["i"] = json!(i);
        ev["c"] = json!(b);
        ev["r"] = json!(r);
        ev["a"] = json!(a);
        if let Some(s) = s { ev["s"] = json!(s); }
        if let Some(s) = site { ev["site"] = json!(s); }
        if let Some(m) = msg { if r == "panic" { ev["msg"] = json!(m.chars().take(120).collect::<String>()); } }
        if us > 200_000 { ev["us"] = json!(us); }
        evs.push(ev);
        prev = cur;
        if r == "panic" {
            // the property is already violated; the emulation's state after an unwound panic is not meaningful
            break;
        }
    }
    // background sixel decodes belong to this case: wait for them so that their time and memory are attributed to it
    for h in buf.sixel_threads.drain(..) {
        let _ = h.join();
    }
    fed
}

// ------------------------------------------------------------------------------------------------ generators
fn pick<T: Copy>(r: &mut StdRng, s: &[T]) -> T {
    s[r.gen_range(0..s.len())]
}

fn push_num(v: &mut Vec<u8>, n: i64) {
    v.extend(n.to_string().as_bytes());
}

/// parameter value classes of DESIGN Appendix B
fn param(r: &mut StdRng, w: i32, h: i32, big: bool) -> Option<i64> {
    let size = if r.gen_bool(0.5) { w } else { h } as i64;
    match r.gen_range(0..if big { 14 } else { 11 }) {
        0 => None,
        1 => Some(0),
        2 | 3 => Some(1),
        4 => Some(2),
        5 => Some((size / 2).max(1)),
        6 => Some((size - 1).max(0)),
        7 => Some(size),
        8 => Some(size + 1),
        9 => Some(r.gen_range(0..12)),
        10 => Some(r.gen_range(0..300)),
        11 => Some(9999),
        12 => Some(65536),
        _ => Some(99_999_999_999),
    }
}

fn csi(r: &mut StdRng, w: i32, h: i32, big: bool, out: &mut Vec<u8>) {
    out.extend(b"\x1b[");
    let inter = match r.gen_range(0..16) { 0 => b"?".as_slice(), 1 => b"=", 2 => b"!", 3 => b"<", _ => b"" };
    out.extend(inter);
    let np = match r.gen_range(0..10) { 0..=2 => 0, 3..=6 => 1, 7 | 8 => 2, _ => r.gen_range(3..7) };
    for k in 0..np {
        if k > 0 { out.push(b';'); }
        if let Some(p) = param(r, w, h, big) { push_num(out, p); }
    }
    match r.gen_range(0..12) { 0 => out.push(b' '), 1 => out.push(b'$'), 2 => out.push(b'*'), _ => {} }
    let fin = if r.gen_bool(0.85) {
        pick(r, b"@ABCDEFGHJKLMPSTXYZabcdefghjklmnrstuz~'xyw{|N")
    } else {
        r.gen_range(0x40..0x7Fu8)
    };
    out.push(fin);
}

fn sgr(r: &mut StdRng, out: &mut Vec<u8>) {
    out.extend(b"\x1b[");
    let n = r.gen_range(0..4);
    for k in 0..n {
        if k > 0 { out.push(b';'); }
        match r.gen_range(0..10) {
            0 => push_num(out, r.gen_range(0..10)),
            1 => push_num(out, r.gen_range(21..30)),
            2 => push_num(out, r.gen_range(30..50)),
            3 => push_num(out, r.gen_range(90..108)),
            4 => { push_num(out, if r.gen_bool(0.5) { 38 } else { 48 }); out.extend(b";5;"); push_num(out, r.gen_range(0..300)); }
            5 => { push_num(out, if r.gen_bool(0.5) { 38 } else { 48 }); out.extend(b";2;"); push_num(out, r.gen_range(0..300)); out.push(b';'); push_num(out, r.gen_range(0..256)); if r.gen_bool(0.8) { out.push(b';'); push_num(out, r.gen_range(0..256)); } }
            6 => { push_num(out, if r.gen_bool(0.5) { 38 } else { 48 }); if r.gen_bool(0.5) { out.extend(b";5"); } }
            7 => push_num(out, r.gen_range(50..60)),
            8 => push_num(out, r.gen_range(0..200)),
            _ => {}
        }
    }
    out.push(b'm');
}

fn strings(r: &mut StdRng, out: &mut Vec<u8>) {
    match r.gen_range(0..22) {
        0 => out.extend(b"\x1bP0;0;0!zAB\x1b[1mC\x1b\\"),                       // macro definition, text
        1 => out.extend(b"\x1bP1;0;1!z414243\x1b\\"),                         // hex macro
        2 => out.extend(b"\x1bP2;0;1!z41!3;4243;44\x1b\\"),                   // hex macro with repeat group
        3 => { out.extend(b"\x1b["); push_num(out, r.gen_range(0..4)); out.extend(b"*z"); }  // invoke macro
        4 => out.extend(b"\x1bP3;0;0!z\x1b[3*z\x1b\\"),                       // macro 3 invoking itself (stored)
        5 => out.extend(b"\x1bP0;1;0!z\x1b\\"),                               // delete all macros
        6 => out.extend(b"\x1bPCTerm:Font:5:AAAA\x1b\\"),                     // custom font, bad payload
        7 => out.extend(b"\x1bP0;0;0q\"1;1;4;6#0;2;0;0;0#0~~@@-~~\x1b\\"),     // tiny sixel
        8 => out.extend(b"\x1bPq#1!5~$-!3?\x1b\\"),
        9 => out.extend(b"\x1bPgarbage\x1b\\"),
        10 => out.extend(b"\x1b]8;;http://a.b\x1b\\"),                        // hyperlink open
        11 => out.extend(b"\x1b]8;;\x1b\\"),                                  // hyperlink close
        12 => out.extend(b"\x1b]4;1;rgb:ff/00/80\x1b\\"),                     // palette set
        13 => out.extend(b"\x1b]4;999;rgb:zz\x1b\\"),
        14 => out.extend(b"\x1b]104\x1b\\"),
        15 => out.extend(b"\x1b_aps string\x1b\\"),
        16 => out.extend(b"\x1bP1;1;1!z4"),                                   // unterminated
        17 => out.extend(b"\x1b[MFT120O3L8CDE P4 >A#<B-.\x0e"),               // music
        18 => out.extend(b"\x1b[NMBO6B############\x0e"),
        19 => out.extend(b"\x1b[|T255L64O0N84\x0e"),
        20 => { out.extend(b"\x1bP"); for _ in 0..r.gen_range(0..12) { out.push(r.gen_range(0x20..0x7f)); } if r.gen_bool(0.7) { out.extend(b"\x1b\\"); } }
        _ => { out.extend(b"\x1b]"); for _ in 0..r.gen_range(0..12) { out.push(r.gen_range(0x20..0x7f)); } if r.gen_bool(0.7) { out.extend(b"\x1b\\"); } }
    }
}

fn printable(r: &mut StdRng, out: &mut Vec<u8>) {
    match r.gen_range(0..8) {
        0 => out.push(b' '),
        1 => out.push(b'A'),
        2 => out.push(0xDB),
        3 => out.push(r.gen_range(0x80..=0xFF)),
        4 => { for _ in 0..r.gen_range(1..12) { out.push(r.gen_range(0x20..0x7F)); } }
        _ => out.push(r.gen_range(0x20..0x7F)),
    }
}

/// one token of the ANSI family
fn ansi_token(r: &mut StdRng, w: i32, h: i32, big: bool, out: &mut Vec<u8>) {
    match r.gen_range(0..100) {
        0..=24 => printable(r, out),
        25..=34 => out.push(pick(r, b"\n\n\n\r\x0c\x08\x07\x09\x7f\x00\x0e")),
        35..=42 => { out.push(0x1b); out.push(pick(r, b"78cDMEH0Z\\=>\x1b\n")); }
        43..=74 => csi(r, w, h, big, out),
        75..=82 => sgr(r, out),
        83..=90 => strings(r, out),
        91..=93 => { out.extend(b"\x1b["); if let Some(p) = param(r, w, h, false) { push_num(out, p); } out.push(b';'); if let Some(p) = param(r, w, h, false) { push_num(out, p); } out.push(pick(r, b"Hfr")); }
        94..=95 => { out.extend(b"\x1b[?"); push_num(out, pick(r, &[4, 6, 7, 25, 33, 35, 69, 9, 1000, 1006, 99])); out.push(if r.gen_bool(0.5) { b'h' } else { b'l' }); }
        96 => { out.extend(b"\x1b[4"); out.push(if r.gen_bool(0.5) { b'h' } else { b'l' }); }
        97 => { // rectangles
            out.extend(b"\x1b[");
            let n = r.gen_range(3..7);
            for k in 0..n { if k > 0 { out.push(b';'); } if let Some(p) = param(r, w, h, false) { push_num(out, p); } }
            out.push(b'$'); out.push(pick(r, b"xz{w"));
        }
        98 => { out.extend(b"\x1b[0;"); push_num(out, pick(r, &[0, 1, 42, 43, 255, 9999])); out.extend(b" D"); }
        _ => out.push(r.gen()),
    }
}

fn frontend_token(emu: &str, r: &mut StdRng, w: i32, h: i32, big: bool, out: &mut Vec<u8>) {
    match emu {
        "avatar" => match r.gen_range(0..10) {
            0 => { out.push(0x16); out.push(r.gen_range(0..10)); if r.gen_bool(0.6) { out.push(r.gen()); out.push(r.gen()); } }
            1 => { out.push(0x16); out.push(1); out.push(r.gen()); }
            2 => { out.push(0x16); out.push(8); out.push(r.gen_range(0..(h as u8).saturating_add(3))); out.push(r.gen_range(0..(w as u8).saturating_add(3))); }
            3 => { out.push(0x19); out.push(r.gen_range(0x20..0x7f)); out.push(if big { r.gen() } else { r.gen_range(0..12) }); }
            4 => { out.push(0x19); out.push(pick(r, &[0x1b, 0x16, 0x19, 0x0c, 0x0a])); out.push(r.gen_range(0..5)); }
            5 => out.push(0x0c),
            _ => ansi_token(r, w, h, big, out),
        },
        "pcboard" => match r.gen_range(0..10) {
            0 => { out.extend(b"@X"); out.push(pick(r, b"0123456789ABCDEFabcdefGZ@")); out.push(pick(r, b"0123456789ABCDEFabcdefGZ@")); }
            1 => out.extend(b"@CLS@"),
            2 => out.extend(b"@@"),
            3 => { out.push(b'@'); for _ in 0..r.gen_range(0..8) { out.push(r.gen_range(0x41..0x5b)); } if r.gen_bool(0.7) { out.push(b'@'); } }
            4 => out.extend(b"@POS:12@"),
            _ => ansi_token(r, w, h, big, out),
        },
        "ctrla" => match r.gen_range(0..10) {
            0..=3 => { out.push(1); out.push(pick(r, b"KBGCRMYWkbgcrmyw01234567HIENL'J><|]AZ\x80\xff")); }
            4 => { out.push(1); out.push(r.gen()); }
            _ => ansi_token(r, w, h, big, out),
        },
        "renegade" => match r.gen_range(0..10) {
            0..=2 => { out.push(b'|'); out.push(r.gen_range(b'0'..=b'9')); out.push(r.gen_range(b'0'..=b'9')); }
            3 => { out.push(b'|'); out.push(r.gen_range(0x20..0x7f)); if r.gen_bool(0.5) { out.push(r.gen_range(0x20..0x7f)); } }
            _ => ansi_token(r, w, h, big, out),
        },
        "petscii" => match r.gen_range(0..10) {
            0..=2 => out.push(pick(r, &[0x05u8, 0x07, 0x08, 0x09, 0x0a, 0x0d, 0x0e, 0x11, 0x12, 0x13, 0x14, 0x1c, 0x1d, 0x1e, 0x1f, 0x81, 0x8d, 0x8e, 0x90, 0x91, 0x92, 0x93, 0x94, 0x95, 0x9d, 0x9e, 0x9f, 0xff, 0x02, 0x82, 0x0f, 0x8f])),
            3 => { out.push(0x1b); out.push(r.gen_range(0x40..0x60)); }
            4 => { out.push(0x1b); out.push(r.gen()); }
            5 => out.push(r.gen()),
            _ => printable(r, out),
        },
        "atascii" => match r.gen_range(0..10) {
            0..=2 => out.push(pick(r, &[0x1cu8, 0x1d, 0x1e, 0x1f, 0x7d, 0x7e, 0x7f, 0x9b, 0x9c, 0x9d, 0x9e, 0x9f, 0xfd, 0xfe, 0xff])),
            3 => { out.push(0x1b); out.push(r.gen()); }
            4 => out.push(r.gen()),
            _ => printable(r, out),
        },
        "viewdata" | "mode7" => match r.gen_range(0..10) {
            0..=3 => out.push(r.gen_range(0..0x20)),
            4 => { out.push(0x1b); out.push(r.gen_range(0x40..0x60)); }
            5 => { out.push(0x1b); out.push(r.gen()); }
            6 => out.push(r.gen()),
            7 => { for _ in 0..r.gen_range(1..45) { out.push(r.gen_range(0x20..0x80)); } }
            _ => printable(r, out),
        },
        "ascii" => match r.gen_range(0..10) {
            0..=3 => out.push(pick(r, b"\n\r\x0c\x08\x07\x00\xff\x09\x1b\x7f")),
            4 => out.push(r.gen()),
            _ => printable(r, out),
        },
        _ => ansi_token(r, w, h, big, out),
    }
}

/// Sizes: the small ones exhaustively often, the standard ones, and seeded samples of 1..=132 x 1..=60.
fn pick_size(r: &mut StdRng, emu: &str) -> (i32, i32) {
    if emu == "viewdata" || emu == "mode7" {
        return (40, 24);
    }
    match r.gen_range(0..10) {
        0..=3 => (r.gen_range(1..=5), r.gen_range(1..=4)),
        4 => (80, 25),
        5 => pick(r, &[(40, 24), (132, 60), (1, 60), (132, 1), (80, 50), (2, 2), (9, 3)]),
        6 | 7 => (r.gen_range(1..=16), r.gen_range(1..=8)),
        _ => (r.gen_range(1..=132), r.gen_range(1..=60)),
    }
}

pub fn gen_case(seed: u64, k: u64, emu: &str, big: bool, full: bool) -> Case {
    let mut r = rng(seed, 100_000 + k);
    let (w, h) = pick_size(&mut r, emu);
    let music = if emu == "ansi" { if r.gen_bool(0.6) { 0 } else { r.gen_range(1..4) } } else { 0 };
    let kind = r.gen_range(0..10);
    let mut bytes = vec![];
    let mut toks = vec![];
    let ntok = match kind { 0 => r.gen_range(1..4), 1..=6 => r.gen_range(4..60), 7 | 8 => r.gen_range(60..400), _ => 0 };
    for _ in 0..ntok {
        frontend_token(emu, &mut r, w, h, big, &mut bytes);
        toks.push(bytes.len());
    }
    if kind == 9 {
        // uniformly random bytes
        for _ in 0..r.gen_range(1..2048) { bytes.push(r.gen()); }
    } else if r.gen_bool(0.15) && !bytes.is_empty() {
        // truncate / corrupt
        let cut = r.gen_range(0..bytes.len());
        bytes.truncate(cut + 1);
        if r.gen_bool(0.5) { let i = r.gen_range(0..bytes.len()); bytes[i] = r.gen(); }
    }
    let small = w <= 16 && h <= 8;
    Case { id: format!("g{seed}-{k}"), emu: emu.to_string(), music, w, h, alloc: r.gen_bool(0.5), bs: r.gen_bool(0.3), full: full && small, quiet: 0, model: true, bytes, toks }
}

// ------------------------------------------------------------------------------------------------ entry point
pub fn term(a: &Args) {
    let out_path = a.str("out", "work/term/trace.ndjson");
    let progress = a.str("progress", &format!("{out_path}.progress"));
    let start = a.usize("start", 0);
    let seed = a.u64("seed", 0);
    let limit_s = a.u64("case-timeout", 20);
    let mem_mb = a.u64("mem-mb", 4096);
    let only_emu = a.str("emu", "all");
    let big = a.has("big");
    let full = a.has("full");
    set_mem_limit(mem_mb);

    // collect cases
    let mut cases: Vec<Case> = vec![];
    if a.has("cases") {
        let text = std::fs::read_to_string(a.str("cases", "")).expect("cases file");
        for line in text.lines() {
            if let Ok(v) = serde_json::from_str::<Value>(line) {
                cases.push(Case::from_json(&v));
            }
        }
    }
    let n_gen = a.u64("gen", 0);
    let first_k = a.u64("gen-from", 0);
    for k in 0..n_gen {
        let emu = if only_emu == "all" { EMUS[((k + first_k) % 10) as usize] } else { only_emu.as_str() };
        cases.push(gen_case(seed, first_k + k, emu, big, full));
    }
    if a.has("dump-cases") {
        let mut o = Out::create(&a.str("dump-cases", ""));
        for c in &cases { o.ev(&c.to_json()); }
        o.flush();
        return;
    }

    // watchdog: kills the process when one case runs too long (the orchestrator restarts after it)
    let clock = Arc::new(AtomicU64::new(0));       // bumped per character
    let case_no = Arc::new(AtomicU64::new(u64::MAX));
    {
        let case_no = case_no.clone();
        let progress = progress.clone();
        std::thread::spawn(move || {
            let mut last = (u64::MAX, Instant::now());
            loop {
                std::thread::sleep(Duration::from_millis(100));
                let c = case_no.load(Ordering::Relaxed);
                if c == u64::MAX { continue; }
                if c != last.0 { last = (c, Instant::now()); continue; }
                if last.1.elapsed() > Duration::from_secs(limit_s) {
                    let _ = std::fs::write(&progress, format!("{c} timeout\n"));
                    unsafe { libc::_exit(3) };
                }
            }
        });
    }

    let mut out = if start > 0 { Out::append(&out_path) } else { Out::create(&out_path) };
    let mut fed_total = 0usize;
    for (i, c) in cases.iter().enumerate().skip(start) {
        let _ = std::fs::write(&progress, format!("{i} running\n"));
        case_no.store(i as u64, Ordering::Relaxed);
        let mut evs = vec![];
        let t0 = Instant::now();
        fed_total += run_case(c, &mut evs, Some(&clock));
        let ms = t0.elapsed().as_millis() as u64;
        if let Some(last) = evs.last_mut() {
            last["case_ms"] = json!(ms);
        }
        for e in &evs { out.ev(e); }
        out.flush();
    }
    case_no.store(u64::MAX, Ordering::Relaxed);
    let _ = std::fs::write(&progress, format!("{} done\n", cases.len()));
    let _ = std::io::stderr().write_all(format!("term: {} cases, {} characters, {} events\n", cases.len() - start.min(cases.len()), fed_total, out.n).as_bytes());
}

pub fn set_mem_limit(mb: u64) {
    if mb == 0 { return; }
    unsafe {
        let lim = libc::rlimit { rlim_cur: mb * 1024 * 1024, rlim_max: mb * 1024 * 1024 };
        libc::setrlimit(libc::RLIMIT_AS, &lim);
    }
}
