//! (stub) driver module - see tools/HOWTO.md
use crate::util::Args;

pub fn term(_a: &Args) {
    eprintln!("term: driver not built yet");
    std::process::exit(2);
}
