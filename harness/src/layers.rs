//! (stub) driver module - see tools/HOWTO.md
use crate::util::Args;

pub fn c13(_a: &Args) {
    eprintln!("c13: driver not built yet");
    std::process::exit(2);
}
