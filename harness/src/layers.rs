//! C13 - layer compositing obeys the stacking laws.
//!
//! A case is a stack of layers A, a transformation `tr` (remove / edit hidden / remove-below-opaque / insert empty
//! alpha / translate / move) and the transformed stack B.  Both stacks are built as real `icy_engine::Buffer`s
//! (non-terminal, no overlay, default_font_page = 0) and `Buffer::get_char` is queried at every position of the
//! bounding box of both stacks plus a 2-cell border.  The event carries both stacks and both OBSERVED grids; the laws
//! are evaluated by spec/doc/Trace_Layers.tla.  Cases: TLC-generated (gen/layers_*.ndjson) + seeded random stacks.
use crate::util::{guard, panic_site, rng, Args, Out};
use icy_engine::{AttributedChar, BitFont, Buffer, Layer, Line, Mode, TextAttribute, TextPane};
use rand::rngs::StdRng;
use rand::Rng;
use serde_json::{json, Value};

const T: i64 = -1; // TextAttribute::TRANSPARENT_COLOR in the traces

#[derive(Clone, Debug, PartialEq)]
struct Cell {
    ch: u32,
    fg: i64,
    bg: i64,
    attr: u16,
    font: usize,
}

#[derive(Clone, Debug, PartialEq)]
struct Lay {
    o: (i32, i32),
    s: (i32, i32),
    m: u8,
    a: bool,
    v: bool,
    rows: Vec<Vec<Option<Cell>>>,
}

#[derive(Clone, Debug)]
struct Tr {
    op: &'static str,
    k: usize,
    d: (i32, i32),
    layer: Option<Lay>,
}

fn col_in(c: i64) -> u32 {
    if c == T { TextAttribute::TRANSPARENT_COLOR } else { c as u32 }
}
fn col_out(c: u32) -> i64 {
    if c == TextAttribute::TRANSPARENT_COLOR { T } else { c as i64 }
}

fn cell_json(c: &Option<Cell>) -> Value {
    match c {
        None => json!([]),
        Some(c) => json!([c.ch, c.fg, c.bg, c.attr, c.font]),
    }
}
fn cell_from(v: &Value) -> Option<Cell> {
    let a = v.as_array()?;
    if a.len() < 5 {
        return None;
    }
    Some(Cell { ch: a[0].as_u64()? as u32, fg: a[1].as_i64()?, bg: a[2].as_i64()?, attr: a[3].as_u64()? as u16, font: a[4].as_u64()? as usize })
}
fn lay_json(l: &Lay) -> Value {
    json!({"o":[l.o.0,l.o.1],"s":[l.s.0,l.s.1],"m":l.m,"a":l.a as u8,"v":l.v as u8,
           "rows": l.rows.iter().map(|r| Value::Array(r.iter().map(cell_json).collect())).collect::<Vec<_>>()})
}
fn lay_from(v: &Value) -> Lay {
    let p = |k: &str, i: usize| v[k][i].as_i64().unwrap_or(0) as i32;
    Lay {
        o: (p("o", 0), p("o", 1)),
        s: (p("s", 0), p("s", 1)),
        m: v["m"].as_u64().unwrap_or(0) as u8,
        a: v["a"].as_u64().unwrap_or(0) != 0,
        v: v["v"].as_u64().unwrap_or(0) != 0,
        rows: v["rows"].as_array().map(|rs| rs.iter().map(|r| r.as_array().map(|cs| cs.iter().map(cell_from).collect()).unwrap_or_default()).collect()).unwrap_or_default(),
    }
}
fn stack_json(s: &[Lay]) -> Value {
    Value::Array(s.iter().map(lay_json).collect())
}
fn tr_json(t: &Tr) -> Value {
    json!({"op":t.op,"k":t.k,"d":[t.d.0,t.d.1],"layer": t.layer.as_ref().map(lay_json).unwrap_or(json!([]))})
}

fn to_char(c: &Option<Cell>) -> AttributedChar {
    match c {
        None => AttributedChar::invisible(),
        Some(c) => {
            let mut at = TextAttribute::new(col_in(c.fg), col_in(c.bg));
            at.attr = c.attr;
            at.set_font_page(c.font);
            AttributedChar::new(char::from_u32(c.ch).unwrap_or(' '), at)
        }
    }
}

/// The real document: non-terminal buffer, no overlay, one engine layer per model layer (bottom first).
fn build(stack: &[Lay]) -> Buffer {
    let mut buf = Buffer::new((16, 10));
    buf.is_terminal_buffer = false;
    buf.layers.clear();
    for (i, l) in stack.iter().enumerate() {
        let mut layer = Layer::new(format!("l{i}"), (l.s.0, l.s.1));
        layer.lines = l.rows.iter().map(|r| Line { chars: r.iter().map(to_char).collect() }).collect();
        layer.properties.mode = match l.m { 1 => Mode::Chars, 2 => Mode::Attributes, _ => Mode::Normal };
        layer.properties.has_alpha_channel = l.a;
        layer.set_offset((l.o.0, l.o.1));
        layer.properties.is_visible = l.v;
        layer.default_font_page = 0;
        buf.layers.push(layer);
    }
    buf
}

fn observe(buf: &Buffer, bx: [i32; 4]) -> Value {
    let mut rows = Vec::new();
    for y in bx[1]..=bx[3] {
        let mut row = Vec::new();
        for x in bx[0]..=bx[2] {
            let c = buf.get_char((x, y));
            if c.is_visible() {
                row.push(json!([c.ch as u32, col_out(c.attribute.get_foreground()), col_out(c.attribute.get_background()), c.attribute.attr, c.attribute.get_font_page()]));
            } else {
                row.push(json!([]));
            }
        }
        rows.push(Value::Array(row));
    }
    Value::Array(rows)
}

fn bbox(a: &[Lay], b: &[Lay], border: i32) -> [i32; 4] {
    let all: Vec<&Lay> = a.iter().chain(b.iter()).collect();
    if all.is_empty() {
        return [-border, -border, border, border];
    }
    [
        all.iter().map(|l| l.o.0).min().unwrap() - border,
        all.iter().map(|l| l.o.1).min().unwrap() - border,
        all.iter().map(|l| l.o.0 + l.s.0 - 1).max().unwrap() + border,
        all.iter().map(|l| l.o.1 + l.s.1 - 1).max().unwrap() + border,
    ]
}

fn apply(t: &Tr, a: &[Lay]) -> Vec<Lay> {
    let mut b = a.to_vec();
    match t.op {
        "remove" => {
            b.remove(t.k - 1);
        }
        "edit" => b[t.k - 1] = t.layer.clone().unwrap(),
        "below" => b = a[t.k - 1..].to_vec(),
        "insert" => b.insert(t.k, t.layer.clone().unwrap()),
        "translate" => {
            for l in &mut b {
                l.o = (l.o.0 + t.d.0, l.o.1 + t.d.1);
            }
        }
        "move" => {
            let l = &mut b[t.k - 1];
            l.o = (l.o.0 + t.d.0, l.o.1 + t.d.1);
        }
        _ => unreachable!(),
    }
    b
}

fn run_case(out: &mut Out, case: usize, src: &str, a: &[Lay], t: &Tr) {
    let b = apply(t, a);
    if b.is_empty() || b.len() > 5 {
        return; // the property speaks about stacks of 1..=5 layers (the model covers the empty stack in R1)
    }
    let bx = bbox(a, &b, 2);
    out.ev(&json!({"ev":"reset","case":case,"src":src}));
    // moving layers is also done THROUGH THE API on the built document A (set_offset, a drag = preview offset first, a drag
    // that is put back): the mutated document must show what the directly built stack (B, or A for "put back") shows
    let route = case % 4;
    let r = guard(|| {
        let ba = build(a);
        let bb = build(&b);
        let gm = if t.op == "move" || t.op == "translate" {
            let mut bm = build(a);
            for (i, l) in bm.layers.iter_mut().enumerate() {
                if t.op == "move" && i != t.k - 1 { continue; }
                let old = l.get_base_offset();
                let new = old + icy_engine::Position::new(t.d.0, t.d.1);
                match route {
                    0 => l.set_offset(new),
                    1 => { l.set_preview_offset(Some(new + icy_engine::Position::new(3, -2))); l.set_offset(new); }
                    2 => l.set_preview_offset(Some(new)),
                    _ => { l.set_preview_offset(Some(new)); l.set_offset(old); }
                }
            }
            observe(&bm, bx)
        } else { Value::Null };
        // the editor's overlay (Buffer::get_overlay_layer(i)) is an alpha layer drawn just above layer i: for an inserted alpha
        // layer that lies inside the buffer, in a stack of Normal-mode layers, document A plus the overlay must show what the
        // directly built stack B shows - also when the overlay was requested at another index before
        let go = if !a.is_empty() && a.iter().all(|x| x.m == 0) {
            let mut rr = rng(case as u64, 4242);
            let k = rr.gen_range(1..=a.len());
            // a sparse full-size alpha layer: as overlay above layer k - 1 of document A, and as a real layer inserted at k
            let rows: Vec<Vec<Option<Cell>>> = (0..10).map(|_| (0..16).map(|_| if rr.gen_bool(0.35) { Some(rnd_cell(&mut rr)) } else { None }).collect()).collect();
            let lp = Lay { o: (0, 0), s: (16, 10), m: 0, a: true, v: true, rows };
            let mut bo = build(a);
            if case % 2 == 0 { let _ = bo.get_overlay_layer(k % a.len()); }
            if let Some(ov) = bo.get_overlay_layer(k - 1) {
                for (y, row) in lp.rows.iter().enumerate() {
                    for (x, c) in row.iter().enumerate() {
                        if c.is_some() { ov.set_char((x as i32, y as i32), to_char(c)); }
                    }
                }
            }
            let mut with_layer = a.to_vec();
            with_layer.insert(k, lp);
            json!([observe(&bo, bx), observe(&build(&with_layer), bx), k])
        } else { Value::Null };
        // an empty alpha layer made the way a paste makes it (Layer::from_clipboard_data of a clipboard record whose cells are all
        // invisible), inserted at a position that rotates with the case: document A must show exactly what it showed without it
        let gp = {
            let mut d = vec![0u8];
            d.extend(((case % 5) as i32 - 2).to_le_bytes());
            d.extend(((case % 3) as i32 - 1).to_le_bytes());
            d.extend(5u32.to_le_bytes());
            d.extend(4u32.to_le_bytes());
            for _ in 0..20 {
                d.extend(32u16.to_le_bytes());
                d.extend(icy_engine::attribute::INVISIBLE.to_le_bytes());
                d.extend(0u16.to_le_bytes());
                d.extend(0u32.to_le_bytes());
                d.extend(7u32.to_le_bytes());
            }
            match Layer::from_clipboard_data(&d) {
                Some(l) => {
                    let mut bp = build(a);
                    let k = case % (bp.layers.len() + 1);
                    bp.layers.insert(k, l);
                    json!([observe(&bp, bx), k])
                }
                None => Value::Null,
            }
        };
        (observe(&ba, bx), observe(&bb, bx), gm, go, gp)
    });
    match r {
        Ok((ga, gb, gm, go, gp)) => {
            let mut ev = json!({"ev":"law","case":case,"tr":tr_json(t),"A":stack_json(a),"B":stack_json(&b),"box":bx,"gA":ga,"gB":gb});
            if !gp.is_null() { ev["gP"] = gp; }
            if !go.is_null() { ev["gO"] = go; }
            if !gm.is_null() { ev["gM"] = gm; ev["route"] = json!(route); ev["exp"] = json!(if route == 3 { "A" } else { "B" }); }
            out.ev(&ev)
        }
        Err(p) => out.ev(&json!({"ev":"panic","case":case,"tr":tr_json(t),"A":stack_json(a),"B":stack_json(&b),"box":bx,"site":panic_site(&p),"msg":p.msg})),
    }
}

// ------------------------------------------------------------------ random stacks inside the stated domain
const OFF_MIN: i32 = -4;
const OFF_MAX: i32 = 6;

fn rnd_cell(r: &mut StdRng) -> Cell {
    let k = r.gen_range(0..100);
    if k < 18 {
        // transparent-colour half-block cells as written by the half-block painter (and a few odd ones)
        let ch = match r.gen_range(0..10) { 0..=4 => 223, 5..=8 => 220, _ => *[219u32, 65, 32].get(r.gen_range(0..3)).unwrap() };
        let c = r.gen_range(0..16);
        match r.gen_range(0..8) {
            0 => Cell { ch, fg: T, bg: c, attr: 0, font: 0 },
            1 => Cell { ch, fg: T, bg: T, attr: 0, font: 0 },
            _ => Cell { ch, fg: c, bg: T, attr: 0, font: 0 },
        }
    } else if k < 30 {
        // blanks: space / NUL on black (with any foreground) or on a colour
        let ch = if r.gen_bool(0.7) { 32 } else { 0 };
        Cell { ch, fg: if r.gen_bool(0.5) { 7 } else { r.gen_range(0..16) }, bg: if r.gen_bool(0.7) { 0 } else { r.gen_range(1..8) }, attr: 0, font: 0 }
    } else {
        let ch = match r.gen_range(0..10) {
            0..=3 => r.gen_range(65..91),
            4 => *[176u32, 177, 178, 219, 220, 221, 222, 223, 254].get(r.gen_range(0..9)).unwrap(),
            5 => *[219u32, 220, 223].get(r.gen_range(0..3)).unwrap(),
            _ => r.gen_range(0..256),
        };
        // every style bit (bold, faint, italic, blink, underline, double underline, conceal, crossed out, double height): a style
        // never decides whether a cell is there
        let attr = match r.gen_range(0..16) { 0 => 1u16, 1 => 8, 2 => 16, 3 => 9, 4 => 2, 5 => 4, 6 => 32, 7 => 64, 8 => 128, 9 => 256, 10 => 64 | 8, _ => 0 };
        let font = if r.gen_range(0..20) == 0 { r.gen_range(1..4) } else { 0 };
        Cell { ch, fg: r.gen_range(0..16), bg: if r.gen_bool(0.4) { 0 } else { r.gen_range(0..16) }, attr, font }
    }
}

fn rnd_dim(r: &mut StdRng, max: i32) -> i32 {
    if r.gen_bool(0.45) { r.gen_range(1..=max.min(4)) } else { r.gen_range(1..=max) }
}

fn rnd_rows(r: &mut StdRng, w: i32, h: i32, empty: bool) -> Vec<Vec<Option<Cell>>> {
    let density = if empty { 0.0 } else { *[0.08, 0.25, 0.5, 0.8, 1.0].get(r.gen_range(0..5)).unwrap() };
    let mut rows: Vec<Vec<Option<Cell>>> = (0..h).map(|_| (0..w).map(|_| if density > 0.0 && r.gen_bool(density) { Some(rnd_cell(r)) } else { None }).collect()).collect();
    // storage variety: rows / lines may be shorter than the layer (missing = invisible, Layer::get_char)
    match r.gen_range(0..6) {
        0 => {
            let keep = r.gen_range(0..=h as usize);
            rows.truncate(keep);
        }
        1 => {
            for row in &mut rows {
                let keep = r.gen_range(0..=w as usize);
                row.truncate(keep);
            }
        }
        _ => {}
    }
    rows
}

fn rnd_layer(r: &mut StdRng, empty: bool) -> Lay {
    let (w, h) = (rnd_dim(r, 12), rnd_dim(r, 8));
    // offsets -4..=6, biased towards overlap near the origin
    let off = |r: &mut StdRng| if r.gen_bool(0.5) { r.gen_range(-2..=3) } else { r.gen_range(OFF_MIN..=OFF_MAX) };
    let m = match r.gen_range(0..10) { 0..=5 => 0, 6..=7 => 1, _ => 2 };
    Lay { o: (off(r), off(r)), s: (w, h), m, a: r.gen_bool(0.6), v: r.gen_bool(0.82), rows: rnd_rows(r, w, h, empty) }
}

fn in_domain(l: &Lay) -> bool {
    (OFF_MIN..=OFF_MAX).contains(&l.o.0) && (OFF_MIN..=OFF_MAX).contains(&l.o.1)
}

fn rnd_d(r: &mut StdRng, ls: &[&Lay]) -> Option<(i32, i32)> {
    // a non-zero displacement that keeps every moved layer at offsets -4..=6
    for _ in 0..40 {
        let d = (r.gen_range(-6..=6), r.gen_range(-6..=6));
        if d != (0, 0) && ls.iter().all(|l| in_domain(&Lay { o: (l.o.0 + d.0, l.o.1 + d.1), ..(*l).clone() })) {
            return Some(d);
        }
    }
    None
}

/// A random stack prepared so that transformation kind `want` is applicable, and that transformation.
fn rnd_case(r: &mut StdRng, want: usize) -> (Vec<Lay>, Tr) {
    let n = if want == 3 { r.gen_range(1..=4) } else { r.gen_range(1..=5) };
    let mut a: Vec<Lay> = (0..n).map(|_| rnd_layer(r, false)).collect();
    let k = r.gen_range(1..=n);
    let t = match want {
        0 => {
            if n == 1 {
                a.push(rnd_layer(r, false));
            }
            Tr { op: "remove", k, d: (0, 0), layer: None }
        }
        1 => {
            if n == 1 {
                a.push(rnd_layer(r, false));
            }
            a[k - 1].v = false;
            let mut l = rnd_layer(r, false);
            l.v = false;
            if r.gen_bool(0.3) { Tr { op: "remove", k, d: (0, 0), layer: None } } else { Tr { op: "edit", k, d: (0, 0), layer: Some(l) } }
        }
        2 => {
            // an opaque layer with something below it; favour sparse content so that the default-cell paths are hit
            if n == 1 {
                a.insert(0, rnd_layer(r, false));
            }
            let k = r.gen_range(2..=a.len());
            a[k - 1].m = 0;
            a[k - 1].a = false;
            a[k - 1].v = true;
            Tr { op: "below", k, d: (0, 0), layer: None }
        }
        3 => {
            let mut l = rnd_layer(r, true);
            l.a = true;
            if r.gen_bool(0.9) {
                l.v = true;
            }
            Tr { op: "insert", k: r.gen_range(0..=n), d: (0, 0), layer: Some(l) }
        }
        4 => match rnd_d(r, &a.iter().collect::<Vec<_>>()) {
            Some(d) => Tr { op: "translate", k: 0, d, layer: None },
            None => Tr { op: "remove", k, d: (0, 0), layer: None },
        },
        5 => {
            a[k - 1].v = true;
            match rnd_d(r, &[&a[k - 1]]) {
                Some(d) => Tr { op: "move", k, d, layer: None },
                None => Tr { op: "remove", k, d: (0, 0), layer: None },
            }
        }
        _ => {
            // alpha layer removal (L3): make layer k an alpha layer
            if n == 1 {
                a.insert(0, rnd_layer(r, false));
            }
            a[k - 1].a = true;
            a[k - 1].v = true;
            Tr { op: "remove", k, d: (0, 0), layer: None }
        }
    };
    (a, t)
}

fn half_block_table() -> Value {
    // set pixels in the upper / lower half of every glyph of the default font (font page 0 of a new Buffer)
    let font = BitFont::default();
    let mut bits = Vec::new();
    for c in 0..256u32 {
        let ch = char::from_u32(c).unwrap();
        match font.get_glyph(ch) {
            Some(g) => {
                let n = g.data.len();
                let up: u32 = g.data[..n / 2].iter().map(|b| b.count_ones()).sum();
                let lo: u32 = g.data[n / 2..n / 2 + n / 2].iter().map(|b| b.count_ones()).sum();
                bits.push(json!([up, lo]));
            }
            None => bits.push(json!([0, 0])),
        }
    }
    json!({"ev":"font","w":font.size.width,"h":font.size.height,"bits":bits})
}

pub fn c13(a: &Args) {
    let mut out = Out::create(&a.str("out", "work/C13/trace.ndjson"));
    let seed = a.u64("seed", 0);
    let thorough = a.str("tier", "quick") == "thorough";
    out.ev(&half_block_table());
    let mut case = 0usize;

    // (1) cases exported by TLC from MC_Layers (Gen_Layers_*.cfg): {"tr":..,"A":[..],"B":[..]}
    let mut n_gen = 0;
    for (gi, path) in a.str("gen", "").split(',').filter(|s| !s.is_empty()).enumerate() {
        let Ok(text) = std::fs::read_to_string(path) else {
            eprintln!("c13: cannot read {path}");
            std::process::exit(2);
        };
        // the largest family (3-layer stacks) is sampled 1 in 4 in the quick tier (which quarter depends on the seed)
        let lines: Vec<&str> = text.lines().collect();
        let stride = if !thorough && lines.len() > 20000 { 4 } else { 1 };
        for (i, line) in lines.iter().enumerate() {
            if (i + seed as usize + gi) % stride != 0 {
                continue;
            }
            let Ok(v) = serde_json::from_str::<Value>(line) else { continue };
            let st: Vec<Lay> = v["A"].as_array().map(|x| x.iter().map(lay_from).collect()).unwrap_or_default();
            let op = match v["tr"]["op"].as_str().unwrap_or("") { "remove" => "remove", "edit" => "edit", "below" => "below", "insert" => "insert", "translate" => "translate", "move" => "move", _ => continue };
            let t = Tr {
                op,
                k: v["tr"]["k"].as_u64().unwrap_or(0) as usize,
                d: (v["tr"]["d"][0].as_i64().unwrap_or(0) as i32, v["tr"]["d"][1].as_i64().unwrap_or(0) as i32),
                layer: if v["tr"]["layer"].is_object() { Some(lay_from(&v["tr"]["layer"])) } else { None },
            };
            // the driver's own transformation must agree with the specification's (Apply in Layers.tla)
            let tb: Vec<Lay> = v["B"].as_array().map(|x| x.iter().map(lay_from).collect()).unwrap_or_default();
            if apply(&t, &st) != tb {
                eprintln!("c13: driver and specification disagree about {line}");
                std::process::exit(2);
            }
            case += 1;
            run_case(&mut out, case, "tlc", &st, &t);
            n_gen += 1;
        }
    }
    eprintln!("c13: {n_gen} TLC-generated cases replayed");

    // (2) seeded random stacks: 1..=5 layers, 1..=12 x 1..=8, offsets -4..=6, all modes
    let n_rnd = a.usize("n", if thorough { 12000 } else { 700 });
    for i in 0..n_rnd {
        let mut r = rng(seed, 130_000 + i as u64);
        let (st, t) = rnd_case(&mut r, i % 7);
        debug_assert!(st.iter().all(in_domain) && st.len() <= 5);
        case += 1;
        run_case(&mut out, case, "rnd", &st, &t);
    }
    out.flush();
    eprintln!("c13: {n_rnd} random cases, {} events", out.n);
}
