//! (stub) driver module - see tools/HOWTO.md
use crate::util::Args;

pub fn c14(_a: &Args) {
    eprintln!("c14: driver not built yet");
    std::process::exit(2);
}
