//! C14 driver: (a) sixel payload decoder - rectangularity; (b) the background-decode queue - arrival order, shadowing,
//! non-blocking polls - under completion orders chosen by the harness through the `icy_engine_verif` gate hook.
use crate::util::{guard, panic_site, rng, Args, Out};
use icy_engine::{ansi, verif, Buffer, BufferParser, Caret, Sixel};
use rand::Rng;
use serde_json::{json, Value};
use std::sync::atomic::{AtomicBool, Ordering};
use std::sync::Arc;
use std::time::{Duration, Instant};

fn decode_event(payload: &[u8], src: &str) -> Value {
    let s: String = payload.iter().map(|b| *b as char).collect();
    let r = guard(|| Sixel::parse_from(icy_engine::Position::default(), 1, 1, [0, 0, 0, 0], &s));
    match r {
        Ok(Ok(sx)) => json!({"ev":"sx","src":src,"payload":payload,"r":"ok","w":sx.get_width(),"h":sx.get_height(),"len":sx.picture_data.len()}),
        Ok(Err(_)) => json!({"ev":"sx","src":src,"payload":payload,"r":"err","w":0,"h":0,"len":0}),
        Err(p) => json!({"ev":"sx","src":src,"payload":payload,"r":"panic","w":0,"h":0,"len":0,"site":panic_site(&p)}),
    }
}

fn rects(cfg: u64) -> Vec<[i32; 4]> {
    match cfg {
        1 => vec![[0, 0, 1, 1], [3, 0, 4, 1], [6, 0, 7, 1], [9, 0, 10, 1]],
        2 => vec![[1, 1, 2, 2], [0, 0, 4, 4], [1, 1, 2, 2], [0, 0, 5, 5]],
        3 => vec![[0, 0, 5, 5], [1, 1, 2, 2], [0, 0, 5, 5], [3, 3, 4, 4]],
        5 => vec![[0, 0, 1, 1], [3, 0, 4, 1], [6, 0, 7, 1], [0, 0, 1, 1]],
        6 => vec![[0, 0, 1, 1], [3, 0, 4, 1], [6, 0, 7, 1], [3, 0, 4, 1]],
        _ => vec![[0, 0, 2, 2], [1, 1, 3, 3], [0, 0, 3, 3], [2, 2, 2, 2]],
    }
}

fn wait_until(limit: Duration, mut f: impl FnMut() -> bool) -> bool {
    let t0 = Instant::now();
    while !f() {
        if t0.elapsed() > limit {
            return false;
        }
        std::thread::sleep(Duration::from_micros(50));
    }
    true
}

/// What is on the screen: the layer's sixels as tickets.  Each ticket is submitted with its own number as the first raster
/// attribute (pixel aspect numerator), which the decoder stores as `vertical_scale` and which has no influence on the
/// picture's rectangle.
fn shown(buf: &Buffer, _rs: &[[i32; 4]], _submitted: &[usize]) -> Value {
    let mut out = vec![];
    for s in &buf.layers[0].sixels {
        let t = s.vertical_scale.max(0);
        out.push(json!([t, s.position.x, s.position.y, s.get_width(), s.get_height()]));
    }
    Value::Array(out)
}

fn run_schedule(sched: &Value, out: &mut Out, id: usize) -> bool {
    let cfg = sched["rect"].as_u64().unwrap_or(1);
    // explicit rectangles (geometry generator Gen_SixelGeo) or one of the named configurations
    let rs: Vec<[i32; 4]> = match sched["rects"].as_array() {
        Some(a) if !a.is_empty() => a.iter().map(|r| { let v: Vec<i32> = r.as_array().map(|x| x.iter().map(|y| y.as_i64().unwrap_or(0) as i32).collect()).unwrap_or_default(); [v[0], v[1], v[2], v[3]] }).collect(),
        _ => rects(cfg),
    };
    // pixel size of every image: whole cells of 8 x 16 pixels unless the witness gives sizes that are not multiples of the cell
    let px: Vec<[i32; 2]> = match sched["px"].as_array() {
        Some(a) if a.len() == rs.len() => a.iter().map(|p| [p[0].as_i64().unwrap_or(8) as i32, p[1].as_i64().unwrap_or(16) as i32]).collect(),
        _ => rs.iter().map(|r| [(r[2] - r[0] + 1) * 8, (r[3] - r[1] + 1) * 16]).collect(),
    };
    // the rectangles reported to the trace are PIXEL rectangles (inclusive corners): the shadow rule is about pixels
    let prs: Vec<Vec<i32>> = rs.iter().zip(px.iter()).map(|(r, p)| vec![r[0] * 8, r[1] * 16, r[0] * 8 + p[0] - 1, r[1] * 16 + p[1] - 1]).collect();
    let hist = sched["hist"].as_array().cloned().unwrap_or_default();
    verif::sixel_gate_enable(true);
    let mut buf = Buffer::create((80, 25));
    // the queue lives in the buffer whatever it is used for: terminal buffers and the non-terminal buffers the file loaders and the
    // editor use, cleared by form feed or by CSI 2 J (configuration classes, rotated over the schedules)
    buf.is_terminal_buffer = id % 2 == 0;
    let clear_seq: &str = if (id / 2) % 2 == 0 { "\x0c" } else { "\x1b[2J" };
    let mut caret = Caret::default();
    let mut parser = ansi::Parser::default();
    out.ev(&json!({"ev":"reset","case":id,"rect":cfg,"k":sched["k"],"rects":prs,"terminal":buf.is_terminal_buffer,"clear":clear_seq.len()}));
    let mut submitted: Vec<usize> = vec![];
    let mut was_blocked = false;
    let mut popped = 0usize; // handles no longer in the queue (delivered or cleared)
    for act in &hist {
        let name = act[0].as_str().unwrap_or("");
        let arg = act[1].as_u64().unwrap_or(0) as usize;
        let mut ev = json!({"ev":name,"i":arg});
        match name {
            "submit" => {
                let r = rs[arg - 1];
                let s = format!("\x1b[{};{}H\x1bP0;0;0q\"{};1;{};{}#0?\x1b\\", r[1] + 1, r[0] + 1, arg, px[arg - 1][0], px[arg - 1][1]);
                for ch in s.chars() {
                    let _ = parser.print_char(&mut buf, 0, &mut caret, ch);
                }
                submitted.push(arg);
                let n = submitted.len();
                let ok = wait_until(Duration::from_secs(5), || verif::sixel_gate_arrived() >= n);
                ev["arrived"] = json!(ok as u8);
            }
            "finish" => {
                // wait until one more queued decode reports finished (independent of where the handle sits in the queue);
                // the payloads are tiny, so a released decode whose handle is no longer queued is done within a millisecond
                let f0 = buf.sixel_threads.iter().filter(|h| h.is_finished()).count();
                verif::sixel_gate_release(arg - 1);
                let seen = wait_until(Duration::from_millis(300), || buf.sixel_threads.iter().filter(|h| h.is_finished()).count() > f0);
                if !seen {
                    std::thread::sleep(Duration::from_millis(3));
                }
                ev["done"] = json!(1);
                ev["seen"] = json!(seen as u8);
            }
            "poll" => {
                // watchdog: a poll that waits for a parked decode would never return - release everything after 1.5 s
                let fin = Arc::new(AtomicBool::new(false));
                let blocked = Arc::new(AtomicBool::new(false));
                let (f2, b2) = (fin.clone(), blocked.clone());
                let wd = std::thread::spawn(move || {
                    let t0 = Instant::now();
                    while !f2.load(Ordering::SeqCst) {
                        if t0.elapsed() > Duration::from_millis(1500) {
                            b2.store(true, Ordering::SeqCst);
                            verif::sixel_gate_release_all();
                            return;
                        }
                        std::thread::sleep(Duration::from_micros(200));
                    }
                });
                let before = buf.sixel_threads.len();
                let t0 = Instant::now();
                let r = guard(|| buf.update_sixel_threads());
                let us = t0.elapsed().as_micros() as u64;
                fin.store(true, Ordering::SeqCst);
                let _ = wd.join();
                popped += before - buf.sixel_threads.len();
                ev["ret"] = json!(match &r { Ok(Ok(true)) => "true", Ok(Ok(false)) => "false", Ok(Err(_)) => "err", Err(_) => "panic" });
                if let Err(p) = &r { ev["site"] = json!(panic_site(p)); }
                ev["blocked"] = json!(blocked.load(Ordering::SeqCst) as u8);
                ev["us"] = json!(us);
            }
            "clear" => {
                let before = buf.sixel_threads.len();
                for ch in clear_seq.chars() { let _ = parser.print_char(&mut buf, 0, &mut caret, ch); }
                popped += before - buf.sixel_threads.len();
            }
            _ => {}
        }
        ev["pending"] = json!(buf.sixel_threads.len());
        ev["shown"] = shown(&buf, &rs, &submitted);
        let stop = ev["blocked"].as_u64() == Some(1);
        out.ev(&ev);
        if stop {
            was_blocked = true;
            break;
        }
    }
    verif::sixel_gate_release_all();
    // let abandoned decodes run out
    for h in buf.sixel_threads.drain(..) {
        let _ = h.join();
    }
    verif::sixel_gate_enable(false);
    was_blocked
}

pub fn c14(a: &Args) {
    let seed = a.u64("seed", 0);
    let thorough = a.str("tier", "quick") == "thorough";
    // ---- (a) decoder
    let mut out = Out::create(&a.str("out-dec", "work/C14/dec.ndjson"));
    if let Ok(text) = std::fs::read_to_string(a.str("gen-dec", "gen/sixel_payloads.ndjson")) {
        for line in text.lines() {
            if let Ok(v) = serde_json::from_str::<Value>(line) {
                let p: Vec<u8> = v["payload"].as_array().map(|a| a.iter().map(|x| x.as_u64().unwrap_or(0) as u8).collect()).unwrap_or_default();
                out.ev(&decode_event(&p, "tlc"));
            }
        }
    }
    let n_rand = if thorough { 20000 } else { 2500 };
    let alpha: &[&[u8]] = &[b"?", b"~", b"@", b"A", b"_", b"N", b"-", b"$", b"!2", b"!7~", b"!500?", b"#1", b"#2;2;10;20;30", b"#3;1;120;50;50", b"\"1;1;3;7", b"\"1;1;1;1", b"\"1;1;40;13", b"\"2;1", b"\"1;1;9", b"!", b"#", b"0", b";", b"\x80"];
    for k in 0..n_rand {
        let mut r = rng(seed, 40_000 + k);
        let mut p = vec![];
        let n = r.gen_range(1..30);
        for _ in 0..n {
            if r.gen_bool(0.85) { p.extend_from_slice(alpha[r.gen_range(0..alpha.len())]); } else { p.push(r.gen_range(0x20..0x80)); }
        }
        out.ev(&decode_event(&p, "rnd"));
    }
    // at the cap: pictures that reach the 4096-pixel limit exactly, one short of it and one beyond, in height (4096 is not a
    // multiple of the 6-pixel band: the last band is cut) and in width, for data characters with only low bits, only high bits, all
    for k in [680usize, 681, 682, 683, 684] {
        for d in [b'@', b'A', b'O', b'_', b'~', b'?'] {
            for raster in [&b""[..], &b"\"1;1;1;4096"[..], &b"\"1;1;1;4095"[..], &b"\"1;1;1;4097"[..]] {
                let mut p = raster.to_vec();
                p.extend_from_slice(b"#1");
                // k graphics new lines, written as two repeat groups (a repeat applies to '-' as well) or literally
                if d == b'~' && k % 2 == 0 { p.extend(std::iter::repeat(b'-').take(k)); } else { p.extend_from_slice(format!("!500-!{}-", k - 500).as_bytes()); }
                p.push(d);
                out.ev(&decode_event(&p, "cap"));
            }
        }
    }
    for n in [4094usize, 4095, 4096, 4097, 4098] {
        for tail in [&b""[..], &b"~"[..], &b"~~-~"[..]] {
            let mut p = format!("#1!{n}~").into_bytes();
            p.extend_from_slice(tail);
            out.ev(&decode_event(&p, "cap"));
        }
    }
    out.flush();
    eprintln!("c14: {} decoder events", out.n);
    // ---- (b) queue schedules exported by TLC
    let mut out = Out::create(&a.str("out-queue", "work/C14/queue.ndjson"));
    let mut id = 0;
    let mut n_blocked = 0;
    let limit = a.usize("max-schedules", usize::MAX);
    for path in a.str("gen-queue", "gen/sixel_sched_1.ndjson").split(',') {
        if let Ok(text) = std::fs::read_to_string(path) {
            for line in text.lines() {
                if id >= limit || n_blocked >= 5 { break; }      // a blocking poll costs 1.5 s: a handful is proof enough
                if let Ok(v) = serde_json::from_str::<Value>(line) {
                    if run_schedule(&v, &mut out, id) { n_blocked += 1; }
                    id += 1;
                }
            }
        }
    }
    // ---- (c) the FILE loader: K sixel pictures of very different decode cost inside an .ans file; after loading every picture
    //          must be there (one image layer each, in arrival order, complete rectangle) and no decode may be left pending
    verif::sixel_gate_enable(false);
    let tiny = |t: usize| format!("\x1bPq\"{t};1;4;6#1~~~~\x1b\\");
    let big = |t: usize, w: usize, rows: usize| { let mut s = format!("\x1bPq\"{t};1;{w};{}#2", rows * 6); for _ in 0..rows { s.push_str(&format!("!{w}~-")); } s.push_str("\x1b\\"); s };
    let mut n_files = 0;
    for (name, parts) in [("tiny-big", vec![0, 1]), ("big-tiny", vec![1, 0]), ("tiny-big-tiny", vec![0, 1, 0]), ("tiny-tiny-big", vec![0, 0, 1]), ("big-big", vec![1, 1]), ("tiny", vec![0]), ("tiny-big-big-tiny", vec![0, 1, 1, 0])] {
        for (w, rows) in [(600usize, 60usize), (1500, 150)] {
            for rep in 0..(if thorough { 6 } else { 2 }) {
                let mut file = String::new();
                for (i, p) in parts.iter().enumerate() {
                    file.push_str(&format!("\x1b[{};{}H", 1 + 2 * i, 1 + 3 * i));
                    file.push_str(&if *p == 0 { tiny(i + 1) } else { big(i + 1, w, rows) });
                }
                file.push_str("\r\nend");
                let res = guard(|| Buffer::from_bytes(std::path::Path::new("pics.ans"), true, file.as_bytes()));
                match res {
                    Ok(Ok(b)) => {
                        let mut imgs = vec![];
                        for l in &b.layers { for sx in &l.sixels { imgs.push(json!([sx.vertical_scale, sx.get_width(), sx.get_height(), sx.picture_data.len()])); } }
                        out.ev(&json!({"ev":"fileload","case":format!("{name}:{w}x{rows}:{rep}"),"k":parts.len(),"imgs":imgs,"pending":b.sixel_threads.len(),"r":"ok"}));
                    }
                    Ok(Err(e)) => out.ev(&json!({"ev":"fileload","case":format!("{name}:{w}x{rows}:{rep}"),"k":parts.len(),"imgs":[],"pending":0,"r":"err","msg":e.to_string()})),
                    Err(p) => out.ev(&json!({"ev":"fileload","case":format!("{name}:{w}x{rows}:{rep}"),"k":parts.len(),"imgs":[],"pending":0,"r":"panic","site":panic_site(&p)})),
                }
                n_files += 1;
            }
        }
    }
    out.flush();
    eprintln!("c14: {} schedules, {} files with sixel pictures, {} queue events", id, n_files, out.n);
}
