//! Driver for the semantic model of the editor's LAYER operations (spec/doc/LayerOps.tla; model layer of C08).
//!
//! A case = a document (buffer size, 1..4 layers with size, offset, preview offset, flags, mode, role, title, colour and stored
//! cells, the current layer) + a sequence of PUBLIC `EditState` calls: add_new_layer, remove_layer, raise_layer, lower_layer,
//! duplicate_layer, clear_layer, anchor_layer, add_floating_layer, merge_layer_down, toggle_layer_visibility, move_layer,
//! set_layer_size, rotate_layer, make_layer_transparent, update_layer_properties, set_current_layer, undo, redo.
//! The trace has one `reset` event with the whole document as the public API shows it and one `op` event per call with the
//! operation, its arguments, the result (ok / err / panic + site), the whole document afterwards, undo_stack_len and what
//! `Buffer::get_char` shows over the buffer plus a margin of one cell (`v`).
//! `Trace_LayerOps.tla` recomputes every call with the model and compares (model layer only).
//!
//! The first event of every trace file (`env`) carries what the model treats as uninterpreted tables, probed through the
//! public API: the half-block bits of the default font (Buffer::make_solid_color) and the glyph map of rotate_layer.
//!
//! What is recorded of a layer's storage: the rows of `lines` without trailing invisible cells and without trailing empty
//! rows (the canonical form of the model; how many invisible cells / empty rows are stored is not observable through
//! get_char).  The builder varies that realisation (trimmed rows / full rows) - it must not matter.
//!
//! Case sources: (1) the call sequences exported by TLC from MC_LayerOps (Gen_LayerOps.cfg: one per class of GenView), each
//! extended by one more operation (every kind in turn), an undo / redo walk, another operation and another walk;
//! (2) seeded random sequences of 1..=8 calls on documents up to 6 x 4 with 1..=4 layers.
//! `--case FILE` runs one hand-written case ({"d": document, "ops": [...]}), `--replay ID` one case of the enumeration.
use crate::util::{guard, panic_site, rng, Args, Out};
use icy_engine::editor::{EditState, UndoState};
use icy_engine::{attribute, AttributedChar, BitFont, Buffer, Color, Layer, Line, Mode, Position, Properties, Role, TextAttribute, TextPane};
use rand::rngs::StdRng;
use rand::Rng;
use serde_json::{json, Value};
use std::collections::BTreeMap;

pub const OPS: [&str; 18] = [
    "add_new_layer", "remove_layer", "raise_layer", "lower_layer", "duplicate_layer", "clear_layer", "anchor_layer", "add_floating_layer",
    "merge_layer_down", "toggle_layer_visibility", "move_layer", "set_layer_size", "rotate_layer", "make_layer_transparent",
    "update_layer_properties", "set_current_layer", "undo", "redo",
];
const T: u32 = TextAttribute::TRANSPARENT_COLOR;

// ------------------------------------------------------------------------------------------------ names
/// The three names the engine gives layers, probed through the public API.
struct Names {
    new: String,
    pasted: String,
    dup_prefix: String,
    dup_suffix: String,
}

fn probe_names() -> Names {
    let mut es = EditState::from_buffer(Buffer::new((1, 1)));
    es.add_new_layer(0).expect("probe add_new_layer");
    let new = es.get_buffer().layers[1].properties.title.clone();
    es.get_buffer_mut().layers[0].properties.title = "\u{1}".to_string();
    es.duplicate_layer(0).expect("probe duplicate_layer");
    let dup = es.get_buffer().layers[1].properties.title.clone();
    let (a, b) = dup.split_once('\u{1}').expect("probe duplicate name");
    // a 1 x 1 clipboard block: the name of a floating selection
    let mut data = vec![0u8];
    data.extend(i32::to_le_bytes(0));
    data.extend(i32::to_le_bytes(0));
    data.extend(u32::to_le_bytes(1));
    data.extend(u32::to_le_bytes(1));
    data.extend([0u8; 14]);
    let pasted = Layer::from_clipboard_data(&data).expect("probe clipboard").properties.title;
    Names { new, pasted, dup_prefix: a.to_string(), dup_suffix: b.to_string() }
}

fn title_string(v: &Value, nm: &Names) -> String {
    let b = v["b"].as_str().unwrap_or("L");
    let mut s = match b { "new" => nm.new.clone(), "pasted" => nm.pasted.clone(), other => other.to_string() };
    for _ in 0..v["n"].as_i64().unwrap_or(0) {
        s = format!("{}{}{}", nm.dup_prefix, s, nm.dup_suffix);
    }
    s
}

fn title_json(t: &str, nm: &Names) -> Value {
    let mut s = t;
    let mut n = 0;
    while !(nm.dup_prefix.is_empty() && nm.dup_suffix.is_empty()) && s.len() >= nm.dup_prefix.len() + nm.dup_suffix.len() && s.starts_with(&nm.dup_prefix) && s.ends_with(&nm.dup_suffix) {
        s = &s[nm.dup_prefix.len()..s.len() - nm.dup_suffix.len()];
        n += 1;
    }
    let b = if s == nm.new { "new" } else if s == nm.pasted { "pasted" } else { s };
    json!({"b": b, "n": n})
}

// ------------------------------------------------------------------------------------------------ cells, layers, documents
fn col_in(v: i64) -> u32 { if v < 0 { T } else { v as u32 } }
fn col_out(c: u32) -> i64 { if c == T { -1 } else { c as i64 } }

fn cell_of(v: &Value) -> AttributedChar {
    match v.as_array() {
        Some(a) if a.len() == 5 => {
            let g = |i: usize| a[i].as_i64().unwrap_or(0);
            let mut at = TextAttribute::new(col_in(g(1)), col_in(g(2)));
            at.attr = g(3) as u16;
            at.set_font_page(g(4) as usize);
            AttributedChar::new(char::from_u32(g(0) as u32).unwrap_or('?'), at)
        }
        _ => AttributedChar::invisible(),
    }
}

fn cell_json(ch: AttributedChar) -> Value {
    if ch.is_visible() {
        json!([ch.ch as u32, col_out(ch.attribute.get_foreground()), col_out(ch.attribute.get_background()), ch.attribute.attr, ch.attribute.get_font_page()])
    } else {
        json!([])
    }
}

fn role_of(s: &str) -> Role {
    match s { "preview" => Role::PastePreview, "pimage" => Role::PasteImage, "image" => Role::Image, _ => Role::Normal }
}

fn role_str(r: Role) -> &'static str {
    match r { Role::Normal => "normal", Role::PastePreview => "preview", Role::PasteImage => "pimage", Role::Image => "image" }
}

fn props_of(v: &Value, nm: &Names) -> Properties {
    let gi = |n: &str| v[n].as_i64().unwrap_or(0);
    let col = v["col"].as_array().filter(|a| a.len() == 3).map(|a| Color::new(a[0].as_i64().unwrap_or(0) as u8, a[1].as_i64().unwrap_or(0) as u8, a[2].as_i64().unwrap_or(0) as u8));
    Properties {
        title: title_string(&v["title"], nm),
        color: col,
        is_visible: gi("vis") != 0,
        is_locked: gi("lock") != 0,
        is_position_locked: gi("pl") != 0,
        is_alpha_channel_locked: gi("al") != 0,
        has_alpha_channel: gi("alpha") != 0,
        mode: match gi("mode") { 1 => Mode::Chars, 2 => Mode::Attributes, _ => Mode::Normal },
        offset: Position::new(gi("ox") as i32, gi("oy") as i32),
    }
}

/// How the stored rows are realised (not observable through get_char, must not matter).
#[derive(Clone, Copy)]
enum Store { Trimmed, Full }

fn build_layer(v: &Value, nm: &Names, store: Store) -> Layer {
    let gi = |n: &str| v[n].as_i64().unwrap_or(0) as i32;
    let (w, h) = (gi("w"), gi("h"));
    let mut l = Layer::new("", (0, 0));
    l.set_size((w, h));
    l.properties = props_of(v, nm);
    if let Some(p) = v["pv"].as_array().filter(|a| a.len() == 2) {
        l.set_preview_offset(Some(Position::new(p[0].as_i64().unwrap_or(0) as i32, p[1].as_i64().unwrap_or(0) as i32)));
    }
    l.role = role_of(v["role"].as_str().unwrap_or("normal"));
    l.lines.clear();
    for r in v["g"].as_array().cloned().unwrap_or_default() {
        let mut line = Line { chars: r.as_array().map(|r| r.iter().map(cell_of).collect()).unwrap_or_default() };
        if matches!(store, Store::Full) && (line.chars.len() as i32) < w {
            line.chars.resize(w as usize, AttributedChar::invisible());
        }
        l.lines.push(line);
    }
    if matches!(store, Store::Full) {
        while (l.lines.len() as i32) < h {
            l.lines.push(Line::create(w.max(0)));
        }
    }
    l
}

fn build(d: &Value, nm: &Names, store: Store) -> EditState {
    let gi = |n: &str| d[n].as_i64().unwrap_or(0) as i32;
    let mut buf = Buffer::new((gi("bw").max(1), gi("bh").max(1)));
    buf.layers.clear();
    for l in d["layers"].as_array().cloned().unwrap_or_default().iter() {
        buf.layers.push(build_layer(l, nm, store));
    }
    let mut es = EditState::from_buffer(buf);
    es.set_current_layer(gi("cur").max(0) as usize);
    es
}

fn project(es: &EditState, nm: &Names) -> Value {
    let b = es.get_buffer();
    let mut layers = vec![];
    for l in &b.layers {
        let mut g: Vec<Value> = vec![];
        for line in &l.lines {
            let mut row: Vec<Value> = line.chars.iter().map(|c| cell_json(*c)).collect();
            while row.last().map(|c| c.as_array().map(|a| a.is_empty()).unwrap_or(false)).unwrap_or(false) {
                row.pop();
            }
            g.push(Value::Array(row));
        }
        while g.last().map(|r| r.as_array().map(|a| a.is_empty()).unwrap_or(false)).unwrap_or(false) {
            g.pop();
        }
        let p = &l.properties;
        let pv = match l.get_preview_offset() { Some(o) => json!([o.x, o.y]), None => json!([]) };
        let col = match &p.color { Some(c) => { let (r, gg, bb) = c.get_rgb(); json!([r, gg, bb]) } None => json!([]) };
        layers.push(json!({"w": l.get_width(), "h": l.get_height(), "ox": p.offset.x, "oy": p.offset.y, "pv": pv,
            "vis": i32::from(p.is_visible), "lock": i32::from(p.is_locked), "pl": i32::from(p.is_position_locked),
            "alpha": i32::from(p.has_alpha_channel), "al": i32::from(p.is_alpha_channel_locked),
            "mode": match p.mode { Mode::Normal => 0, Mode::Chars => 1, Mode::Attributes => 2 },
            "role": role_str(l.role), "title": title_json(&p.title, nm), "col": col, "g": g}));
    }
    json!({"bw": b.get_width(), "bh": b.get_height(), "cur": es.get_current_layer().unwrap_or(0), "layers": layers})
}

/// What Buffer::get_char shows over the buffer and a margin of one cell: rows y = -1 ..= bh of cells x = -1 ..= bw.
fn view(es: &EditState) -> Value {
    let b = es.get_buffer();
    let (bw, bh) = (b.get_width().clamp(0, 16), b.get_height().clamp(0, 16));
    Value::Array((-1..=bh).map(|y| Value::Array((-1..=bw).map(|x| cell_json(b.get_char((x, y)))).collect())).collect())
}

// ------------------------------------------------------------------------------------------------ the calls
fn apply(es: &mut EditState, o: &Value, nm: &Names) -> Result<(), String> {
    let a: Vec<i64> = o["a"].as_array().map(|v| v.iter().map(|x| x.as_i64().unwrap_or(0)).collect()).unwrap_or_default();
    let g = |i: usize| a.get(i).copied().unwrap_or(0);
    let ix = |i: usize| if g(i) < 0 { usize::MAX } else { g(i) as usize };          // -1 stands for usize::MAX
    let r = match o["op"].as_str().unwrap_or("") {
        "add_new_layer" => es.add_new_layer(ix(0)),
        "remove_layer" => es.remove_layer(ix(0)),
        "raise_layer" => es.raise_layer(ix(0)),
        "lower_layer" => es.lower_layer(ix(0)),
        "duplicate_layer" => es.duplicate_layer(ix(0)),
        "clear_layer" => es.clear_layer(ix(0)),
        "anchor_layer" => es.anchor_layer(),
        "add_floating_layer" => es.add_floating_layer(),
        "merge_layer_down" => es.merge_layer_down(ix(0)),
        "toggle_layer_visibility" => es.toggle_layer_visibility(ix(0)),
        "move_layer" => es.move_layer(Position::new(g(0) as i32, g(1) as i32)),
        "set_layer_size" => es.set_layer_size(ix(0), (g(1) as i32, g(2) as i32)),
        "rotate_layer" => es.rotate_layer(),
        "make_layer_transparent" => es.make_layer_transparent(),
        "update_layer_properties" => es.update_layer_properties(ix(0), props_of(&o["p"], nm)),
        "set_current_layer" => { es.set_current_layer(ix(0)); Ok(()) }
        "undo" => es.undo(),
        "redo" => es.redo(),
        other => return Err(format!("unknown operation {other}")),
    };
    r.map_err(|e| e.to_string())
}

// ------------------------------------------------------------------------------------------------ tables of the environment
fn env_event() -> Value {
    // half blocks: set pixels in the upper / lower half of every glyph of the default font (font page 0 of a new Buffer)
    let font = BitFont::default();
    let mut bits = Vec::new();
    for c in 0..256u32 {
        match font.get_glyph(char::from_u32(c).unwrap()) {
            Some(g) => {
                let n = g.data.len();
                let up: u32 = g.data[..n / 2].iter().map(|b| b.count_ones()).sum();
                let lo: u32 = g.data[n / 2..n / 2 + n / 2].iter().map(|b| b.count_ones()).sum();
                bits.push(json!([up, lo]));
            }
            None => bits.push(json!([0, 0])),
        }
    }
    // rotation: a 256 x 1 layer holding every code is rotated once; code c at (c, 0) arrives at (0, c)
    let mut buf = Buffer::new((256, 1));
    for c in 0..256u32 {
        buf.layers[0].set_char((c as i32, 0), AttributedChar::new(char::from_u32(c).unwrap(), TextAttribute::new(7, 1)));
    }
    let mut es = EditState::from_buffer(buf);
    es.rotate_layer().expect("probe rotate_layer");
    let mut rot = vec![];
    for c in 0..256u32 {
        let got = es.get_buffer().layers[0].get_char((0, c as i32)).ch as u32;
        if got != c {
            rot.push(json!([c, got]));
        }
    }
    json!({"ev": "env", "w": font.size.width, "h": font.size.height, "bits": bits, "rot": rot})
}

// ------------------------------------------------------------------------------------------------ generators
struct Gen {
    r: StdRng,
}

impl Gen {
    fn cell(&mut self) -> Value {
        // invisible; blanks (space / NUL on background 0); half and full blocks; glyphs of the rotation table; letters;
        // cells with a transparent colour; a code beyond 255; font page 1 (no font: half blocks fall back to the background)
        const ROT: [u32; 16] = [220, 221, 223, 222, 179, 196, 191, 217, 192, 218, 186, 205, 187, 188, 215, 216];
        let k = self.r.gen_range(0..100);
        let (ch, mut fg, mut bg): (u32, i64, i64) = match k {
            0..=27 => return json!([]),
            28..=35 => (32, 7, 0),
            36..=38 => (0, 7, 0),
            39..=42 => (32, self.r.gen_range(0..16), self.r.gen_range(1..8)),
            43..=54 => ([220, 223, 219, 221, 222][self.r.gen_range(0..5)], self.r.gen_range(0..16), self.r.gen_range(0..8)),
            55..=66 => (ROT[self.r.gen_range(0..ROT.len())], self.r.gen_range(0..16), self.r.gen_range(0..8)),
            67..=92 => (self.r.gen_range(65..91), self.r.gen_range(0..16), self.r.gen_range(0..8)),
            93..=95 => (0x1DC, 9, 1),
            _ => (self.r.gen_range(1..256), self.r.gen_range(0..16), self.r.gen_range(0..8)),
        };
        match self.r.gen_range(0..10) { 0 => fg = -1, 1 => bg = -1, 2 if k % 3 == 0 => { fg = -1; bg = -1 } _ => {} }
        let attr = match self.r.gen_range(0..8) { 0 => attribute::BOLD, 1 => attribute::BLINK, 2 => attribute::UNDERLINE | attribute::ITALIC, _ => 0 };
        let page = if self.r.gen_range(0..16) == 0 { 1 } else { 0 };
        json!([ch, fg, bg, attr, page])
    }

    fn rows(&mut self, sw: i32, sh: i32) -> Value {
        let mut g: Vec<Value> = vec![];
        for _ in 0..sh {
            let mut row: Vec<Value> = (0..sw).map(|_| self.cell()).collect();
            while row.last().map(|c| c.as_array().unwrap().is_empty()).unwrap_or(false) { row.pop(); }
            g.push(Value::Array(row));
        }
        while g.last().map(|r| r.as_array().unwrap().is_empty()).unwrap_or(false) { g.pop(); }
        Value::Array(g)
    }

    fn title(&mut self, k: usize) -> Value {
        match self.r.gen_range(0..8) { 0 => json!({"b": "new", "n": 0}), 1 => json!({"b": "pasted", "n": 0}), 2 => json!({"b": format!("L{k}"), "n": 1}), _ => json!({"b": format!("L{k}"), "n": 0}) }
    }

    fn props(&mut self, k: usize) -> Value {
        let flag = |r: &mut StdRng, one_in: u32| i32::from(r.gen_range(0..one_in) == 0);
        let col = if self.r.gen_range(0..5) == 0 { json!([self.r.gen_range(0..256), self.r.gen_range(0..256), self.r.gen_range(0..256)]) } else { json!([]) };
        json!({"title": self.title(k), "col": col, "vis": 1 - flag(&mut self.r, 5), "lock": flag(&mut self.r, 6), "pl": flag(&mut self.r, 6),
            "al": flag(&mut self.r, 6), "alpha": 1 - flag(&mut self.r, 4), "mode": if self.r.gen_range(0..10) == 0 { self.r.gen_range(1..3) } else { 0 },
            "ox": self.r.gen_range(-3..8), "oy": self.r.gen_range(-2..6)})
    }

    fn layer(&mut self, k: usize, bw: i32, bh: i32) -> Value {
        let whole = k == 0 && self.r.gen_range(0..3) > 0;
        let (w, h) = if whole { (bw, bh) } else { (self.r.gen_range(1..=6), self.r.gen_range(1..=4)) };
        let mut p = self.props(k);
        if whole || self.r.gen_range(0..3) == 0 { p["ox"] = json!(0); p["oy"] = json!(0); }
        // mostly what is stored lies inside the size; sometimes more is stored (a layer that was larger once), sometimes less
        let (sw, sh) = match self.r.gen_range(0..10) { 0 => (w + 1, h + 1), 1 => (w, (h - 1).max(0)), _ => (w, h) };
        let role = match self.r.gen_range(0..12) { 0 | 1 => "preview", 2 => "pimage", 3 => "image", _ => "normal" };
        let pv = if self.r.gen_range(0..8) == 0 { json!([self.r.gen_range(-2..6), self.r.gen_range(-2..4)]) } else { json!([]) };
        let mut l = json!({"w": w, "h": h, "pv": pv, "role": role, "g": self.rows(sw, sh)});
        for (k2, v) in p.as_object().unwrap() { l[k2] = v.clone(); }
        l
    }

    fn document(&mut self) -> Value {
        let (bw, bh) = (self.r.gen_range(1..=6), self.r.gen_range(1..=4));
        let n = [1, 2, 2, 3, 3, 4][self.r.gen_range(0..6)];
        let layers: Vec<Value> = (0..n).map(|k| self.layer(k, bw, bh)).collect();
        json!({"bw": bw, "bh": bh, "cur": self.r.gen_range(0..n), "layers": layers})
    }

    /// The arguments of one call, drawn for the document as it is now.
    fn op(&mut self, name: &str, d: &Value) -> Value {
        let layers = d["layers"].as_array().cloned().unwrap_or_default();
        let n = layers.len() as i64;
        // an index: mostly a layer, sometimes the boundary, rarely far out or usize::MAX
        let index = |r: &mut StdRng| -> i64 {
            match r.gen_range(0..40) { 0 => n, 1 => n + 1, 2 => -1, _ if n > 0 => r.gen_range(0..n), _ => 0 }
        };
        let mut p = json!([]);
        let a: Vec<i64> = match name {
            "add_new_layer" | "remove_layer" | "raise_layer" | "lower_layer" | "duplicate_layer" | "clear_layer" | "merge_layer_down" | "toggle_layer_visibility" | "set_current_layer" => vec![index(&mut self.r)],
            "move_layer" => vec![self.r.gen_range(-3..8), self.r.gen_range(-2..6)],
            "set_layer_size" => {
                let k = index(&mut self.r);
                let cur = layers.get(k.max(0) as usize);
                match self.r.gen_range(0..20) {
                    0 => vec![k, -1, self.r.gen_range(0..4)],
                    1 => vec![k, self.r.gen_range(0..4), -2],
                    2 | 3 if cur.is_some() => vec![k, cur.unwrap()["w"].as_i64().unwrap_or(1), cur.unwrap()["h"].as_i64().unwrap_or(1)],
                    4 => vec![k, 0, self.r.gen_range(0..3)],
                    _ => vec![k, self.r.gen_range(1..8), self.r.gen_range(1..6)],
                }
            }
            "update_layer_properties" => {
                let k = match self.r.gen_range(0..60) { 0 => n, 1 => -1, _ if n > 0 => self.r.gen_range(0..n), _ => 0 };
                p = self.props(k.max(0) as usize);
                if let Some(l) = layers.get(k.max(0) as usize) {
                    // often only a few fields differ from what the layer has
                    for f in ["title", "col", "vis", "lock", "pl", "al", "alpha", "mode", "ox", "oy"] {
                        if self.r.gen_range(0..3) > 0 { p[f] = l[f].clone(); }
                    }
                }
                vec![k]
            }
            _ => vec![],
        };
        json!({"op": name, "a": a, "p": p})
    }
}

#[derive(Clone)]
struct Case {
    id: String,
    src: &'static str,
    d: Value,
    ops: Vec<Value>,       // an operation without "a" gets its arguments when it is due
    store: Store,
}

fn name_only(n: &str) -> Value { json!({"op": n}) }

fn walk(r: &mut StdRng, n: usize) -> Vec<Value> {
    (0..n).map(|_| name_only(if r.gen_bool(0.6) { "undo" } else { "redo" })).collect()
}

const CALLS: usize = 16;       // OPS without undo / redo

fn tlc_cases(path: &str, seed: u64, thorough: bool, out: &mut Vec<Case>) {
    let Ok(text) = std::fs::read_to_string(path) else { return };
    let mut r = rng(seed, 0x1A7E_0001);
    for (i, line) in text.lines().enumerate() {
        let Ok(v) = serde_json::from_str::<Value>(line) else { continue };
        if v.get("d").is_none() { continue; }
        // quick tier: a seeded quarter of the exported sequences
        if !thorough && !r.gen_bool(0.25) { continue; }
        let mut ops: Vec<Value> = v["ops"].as_array().cloned().unwrap_or_default();
        ops.push(name_only(OPS[i % CALLS]));                   // one more operation, every kind in turn
        let n = r.gen_range(2..5);
        ops.extend(walk(&mut r, n));
        ops.push(name_only(OPS[r.gen_range(0..CALLS)]));
        ops.extend(walk(&mut r, 2));
        out.push(Case { id: format!("tlc{i}"), src: "tlc", d: v["d"].clone(), ops, store: if i % 2 == 0 { Store::Trimmed } else { Store::Full } });
    }
}

fn random_cases(seed: u64, n: usize, out: &mut Vec<Case>) {
    for k in 0..n {
        let mut g = Gen { r: rng(seed, 0x1A7E_8000_0000 + k as u64) };
        let d = g.document();
        let nops = g.r.gen_range(1..=8);
        let mut ops = vec![];
        for _ in 0..nops {
            // undo / redo a little more often than one call in 18: the walks are what checks the recorded steps
            let name = match g.r.gen_range(0..24) { 0..=3 => "undo", 4..=5 => "redo", _ => OPS[g.r.gen_range(0..CALLS)] };
            ops.push(name_only(name));
        }
        out.push(Case { id: format!("rnd{k}"), src: "rnd", d, ops, store: if g.r.gen_bool(0.5) { Store::Trimmed } else { Store::Full } });
    }
}

#[derive(Default)]
struct Stats {
    cases: usize,
    calls: usize,
    by_result: BTreeMap<String, usize>,
    ok_by_op: BTreeMap<String, usize>,
    sites: BTreeMap<String, usize>,
}

fn run_case(c: &Case, nm: &Names, seed: u64, k: usize, out: &mut Out, st: &mut Stats) {
    let mut es = build(&c.d, nm, c.store);
    out.ev(&json!({"ev": "reset", "case": c.id, "src": c.src, "d": project(&es, nm), "ul": es.undo_stack_len(), "v": view(&es)}));
    st.cases += 1;
    let mut g = Gen { r: rng(seed, 0x1A7E_4000_0000 + k as u64) };
    for o in &c.ops {
        let mut o = o.clone();
        let name = o["op"].as_str().unwrap_or("").to_string();
        if o.get("a").is_none() {
            o = g.op(&name, &project(&es, nm));
        }
        let res = guard(|| apply(&mut es, &o, nm));
        let (r, site, msg) = match &res {
            Ok(Ok(())) => ("ok", None, None),
            Ok(Err(e)) => ("err", None, Some(e.chars().take(80).collect::<String>())),
            Err(p) => ("panic", Some(panic_site(p)), Some(p.msg.chars().take(80).collect::<String>())),
        };
        let mut ev = json!({"ev": "op", "o": o, "r": r});
        // after a panic the state of the editor is whatever the unwinding left: recorded, but not compared
        match guard(|| (project(&es, nm), es.undo_stack_len(), view(&es))) {
            Ok((d, ul, v)) => { ev["d"] = d; ev["ul"] = json!(ul); ev["v"] = v; }
            Err(_) => { ev["d"] = json!({"bw": 0, "bh": 0, "cur": 0, "layers": []}); ev["ul"] = json!(0); ev["v"] = json!([]); }
        }
        if let Some(s) = site {
            *st.sites.entry(s.clone()).or_default() += 1;
            ev["site"] = json!(s);
        }
        if let Some(m) = msg {
            ev["msg"] = json!(m);
        }
        out.ev(&ev);
        st.calls += 1;
        *st.by_result.entry(r.to_string()).or_default() += 1;
        if r == "ok" {
            *st.ok_by_op.entry(name).or_default() += 1;
        }
        if r == "panic" {
            break;
        }
    }
}

pub fn layerops(a: &Args) {
    crate::util::install_panic_hook();
    let out = a.str("out", "work/C08-layerops/layerops.ndjson");
    let seed = a.u64("seed", 0);
    let thorough = a.str("tier", "quick") == "thorough";
    let shards = a.usize("shards", 4).max(1);
    let mut cases = vec![];
    tlc_cases(&a.str("gen", "gen/layerops_cases.ndjson"), seed, thorough, &mut cases);
    let n_tlc = cases.len();
    random_cases(seed, a.usize("random", if thorough { 30000 } else { 3000 }), &mut cases);
    if a.has("replay") {
        let id = a.str("replay", "");
        cases.retain(|c| c.id == id);
    }
    if a.has("case") {
        let v: Value = serde_json::from_str(&std::fs::read_to_string(a.str("case", "")).expect("case file")).expect("case json");
        cases = vec![Case { id: "case".into(), src: "file", d: v["d"].clone(), ops: v["ops"].as_array().cloned().unwrap_or_default(), store: Store::Trimmed }];
    }
    let cases = std::sync::Arc::new(cases);
    let env = std::sync::Arc::new(env_event());
    let mut handles = vec![];
    for s in 0..shards {
        let cases = cases.clone();
        let env = env.clone();
        let path = out.replace(".ndjson", &format!("-s{s}.ndjson"));
        handles.push(std::thread::Builder::new().name("main".into()).stack_size(64 << 20).spawn(move || {
            let nm = probe_names();
            let mut o = Out::create(&path);
            let mut st = Stats::default();
            o.ev(&env);
            for (i, c) in cases.iter().enumerate() {
                if i % shards != s { continue; }
                run_case(c, &nm, seed, i, &mut o, &mut st);
            }
            o.flush();
            (st, o.n)
        }).unwrap());
    }
    let mut total = Stats::default();
    let mut events = 0;
    for h in handles {
        let (st, n) = h.join().expect("driver thread");
        total.cases += st.cases;
        total.calls += st.calls;
        for (k, v) in st.by_result { *total.by_result.entry(k).or_default() += v; }
        for (k, v) in st.ok_by_op { *total.ok_by_op.entry(k).or_default() += v; }
        for (k, v) in st.sites { *total.sites.entry(k).or_default() += v; }
        events += n;
    }
    let never: Vec<&str> = OPS.iter().copied().filter(|n| !total.ok_by_op.contains_key(*n)).collect();
    let summary = json!({"cases": total.cases, "tlc_cases": n_tlc, "events": events, "calls": total.calls, "results": total.by_result,
        "ok_by_operation": total.ok_by_op, "operations_never_ok": never, "panic_sites": total.sites});
    std::fs::write(out.replace(".ndjson", "-summary.json"), serde_json::to_string_pretty(&summary).unwrap()).expect("summary");
    eprintln!("layerops: {} cases ({} from TLC), {} calls, results {:?}, {} events", total.cases, n_tlc, total.calls, total.by_result, events);
}
