//! C10 driver: every character cell and every string the engine builds from untrusted input is valid Unicode.
//! Entry points other than the terminal (DECFRA is exercised through the term driver): clipboard cell records,
//! glyph tables, IcyDraw cell records (first and continuation chunk) and IcyDraw strings.
use crate::util::{guard, panic_site, rng, Args, Out};
use base64::{engine::general_purpose, Engine};
use icy_engine::{AttributedChar, BitFont, Buffer, Layer, SaveOptions, TextAttribute, TextPane};
use rand::Rng;
use serde_json::{json, Value};
use std::path::Path;

fn layer_codes(l: &Layer) -> Vec<u32> {
    let mut v = vec![];
    for line in &l.lines {
        for c in &line.chars {
            v.push(c.ch as u32);
        }
    }
    v
}

/// The last `n` bytes of a (possibly long) string for the trace, cut so that the excerpt does not START inside a multi-byte
/// sequence (leading continuation bytes are skipped); whether the whole string is valid is recorded separately (`valid`).
fn tail_at_boundary(body: &[u8], n: usize) -> Vec<u8> {
    if body.len() <= n {
        return body.to_vec();
    }
    let mut start = body.len() - n;
    while start < body.len() && body[start] & 0xC0 == 0x80 {
        start += 1;
    }
    body[start..].to_vec()
}

fn str_event(src: &str, what: &str, s: &str) -> Value {
    json!({"ev":"str","src":src,"what":what,"bytes":s.as_bytes()})
}

fn clipboard_record(w: usize, h: usize, first: u32) -> Vec<u8> {
    let mut d = vec![0u8];
    d.extend(0i32.to_le_bytes());
    d.extend(0i32.to_le_bytes());
    d.extend((w as u32).to_le_bytes());
    d.extend((h as u32).to_le_bytes());
    for k in 0..(w * h) as u32 {
        d.extend(((first + k) as u16).to_le_bytes()); // ch
        d.extend(0u16.to_le_bytes()); // attr
        d.extend(0u16.to_le_bytes()); // font page
        d.extend(0u32.to_le_bytes()); // bg
        d.extend(7u32.to_le_bytes()); // fg
    }
    d
}

/// zTXt chunks of an IcyDraw PNG: (keyword, payload bytes)
pub fn read_chunks(png_bytes: &[u8]) -> Vec<(String, Vec<u8>)> {
    let mut res = vec![];
    let dec = png::Decoder::new(png_bytes);
    if let Ok(reader) = dec.read_info() {
        for c in &reader.info().compressed_latin1_text {
            if let Ok(t) = c.get_text() {
                res.push((c.keyword.clone(), general_purpose::STANDARD.decode(t).unwrap_or_default()));
            }
        }
    }
    res
}

pub fn write_chunks(chunks: &[(String, Vec<u8>)]) -> Vec<u8> {
    let mut result = Vec::new();
    {
        let mut enc = png::Encoder::new(&mut result, 1, 1);
        enc.set_color(png::ColorType::Rgba);
        enc.set_depth(png::BitDepth::Eight);
        for (k, p) in chunks {
            let _ = enc.add_ztxt_chunk(k.clone(), general_purpose::STANDARD.encode(p));
        }
        let mut w = enc.write_header().unwrap();
        w.write_image_data(&[0, 0, 0, 0]).unwrap();
        w.finish().unwrap();
    }
    result
}

fn replace_all(hay: &mut [u8], pat: &[u8], rep: &[u8]) -> usize {
    assert_eq!(pat.len(), rep.len());
    let mut n = 0;
    let mut i = 0;
    while i + pat.len() <= hay.len() {
        if &hay[i..i + pat.len()] == pat {
            hay[i..i + pat.len()].copy_from_slice(rep);
            n += 1;
            i += pat.len();
        } else {
            i += 1;
        }
    }
    n
}

fn icy_doc(w: i32, h: i32, marker: char, title: &str) -> Buffer {
    let mut buf = Buffer::new((w, h));
    buf.layers[0].set_title(title);
    let mut at = TextAttribute::default();
    at.set_foreground(7);
    for y in 0..h {
        for x in 0..w {
            // long-form cells (character > 255) so that the 32-bit character field is present
            let ch = if (x + y) % 7 == 0 { marker } else { '\u{2591}' };
            buf.layers[0].set_char((x, y), AttributedChar::new(ch, at));
        }
    }
    buf
}

/// Crash containment for entry points that may abort the process (an invalid `char` is UB; the dev profile aborts on it):
/// every unit of work is numbered; before it runs the trace is flushed and the unit is named in the progress file, so the
/// Python side can record the abort as an event and restart behind it (`--start K --append`).
pub struct Units {
    k: u64,
    start: u64,
    progress: String,
}

impl Units {
    fn begin(&mut self, out: &mut Out, src: &str, what: &str) -> bool {
        self.k += 1;
        if self.k <= self.start {
            return false;
        }
        out.flush();
        let _ = std::fs::write(&self.progress, json!({"k": self.k, "src": src, "what": what}).to_string());
        true
    }
}

fn load_event(u: &mut Units, out: &mut Out, src: &str, what: &str, bytes: &[u8]) {
    if !u.begin(out, src, what) {
        return;
    }
    let r = guard(|| Buffer::from_bytes(Path::new("x.icy"), true, bytes));
    match r {
        Ok(Ok(b)) => {
            let mut codes = vec![];
            for l in &b.layers {
                // distinct codes only, to keep events small
                let mut c = layer_codes(l);
                c.sort_unstable();
                c.dedup();
                codes.extend(c);
                out.ev(&str_event(src, &format!("{what}:title"), l.get_title()));
            }
            for (_, f) in b.font_iter() {
                out.ev(&str_event(src, &format!("{what}:font-name"), &f.name));
            }
            out.ev(&json!({"ev":"cells","src":src,"what":what,"r":"ok","codes":codes}));
        }
        Ok(Err(_)) => out.ev(&json!({"ev":"cells","src":src,"what":what,"r":"err","codes":[]})),
        Err(p) => out.ev(&json!({"ev":"cells","src":src,"what":what,"r":"panic","site":panic_site(&p),"codes":[]})),
    }
}

/// Splits the `LAYER_0` chunk into a header-only first chunk (row-data length 0) and a `LAYER_0~1` chunk holding every row record.
/// The length field is found as the u64 that equals the number of bytes following it.
fn split_layer0(chunks: &[(String, Vec<u8>)]) -> Option<Vec<(String, Vec<u8>)>> {
    let idx = chunks.iter().position(|(k, _)| k == "LAYER_0")?;
    let p = &chunks[idx].1;
    let off = (0..p.len().saturating_sub(8)).find(|&o| u64::from_le_bytes(p[o..o + 8].try_into().unwrap()) == (p.len() - o - 8) as u64 && p.len() - o - 8 > 0)?;
    let mut first = p[..off].to_vec();
    first.extend(0u64.to_le_bytes());
    let rest = p[off + 8..].to_vec();
    let mut res = chunks.to_vec();
    res[idx].1 = first;
    res.insert(idx + 1, ("LAYER_0~1".to_string(), rest));
    Some(res)
}

pub fn c10(a: &Args) {
    let out_path = a.str("out", "work/C10/trace.ndjson");
    let mut out = if a.has("append") { Out::append(&out_path) } else { Out::create(&out_path) };
    let mut u = Units { k: 0, start: a.u64("start", 0), progress: a.str("progress", &format!("{out_path}.progress")) };
    let seed = a.u64("seed", 0);
    let thorough = a.str("tier", "quick") == "thorough";
    // (1) clipboard: every 16-bit value as a cell record
    let step = 4096usize;
    for first in (0..65536usize).step_by(step) {
        let d = clipboard_record(64, step / 64, first as u32);
        if !u.begin(&mut out, "clipboard", &format!("from={first}")) { continue; }
        let r = guard(|| Layer::from_clipboard_data(&d));
        match r {
            Ok(Some(l)) => out.ev(&json!({"ev":"cells","src":"clipboard","what":format!("from={first}"),"r":"ok","codes":layer_codes(&l)})),
            Ok(None) => out.ev(&json!({"ev":"cells","src":"clipboard","what":format!("from={first}"),"r":"err","codes":[]})),
            Err(p) => out.ev(&json!({"ev":"cells","src":"clipboard","what":format!("from={first}"),"r":"panic","site":panic_site(&p),"codes":[]})),
        }
    }
    // (2) glyph tables longer than 0xD800 glyphs (PSF2 with one byte per glyph; raw data is always 256 glyphs)
    for &n in &[256u32, 0xD7FF, 0xD800, 0xD801, 0xE000, 0x11000, 0x20000] {
        let mut d = vec![];
        d.extend(0x864a_b572u32.to_le_bytes());
        d.extend(0u32.to_le_bytes());
        d.extend(32u32.to_le_bytes());
        d.extend(0u32.to_le_bytes());
        d.extend(n.to_le_bytes());
        d.extend(1u32.to_le_bytes()); // charsize
        d.extend(1u32.to_le_bytes()); // height
        d.extend(8u32.to_le_bytes()); // width
        d.extend(std::iter::repeat(0xAAu8).take(n as usize));
        if !u.begin(&mut out, "font-psf2", &format!("glyphs={n}")) { continue; }
        let r = guard(|| BitFont::from_bytes("big", &d));
        match r {
            Ok(Ok(f)) => {
                let mut codes: Vec<u32> = f.glyphs.keys().map(|c| *c as u32).collect();
                codes.sort_unstable();
                // boundary neighbourhood + count is enough to judge: keep codes >= 0xD000 and a sample
                let keep: Vec<u32> = codes.iter().copied().filter(|c| *c >= 0xD700 || *c % 4096 == 0).collect();
                out.ev(&json!({"ev":"cells","src":"font-psf2","what":format!("glyphs={n}"),"r":"ok","n":codes.len(),"codes":keep}));
            }
            Ok(Err(_)) => out.ev(&json!({"ev":"cells","src":"font-psf2","what":format!("glyphs={n}"),"r":"err","codes":[]})),
            Err(p) => out.ev(&json!({"ev":"cells","src":"font-psf2","what":format!("glyphs={n}"),"r":"panic","site":panic_site(&p),"codes":[]})),
        }
    }
    // (2a) fonts that carry their own code-point table (PSF1 mode bits 0x02 / 0x04, PSF2 flag 1): table entries at every boundary of
    //      the scalar range - a loader that maps glyphs by these values must validate them like any other character
    for mode in [2u8, 3, 4, 6] {
        for &bv in &[0x0041u32, 0xD7FF, 0xD800, 0xDBFF, 0xDC00, 0xDFFF, 0xE000, 0xFFFD, 0xFFFE] {
            for at in [0usize, 5, 255] {
                let n = if mode & 1 == 1 { 512usize } else { 256 };
                let mut d = vec![0x36u8, 0x04, mode, 8];
                d.extend(std::iter::repeat(0x3Cu8).take(n * 8));
                for i in 0..n {
                    d.extend(((0x100 + i) as u16).to_le_bytes());
                    if i == at { d.extend((bv as u16).to_le_bytes()); }
                    if mode & 4 != 0 && i == at { d.extend(0xFFFEu16.to_le_bytes()); d.extend((bv as u16).to_le_bytes()); d.extend(0x0301u16.to_le_bytes()); }
                    d.extend(0xFFFFu16.to_le_bytes());
                }
                let what = format!("psf1-table:mode={mode}:value={bv:#x}:at={at}");
                if !u.begin(&mut out, "font-table", &what) { continue; }
                let r = guard(|| BitFont::from_bytes("tab.psf", &d));
                match r {
                    Ok(Ok(f)) => {
                        let mut codes: Vec<u32> = f.glyphs.keys().map(|c| *c as u32).collect();
                        codes.sort_unstable();
                        let keep: Vec<u32> = codes.iter().copied().filter(|c| *c >= 0xD000 || *c % 64 == 0).collect();
                        out.ev(&json!({"ev":"cells","src":"font-table","what":what,"r":"ok","n":codes.len(),"codes":keep}));
                    }
                    Ok(Err(_)) => out.ev(&json!({"ev":"cells","src":"font-table","what":what,"r":"err","codes":[]})),
                    Err(p) => out.ev(&json!({"ev":"cells","src":"font-table","what":what,"r":"panic","site":panic_site(&p),"codes":[]})),
                }
            }
        }
    }
    // (2b) glyph tables where the number of glyph slices differs from the DECLARED count: PSF2 with glyph size > height (the
    //      data is cut by height), PSF1 (256 / 512 declared) followed by more data than its glyphs need
    {
        let mut fonts: Vec<(String, Vec<u8>)> = vec![];
        for (len, cs, h) in [(0x6C01u32, 2u32, 1u32), (0x3601, 4, 1), (0xD800, 2, 1), (0x100, 255, 1), (0x6C00, 2, 1)] {
            let mut d = vec![];
            for v in [0x864a_b572u32, 0, 32, 0, len, cs, h, 8] { d.extend(v.to_le_bytes()); }
            d.extend(std::iter::repeat(0x5Au8).take((len * cs) as usize));
            fonts.push((format!("psf2:len={len:#x}:cs={cs}:h={h}"), d));
        }
        for (mode, cs, extra) in [(0u8, 1u8, 0xD800usize + 2), (2, 1, 0xD800 + 2), (0, 1, 0xD7FF), (0, 2, 2 * 0xD800 + 4)] {
            let mut d = vec![0x36, 0x04, mode, cs];
            d.extend(std::iter::repeat(0xA5u8).take(extra));
            fonts.push((format!("psf1:mode={mode}:cs={cs}:bytes={extra}"), d));
        }
        for (what, d) in fonts {
            if !u.begin(&mut out, "font-slices", &what) { continue; }
            match guard(|| BitFont::from_bytes("slices", &d)) {
                Ok(Ok(f)) => {
                    let mut codes: Vec<u32> = f.glyphs.keys().map(|c| *c as u32).collect();
                    codes.sort_unstable();
                    let keep: Vec<u32> = codes.iter().copied().filter(|c| *c >= 0xD700 || *c % 4096 == 0).collect();
                    out.ev(&json!({"ev":"cells","src":"font-slices","what":what,"r":"ok","n":codes.len(),"codes":keep}));
                }
                Ok(Err(_)) => out.ev(&json!({"ev":"cells","src":"font-slices","what":what,"r":"err","codes":[]})),
                Err(p) => out.ev(&json!({"ev":"cells","src":"font-slices","what":what,"r":"panic","site":panic_site(&p),"codes":[]})),
            }
        }
    }
    // (3) IcyDraw: crafted character fields in the first chunk and in a continuation chunk; crafted title bytes
    let opts = { let mut o = SaveOptions::new(); o.lossles_output = true; o };
    let marker = '\u{10FFFD}';
    let pat = 0x10FFFDu32.to_le_bytes();
    let mut targets: Vec<u32> = vec![0xD7FF, 0xD800, 0xDBFF, 0xDC00, 0xDFFF, 0xE000, 0x10FFFF, 0x110000, 0x7FFF_FFFF, 0xFFFF_FFFF];
    let mut r = rng(seed, 77);
    for _ in 0..(if thorough { 40 } else { 6 }) { targets.push(r.gen()); targets.push(0xD800 + r.gen_range(0..0x800)); }
    let small = icy_doc(12, 5, marker, "TITLE_MARKER_XY");
    let big = if thorough || a.has("big") { Some(icy_doc(640, 320, marker, "T")) } else { None };
    for (name, doc) in [("first-chunk", Some(small)), ("continuation-crafted", Some(icy_doc(12, 5, marker, "TITLE_MARKER_XY"))), ("continuation", big)] {
        let Some(doc) = doc else { continue };
        let bytes = match guard(|| doc.to_bytes("icy", &opts)) { Ok(Ok(b)) => b, _ => { out.ev(&json!({"ev":"note","what":"icy save failed"})); continue } };
        let mut chunks = read_chunks(&bytes);
        if name == "continuation-crafted" {
            // the reader accepts `LAYER_n~k` chunks of any size (the writer only makes them above 3 MB): move ALL row records of
            // layer 0 into a continuation chunk, leaving a first chunk that declares zero bytes of row data
            match split_layer0(&chunks) {
                Some(c2) => chunks = c2,
                None => { out.ev(&json!({"ev":"note","what":"continuation-crafted: layer record not found"})); continue }
            }
        }
        let n_layer_chunks = chunks.iter().filter(|(k, _)| k.starts_with("LAYER_")).count();
        out.ev(&json!({"ev":"note","what":format!("{name}: {} layer chunks", n_layer_chunks)}));
        for &t in &targets {
            let mut cs = chunks.clone();
            let mut hits = 0;
            for (k, p) in cs.iter_mut() {
                // first-chunk case: patch LAYER_0; continuation case: patch only LAYER_0~k chunks
                let is_cont = k.contains('~');
                if k.starts_with("LAYER_") && (name == "first-chunk" || is_cont) {
                    hits += replace_all(p, &pat, &t.to_le_bytes());
                }
            }
            let file = write_chunks(&cs);
            load_event(&mut u, &mut out, "icy", &format!("{name}:ch={t:#x}:hits={hits}"), &file);
        }
        if name == "first-chunk" {
            let bad: [(&str, &[u8]); 6] = [("overlong", b"\xC0\x80"), ("truncated", b"\xE2\x82"), ("surrogate", b"\xED\xA0\x80"), ("ff", b"\xFF"), ("cont-only", b"\x80\xBF"), ("above", b"\xF4\x90\x80\x80")];
            for (bn, seq) in bad {
                // the ill-formed bytes at the start, inside and at the very END of the string (a validity scan over the wrong range
                // misses one of them)
                for pos in [0usize, 3, 15 - seq.len(), 14 - seq.len().min(14)] {
                    let mut cs = chunks.clone();
                    let mut rep = b"TITLE_MARKER_XY".to_vec();
                    rep[pos..pos + seq.len()].copy_from_slice(seq);
                    let mut hits = 0;
                    for (k, p) in cs.iter_mut() {
                        if k.starts_with("LAYER_") { hits += replace_all(p, b"TITLE_MARKER_XY", &rep); }
                    }
                    let file = write_chunks(&cs);
                    load_event(&mut u, &mut out, "icy", &format!("title:{bn}:pos={pos}:hits={hits}"), &file);
                }
            }
            // font name: embed a font, patch its name
            let mut doc2 = icy_doc(4, 2, marker, "t");
            let mut f = BitFont::default();
            f.name = "FONTNAME_MARKER".to_string();
            doc2.set_font(1, f);
            if let Ok(Ok(b2)) = guard(|| doc2.to_bytes("icy", &opts)) {
                let chunks2 = read_chunks(&b2);
                for (bn, seq) in bad {
                    for pos in [0usize, 3, 15 - seq.len()] {
                        let mut cs = chunks2.clone();
                        let mut rep = b"FONTNAME_MARKER".to_vec();
                        rep[pos..pos + seq.len()].copy_from_slice(seq);
                        let mut hits = 0;
                        for (k, p) in cs.iter_mut() {
                            if k.starts_with("FONT_") { hits += replace_all(p, b"FONTNAME_MARKER", &rep); }
                        }
                        load_event(&mut u, &mut out, "icy", &format!("fontname:{bn}:pos={pos}:hits={hits}"), &write_chunks(&cs));
                    }
                }
            }
        }
    }
    // (4b) VALID text of every content class through the places that store text: layer titles (Layer::new, set_title, and an
    //      IcyDraw save / load), font names, SAUCE strings.  Classes: a control character (none, C0, DEL, C1) x a multi-byte
    //      character by the range of its continuation bytes (0x80..0x9F, 0xA0..0xBF; 2-, 3-, 4-byte) x their order - code that
    //      rewrites text byte-wise (escaping, sanitising, truncating) is only right for some of these
    {
        let controls: [&str; 5] = ["", "\n", "\u{1}", "\u{7f}", "\u{85}"];
        let multis: [&str; 8] = ["", "\u{e9}", "\u{df}", "\u{c0}", "\u{20ac}", "\u{4e2d}", "\u{1f600}", "\u{10ffff}"];
        for (ci, c) in controls.iter().enumerate() {
            for (mi, m) in multis.iter().enumerate() {
                for order in 0..2 {
                    let t = if order == 0 { format!("Stra{m}e{c}x") } else { format!("{c}a{m}") };
                    let what = format!("c{ci}:m{mi}:o{order}");
                    if !u.begin(&mut out, "text-class", &what) { continue; }
                    let r = guard(|| {
                        let l = Layer::new(t.clone(), (2, 1));
                        let mut l2 = Layer::new("x", (2, 1));
                        l2.set_title(t.clone());
                        let mut doc = icy_doc(2, 1, 'A', &t);
                        let mut f = BitFont::default();
                        f.name = t.clone();
                        doc.set_font(1, f);
                        let mut o = SaveOptions::default();
                        o.lossles_output = true;
                        let back = doc.to_bytes("icy", &o).ok().and_then(|b| Buffer::from_bytes(Path::new("x.icy"), true, &b).ok());
                        let (bt, bf) = match &back {
                            Some(b) => (b.layers.first().map(|l| l.get_title().as_bytes().to_vec()), b.get_font(1).map(|f| f.name.as_bytes().to_vec())),
                            None => (None, None),
                        };
                        (l.get_title().as_bytes().to_vec(), l2.get_title().as_bytes().to_vec(), bt, bf)
                    });
                    match r {
                        Ok((a, b, bt, bf)) => {
                            out.ev(&json!({"ev":"str","src":"text-class","what":format!("{what}:Layer::new"),"bytes":a}));
                            out.ev(&json!({"ev":"str","src":"text-class","what":format!("{what}:set_title"),"bytes":b}));
                            if let Some(x) = bt { out.ev(&json!({"ev":"str","src":"text-class","what":format!("{what}:icy-title"),"bytes":x})); }
                            if let Some(x) = bf { out.ev(&json!({"ev":"str","src":"text-class","what":format!("{what}:icy-font-name"),"bytes":x})); }
                        }
                        Err(p) => out.ev(&json!({"ev":"cells","src":"text-class","what":what,"r":"panic","site":panic_site(&p),"codes":[]})),
                    }
                }
            }
        }
    }
    // (5) characters beyond one byte reaching the parsers: UTF-8 text files (BOM) under every text extension, and `print_char`
    //     called with the character itself for every emulation - a parser that narrows the character (u8 / u16) must not
    //     build a cell from the narrowed value without checking it
    {
        use icy_engine::{BufferParser, Caret};
        let cps: [u32; 16] = [0x7F, 0x80, 0xFF, 0x100, 0x2500, 0xD7FF, 0xE000, 0xFFFD, 0xFFFF, 0x10000, 0x1D800, 0x1DBFF, 0x1DC00, 0x2D8A5, 0x1DFFF, 0x10FFFF];
        for ext in ["asc", "ans", "pcb", "avt", "msg", "an1", "ata", "seq", "txt", "nfo", "diz"] {
            for &cp in &cps {
                let Some(chr) = char::from_u32(cp) else { continue };
                let what = format!("utf8-file:{ext}:U+{cp:X}");
                if !u.begin(&mut out, "utf8", &what) { continue; }
                let mut bytes = vec![0xEF, 0xBB, 0xBF];
                bytes.extend(format!("A{chr}B\r\n{chr}").as_bytes());
                let r = guard(|| Buffer::from_bytes(Path::new(&format!("x.{ext}")), true, &bytes));
                match r {
                    Ok(Ok(b)) => { let mut codes = vec![]; for l in &b.layers { codes.extend(layer_codes(l)); } codes.sort_unstable(); codes.dedup(); out.ev(&json!({"ev":"cells","src":"utf8","what":what,"r":"ok","codes":codes})); }
                    Ok(Err(_)) => out.ev(&json!({"ev":"cells","src":"utf8","what":what,"r":"err","codes":[]})),
                    Err(p) => out.ev(&json!({"ev":"cells","src":"utf8","what":what,"r":"panic","site":panic_site(&p),"codes":[]})),
                }
            }
        }
        for emu in crate::term::EMUS {
            for &cp in &cps {
                let Some(chr) = char::from_u32(cp) else { continue };
                let what = format!("print_char:{emu}:U+{cp:X}");
                if !u.begin(&mut out, "char", &what) { continue; }
                let r = guard(|| {
                    let mut buf = Buffer::create((40, 24));
                    buf.is_terminal_buffer = true;
                    let mut caret = Caret::default();
                    let mut parser = crate::term::make_parser(emu, 0, false);
                    for c in ['A', chr, 'B', '\u{1b}', chr, chr] { let _ = parser.print_char(&mut buf, 0, &mut caret, c); }
                    let mut codes = layer_codes(&buf.layers[0]);
                    codes.sort_unstable();
                    codes.dedup();
                    codes
                });
                match r {
                    Ok(codes) => out.ev(&json!({"ev":"cells","src":"char","what":what,"r":"ok","codes":codes})),
                    Err(p) => out.ev(&json!({"ev":"cells","src":"char","what":what,"r":"panic","site":panic_site(&p),"codes":[]})),
                }
            }
        }
    }
    // (4) macro bodies (DECDMAC): text and hex form, bytes >= 0x80 (stored as two-byte UTF-8 sequences), repeat groups that
    //     reach or cross the 32767-byte macro space at every alignment; the stored bodies are read through the
    //     cfg(icy_engine_verif) hook `ansi::Parser::verif_macro_bytes`
    {
        use icy_engine::{ansi, BufferParser, Caret};
        let mut payloads: Vec<(String, Vec<u8>)> = vec![];
        for pre in ["", "41", "4142", "E9", "41E9"] {
            for grp in ["E9", "41E9", "E941", "C3A9", "FF", "80", "E9E9E9", "41"] {
                for n in [1u32, 2, 16383, 16384, 20000, 32766, 32767, 32768, 99999] {
                    payloads.push((format!("hex:pre={pre}:grp={grp}:n={n}"), format!("\x1bP0;1;1!z{pre}!{n};{grp};\x1b\\").into_bytes()));
                    payloads.push((format!("hex2:pre={pre}:grp={grp}:n={n}"), format!("\x1bP1;1;1!z{pre}!{n};{grp};!{n};{grp};41\x1b\\").into_bytes()));
                }
            }
        }
        for len in [1usize, 100, 16383, 16384, 32766, 32767, 32768, 40000] {
            for fill in [0xE9u8, 0x41, 0xFF, 0x80] {
                let mut b = b"\x1bP2;0;0!z".to_vec();
                b.extend(std::iter::repeat(fill).take(len));
                b.extend(b"\x1b\\");
                payloads.push((format!("text:len={len}:fill={fill:#x}"), b.clone()));
                let mut b2 = b"\x1bP3;0;0!zA".to_vec();
                b2.extend(std::iter::repeat(fill).take(len));
                b2.extend(b"\x1b\\");
                payloads.push((format!("text:A+len={len}:fill={fill:#x}"), b2));
            }
        }
        for (what, bytes) in payloads {
            if !u.begin(&mut out, "macro", &what) { continue; }
            let r = guard(|| {
                let mut buf = Buffer::create((80, 25));
                buf.is_terminal_buffer = true;
                let mut caret = Caret::default();
                let mut parser = ansi::Parser::default();
                for b in &bytes { let _ = parser.print_char(&mut buf, 0, &mut caret, *b as char); }
                parser.verif_macro_bytes()
            });
            match r {
                Ok(ms) => {
                    for (id, body) in ms { out.ev(&json!({"ev":"str","src":"macro","what":format!("{what}:id={id}:len={}", body.len()),"bytes":tail_at_boundary(&body, 96),"valid":std::str::from_utf8(&body).is_ok() as u8})); }
                    out.ev(&json!({"ev":"cells","src":"macro","what":what,"r":"ok","codes":[]}));
                }
                Err(p) => out.ev(&json!({"ev":"cells","src":"macro","what":what,"r":"panic","site":panic_site(&p),"codes":[]})),
            }
        }
    }
    // (4c) wide lookalikes: characters above U+00FF whose LOW BYTE is an ASCII digit / hex digit / letter, in place of the payload
    //      characters of control strings (hex macro bodies, repeat counts, DECFRA codes, sixel data), fed as characters (the way a
    //      UTF-8 file or a Unicode-aware client delivers them), then the macro is invoked: a parser that classifies by `c as u8`
    //      and computes with the whole code point builds values outside the scalar range
    {
        use icy_engine::{ansi, BufferParser, Caret};
        let bases: [u32; 6] = [0x100, 0xD00, 0x800, 0x11000, 0x10FF00, 0xFF00];
        let templates: [(&str, &str); 5] = [("hexmacro", "\x1bP1;0;1!z4142\x1b\\\x1b[1*z"), ("hexrepeat", "\x1bP1;0;1!z!3;41;\x1b\\\x1b[1*z"),
            ("decfra", "\x1b[65;1;1;2;2$x"), ("sixel", "\x1bPq#1!3~-~\x1b\\"), ("rep", "A\x1b[3b")];
        for (tn, t) in templates {
            let chars: Vec<char> = t.chars().collect();
            for (pos, c0) in chars.iter().enumerate() {
                if !c0.is_ascii_alphanumeric() { continue; }
                for (bi, base) in bases.iter().enumerate() {
                    // one position, and that position together with the next alphanumeric one
                    for two in [false, true] {
                        let mut cs = chars.clone();
                        let Some(w) = char::from_u32(base + *c0 as u32) else { continue };
                        cs[pos] = w;
                        if two {
                            if let Some(p2) = (pos + 1..cs.len()).find(|i| cs[*i].is_ascii_alphanumeric()) {
                                if let Some(w2) = char::from_u32(bases[(bi + 1) % bases.len()] + cs[p2] as u32) { cs[p2] = w2; }
                            } else { continue; }
                        }
                        let what = format!("{tn}:pos={pos}:base={base:#x}:two={}", two as u8);
                        if !u.begin(&mut out, "wide", &what) { continue; }
                        let r = guard(|| {
                            let mut buf = Buffer::create((20, 6));
                            buf.is_terminal_buffer = true;
                            let mut caret = Caret::default();
                            let mut parser = ansi::Parser::default();
                            for c in &cs { let _ = parser.print_char(&mut buf, 0, &mut caret, *c); }
                            let mut codes = layer_codes(&buf.layers[0]);
                            codes.sort_unstable();
                            codes.dedup();
                            (codes, parser.verif_macro_bytes())
                        });
                        match r {
                            Ok((codes, ms)) => {
                                for (id, body) in ms { out.ev(&json!({"ev":"str","src":"wide","what":format!("{what}:id={id}"),"bytes":tail_at_boundary(&body, 96),"valid":std::str::from_utf8(&body).is_ok() as u8})); }
                                out.ev(&json!({"ev":"cells","src":"wide","what":what,"r":"ok","codes":codes}));
                            }
                            Err(p) => out.ev(&json!({"ev":"cells","src":"wide","what":what,"r":"panic","site":panic_site(&p),"codes":[]})),
                        }
                    }
                }
            }
        }
    }
    out.flush();
    let _ = std::fs::write(&u.progress, json!({"k": u.k, "done": true}).to_string());
    eprintln!("c10: {} events", out.n);
}
