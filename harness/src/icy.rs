//! Driver for C07: the native IcyDraw format is lossless.
//!
//! Every case is one document: built here (from a TLC-generated case table + seeded random data, all inside the
//! domain stated by the property), saved with `Buffer::to_bytes("icy", lossles_output = true)`, re-loaded with
//! `Buffer::from_bytes`, and recorded as ONE event
//!   {"ev":"doc","case":..,"cls":..,"save":"ok|err|panic","load":"ok|err|panic|-","site":..,
//!    "src":{projection of the source document},"chunks":[{"kw":[keyword code points],"d":[payload bytes]}..],
//!    "back":{projection of the re-loaded document}}
//! PNG framing, zlib and base64 are unwrapped here (crates png + base64); the chunk payloads are what IcyDraw.tla decodes.
//! 32-bit quantities are split into 16-bit halves (cells: [chHi,chLo,fgHi,fgLo,bgHi,bgLo,attr,fontPage], invisible = []).
use crate::util::{guard, panic_site, rng, Args, Out};
use base64::{engine::general_purpose, Engine};
use icy_engine::{
    AttributedChar, BitFont, Buffer, BufferType, Color, FontMode, IceMode, Layer, Line, Mode, Palette, PaletteMode, Role, SauceData, SauceString, SaveOptions,
    Sixel, TextAttribute, TextPane,
};
use rand::rngs::StdRng;
use rand::Rng;
use serde_json::{json, Value};
use std::path::Path;

// ------------------------------------------------------------------------------------------------ projection
fn cell_value(ch: AttributedChar) -> Value {
    if !ch.is_visible() {
        return json!([]);
    }
    let c = ch.ch as u32;
    let fg = ch.attribute.get_foreground();
    let bg = ch.attribute.get_background();
    json!([c >> 16, c & 0xFFFF, fg >> 16, fg & 0xFFFF, bg >> 16, bg & 0xFFFF, ch.attribute.attr, ch.attribute.get_font_page()])
}

fn layer_value(l: &Layer) -> Value {
    let image = matches!(l.role, Role::Image);
    let mut rows = Vec::new();
    if !image {
        for y in 0..l.get_height() {
            let mut row: Vec<Value> = Vec::new();
            let mut last_visible = 0;
            for x in 0..l.get_width() {
                let ch = l.get_char((x, y));
                if ch.is_visible() {
                    last_visible = x as usize + 1;
                }
                row.push(cell_value(ch));
            }
            row.truncate(last_visible);
            rows.push(Value::Array(row));
        }
    }
    let img = if image && !l.sixels.is_empty() {
        let s = &l.sixels[0];
        json!([s.get_width(), s.get_height(), s.vertical_scale, s.horizontal_scale, s.picture_data])
    } else {
        json!([])
    };
    let role = match l.role { Role::Normal => 0, Role::Image => 1, Role::PastePreview => 2, Role::PasteImage => 3 };
    let mode = match l.properties.mode { Mode::Normal => 0, Mode::Chars => 1, Mode::Attributes => 2 };
    let color = match &l.properties.color { Some(c) => { let (r, g, b) = c.get_rgb(); json!([r, g, b]) } None => json!([]) };
    json!({
        "title": l.properties.title.as_bytes(), "role": role, "mode": mode, "color": color,
        "vis": l.properties.is_visible as u8, "lock": l.properties.is_locked as u8, "plock": l.properties.is_position_locked as u8,
        "alpha": l.properties.has_alpha_channel as u8, "alock": l.properties.is_alpha_channel_locked as u8,
        "tr": l.transparency, "x": l.get_offset().x, "y": l.get_offset().y, "w": l.get_width(), "h": l.get_height(),
        "fp": l.default_font_page, "rows": rows, "img": img
    })
}

fn font_value(slot: usize, f: &BitFont) -> Value {
    let mut g: Vec<u8> = Vec::new();
    for c in 0..f.length.max(0) as u32 {
        if let Some(gl) = char::from_u32(c).and_then(|c| f.get_glyph(c)) {
            g.extend_from_slice(&gl.data);
        }
    }
    json!({"slot": slot, "name": f.name.as_bytes(), "w": f.size.width, "h": f.size.height, "n": f.length, "g": g})
}

fn sauce_text<const L: usize, const E: u8>(s: &SauceString<L, E>) -> Value {
    Value::Array(s.to_string().chars().map(|c| json!(c as u32)).collect())
}

pub fn doc_value(b: &Buffer) -> Value {
    let mut fonts: Vec<(usize, Value)> = b.font_iter().map(|(k, f)| (*k, font_value(*k, f))).collect();
    fonts.sort_by_key(|(k, _)| *k);
    let pal: Vec<Value> = (0..b.palette.len()).map(|i| { let (r, g, bl) = b.palette.get_rgb(i as u32); json!([r, g, bl]) }).collect();
    let sauce = match b.get_sauce() {
        Some(s) => json!([{"title": sauce_text(&s.title), "author": sauce_text(&s.author), "group": sauce_text(&s.group),
                           "comments": s.comments.iter().map(sauce_text).collect::<Vec<_>>(), "ls": s.use_letter_spacing as u8, "ar": s.use_aspect_ratio as u8}]),
        None => json!([]),
    };
    json!({
        "w": b.get_width(), "h": b.get_height(), "bt": b.buffer_type.to_byte(), "ice": b.ice_mode.to_byte(), "pm": b.palette_mode.to_byte(), "fm": b.font_mode.to_byte(),
        "layers": b.layers.iter().map(layer_value).collect::<Vec<_>>(), "pal": pal, "fonts": fonts.into_iter().map(|(_, v)| v).collect::<Vec<_>>(), "sauce": sauce
    })
}

/// Unwrap PNG + zTXt + base64: the list of (keyword, payload) in file order.
pub fn unwrap_chunks(bytes: &[u8]) -> Result<Vec<(String, Vec<u8>)>, String> {
    let decoder = png::Decoder::new(std::io::Cursor::new(bytes));
    let reader = decoder.read_info().map_err(|e| format!("png: {e}"))?;
    let mut res = Vec::new();
    for c in &reader.info().compressed_latin1_text {
        let text = c.get_text().map_err(|e| format!("ztxt {}: {e}", c.keyword))?;
        let data = general_purpose::STANDARD.decode(text).map_err(|e| format!("base64 {}: {e}", c.keyword))?;
        res.push((c.keyword.clone(), data));
    }
    Ok(res)
}

/// Deterministic 64-bit digest of a projection (SipHash with the fixed default keys), used to count DISTINCT cases.
pub fn digest(v: &Value) -> String {
    use std::hash::{Hash, Hasher};
    let mut h = std::collections::hash_map::DefaultHasher::new();
    v.to_string().hash(&mut h);
    format!("{:016x}", h.finish())
}

// ------------------------------------------------------------------------------------------------ one case
fn run_case(out: &mut Out, case: &str, cls: &str, buf: &Buffer) {
    out.ev(&json!({"ev":"reset","case":case,"cls":cls}));
    let src = doc_value(buf);
    let h = digest(&src);
    let ok = run_case_inner(out, case, cls, buf, src);
    // short summary line: lets the check count distinct documents without parsing the bulk
    out.ev(&json!({"ev":"sum","case":case,"h":h,"ok":ok as u8}));
}

fn run_case_inner(out: &mut Out, case: &str, cls: &str, buf: &Buffer, src: Value) -> bool {
    let mut opts = SaveOptions::default();
    opts.lossles_output = true;
    let saved = guard(|| buf.to_bytes("icy", &opts).map_err(|e| e.to_string()));
    let bytes = match saved {
        Ok(Ok(b)) => b,
        Ok(Err(e)) => { out.ev(&json!({"ev":"doc","case":case,"cls":cls,"save":"err","load":"-","site":e,"src":src,"chunks":[],"back":{}})); return false; }
        Err(p) => { out.ev(&json!({"ev":"doc","case":case,"cls":cls,"save":"panic","load":"-","site":panic_site(&p),"line":p.line,"msg":p.msg,"src":src,"chunks":[],"back":{}})); return false; }
    };
    let chunks: Vec<Value> = match unwrap_chunks(&bytes) {
        Ok(c) => c.into_iter().map(|(k, d)| json!({"kw": k.chars().map(|c| c as u32).collect::<Vec<_>>(), "d": d})).collect(),
        Err(e) => { out.ev(&json!({"ev":"doc","case":case,"cls":cls,"save":"err","load":"-","site":format!("unreadable png: {e}"),"src":src,"chunks":[],"back":{}})); return false; }
    };
    let loaded = guard(|| Buffer::from_bytes(Path::new("case.icy"), true, &bytes).map_err(|e| e.to_string()));
    match loaded {
        Ok(Ok(back)) => { out.ev(&json!({"ev":"doc","case":case,"cls":cls,"save":"ok","load":"ok","site":"","file_len":bytes.len(),"src":src,"chunks":chunks,"back":doc_value(&back)})); return true; }
        Ok(Err(e)) => out.ev(&json!({"ev":"doc","case":case,"cls":cls,"save":"ok","load":"err","site":e,"src":src,"chunks":chunks,"back":{}})),
        Err(p) => out.ev(&json!({"ev":"doc","case":case,"cls":cls,"save":"ok","load":"panic","site":panic_site(&p),"line":p.line,"msg":p.msg,"src":src,"chunks":chunks,"back":{}})),
    }
    false
}

// ------------------------------------------------------------------------------------------------ generators
/// What a document is drawn from: the palette length and the font pages that exist.
struct Env {
    pal_len: u32,
    pages: Vec<usize>,
}

fn unicode_scalar(r: &mut StdRng) -> char {
    loop {
        let v = match r.gen_range(0..6) {
            0 => r.gen_range(0x100..0x800),
            1 => r.gen_range(0x800..0x10000),
            2 => r.gen_range(0x10000..0x110000),
            3 => *[0x100u32, 0xFFFF, 0x10000, 0x10FFFF, 0xD7FF, 0xE000].get(r.gen_range(0..6)).unwrap(),
            _ => r.gen_range(0x100..0x3000),
        };
        if let Some(c) = char::from_u32(v) {
            return c;
        }
    }
}

fn attr_bits(r: &mut StdRng) -> u16 {
    match r.gen_range(0..4) { 0 => 0, 1 => 1 << r.gen_range(0..10), 2 => r.gen_range(0..0x400), _ => 0x3FF & r.gen::<u16>() }
}

fn short_cell(r: &mut StdRng, env: &Env) -> AttributedChar {
    let pages: Vec<usize> = env.pages.iter().copied().filter(|p| *p <= 255).collect();
    let mut a = TextAttribute::new(r.gen_range(0..env.pal_len.min(256)), r.gen_range(0..env.pal_len.min(256)));
    a.set_font_page(pages[r.gen_range(0..pages.len())]);
    a.attr = attr_bits(r);
    let ch = match r.gen_range(0..5) { 0 => 0u8, 1 => 255, 2 => b' ', _ => r.gen() };
    AttributedChar::new(ch as char, a)
}

/// A cell of the given class ("I","S","C","F","T","P" as in MC_IcyDraw); falls back to a neighbouring class when the
/// environment cannot express it (no colour >= 256 in the palette, no font page >= 256 in the table).
fn class_cell(r: &mut StdRng, env: &Env, class: &str) -> AttributedChar {
    match class {
        "I" => AttributedChar::invisible(),
        "S" => short_cell(r, env),
        "C" => { let mut c = short_cell(r, env); c.ch = unicode_scalar(r); c }
        "F" => {
            let mut c = short_cell(r, env);
            if env.pal_len > 256 {
                let v = r.gen_range(256..env.pal_len);
                match r.gen_range(0..3) { 0 => c.attribute.set_foreground(v), 1 => c.attribute.set_background(v), _ => { c.attribute.set_foreground(v); c.attribute.set_background(r.gen_range(256..env.pal_len)); } }
            } else {
                c.ch = unicode_scalar(r);
            }
            c
        }
        "T" => {
            let mut c = short_cell(r, env);
            match r.gen_range(0..3) { 0 => c.attribute.set_foreground(TextAttribute::TRANSPARENT_COLOR), 1 => c.attribute.set_background(TextAttribute::TRANSPARENT_COLOR),
                                      _ => { c.attribute.set_foreground(TextAttribute::TRANSPARENT_COLOR); c.attribute.set_background(TextAttribute::TRANSPARENT_COLOR); } }
            if r.gen_bool(0.5) { c.ch = ['\u{2580}', '\u{2584}', '\u{DF}', '\u{DC}'][r.gen_range(0..4)]; }
            c
        }
        _ => {
            let mut c = short_cell(r, env);
            let pages: Vec<usize> = env.pages.iter().copied().filter(|p| *p > 255).collect();
            if pages.is_empty() { c.ch = unicode_scalar(r); } else { c.attribute.set_font_page(pages[r.gen_range(0..pages.len())]); }
            c
        }
    }
}

fn random_class(r: &mut StdRng, density: f64, long_p: f64) -> &'static str {
    if !r.gen_bool(density) { return "I"; }
    if !r.gen_bool(long_p) { return "S"; }
    ["C", "F", "T", "P"][r.gen_range(0..4)]
}

fn random_title(r: &mut StdRng) -> String {
    let n = match r.gen_range(0..6) { 0 => 0, 1 => 1, 2 => r.gen_range(30..80), _ => r.gen_range(1..24) };
    // titles that begin / end with white space (ASCII and Unicode) are their own class: text fields get "normalised" easily
    if r.gen_range(0..8) == 0 {
        let ws = [" ", "\t", "\u{A0}", "\u{3000}", "  "];
        let core: String = (0..n.max(1)).map(|_| r.gen_range(0x21u8..0x7F) as char).collect();
        return match r.gen_range(0..3) { 0 => format!("{}{core}", ws[r.gen_range(0..5)]), 1 => format!("{core}{}", ws[r.gen_range(0..5)]), _ => format!("{}{core}{}", ws[r.gen_range(0..5)], ws[r.gen_range(0..5)]) };
    }
    (0..n).map(|_| match r.gen_range(0..5) { 0 => unicode_scalar(r), 1 => ['ä', 'ß', '€', '日', '本', '\u{1F600}', ' ', '~', '\t'][r.gen_range(0..9)], _ => r.gen_range(0x20u8..0x7F) as char }).collect()
}

fn random_font(r: &mut StdRng, name: String, height: u8) -> BitFont {
    let data: Vec<u8> = (0..256 * height as usize).map(|_| r.gen()).collect();
    BitFont::create_8(name, 8, height, &data)
}

fn random_palette(r: &mut StdRng, n: usize) -> Palette {
    let mut p = Palette::new();
    // structured classes: the palette is (a prefix of) / starts with a well-known table - the writer and the reader treat
    // "the default palette" specially, so near-default palettes are their own input class
    let class = r.gen_range(0..8);
    if class < 3 {
        let base = match class { 0 => Palette::dos_default(), 1 => Palette::from_slice(&icy_engine::XTERM_256_PALETTE.iter().map(|(_, c)| c.clone()).collect::<Vec<Color>>()), _ => Palette::from_slice(&icy_engine::C64_DEFAULT_PALETTE) };
        for i in 0..n {
            if i < base.len() { p.push(base.get_color(i as u32)); } else { p.push(Color::new(r.gen(), r.gen(), r.gen())); }
        }
        return p;
    }
    for i in 0..n {
        let c = match r.gen_range(0..4) { 0 => Color::new(r.gen(), r.gen(), r.gen()), 1 => Color::new((i % 256) as u8, (i / 2 % 256) as u8, 255 - (i % 256) as u8), 2 => Color::new(r.gen_range(0..4), 0, 255), _ => Color::new(r.gen(), r.gen(), r.gen()) };
        p.push(c);
    }
    if r.gen_bool(0.3) { p.title = "Palette 16 colours".to_string(); p.author = "a. uthor".to_string(); p.description = "abcdef 012345".to_string(); }
    p
}

fn sauce_ascii(r: &mut StdRng, max: usize) -> String {
    let n = match r.gen_range(0..4) { 0 => 0, 1 => max, _ => r.gen_range(0..=max) };
    let mut s: String = (0..n).map(|_| if r.gen_bool(0.15) { ' ' } else { r.gen_range(0x21u8..0x7F) as char }).collect();
    while s.ends_with(' ') { s.pop(); s.push('x'); }
    s
}

fn random_sauce(r: &mut StdRng) -> SauceData {
    let mut s = SauceData::default();
    s.title = SauceString::from(sauce_ascii(r, 35));
    s.author = SauceString::from(sauce_ascii(r, 20));
    s.group = SauceString::from(sauce_ascii(r, 20));
    let nc = match r.gen_range(0..4) { 0 => 0, 1 => 1, _ => r.gen_range(0..6) };
    s.comments = (0..nc).map(|_| SauceString::from(sauce_ascii(r, 64))).collect();
    s.use_letter_spacing = r.gen_bool(0.5);
    s.use_aspect_ratio = r.gen_bool(0.5);
    s
}

/// An empty document with the given environment (fonts for every page, palette).
fn new_doc(r: &mut StdRng, size: (i32, i32), pal_len: usize, pages: &[usize], font0_height: u8, small_fonts: bool) -> (Buffer, Env) {
    let mut buf = Buffer::new(size);
    buf.layers.clear();
    if pal_len != 16 || r.gen_bool(0.7) {
        buf.palette = random_palette(r, pal_len);
    }
    for &p in pages {
        if p == 0 && font0_height == 16 && r.gen_bool(0.5) {
            continue; // keep the default CP437 font in slot 0
        }
        let h = if p == 0 { font0_height } else if small_fonts { r.gen_range(1..=4) } else { [8u8, 14, 16, 19, 32, 1, 5][r.gen_range(0..7)] };
        let name = if r.gen_bool(0.3) { random_title(r) } else { format!("font {p}") };
        buf.set_font(p, random_font(r, name, h));
    }
    buf.buffer_type = [BufferType::Unicode, BufferType::CP437, BufferType::Petscii, BufferType::Atascii, BufferType::Viewdata][r.gen_range(0..5)];
    buf.ice_mode = [IceMode::Unlimited, IceMode::Blink, IceMode::Ice][r.gen_range(0..3)];
    buf.palette_mode = [PaletteMode::RGB, PaletteMode::Fixed16, PaletteMode::Free8, PaletteMode::Free16][r.gen_range(0..4)];
    buf.font_mode = [FontMode::Unlimited, FontMode::Sauce, FontMode::Single, FontMode::FixedSize][r.gen_range(0..4)];
    let env = Env { pal_len: buf.palette.len() as u32, pages: pages.to_vec() };
    (buf, env)
}

/// A layer whose `lines` are written directly (set_char refuses locked / hidden layers), rows given as cells.
fn make_layer(title: String, w: i32, h: i32, rows: Vec<Vec<AttributedChar>>) -> Layer {
    // a client names a layer either when it creates it or afterwards (set_title): both ways, chosen by the title itself
    let mut l = if title.chars().count() % 2 == 0 { Layer::new(title, (w, h)) } else { let mut l = Layer::new("", (w, h)); l.set_title(title); l };
    l.lines = rows.into_iter().map(|chars| Line { chars }).collect();
    l
}

fn apply_flags(l: &mut Layer, flags: u32) {
    l.properties.is_visible = flags & 1 != 0;
    l.properties.is_locked = flags & 2 != 0;
    l.properties.is_position_locked = flags & 4 != 0;
    l.properties.has_alpha_channel = flags & 8 != 0;
    l.properties.is_alpha_channel_locked = flags & 16 != 0;
}

fn random_rows(r: &mut StdRng, env: &Env, w: i32, h: i32) -> Vec<Vec<AttributedChar>> {
    let density = [0.0, 0.1, 0.5, 0.9, 1.0][r.gen_range(0..5)];
    let long_p = [0.0, 0.05, 0.3, 1.0][r.gen_range(0..4)];
    let nrows = match r.gen_range(0..4) { 0 => r.gen_range(0..=h), _ => h }; // fewer stored lines than the layer is high
    (0..nrows).map(|_| {
        let len = match r.gen_range(0..5) { 0 => r.gen_range(0..=w), 1 => 0, _ => w }; // ragged lines
        let d = if r.gen_bool(0.15) { 0.0 } else if r.gen_bool(0.15) { 1.0 } else { density };
        (0..len).map(|_| { let c = random_class(r, d, long_p); class_cell(r, env, c) }).collect()
    }).collect()
}

fn image_layer(r: &mut StdRng, title: String, w: i32, h: i32) -> Layer {
    let mut l = Layer::new(title, (w, h));
    l.lines.clear();
    l.role = Role::Image;
    let (iw, ih) = (r.gen_range(1..4), r.gen_range(1..4));
    let data: Vec<u8> = (0..iw * ih * 4).map(|_| r.gen()).collect();
    l.sixels.push(Sixel::from_data((iw, ih), r.gen_range(1..3), r.gen_range(1..3), data));
    l
}

fn random_layer(r: &mut StdRng, env: &Env, max_w: i32, max_h: i32) -> Layer {
    let w = match r.gen_range(0..8) { 0 => 0, 1 => 1, 2 => max_w, _ => r.gen_range(0..=max_w) };
    let h = match r.gen_range(0..8) { 0 => 0, 1 => 1, 2 => max_h, _ => r.gen_range(0..=max_h) };
    let title = random_title(r);
    let mut l = if r.gen_bool(0.08) { image_layer(r, title, w, h) } else { let rows = random_rows(r, env, w, h); make_layer(title, w, h, rows) };
    l.properties.mode = [Mode::Normal, Mode::Chars, Mode::Attributes][r.gen_range(0..3)];
    if r.gen_bool(0.4) { l.properties.color = Some(Color::new(r.gen(), r.gen(), r.gen())); }
    l.transparency = match r.gen_range(0..3) { 0 => 0, 1 => 255, _ => r.gen() };
    l.default_font_page = env.pages[r.gen_range(0..env.pages.len())];
    l.properties.offset = (match r.gen_range(0..4) { 0 => -50, 1 => 50, _ => r.gen_range(-50..=50) }, match r.gen_range(0..4) { 0 => -50, 1 => 50, _ => r.gen_range(-50..=50) }).into();
    apply_flags(&mut l, if r.gen_bool(0.4) { 1 } else { r.gen_range(0..32) });
    l
}

fn random_pages(r: &mut StdRng) -> Vec<usize> {
    let mut pages = vec![0usize];
    for _ in 0..r.gen_range(0..3) {
        let p = match r.gen_range(0..4) { 0 => r.gen_range(1..=255), 1 => r.gen_range(256..=300), 2 => [1, 255, 256, 300][r.gen_range(0..4)], _ => r.gen_range(1..=42) };
        if !pages.contains(&p) { pages.push(p); }
    }
    pages
}

pub fn c07(a: &Args) {
    let mut out = Out::create(&a.str("out", "work/C07/trace.ndjson"));
    let seed = a.u64("seed", 0);
    let thorough = a.str("tier", "quick") == "thorough";
    let gen = a.str("gen", "gen/icydraw.ndjson");
    let only = a.str("only", "");

    let mut rows: Vec<(i32, Vec<String>)> = Vec::new();
    let mut geos: Vec<Value> = Vec::new();
    if let Ok(text) = std::fs::read_to_string(&gen) {
        for line in text.lines() {
            let Ok(v) = serde_json::from_str::<Value>(line) else { continue };
            match v["kind"].as_str() {
                Some("row") => rows.push((v["w"].as_i64().unwrap_or(0) as i32, v["cells"].as_array().map(|c| c.iter().map(|x| x.as_str().unwrap_or("I").to_string()).collect()).unwrap_or_default())),
                Some("geo") => geos.push(v["g"].clone()),
                _ => {}
            }
        }
    }
    let mut ndocs = 0usize;

    // (0) probes outside the registered run (manual experiments): --only probe
    if only == "probe" {
        let mut r = rng(seed, 7);
        // (a) invisible cells that carry other attribute bits
        let (mut buf, env) = new_doc(&mut r, (4, 2), 16, &[0], 16, true);
        let mut inv = AttributedChar::invisible();
        inv.attribute.attr |= 1;
        let rows = vec![vec![short_cell(&mut r, &env), inv, short_cell(&mut r, &env), short_cell(&mut r, &env)], vec![short_cell(&mut r, &env)]];
        buf.layers.push(make_layer("p".into(), 4, 2, rows));
        run_case(&mut out, "probe-invisible-bold", "probe", &buf);
        // (b) a layer above the 3 MB chunk limit (outside the stated domain): continuation chunks
        for variant in 0..3 {
            let (mut buf, env) = new_doc(&mut r, (4, 2), 16, &[0], 16, true);
            let w = 2000;
            let h = 110;
            let mut rows: Vec<Vec<AttributedChar>> = (0..h).map(|_| (0..w).map(|_| { let mut c = short_cell(&mut r, &env); c.ch = 'Ā'; c }).collect()).collect();
            if variant == 1 { for y in 90..95 { rows[y] = vec![]; } }
            let mut l = make_layer("big".into(), w as i32, h as i32, rows);
            if variant == 2 { l.properties.is_locked = true; }
            buf.layers.push(l);
            run_case(&mut out, &format!("probe-big-{variant}"), "probe", &buf);
        }
    }

    // (1) TLC row shapes: every sequence over the cell alphabet up to width 4, stacked into layers of exactly that width
    //     (so that trailing invisible cells are the "visible prefix shorter than the width" cases), 24 rows per layer, <= 6 layers per document.
    if only.is_empty() || only == "rows" {
        let mut r = rng(seed, 100);
        let mut layers: Vec<(i32, Vec<Vec<String>>)> = Vec::new();
        for w in 0..=4 {
            let of_w: Vec<&Vec<String>> = rows.iter().filter(|(rw, _)| *rw == w).map(|(_, c)| c).collect();
            for chunk in of_w.chunks(24) {
                layers.push((w, chunk.iter().map(|c| (*c).clone()).collect()));
            }
        }
        for (di, group) in layers.chunks(6).enumerate() {
            let pages = vec![0usize, 7, 256 + (di % 45)];
            let (mut buf, env) = new_doc(&mut r, (8, 24), 300, &pages, 16, true);
            for (li, (w, shape_rows)) in group.iter().enumerate() {
                let cells: Vec<Vec<AttributedChar>> = shape_rows.iter().map(|row| row.iter().map(|c| class_cell(&mut r, &env, c)).collect()).collect();
                let mut l = make_layer(format!("rows w={w} #{li}"), *w, shape_rows.len() as i32, cells);
                l.properties.offset = (li as i32, 0).into();
                buf.layers.push(l);
            }
            run_case(&mut out, &format!("rows-{di}"), "tlc-rows", &buf);
            ndocs += 1;
        }
    }

    // (2) TLC layer geometry x flag table: sampled in the quick tier (a different sample per seed), complete in the thorough tier
    if only.is_empty() || only == "geo" {
        let mut r = rng(seed, 200);
        let n = geos.len();
        let mut idx: Vec<usize> = (0..n).collect();
        if !thorough {
            for i in 0..n.min(1800) { let j = r.gen_range(i..n); idx.swap(i, j); }
            idx.truncate(1800);
        }
        for (di, group) in idx.chunks(6).enumerate() {
            let pages = vec![0usize, 300];
            let size = (r.gen_range(1..=12), r.gen_range(1..=6));
            let pal_len = if di % 3 == 0 { 16 } else if di % 3 == 1 { r.gen_range(1..=20) } else { r.gen_range(1..=300) };
            let f0 = if di % 4 == 0 { 16 } else { r.gen_range(1..=8) };
            let (mut buf, env) = new_doc(&mut r, size, pal_len, &pages, f0, true);
            for gi in group {
                let g = &geos[*gi];
                let gv = |k: &str| g[k].as_i64().unwrap_or(0);
                let (w, h) = (gv("w") as i32, gv("h") as i32);
                let title = random_title(&mut r);
                let mut l = if gv("role") == 1 { image_layer(&mut r, title, w, h) } else { let rows = random_rows(&mut r, &env, w, h); make_layer(title, w, h, rows) };
                l.properties.mode = [Mode::Normal, Mode::Chars, Mode::Attributes][gv("mode") as usize % 3];
                if gv("tag") == 1 { l.properties.color = Some(Color::new(r.gen(), r.gen(), r.gen_range(1..=255))); }
                l.properties.offset = (gv("x") as i32, gv("y") as i32).into();
                l.transparency = r.gen();
                l.default_font_page = pages[r.gen_range(0..2)];
                // TLC's flag bits are in specification order: 1 visible, 2 edit lock, 4 position lock, 8 alpha, 16 alpha locked
                apply_flags(&mut l, gv("flags") as u32);
                buf.layers.push(l);
            }
            run_case(&mut out, &format!("geo-{di}"), "tlc-geo", &buf);
            ndocs += 1;
        }
    }

    // (2b) glyph heights: the writer renders an embedded preview with the fonts of the document - every combination of the
    //      height of font slot 0 and of another slot (shorter / equal / taller), with cells of the other page in the first and
    //      in the LAST row and as a layer's default font page
    if only.is_empty() || only == "rnd" {
        let mut r = rng(seed, 777);
        for h0 in [8u8, 14, 16] {
            for h1 in [4u8, 8, 16, 19, 32] {
                for variant in 0..3 {
                    let page = [1usize, 5, 300][variant % 3];
                    let mut buf = Buffer::new((6, 3));
                    buf.layers.clear();
                    buf.set_font(0, random_font(&mut r, "slot zero".to_string(), h0));
                    buf.set_font(page, random_font(&mut r, format!("slot {page}"), h1));
                    let mut rows: Vec<Vec<AttributedChar>> = Vec::new();
                    for y in 0..3 {
                        let mut row = Vec::new();
                        for x in 0..6 {
                            let mut at = TextAttribute::new(r.gen_range(0..16), r.gen_range(0..8));
                            at.set_font_page(if (y == 0 && x < 2) || (y == 2 && x % 2 == variant % 2) { page } else { 0 });
                            row.push(AttributedChar::new(char::from_u32(r.gen_range(33..127)).unwrap(), at));
                        }
                        rows.push(row);
                    }
                    let mut l = make_layer(format!("h{h0}-{h1}"), 6, 3, rows);
                    if variant == 2 { l.default_font_page = page; }
                    buf.layers.push(l);
                    run_case(&mut out, &format!("fonth-{h0}-{h1}-{variant}"), "font-heights", &buf);
                    ndocs += 1;
                }
            }
        }
    }

    // (2c) at the cap of the domain: one layer of 200 x 120 cells in the long encoding (the largest layer the property speaks about:
    //      size limits of the container - chunk payloads, length fields - are reached here or never), with every protection flag,
    //      and with blank rows at several heights
    if only.is_empty() || only == "cap" {
        let mut r = rng(seed, 777);
        for variant in 0..(if thorough { 12 } else { 7 }) {
            let (mut buf, env) = new_doc(&mut r, (200, 120), 300, &[0], 16, false);
            let (w, h) = (200usize, 120usize);
            let mut rows: Vec<Vec<AttributedChar>> = (0..h).map(|_| (0..w).map(|_| { let mut c = short_cell(&mut r, &env); c.ch = char::from_u32(0x100 + r.gen_range(0..0x2000)).unwrap_or('A'); c }).collect()).collect();
            if variant >= 4 { for y in [19usize, 20, 21, 39, 59, 60, 100] { if (y + variant) % 2 == 0 { rows[y] = vec![]; } } }
            let mut l = make_layer(format!("cap {variant}"), w as i32, h as i32, rows);
            match variant % 4 { 1 => l.properties.is_visible = false, 2 => l.properties.is_locked = true, 3 => { l.properties.has_alpha_channel = true; l.properties.is_alpha_channel_locked = true; } _ => {} }
            if variant >= 8 { l.properties.is_position_locked = true; l.set_offset((-50, 50)); }
            buf.layers.push(l);
            run_case(&mut out, &format!("cap-{variant}"), "cap", &buf);
            ndocs += 1;
        }
    }

    // (3) seeded random documents
    if only.is_empty() || only == "rnd" {
        let n = a.usize("docs", if thorough { 3000 } else { 300 });
        for d in 0..n {
            let mut r = rng(seed, 1000 + d as u64);
            let big = thorough && d % 7 == 0;
            let (max_w, max_h) = if big { (200, 120) } else if thorough && d % 3 == 0 { (80, 50) } else { (40, 20) };
            let pages = random_pages(&mut r);
            let pal_len = match r.gen_range(0..7) { 0 => 16, 1 => 1, 2 => 300, 3 => r.gen_range(257..=300), 4 => r.gen_range(2..=17), _ => r.gen_range(1..=300) };
            let size = (r.gen_range(1..=max_w), r.gen_range(1..=max_h));
            let f0 = [16u8, 16, 8, 14, 4][r.gen_range(0..5)];
            let small = !big && r.gen_bool(0.6);
            let (mut buf, env) = new_doc(&mut r, size, pal_len, &pages, f0, small);
            let nl = if big { r.gen_range(1..=6) } else { match r.gen_range(0..4) { 0 => 1, 1 => 6, _ => r.gen_range(1..=6) } };
            for _ in 0..nl {
                buf.layers.push(random_layer(&mut r, &env, max_w, max_h));
            }
            if r.gen_bool(0.5) {
                buf.set_sauce(Some(random_sauce(&mut r)), false);
            }
            run_case(&mut out, &format!("rnd-{seed}-{d}"), if big { "rnd-big" } else { "rnd" }, &buf);
            ndocs += 1;
        }
    }
    out.flush();
    eprintln!("c07: {ndocs} documents, {} events ({} TLC row shapes, {} TLC geometry cases available)", out.n, rows.len(), geos.len());
}
