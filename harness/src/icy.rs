//! (stub) driver module - see tools/HOWTO.md
use crate::util::Args;

pub fn c07(_a: &Args) {
    eprintln!("c07: driver not built yet");
    std::process::exit(2);
}
