//! Shared helpers: ndjson output, panic capture, deterministic RNG, argument parsing.
use rand::rngs::StdRng;
use rand::SeedableRng;
use serde_json::Value;
use std::cell::RefCell;
use std::collections::HashMap;
use std::fs::File;
use std::io::{BufWriter, Write};
use std::panic::{self, AssertUnwindSafe};
use std::sync::Once;

pub struct Out {
    w: BufWriter<File>,
    pub n: usize,
}

impl Out {
    pub fn create(path: &str) -> Out {
        if let Some(p) = std::path::Path::new(path).parent() {
            let _ = std::fs::create_dir_all(p);
        }
        Out { w: BufWriter::with_capacity(1 << 20, File::create(path).expect("create trace file")), n: 0 }
    }
    pub fn append(path: &str) -> Out {
        if let Some(p) = std::path::Path::new(path).parent() {
            let _ = std::fs::create_dir_all(p);
        }
        let f = std::fs::OpenOptions::new().create(true).append(true).open(path).expect("open trace file");
        Out { w: BufWriter::with_capacity(1 << 20, f), n: 0 }
    }
    pub fn ev(&mut self, v: &Value) {
        serde_json::to_writer(&mut self.w, v).unwrap();
        self.w.write_all(b"\n").unwrap();
        self.n += 1;
    }
    pub fn flush(&mut self) {
        self.w.flush().unwrap();
    }
}

impl Drop for Out {
    fn drop(&mut self) {
        let _ = self.w.flush();
    }
}

#[derive(Clone, Debug, Default)]
pub struct PanicInfo {
    pub file: String,
    pub line: u32,
    pub msg: String,
}

thread_local! {
    static LAST_PANIC: RefCell<Option<PanicInfo>> = const { RefCell::new(None) };
}

static HOOK: Once = Once::new();

pub fn install_panic_hook() {
    HOOK.call_once(|| {
        panic::set_hook(Box::new(|info| {
            let (file, line) = info.location().map(|l| (l.file().to_string(), l.line())).unwrap_or_default();
            let msg = if let Some(s) = info.payload().downcast_ref::<&str>() {
                (*s).to_string()
            } else if let Some(s) = info.payload().downcast_ref::<String>() {
                s.clone()
            } else {
                "<non-string panic>".to_string()
            };
            if msg.contains("unsafe precondition") || std::thread::current().name() != Some("main") {
                // aborting panics (unsafe precondition checks, panics while panicking) and panics on engine-spawned
                // threads are not caught by `guard`: leave a diagnostic for the orchestrator
                eprintln!("PANIC-NOUNWIND at {file}:{line}: {msg}");
            }
            LAST_PANIC.with(|p| *p.borrow_mut() = Some(PanicInfo { file, line, msg }));
        }));
    });
}

/// Run `f`, turning a panic into data.
pub fn guard<T>(f: impl FnOnce() -> T) -> Result<T, PanicInfo> {
    install_panic_hook();
    LAST_PANIC.with(|p| *p.borrow_mut() = None);
    match panic::catch_unwind(AssertUnwindSafe(f)) {
        Ok(v) => Ok(v),
        Err(_) => Err(LAST_PANIC.with(|p| p.borrow_mut().take()).unwrap_or_default()),
    }
}

/// Normalise a panic message into a class: digits -> '#', truncated.
pub fn msg_class(msg: &str) -> String {
    let mut s = String::new();
    let mut last_hash = false;
    for c in msg.chars() {
        if c.is_ascii_digit() {
            if !last_hash {
                s.push('#');
            }
            last_hash = true;
        } else {
            last_hash = false;
            s.push(if c == '\n' || c == '"' || c == '\\' { ' ' } else { c });
        }
        if s.len() >= 60 {
            break;
        }
    }
    s.trim().replace(' ', "_")
}

/// Find the enclosing `fn` of `file:line` by scanning the source upwards.
pub fn enclosing_fn(file: &str, line: u32) -> String {
    thread_local! { static CACHE: RefCell<HashMap<String, Vec<String>>> = RefCell::new(HashMap::new()); }
    let path = if file.starts_with('/') { file.to_string() } else { format!("{}/{file}", repo_root()) };
    CACHE.with(|c| {
        let mut c = c.borrow_mut();
        let lines = c.entry(path.clone()).or_insert_with(|| std::fs::read_to_string(&path).map(|s| s.lines().map(str::to_string).collect()).unwrap_or_default());
        let mut i = (line as usize).min(lines.len());
        while i > 0 {
            let l = lines[i - 1].trim_start();
            if let Some(pos) = l.find("fn ") {
                let before = &l[..pos];
                if before.is_empty() || before.ends_with(' ') && before.split_whitespace().all(|w| matches!(w, "pub" | "pub(crate)" | "pub(super)" | "const" | "unsafe" | "async" | "extern" | "\"C\"")) {
                    let rest = &l[pos + 3..];
                    let name: String = rest.chars().take_while(|c| c.is_alphanumeric() || *c == '_').collect();
                    if !name.is_empty() {
                        return name;
                    }
                }
            }
            i -= 1;
        }
        "?".to_string()
    })
}

/// Site key of a panic: `<file relative to the repo>::<enclosing fn>#<message class>`.
pub fn panic_site(p: &PanicInfo) -> String {
    let root = format!("{}/", repo_root());
    let rel = p.file.strip_prefix(root.as_str()).unwrap_or(&p.file);
    if p.file.is_empty() {
        return "unknown".to_string();
    }
    let f = if rel.starts_with("src/") || p.file.starts_with(root.as_str()) { enclosing_fn(&p.file, p.line) } else { "-".to_string() };
    // panics raised inside std / dependencies: keep only the crate-ish part of the path
    let rel = if rel.starts_with('/') {
        let parts: Vec<&str> = rel.split('/').collect();
        let n = parts.len();
        parts[n.saturating_sub(3)..].join("/")
    } else {
        rel.to_string()
    };
    if std::env::var("VERIF_PANIC_LINES").is_ok() {
        return format!("{}:{}::{}#{}", rel, p.line, f, msg_class(&p.msg));
    }
    format!("{}::{}#{}", rel, f, msg_class(&p.msg))
}

/// Root of the engine source tree the harness was built against (/repo unless VERIF_REPO redirects an experiment).
pub fn repo_root() -> String {
    std::env::var("VERIF_REPO").unwrap_or_else(|_| "/repo".to_string()).trim_end_matches('/').to_string()
}

pub fn rng(seed: u64, stream: u64) -> StdRng {
    StdRng::seed_from_u64(seed.wrapping_mul(0x9E37_79B9_7F4A_7C15).wrapping_add(stream))
}

/// `--key value` argument map.
pub struct Args {
    pub m: HashMap<String, String>,
}

impl Args {
    pub fn parse(args: &[String]) -> Args {
        let mut m = HashMap::new();
        let mut i = 0;
        while i < args.len() {
            if let Some(k) = args[i].strip_prefix("--") {
                if i + 1 < args.len() && !args[i + 1].starts_with("--") {
                    m.insert(k.to_string(), args[i + 1].clone());
                    i += 2;
                } else {
                    m.insert(k.to_string(), "1".to_string());
                    i += 1;
                }
            } else {
                i += 1;
            }
        }
        Args { m }
    }
    pub fn str(&self, k: &str, d: &str) -> String {
        self.m.get(k).cloned().unwrap_or_else(|| d.to_string())
    }
    pub fn u64(&self, k: &str, d: u64) -> u64 {
        self.m.get(k).and_then(|v| v.parse().ok()).unwrap_or(d)
    }
    pub fn usize(&self, k: &str, d: usize) -> usize {
        self.u64(k, d as u64) as usize
    }
    pub fn has(&self, k: &str) -> bool {
        self.m.contains_key(k)
    }
}

pub fn hi_lo(v: u32) -> Value {
    serde_json::json!([(v >> 16) as i64, (v & 0xFFFF) as i64])
}
