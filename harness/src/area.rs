//! Driver for the semantic model of the editor's area / row / column operations (spec/doc/Area.tla, extends C08).
//!
//! A case = a document (1..3 layers of cells, a selection rectangle or none, a current layer) + 1..3 operations of the PUBLIC
//! `EditState` API.  The trace has one `reset` event with the document before and one `op` event per call with the operation,
//! its result (ok / err / panic + site) and the whole document after it: for every layer size, offset, number of stored rows,
//! protection flags and `Layer::get_char` of every cell; buffer size, current layer, selection.  `Trace_Area.tla` recomputes the
//! model operator on the document before and compares (model layer only).
//!
//! The first event of every trace file (`maps`) carries the glyph mirror maps of flip_x / flip_y per font page, probed through
//! the public API (a row with all 256 codes is flipped once), and the codes whose mirror image differs between font instances
//! (the engine derives the maps from hash-map iteration order); the generators do not use those codes.
//!
//! `--case FILE` runs one hand-written case ({"d": document, "ops": [...]}), `--replay ID` one case of the enumeration.
//!
//! Case sources: (1) the (document, operation) pairs exported by TLC from MC_Area (Gen_Area.cfg), sampled in the quick tier;
//! (2) a family on protected current layers (locked / hidden / alpha-locked) and on layers that store fewer rows than their
//! height; (3) seeded random documents up to 12 x 8 with 1..3 layers and sequences of 1..3 operations.
use crate::util::{guard, panic_site, rng, Args, Out};
use icy_engine::editor::EditState;
use icy_engine::{attribute, AttributedChar, BitFont, Buffer, Layer, Line, Position, Rectangle, TextAttribute, TextPane};
use rand::rngs::StdRng;
use rand::Rng;
use serde_json::{json, Value};
use std::collections::{BTreeMap, BTreeSet};

// ------------------------------------------------------------------------------------------------ cells
fn cell_of(v: &Value) -> AttributedChar {
    match v.as_array() {
        Some(a) if a.len() == 5 => {
            let g = |i: usize| a[i].as_i64().unwrap_or(0);
            let mut at = TextAttribute::new(g(1) as u32, g(2) as u32);
            at.attr = g(3) as u16;
            at.set_font_page(g(4) as usize);
            AttributedChar::new(char::from_u32(g(0) as u32).unwrap_or('?'), at)
        }
        _ => AttributedChar::invisible(),
    }
}

fn cell_json(ch: AttributedChar) -> Value {
    if ch.is_visible() {
        json!([ch.ch as u32, ch.attribute.get_foreground(), ch.attribute.get_background(), ch.attribute.attr, ch.attribute.get_font_page()])
    } else {
        json!([])
    }
}

// ------------------------------------------------------------------------------------------------ documents
/// Realisation details that the model does not see (and that must not matter): how `lock` is realised, ragged rows,
/// cells stored beyond the layer size.
#[derive(Clone, Copy, Default)]
struct Hidden {
    lock_by_hiding: bool,
    ragged: bool,
    beyond: bool,
}

fn build_layer(v: &Value, k: usize, hid: Hidden) -> Layer {
    let gi = |n: &str| v[n].as_i64().unwrap_or(0) as i32;
    let (w, h) = (gi("w"), gi("h"));
    let mut l = Layer::new(format!("layer {k}"), (w, h));
    l.set_offset((gi("ox"), gi("oy")));
    l.lines.clear();
    let nl = gi("nl").max(0) as usize;
    let rows = v["g"].as_array().cloned().unwrap_or_default();
    for y in 0..nl {
        let mut line = Line::new();
        if let Some(r) = rows.get(y).and_then(|r| r.as_array()) {
            for c in r {
                line.chars.push(cell_of(c));
            }
        }
        if hid.ragged {
            while line.chars.last().map(|c| !c.is_visible() && c.get_font_page() == 0).unwrap_or(false) {
                line.chars.pop();
            }
        }
        if hid.beyond && y % 2 == 0 {
            line.chars.resize(w.max(0) as usize, AttributedChar::invisible());
            line.chars.push(AttributedChar::new('#', TextAttribute::new(14, 4)));
        }
        l.lines.push(line);
    }
    if gi("lock") != 0 {
        if hid.lock_by_hiding {
            l.properties.is_visible = false;
        } else {
            l.properties.is_locked = true;
        }
    }
    if gi("al") != 0 {
        l.properties.has_alpha_channel = true;
        l.properties.is_alpha_channel_locked = true;
    } else if k > 0 {
        l.properties.has_alpha_channel = true;
    }
    if gi("pl") != 0 {
        l.properties.is_position_locked = true;
    }
    l
}

fn build(d: &Value, hid: Hidden, page1: bool) -> EditState {
    let gi = |n: &str| d[n].as_i64().unwrap_or(0) as i32;
    let mut buf = Buffer::new((gi("bw").max(1), gi("bh").max(1)));
    buf.layers.clear();
    for (k, l) in d["layers"].as_array().cloned().unwrap_or_default().iter().enumerate() {
        buf.layers.push(build_layer(l, k, hid));
    }
    if page1 {
        buf.set_font(1, font1());
    }
    let mut es = EditState::from_buffer(buf);
    es.set_current_layer(gi("cur").max(0) as usize);
    if let Some(s) = d["sel"].as_array() {
        if s.len() == 4 {
            let g = |i: usize| s[i].as_i64().unwrap_or(0) as i32;
            let _ = es.set_selection(Rectangle::from(g(0), g(1), g(2), g(3)));
        }
    }
    es
}

fn font1() -> BitFont {
    BitFont::from_ansi_font_page(5).unwrap_or_default()
}

fn project(es: &EditState) -> Value {
    let b = es.get_buffer();
    let mut layers = vec![];
    for l in &b.layers {
        let (w, h) = (l.get_width(), l.get_height());
        let mut g = vec![];
        for y in 0..h.clamp(0, 64) {
            let mut row = vec![];
            for x in 0..w.clamp(0, 64) {
                row.push(cell_json(l.get_char((x, y))));
            }
            g.push(Value::Array(row));
        }
        let p = &l.properties;
        layers.push(json!({"w": w, "h": h, "ox": l.get_offset().x, "oy": l.get_offset().y, "nl": l.lines.len(),
            "lock": i32::from(p.is_locked || !p.is_visible), "al": i32::from(p.has_alpha_channel && p.is_alpha_channel_locked),
            "pl": i32::from(p.is_position_locked), "g": g}));
    }
    let sel = match es.get_selection() {
        Some(s) => {
            let r = s.as_rectangle();
            json!([r.start.x, r.start.y, r.size.width, r.size.height])
        }
        None => json!([]),
    };
    json!({"bw": b.get_width(), "bh": b.get_height(), "cur": es.get_current_layer().unwrap_or(0), "sel": sel, "layers": layers})
}

// ------------------------------------------------------------------------------------------------ operations
pub const OPS: [&str; 28] = [
    "justify_left", "justify_right", "center", "flip_x", "flip_y", "justify_line_left", "justify_line_right", "center_line",
    "scroll_area_left", "scroll_area_right", "scroll_area_up", "scroll_area_down", "erase_selection", "erase_row", "erase_row_to_start",
    "erase_row_to_end", "erase_column", "erase_column_to_start", "erase_column_to_end", "delete_row", "insert_row", "delete_column",
    "insert_column", "crop", "set_char", "swap_char", "paste", "stamp_layer_down",
];

fn clipboard(x: i32, y: i32, w: usize, h: usize, g: &Value) -> Vec<u8> {
    // the format of EditState::get_clipboard_data
    let mut data = vec![0u8];
    data.extend(i32::to_le_bytes(x));
    data.extend(i32::to_le_bytes(y));
    data.extend(u32::to_le_bytes(w as u32));
    data.extend(u32::to_le_bytes(h as u32));
    for j in 0..h {
        for i in 0..w {
            let ch = cell_of(&g[j][i]);
            data.extend(u16::to_le_bytes(ch.ch as u16));
            data.extend(u16::to_le_bytes(ch.attribute.attr));
            data.extend(u16::to_le_bytes(ch.attribute.get_font_page() as u16));
            data.extend(u32::to_le_bytes(ch.attribute.get_background()));
            data.extend(u32::to_le_bytes(ch.attribute.get_foreground()));
        }
    }
    data
}

/// One public call; the caret (layer coordinates) is context that the row / column / line operations read.
fn apply(es: &mut EditState, o: &Value) -> Result<(), String> {
    let name = o["op"].as_str().unwrap_or("");
    let a: Vec<i32> = o["a"].as_array().map(|v| v.iter().map(|x| x.as_i64().unwrap_or(0) as i32).collect()).unwrap_or_default();
    let g = |i: usize| a.get(i).copied().unwrap_or(0);
    let caret = |es: &mut EditState, x: i32, y: i32| es.get_caret_mut().set_position(Position::new(x, y));
    let r = match name {
        "justify_left" => es.justify_left(),
        "justify_right" => es.justify_right(),
        "center" => es.center(),
        "flip_x" => es.flip_x(),
        "flip_y" => es.flip_y(),
        "justify_line_left" => { caret(es, 0, g(0)); es.justify_line_left() }
        "justify_line_right" => { caret(es, 0, g(0)); es.justify_line_right() }
        "center_line" => { caret(es, 0, g(0)); es.center_line() }
        "scroll_area_left" => es.scroll_area_left(),
        "scroll_area_right" => es.scroll_area_right(),
        "scroll_area_up" => es.scroll_area_up(),
        "scroll_area_down" => es.scroll_area_down(),
        "erase_selection" => es.erase_selection(),
        "erase_row" => { caret(es, g(0), g(1)); es.erase_row() }
        "erase_row_to_start" => { caret(es, g(0), g(1)); es.erase_row_to_start() }
        "erase_row_to_end" => { caret(es, g(0), g(1)); es.erase_row_to_end() }
        "erase_column" => { caret(es, g(0), g(1)); es.erase_column() }
        "erase_column_to_start" => { caret(es, g(0), g(1)); es.erase_column_to_start() }
        "erase_column_to_end" => { caret(es, g(0), g(1)); es.erase_column_to_end() }
        "delete_row" => { caret(es, 0, g(0)); es.delete_row() }
        "insert_row" => { caret(es, 0, g(0)); es.insert_row() }
        "delete_column" => { caret(es, g(0), 0); es.delete_column() }
        "insert_column" => { caret(es, g(0), 0); es.insert_column() }
        "crop" => es.crop(),
        "set_char" => es.set_char((g(0), g(1)), cell_of(&o["c"])),
        "swap_char" => es.swap_char((g(0), g(1)), (g(2), g(3))),
        "paste" => es.paste_clipboard_data(&clipboard(g(0), g(1), g(2).max(0) as usize, g(3).max(0) as usize, &o["c"])),
        "stamp_layer_down" => es.stamp_layer_down(),
        _ => return Err(format!("unknown operation {name}")),
    };
    r.map_err(|e| e.to_string())
}

// ------------------------------------------------------------------------------------------------ glyph maps
/// The mirror map of one font page, read off one flip of a row / column holding all 256 codes.
fn probe(page: usize, vertical: bool) -> BTreeMap<u32, u32> {
    let mk = |c: u32| {
        let mut at = TextAttribute::new(7, 1);
        at.set_font_page(page);
        AttributedChar::new(char::from_u32(c).unwrap(), at)
    };
    let (w, h) = if vertical { (256, 2) } else { (512, 1) };
    let mut buf = Buffer::new((w, h));
    if page == 1 {
        buf.set_font(1, font1());
    }
    for c in 0..256u32 {
        buf.layers[0].set_char((c as i32, 0), mk(c));
    }
    let mut es = EditState::from_buffer(buf);
    let r = if vertical { es.flip_y() } else { es.flip_x() };
    r.expect("probe flip");
    let mut m = BTreeMap::new();
    for c in 0..256u32 {
        let pos = if vertical { (c as i32, 1) } else { (511 - c as i32, 0) };
        let got = es.get_buffer().layers[0].get_char(pos).ch as u32;
        if got != c {
            m.insert(c, got);
        }
    }
    m
}

pub struct Maps {
    fx: Vec<(usize, u32, u32)>,
    fy: Vec<(usize, u32, u32)>,
    unstable: BTreeSet<(usize, u32)>,
}

fn maps(probes: usize) -> Maps {
    let mut res = Maps { fx: vec![], fy: vec![], unstable: BTreeSet::new() };
    for page in 0..2usize {
        for vertical in [false, true] {
            let first = probe(page, vertical);
            for _ in 1..probes {
                let again = probe(page, vertical);
                for c in 0..256u32 {
                    if first.get(&c) != again.get(&c) {
                        res.unstable.insert((page, c));
                    }
                }
            }
            // structurally ambiguous: a code that is the mirror image of two codes has two candidates for its own image
            for (c, t) in &first {
                if first.iter().any(|(c2, t2)| c2 != c && t2 == t) {
                    res.unstable.insert((page, *t));
                }
            }
            for (c, t) in first {
                if vertical { res.fy.push((page, c, t)); } else { res.fx.push((page, c, t)); }
            }
        }
    }
    res
}

/// Codes the generators do not use: the unstable ones and those whose mirror image is unstable (a second flip would meet it).
fn avoid(m: &Maps) -> BTreeSet<(usize, u32)> {
    let mut a = m.unstable.clone();
    for t in m.fx.iter().chain(m.fy.iter()) {
        if m.unstable.contains(&(t.0, t.2)) {
            a.insert((t.0, t.1));
        }
    }
    a
}

fn maps_event(m: &Maps) -> Value {
    let tr = |v: &Vec<(usize, u32, u32)>| Value::Array(v.iter().filter(|t| !m.unstable.contains(&(t.0, t.1))).map(|t| json!([t.0, t.1, t.2])).collect());
    json!({"ev": "maps", "fx": tr(&m.fx), "fy": tr(&m.fy), "unstable": m.unstable.iter().map(|t| json!([t.0, t.1])).collect::<Vec<_>>()})
}

// ------------------------------------------------------------------------------------------------ cases
#[derive(Clone)]
pub struct Case {
    id: String,
    src: &'static str,
    d: Value,
    ops: Vec<Value>,
    hid: Hidden,
    page1: bool,
}

struct Gen<'a> {
    r: StdRng,
    unstable: &'a BTreeSet<(usize, u32)>,
}

impl Gen<'_> {
    fn cell(&mut self, page1: bool) -> Value {
        // invisible; blanks (space / NUL on background 0); spaces on a coloured background; letters; glyphs with mirror partners
        const MIRROR: [u32; 30] = [47, 92, 40, 41, 60, 62, 91, 93, 123, 125, 112, 113, 180, 195, 191, 218, 192, 217, 220, 223, 187, 201, 188, 200, 24, 25, 30, 31, 33, 173];
        let k = self.r.gen_range(0..100);
        let page = if page1 && self.r.gen_range(0..4) == 0 { 1 } else { 0 };
        let (ch, fg, bg): (u32, u32, u32) = match k {
            0..=29 => return json!([]),
            30..=39 => (32, 7, 0),
            40..=42 => (0, 7, 0),
            43..=47 => (32, self.r.gen_range(0..16), self.r.gen_range(1..8)),
            48..=69 => (self.r.gen_range(65..91), self.r.gen_range(0..16), self.r.gen_range(0..8)),
            70..=89 => (MIRROR[self.r.gen_range(0..MIRROR.len())], self.r.gen_range(0..16), self.r.gen_range(0..8)),
            _ => (self.r.gen_range(1..256), self.r.gen_range(0..16), self.r.gen_range(0..8)),
        };
        let ch = if self.unstable.contains(&(page, ch)) { 65 } else { ch };
        let attr = match self.r.gen_range(0..8) { 0 => attribute::BOLD, 1 => attribute::BLINK, 2 => attribute::UNDERLINE | attribute::ITALIC, _ => 0 };
        json!([ch, fg, bg, attr, page])
    }

    fn grid(&mut self, w: i32, h: i32, page1: bool) -> Value {
        // rows are drawn from a few shapes so that justify / center meet leading, trailing and inner blanks and full rows
        let mut rows = vec![];
        for _ in 0..h {
            let shape = self.r.gen_range(0..8);
            let (lead, trail) = match shape {
                0 => (0, 0),
                1 => (self.r.gen_range(0..=w), 0),
                2 => (0, self.r.gen_range(0..=w)),
                3 | 4 => (self.r.gen_range(0..=w / 2), self.r.gen_range(0..=w / 2)),
                _ => (-1, -1),
            };
            let mut row = vec![];
            for x in 0..w {
                let c = if lead < 0 { self.cell(page1) } else if x < lead || x >= w - trail {
                    match self.r.gen_range(0..3) { 0 => json!([32, 7, 0, 0, 0]), _ => json!([]) }
                } else if shape == 0 || self.r.gen_range(0..5) > 0 {
                    let mut c = self.cell(page1);
                    while c.as_array().map(|a| a.is_empty() || (a[0] == 32 || a[0] == 0) && a[2] == 0).unwrap_or(true) { c = self.cell(page1); }
                    c
                } else { self.cell(page1) };
                row.push(c);
            }
            rows.push(Value::Array(row));
        }
        Value::Array(rows)
    }

    fn layer(&mut self, w: i32, h: i32, ox: i32, oy: i32, page1: bool, prot: u32) -> Value {
        let g = self.grid(w, h, page1);
        // most layers store all their rows; some fewer (a cleared layer that was drawn on), few one more
        let nl = match self.r.gen_range(0..12) { 0 => self.r.gen_range(0..=h), 1 => h + 1, _ => h };
        let mut g = g;
        if nl < h {
            for y in nl..h { g[y as usize] = Value::Array((0..w).map(|_| json!([])).collect()); }
        }
        json!({"w": w, "h": h, "ox": ox, "oy": oy, "nl": nl, "lock": i32::from(prot == 1), "al": i32::from(prot == 2), "pl": i32::from(prot == 3), "g": g})
    }

    fn selection(&mut self, l: &Value) -> Value {
        let gi = |n: &str| l[n].as_i64().unwrap_or(0) as i32;
        let (w, h, ox, oy) = (gi("w"), gi("h"), gi("ox"), gi("oy"));
        if w < 1 || h < 1 { return json!([]); }
        match self.r.gen_range(0..100) {
            0..=19 => json!([]),
            20..=64 => { // inside the layer
                let x = self.r.gen_range(0..w); let y = self.r.gen_range(0..h);
                json!([ox + x, oy + y, self.r.gen_range(1..=w - x), self.r.gen_range(1..=h - y)])
            }
            65..=76 => { // full width, some rows
                let y = self.r.gen_range(0..h);
                json!([ox, oy + y, w, self.r.gen_range(1..=h - y)])
            }
            77..=91 => { // overhanging
                let x = self.r.gen_range(-2..w); let y = self.r.gen_range(-2..h);
                json!([ox + x, oy + y, self.r.gen_range(1..=w + 3), self.r.gen_range(1..=h + 3)])
            }
            92..=94 => json!([ox + self.r.gen_range(0..=w), oy + self.r.gen_range(0..=h), self.r.gen_range(0..2), self.r.gen_range(0..2)]), // empty / tiny
            95..=96 => json!([ox + w, oy, 2, h]),          // touching
            _ => match self.r.gen_range(0..3) {            // apart from the layer
                0 => json!([ox + w + 1 + self.r.gen_range(0..3), oy, 2, 2]),
                1 => json!([ox, oy - 3 - self.r.gen_range(0..3), w, 2]),
                _ => json!([ox - 4, oy + h + 1, 2, 2]),
            },
        }
    }

    fn op(&mut self, name: &str, l: &Value, page1: bool) -> Value {
        let gi = |n: &str| l[n].as_i64().unwrap_or(0) as i32;
        let (w, h) = (gi("w").max(1), gi("h").max(1));
        let edge = self.r.gen_range(0..10) == 0;
        let a: Vec<i32> = match name {
            "justify_line_left" | "justify_line_right" | "center_line" => vec![if edge { [-1, h, -2, h + 1][self.r.gen_range(0..4)] } else { self.r.gen_range(0..h) }],
            "erase_row" | "erase_row_to_start" | "erase_row_to_end" | "erase_column" | "erase_column_to_start" | "erase_column_to_end" =>
                if edge { vec![self.r.gen_range(-1..=w), self.r.gen_range(-1..=h)] } else { vec![self.r.gen_range(0..w), self.r.gen_range(0..h)] },
            "delete_row" | "insert_row" => vec![if edge { h } else { self.r.gen_range(0..h) }],
            "delete_column" | "insert_column" => vec![if edge { w } else { self.r.gen_range(0..w) }],
            "set_char" => if edge { vec![self.r.gen_range(-1..=w), self.r.gen_range(-1..=h)] } else { vec![self.r.gen_range(0..w), self.r.gen_range(0..h)] },
            "swap_char" => vec![self.r.gen_range(0..w), self.r.gen_range(0..h), if edge { w } else { self.r.gen_range(0..w) }, self.r.gen_range(0..h)],
            "paste" => vec![self.r.gen_range(-1..4), self.r.gen_range(-1..3), self.r.gen_range(1..4), self.r.gen_range(1..3)],
            _ => vec![],
        };
        let c = match name {
            "set_char" => self.cell(page1),
            "paste" => self.grid(a[2], a[3], page1),
            _ => json!([]),
        };
        json!({"op": name, "a": a, "c": c})
    }
}

fn tlc_cases(path: &str, seed: u64, thorough: bool, out: &mut Vec<Case>) {
    let Ok(text) = std::fs::read_to_string(path) else { return };
    for (i, line) in text.lines().enumerate() {
        let Ok(v) = serde_json::from_str::<Value>(line) else { continue };
        if v.get("d").is_none() { continue; }
        // quick tier: a seeded sixth of the exported pairs
        let h = (i as u64).wrapping_mul(0x9E37_79B9_7F4A_7C15).wrapping_add(seed.wrapping_mul(0xD1B5_4A32_D192_ED03)) >> 33;
        if !thorough && h % 6 != 0 { continue; }
        let hid = Hidden { ragged: h % 5 == 1, ..Default::default() };
        out.push(Case { id: format!("tlc{i}"), src: "tlc", d: v["d"].clone(), ops: vec![v["o"].clone()], hid, page1: false });
    }
}

fn random_cases(seed: u64, n: usize, prot_family: bool, unstable: &BTreeSet<(usize, u32)>, out: &mut Vec<Case>) {
    for k in 0..n {
        let mut g = Gen { r: rng(seed, if prot_family { 0xA2EA_0000 } else { 0xA2EA_8000_0000 } + k as u64), unstable };
        let page1 = g.r.gen_range(0..6) == 0;
        let small = g.r.gen_range(0..3) == 0;
        let (bw, bh) = if small { (g.r.gen_range(1..5), g.r.gen_range(1..4)) } else { (g.r.gen_range(2..13), g.r.gen_range(1..9)) };
        let nlayers = if prot_family { g.r.gen_range(1..3) } else { [1, 1, 2, 2, 3][g.r.gen_range(0..5)] };
        let cur = g.r.gen_range(0..nlayers);
        let mut layers = vec![];
        for i in 0..nlayers {
            let prot = if prot_family && i == cur { g.r.gen_range(1..3) } else if !prot_family && i != cur && g.r.gen_range(0..6) == 0 { g.r.gen_range(1..4) } else { 0 };
            if i == 0 && g.r.gen_range(0..4) > 0 {
                layers.push(g.layer(bw, bh, 0, 0, page1, prot));
            } else {
                let (w, h) = (g.r.gen_range(1..=bw.min(8)), g.r.gen_range(1..=bh));
                let (ox, oy) = (g.r.gen_range(-2..5), g.r.gen_range(-2..4));
                layers.push(g.layer(w, h, ox, oy, page1, prot));
            }
        }
        let sel = g.selection(&layers[cur]);
        let d = json!({"bw": bw, "bh": bh, "cur": cur, "sel": sel, "layers": layers});
        let nops = g.r.gen_range(1..4);
        let mut ops = vec![];
        for _ in 0..nops {
            ops.push(json!({"op": OPS[g.r.gen_range(0..OPS.len())]}));       // arguments are drawn when the operation is due
        }
        let hid = Hidden { lock_by_hiding: g.r.gen_range(0..2) == 0, ragged: g.r.gen_range(0..3) == 0, beyond: g.r.gen_range(0..5) == 0 };
        out.push(Case { id: format!("{}{k}", if prot_family { "prot" } else { "rnd" }), src: if prot_family { "prot" } else { "rnd" }, d, ops, hid, page1 });
    }
}

#[derive(Default)]
pub struct Stats {
    cases: usize,
    ok: usize,
    err: usize,
    panic: usize,
    per_op: BTreeMap<String, usize>,
    sites: BTreeMap<String, usize>,
}

fn run_case(c: &Case, seed: u64, k: usize, unstable: &BTreeSet<(usize, u32)>, out: &mut Out, st: &mut Stats) {
    let mut es = build(&c.d, c.hid, c.page1);
    // the document as the engine shows it (not as it was asked for) is the `before` of the first operation
    out.ev(&json!({"ev": "reset", "case": c.id, "src": c.src, "d": project(&es)}));
    st.cases += 1;
    let mut g = Gen { r: rng(seed, 0x0A2E_A000_0000 + k as u64), unstable };
    for o in &c.ops {
        let before = project(&es);
        let nl = before["layers"].as_array().map(|l| l.len()).unwrap_or(0);
        if nl == 0 {
            break;
        }
        let cur = before["cur"].as_u64().unwrap_or(0) as usize;
        let l = &before["layers"][cur.min(nl - 1)];
        let mut o = o.clone();
        let name = o["op"].as_str().unwrap_or("").to_string();
        if o.get("a").is_none() {
            // random case: keep the operations inside their domain (a row / column can only be deleted where there is one)
            let (w, h) = (l["w"].as_i64().unwrap_or(0), l["h"].as_i64().unwrap_or(0));
            if (name == "delete_row" && h < 1) || (name == "delete_column" && w < 1) {
                continue;
            }
            if name != "erase_selection" && name != "crop" && g.r.gen_range(0..3) == 0 {
                let _ = es.set_selection(sel_rect(&g.selection(l)));
            }
            o = g.op(&name, l, c.page1);
            if name == "stamp_layer_down" && cur == 0 && g.r.gen_range(0..4) > 0 {
                continue;
            }
        }
        let sel_before = project(&es)["sel"].clone();
        let res = guard(|| apply(&mut es, &o));
        let (r, site, msg) = match &res {
            Ok(Ok(())) => ("ok", None, None),
            Ok(Err(e)) => ("err", None, Some(e.clone())),
            Err(p) => ("panic", Some(panic_site(p)), Some(p.msg.chars().take(80).collect::<String>())),
        };
        let mut ev = json!({"ev": "op", "o": o, "sel": sel_before, "r": r, "d": project(&es)});
        if let Some(s) = site {
            *st.sites.entry(s.clone()).or_default() += 1;
            ev["site"] = json!(s);
        }
        if let Some(m) = msg {
            ev["msg"] = json!(m);
        }
        out.ev(&ev);
        match r { "ok" => st.ok += 1, "err" => st.err += 1, _ => st.panic += 1 }
        if r == "ok" {
            *st.per_op.entry(name).or_default() += 1;
        }
        if r == "panic" {
            break;
        }
    }
}

fn sel_rect(v: &Value) -> Rectangle {
    let g = |i: usize| v[i].as_i64().unwrap_or(0) as i32;
    if v.as_array().map(|a| a.len() == 4).unwrap_or(false) { Rectangle::from(g(0), g(1), g(2), g(3)) } else { Rectangle::from(0, 0, 0, 0) }
}

pub fn area(a: &Args) {
    crate::util::install_panic_hook();
    let out = a.str("out", "work/C08-area/area.ndjson");
    let seed = a.u64("seed", 0);
    let thorough = a.str("tier", "quick") == "thorough";
    let shards = a.usize("shards", 4).max(1);
    let m = maps(if thorough { 8 } else { 6 });
    let av = avoid(&m);
    let mut cases = vec![];
    tlc_cases(&a.str("gen", "gen/area_cases.ndjson"), seed, thorough, &mut cases);
    let n_tlc = cases.len();
    random_cases(seed, a.usize("prot", if thorough { 6000 } else { 1200 }), true, &av, &mut cases);
    random_cases(seed, a.usize("random", if thorough { 40000 } else { 4000 }), false, &av, &mut cases);
    if a.has("replay") {
        // --replay ID: only that case of the enumeration
        let id = a.str("replay", "");
        cases.retain(|c| c.id == id);
    }
    if a.has("case") {
        // --case FILE: one hand-written case {"d": document, "ops": [operation ...], "page1": 0/1}
        let v: Value = serde_json::from_str(&std::fs::read_to_string(a.str("case", "")).expect("case file")).expect("case json");
        cases = vec![Case { id: "case".into(), src: "file", d: v["d"].clone(), ops: v["ops"].as_array().cloned().unwrap_or_default(), hid: Hidden::default(), page1: v["page1"].as_i64().unwrap_or(0) != 0 }];
    }
    let cases = std::sync::Arc::new(cases);
    let m = std::sync::Arc::new(m);
    let av = std::sync::Arc::new(av);
    let mut handles = vec![];
    for s in 0..shards {
        let cases = cases.clone();
        let m = m.clone();
        let av = av.clone();
        let path = out.replace(".ndjson", &format!("-s{s}.ndjson"));
        handles.push(std::thread::Builder::new().name("main".into()).stack_size(64 << 20).spawn(move || {
            let mut o = Out::create(&path);
            let mut st = Stats::default();
            o.ev(&maps_event(&m));
            for (i, c) in cases.iter().enumerate() {
                if i % shards != s { continue; }
                run_case(c, seed, i, &av, &mut o, &mut st);
            }
            o.flush();
            (st, o.n)
        }).unwrap());
    }
    let mut total = Stats::default();
    let mut events = 0;
    for h in handles {
        let (st, n) = h.join().expect("driver thread");
        total.cases += st.cases; total.ok += st.ok; total.err += st.err; total.panic += st.panic;
        for (k, v) in st.per_op { *total.per_op.entry(k).or_default() += v; }
        for (k, v) in st.sites { *total.sites.entry(k).or_default() += v; }
        events += n;
    }
    let never: Vec<&str> = OPS.iter().copied().filter(|n| !total.per_op.contains_key(*n)).collect();
    let summary = json!({"cases": total.cases, "tlc_cases": n_tlc, "events": events, "ops_ok": total.ok, "ops_err": total.err, "ops_panic": total.panic,
        "ops_ok_by_name": total.per_op, "operations_never_ok": never, "panic_sites": total.sites,
        "unstable_glyphs": m.unstable.iter().map(|t| json!([t.0, t.1])).collect::<Vec<_>>(), "flipx_pairs": m.fx.len(), "flipy_pairs": m.fy.len()});
    std::fs::write(out.replace(".ndjson", "-summary.json"), serde_json::to_string_pretty(&summary).unwrap()).expect("summary");
    eprintln!("area: {} cases ({} from TLC), {} events, ops ok/err/panic = {}/{}/{}, unstable glyph codes {:?}", total.cases, n_tlc, events, total.ok, total.err, total.panic, m.unstable);
}
