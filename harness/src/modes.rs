//! Driver for spec/doc/Modes.tla (model layer): the editor's document-wide conversions - `EditState::set_ice_mode`,
//! `replace_font_usage`, `change_font_slot`, `remove_font` - on small documents (one or two layers of a few cells over a
//! complete glyph x colour x blink domain, a caret attribute, default font pages, a set of occupied font slots), with undo / redo
//! after every call.  The state recorded is what the public API shows.
use crate::util::{guard, panic_site, rng, Args, Out};
use icy_engine::editor::{EditState, UndoState};
use icy_engine::{attribute, AttributedChar, BitFont, Buffer, IceMode, Layer, TextAttribute, TextPane};
use rand::Rng;
use serde_json::{json, Value};

fn ice_name(m: IceMode) -> &'static str {
    match m { IceMode::Unlimited => "unlimited", IceMode::Blink => "blink", IceMode::Ice => "ice" }
}

fn attr_json(a: TextAttribute) -> Value {
    json!([a.get_foreground(), a.get_background(), i32::from(a.is_blinking()), a.get_font_page()])
}

const SLOTS: [usize; 6] = [0, 1, 2, 3, 7, 100];

fn state(es: &EditState) -> Value {
    let b = es.get_buffer();
    let mut cells = vec![];
    let mut defpages = vec![];
    for l in &b.layers {
        defpages.push(l.default_font_page);
        for y in 0..l.get_height() {
            for x in 0..l.get_width() {
                let c = l.get_char((x, y));
                cells.push(json!([c.ch as u32, c.attribute.get_foreground(), c.attribute.get_background(), i32::from(c.attribute.is_blinking()), c.attribute.get_font_page()]));
            }
        }
    }
    let slots: Vec<usize> = SLOTS.iter().copied().filter(|s| b.has_font(*s)).collect();
    json!({"ice": ice_name(b.ice_mode), "cells": cells, "caret": attr_json(es.get_caret().get_attribute()), "defpages": defpages, "slots": slots, "ul": es.undo_stack_len()})
}

fn mk_cell(ch: u32, fg: u32, bg: u32, blink: bool, page: usize) -> AttributedChar {
    let mut a = TextAttribute::new(fg, bg);
    if blink { a.attr |= attribute::BLINK; }
    a.set_font_page(page);
    AttributedChar::new(char::from_u32(ch).unwrap(), a)
}

pub fn modes(a: &Args) {
    crate::util::install_panic_hook();
    let mut out = Out::create(&a.str("out", "work/C08-modes/modes.ndjson"));
    let seed = a.u64("seed", 0);
    let thorough = a.str("tier", "quick") == "thorough";
    let glyphs: [u32; 13] = [0, 32, 65, 176, 177, 178, 219, 220, 221, 222, 223, 255, 254];
    let cols: Vec<u32> = if thorough { (0..18).collect() } else { vec![0, 1, 7, 8, 9, 15, 16, 17] };
    // (1) ice conversions: every glyph x fg x bg x blink as one document per (glyph, blink), both directions and back
    let mut calls = 0;
    for &g in &glyphs {
        for blink in [false, true] {
            for (ci, caret) in [(7u32, 0u32, false), (7, 9, false), (1, 3, true), (15, 12, true), (7, 16, false)].iter().enumerate() {
                let n = (cols.len() * cols.len()) as i32;
                let mut buf = Buffer::new((n, 1));
                let mut k = 0;
                for &fg in &cols { for &bg in &cols {
                    buf.layers[0].set_char((k, 0), mk_cell(g, fg, bg, blink, 0));
                    k += 1;
                }}
                let mut es = EditState::from_buffer(buf);
                let mut ca = TextAttribute::new(caret.0, caret.1);
                if caret.2 { ca.attr |= attribute::BLINK; }
                es.get_caret_mut().set_attr(ca);
                out.ev(&json!({"ev": "reset", "case": format!("ice-{g}-{blink}-{ci}"), "st": state(&es)}));
                let seqs: [&[&str]; 3] = [&["blink", "undo", "redo", "ice", "undo", "undo"], &["ice", "blink", "ice", "undo", "redo"], &["unlimited", "blink", "blink", "ice"]];
                for op in seqs[ci % 3] {
                    let r = guard(|| match *op {
                        "undo" => es.undo(),
                        "redo" => es.redo(),
                        "blink" => es.set_ice_mode(IceMode::Blink),
                        "ice" => es.set_ice_mode(IceMode::Ice),
                        _ => es.set_ice_mode(IceMode::Unlimited),
                    });
                    calls += 1;
                    let (rr, site) = match &r { Ok(Ok(())) => ("ok", String::new()), Ok(Err(e)) => ("err", e.to_string()), Err(p) => ("panic", panic_site(p)) };
                    out.ev(&json!({"ev": "op", "o": {"op": if *op == "undo" || *op == "redo" { *op } else { "set_ice_mode" }, "a": [*op]}, "r": rr, "site": site, "st": state(&es)}));
                    if rr == "panic" { break; }
                }
            }
        }
    }
    // (2) font usage: documents of 1..=2 layers with cells on pages 0..3, caret page, default pages, occupied slots; random calls
    let mut r = rng(seed, 91);
    for case in 0..(if thorough { 6000 } else { 1200 }) {
        let nl = r.gen_range(1..=2);
        let mut buf = Buffer::new((3, 1));
        buf.layers.clear();
        for li in 0..nl {
            let mut l = Layer::new(format!("l{li}"), (3, 1));
            l.default_font_page = [0usize, 0, 1, 2, 7][r.gen_range(0..5)];
            for x in 0..3 {
                if r.gen_bool(0.8) {
                    l.set_char((x, 0), mk_cell(65 + x as u32, 7, 0, false, [0usize, 1, 2, 3, 7, 100][r.gen_range(0..6)]));
                }
            }
            buf.layers.push(l);
        }
        for s in SLOTS { if s != 0 && r.gen_bool(0.4) { buf.set_font(s, BitFont::default()); } }
        if r.gen_range(0..8) == 0 { buf.remove_font(0); }
        let mut es = EditState::from_buffer(buf);
        es.get_caret_mut().set_font_page([0usize, 1, 2, 7][r.gen_range(0..4)]);
        out.ev(&json!({"ev": "reset", "case": format!("font-{case}"), "st": state(&es)}));
        for _ in 0..r.gen_range(1..6) {
            let pick = |r: &mut rand::rngs::StdRng| [0usize, 1, 2, 3, 7, 100][r.gen_range(0..6)];
            let (name, args): (&str, Vec<usize>) = match r.gen_range(0..8) {
                0 | 1 => ("replace_font_usage", vec![pick(&mut r), pick(&mut r)]),
                2 | 3 => ("change_font_slot", vec![pick(&mut r), pick(&mut r)]),
                4 => ("remove_font", vec![pick(&mut r)]),
                5 | 6 => ("undo", vec![]),
                _ => ("redo", vec![]),
            };
            let res = guard(|| match name {
                "replace_font_usage" => es.replace_font_usage(args[0], args[1]),
                "change_font_slot" => es.change_font_slot(args[0], args[1]),
                "remove_font" => es.remove_font(args[0]),
                "undo" => es.undo(),
                _ => es.redo(),
            });
            calls += 1;
            let (rr, site) = match &res { Ok(Ok(())) => ("ok", String::new()), Ok(Err(e)) => ("err", e.to_string()), Err(p) => ("panic", panic_site(p)) };
            out.ev(&json!({"ev": "op", "o": {"op": name, "a": args}, "r": rr, "site": site, "st": state(&es)}));
            if rr == "panic" { break; }
        }
    }
    out.flush();
    eprintln!("modes: {calls} calls, {} events", out.n);
}
