//! C02 driver: loaders on arbitrary, truncated and corrupted files.
//!
//! Seeds are files produced by the engine's own writers (every format, with/without SAUCE and comments).  The case
//! list is deterministic (seed files x mutations + random inputs); one event per load.  `--start K` resumes after a
//! case that killed the process (abort / hang), as in the term driver.
use crate::util::{guard, panic_site, rng, Args, Out};
use base64::{engine::general_purpose, Engine};
use icy_engine::{AttributedChar, BitFont, Buffer, Palette, PaletteFormat, SauceData, SaveOptions, TextAttribute, TextPane, TheDrawFont};
use rand::Rng;
use serde_json::{json, Value};
use std::path::Path;
use std::sync::atomic::{AtomicU64, Ordering};
use std::sync::Arc;
use std::time::{Duration, Instant};

pub const EXTS: [&str; 24] = ["ans", "ice", "diz", "icy", "idf", "bin", "xb", "tnd", "pcb", "avt", "asc", "adf", "msg", "an1", "an5", "an9", "seq", "ata", "nfo", "txt", "zzz", "", "psf", "tdf"];

fn doc(w: i32, h: i32, variant: u64) -> Buffer {
    let mut buf = Buffer::new((w, h));
    let mut r = rng(variant, 555);
    for y in 0..h {
        for x in 0..w {
            if r.gen_bool(0.6) {
                let mut at = TextAttribute::new(r.gen_range(0..16), r.gen_range(0..8));
                if variant % 3 == 1 && r.gen_bool(0.1) { at.set_is_blinking(true); }
                let ch = match r.gen_range(0..6) { 0 => ' ', 1 => '\u{00DB}', 2 => 'A', _ => char::from_u32(r.gen_range(33..255)).unwrap_or('x') };
                buf.layers[0].set_char((x, y), AttributedChar::new(ch, at));
            }
        }
    }
    buf
}

pub struct Seed {
    pub name: String,
    pub ext: String,
    pub bytes: Vec<u8>,
}

/// Seed files from the engine's own writers.
pub fn seeds() -> Vec<Seed> {
    let mut res = vec![];
    let fmts = ["ans", "icy", "idf", "bin", "xb", "tnd", "pcb", "avt", "asc", "adf", "msg", "an1", "seq", "ata"];
    for (fi, ext) in fmts.iter().enumerate() {
        for variant in 0..4u64 {
            let (w, h) = match (*ext, variant) {
                ("adf" | "idf", _) => (80, 2 + variant as i32),
                ("ata", _) => (40, 3),
                ("bin", _) => (80, 2),
                ("seq", _) => (40, 3),
                (_, 0) => (8, 3),
                (_, 1) => (80, 2),
                (_, 2) => (3, 1),
                _ => (16, 4),
            };
            let mut b = doc(w, h, fi as u64 * 10 + variant);
            if *ext == "ata" {
                // the ATASCII writer only takes 7-bit characters
                for y in 0..h { for x in 0..w { let mut c = b.layers[0].get_char((x, y)); if c.is_visible() { c.ch = char::from_u32(0x20 + (c.ch as u32 % 0x5F)).unwrap(); b.layers[0].set_char((x, y), c); } } }
            }
            match *ext {
                "idf" | "adf" => b.ice_mode = icy_engine::IceMode::Ice,
                "seq" => b.buffer_type = icy_engine::BufferType::Petscii,
                "ata" => b.buffer_type = icy_engine::BufferType::Atascii,
                _ => {}
            }
            let mut o = SaveOptions::new();
            o.lossles_output = true;
            o.compress = variant % 2 == 0;
            o.save_sauce = variant >= 2 || *ext == "bin";
            if variant == 3 {
                let mut s = SauceData::default();
                s.title = icy_engine::SauceString::from("title");
                s.author = icy_engine::SauceString::from("author");
                s.comments.push(icy_engine::SauceString::from("a comment"));
                s.comments.push(icy_engine::SauceString::from("another"));
                s.buffer_size = b.get_size();
                b.set_sauce(Some(s), false);
            }
            if *ext == "icy" && variant % 2 == 1 {
                // optional chunks are only written when there is something to say: a non-default palette (PALETTE chunk), a second font
                b.palette.set_color(3, icy_engine::Color::new(1, 2, 3));
                b.palette.title = "a palette".to_string();
                b.set_font(1, BitFont::default());
            }
            if *ext == "xb" && variant == 1 {
                b.set_font(1, BitFont::default());
                b.font_mode = icy_engine::FontMode::FixedSize;
            }
            match guard(|| b.to_bytes(ext, &o)) {
                Ok(Ok(bytes)) => res.push(Seed { name: format!("{ext}-v{variant}"), ext: (*ext).to_string(), bytes }),
                Ok(Err(e)) => { if std::env::var("VERIF_DEBUG").is_ok() { eprintln!("seed {ext}-v{variant}: {e}"); } }
                Err(p) => { if std::env::var("VERIF_DEBUG").is_ok() { eprintln!("seed {ext}-v{variant}: panic {}", panic_site(&p)); } }
            }
        }
    }
    // XBin files that carry their optional blocks: custom palette, custom 8x8 / 8x14 / 8x16 font, two fonts (512-character mode)
    for (k, fh, two, pal) in [(4u64, 8u8, false, true), (5, 16, true, false), (6, 14, false, false), (7, 16, true, true)] {
        let mut b = doc(8, 3, 40 + k);
        let glyphs: Vec<u8> = (0..256usize * fh as usize).map(|i| (i * 7 + k as usize) as u8).collect();
        b.set_font(0, BitFont::create_8(format!("F{k}"), 8, fh, &glyphs));
        if two {
            b.set_font(1, BitFont::create_8(format!("G{k}"), 8, fh, &glyphs.iter().map(|x| !x).collect::<Vec<u8>>()));
            b.font_mode = icy_engine::FontMode::FixedSize;
            let mut c = b.layers[0].get_char((1, 1));
            c.ch = 'B';
            c.attribute.set_font_page(1);
            b.layers[0].set_char((1, 1), c);
        }
        if pal { b.palette.set_color(3, icy_engine::Color::new(1, 2, 3)); }
        let mut o = SaveOptions::new();
        o.compress = k % 2 == 0;
        o.save_sauce = k == 7;
        match guard(|| b.to_bytes("xb", &o)) {
            Ok(Ok(bytes)) => res.push(Seed { name: format!("xb-v{k}"), ext: "xb".into(), bytes }),
            Ok(Err(e)) => { if std::env::var("VERIF_DEBUG").is_ok() { eprintln!("seed xb-v{k}: {e}"); } }
            Err(p) => { if std::env::var("VERIF_DEBUG").is_ok() { eprintln!("seed xb-v{k}: panic {}", panic_site(&p)); } }
        }
    }
    // the PETSCII writer is not implemented: hand-written .seq content
    res.push(Seed { name: "seq-hand".into(), ext: "seq".into(), bytes: b"\x93\x05HELLO\x0d\x12REV\x92 \x1c\x9f\x11\x1d\x9d\x91\x13\x0e\x8e\x14A".to_vec() });
    // fonts and TheDraw fonts
    if let Ok(Ok(p)) = guard(|| BitFont::default().to_psf2_bytes()) { res.push(Seed { name: "psf2".into(), ext: "psf".into(), bytes: p }); }
    let mut psf1 = vec![0x36, 0x04, 0, 8];
    psf1.extend(std::iter::repeat(0x55).take(256 * 8));
    res.push(Seed { name: "psf1".into(), ext: "psf".into(), bytes: psf1 });
    res.push(Seed { name: "raw-f08".into(), ext: "psf".into(), bytes: vec![0xAA; 256 * 8] });
    for t in 0..3 {
        let mut f = TheDrawFont::new(format!("FONT{t}"), match t { 0 => icy_engine::FontType::Outline, 1 => icy_engine::FontType::Block, _ => icy_engine::FontType::Color }, 1);
        let g = icy_engine::FontGlyph { size: (2, 2).into(), data: if t == 2 { vec![65, 7, 66, 7, 13, 67, 7, 68, 7] } else { vec![65, 66, 13, 67, 68] } };
        f.set_glyph('A', g.clone());
        f.set_glyph('~', g);
        if let Ok(Ok(bytes)) = guard(|| TheDrawFont::create_font_bundle(&[f.clone(), f.clone()])) { res.push(Seed { name: format!("tdf-{t}"), ext: "tdf".into(), bytes }); }
    }
    // palettes
    let pal = Palette::dos_default();
    for (n, f) in [("hex", PaletteFormat::Hex), ("pal", PaletteFormat::Pal), ("gpl", PaletteFormat::Gpl), ("ice", PaletteFormat::Ice), ("txt", PaletteFormat::Txt)] {
        res.push(Seed { name: format!("palette-{n}"), ext: format!("pal:{n}"), bytes: pal.export_palette(&f) });
    }
    // every variant of PaletteFormat is an entry point for arbitrary bytes, also the one without a writer
    res.push(Seed { name: "palette-ase".into(), ext: "pal:ase".into(), bytes: b"ASEF\x00\x01\x00\x00\x00\x00\x00\x01\x00\x01\x00\x00\x00\x16\x00\x02\x00r\x00\x00RGB \x3f\x80\x00\x00\x00\x00\x00\x00\x00\x00\x00\x00\x00\x00".to_vec() });
    res
}

fn pal_format(n: &str) -> PaletteFormat {
    match n { "hex" => PaletteFormat::Hex, "pal" => PaletteFormat::Pal, "gpl" => PaletteFormat::Gpl, "ice" => PaletteFormat::Ice, "ase" => PaletteFormat::Ase, _ => PaletteFormat::Txt }
}

/// One load through the entry point that belongs to `ext`. Returns (outcome, detail).
fn load(ext: &str, bytes: &[u8]) -> Value {
    let t0 = Instant::now();
    let mut v = if ext == "psf" {
        match guard(|| BitFont::from_bytes("f", bytes)) {
            Ok(Ok(f)) => json!({"r":"ok","w":f.size.width,"h":f.size.height,"n":f.length}),
            Ok(Err(_)) => json!({"r":"err"}),
            Err(p) => json!({"r":"panic","site":panic_site(&p)}),
        }
    } else if ext == "tdf" {
        match guard(|| TheDrawFont::from_tdf_bytes(bytes)) {
            Ok(Ok(f)) => json!({"r":"ok","n":f.len()}),
            Ok(Err(_)) => json!({"r":"err"}),
            Err(p) => json!({"r":"panic","site":panic_site(&p)}),
        }
    } else if let Some(n) = ext.strip_prefix("pal:") {
        match guard(|| Palette::load_palette(&pal_format(n), bytes)) {
            Ok(Ok(p)) => json!({"r":"ok","n":p.len()}),
            Ok(Err(_)) => json!({"r":"err"}),
            Err(p) => json!({"r":"panic","site":panic_site(&p)}),
        }
    } else if ext == "sauce" {
        match guard(|| SauceData::extract(bytes)) {
            Ok(Ok(Some(s))) => json!({"r":"ok","n":s.comments.len(),"hdr":s.sauce_header_len}),
            Ok(Ok(None)) => json!({"r":"ok","n":-1}),
            Ok(Err(_)) => json!({"r":"err"}),
            Err(p) => json!({"r":"panic","site":panic_site(&p)}),
        }
    } else {
        let name = if ext.is_empty() { "noext".to_string() } else { format!("f.{ext}") };
        match guard(|| Buffer::from_bytes(Path::new(&name), true, bytes)) {
            Ok(Ok(b)) => json!({"r":"ok","w":b.get_width(),"h":b.get_height(),"n":b.layers.len()}),
            Ok(Err(_)) => json!({"r":"err"}),
            Err(p) => json!({"r":"panic","site":panic_site(&p)}),
        }
    };
    v["ms"] = json!(t0.elapsed().as_millis() as u64);
    v
}

pub struct LCase {
    pub ext: String,
    pub seed: String,
    pub mutation: String,
    pub bytes: Vec<u8>,
}

/// Deterministic case list.
pub fn cases(seed: u64, thorough: bool, faults: &[Value]) -> Vec<LCase> {
    let mut out = vec![];
    let sds = seeds();
    let mut r = rng(seed, 4711);
    for s in &sds {
        let n = s.bytes.len();
        let is_file = !(s.ext == "psf" || s.ext == "tdf" || s.ext.starts_with("pal:"));
        let push = |out: &mut Vec<LCase>, m: String, b: Vec<u8>| {
            out.push(LCase { ext: s.ext.clone(), seed: s.name.clone(), mutation: m.clone(), bytes: b.clone() });
            if is_file {
                // the SAUCE extractor sees every file as well
                out.push(LCase { ext: "sauce".into(), seed: s.name.clone(), mutation: m, bytes: b });
            }
        };
        // every truncation (strided for big files in the quick tier)
        let stride = if n > 1500 && !thorough { (n / 700).max(1) } else { 1 };
        let mut k = 0;
        while k <= n {
            push(&mut out, format!("trunc:{k}"), s.bytes[..k].to_vec());
            k += if k < 160 || k + 160 > n { 1 } else { stride };
        }
        // text formats carry their numbers as decimal / hex digit strings: every digit run of the first 4 KiB replaced by the
        // extremes of every integer width (a count, a size or an index that is parsed and then trusted), also for the text
        // chunks inside an IcyDraw file (re-wrapped below) and the SAUCE-less text art seeds
        if s.bytes.iter().take(4096).filter(|b| b.is_ascii_graphic() || b.is_ascii_whitespace()).count() * 10 >= s.bytes.len().min(4096) * 9 {
            let head = &s.bytes[..n.min(4096)];
            let mut i = 0;
            let mut runs = 0;
            while i < head.len() && runs < 40 {
                if head[i].is_ascii_digit() {
                    let mut j = i;
                    while j < head.len() && head[j].is_ascii_digit() { j += 1; }
                    for val in ["0", "1", "255", "256", "65535", "65536", "2147483647", "2147483648", "4294967295", "4294967296", "9223372036854775807", "18446744073709551615", "18446744073709551616", "99999999999999999999999999999999"] {
                        let mut b = s.bytes[..i].to_vec();
                        b.extend(val.as_bytes());
                        b.extend(&s.bytes[j..]);
                        push(&mut out, format!("num@{i}={val}"), b);
                    }
                    runs += 1;
                    i = j;
                } else {
                    i += 1;
                }
            }
        }
        // text art seeds as UTF-8 files: byte order mark, the seed's own bytes (7-bit; high bytes replaced) and ONE character beyond
        // U+00FF inserted at / replacing every position of the first 96 bytes - so that it arrives in every state the seed drives
        // the format's parser into (after an escape, a command lead-in, inside a parameter), where code written for 8-bit input
        // indexes tables by the character or narrows it
        if matches!(s.ext.as_str(), "ans" | "pcb" | "avt" | "asc" | "msg" | "an1" | "seq" | "ata") {
            let ascii: Vec<u8> = s.bytes.iter().map(|&b| if b < 0x80 { b } else { b'?' }).collect();
            for (wi, wide) in ["\u{0101}", "\u{1F600}"].iter().enumerate() {
                for i in 0..=n.min(96) {
                    for replace in [false, true] {
                        if replace && (i >= n || wi == 1) { continue; }
                        let mut b = vec![0xEF, 0xBB, 0xBF];
                        b.extend(&ascii[..i]);
                        b.extend(wide.as_bytes());
                        b.extend(&ascii[(if replace { i + 1 } else { i })..]);
                        out.push(LCase { ext: s.ext.clone(), seed: s.name.clone(), mutation: format!("bom-wide{wi}:{}@{i}", if replace { "repl" } else { "ins" }), bytes: b });
                    }
                }
            }
        }
        // header bytes: every byte of the first 48 set to extremes; 16/32-bit extremes at every even offset
        for off in 0..n.min(48) {
            for val in [0u8, 1, 0x7F, 0x80, 0xFF] {
                if s.bytes[off] != val {
                    let mut b = s.bytes.clone();
                    b[off] = val;
                    push(&mut out, format!("byte:{off}={val}"), b);
                }
            }
            if off + 1 < n {
                for val in [0xFFFFu16, 0x7FFF, 0x8000] {
                    let mut b = s.bytes.clone();
                    b[off..off + 2].copy_from_slice(&val.to_le_bytes());
                    push(&mut out, format!("u16:{off}={val}"), b);
                }
            }
            if off + 3 < n && off % 2 == 0 {
                for val in [0xFFFF_FFFFu32, 0x7FFF_FFFF, 0x8000_0000, 0x0100_0000] {
                    let mut b = s.bytes.clone();
                    b[off..off + 4].copy_from_slice(&val.to_le_bytes());
                    push(&mut out, format!("u32:{off}={val}"), b);
                }
            }
        }
        // random 1..3 byte corruptions
        for i in 0..(if thorough { 400 } else { 60 }) {
            if n == 0 { break; }
            let mut b = s.bytes.clone();
            let m = r.gen_range(1..=3);
            let mut desc = String::new();
            for _ in 0..m {
                let o = r.gen_range(0..n);
                let v: u8 = if r.gen_bool(0.5) { r.gen() } else { *[0u8, 0xFF, 0x1A, 0x80].get(r.gen_range(0..4)).unwrap() };
                b[o] = v;
                desc.push_str(&format!("{o}={v},"));
            }
            push(&mut out, format!("corrupt{i}:{desc}"), b);
        }
        // TLC-derived structural faults (Gen_Loader): truncations at structure boundaries and field extremes
        for (fi, f) in faults.iter().enumerate() {
            if f["seed"].as_str() != Some(s.name.as_str()) { continue; }
            let mut b = s.bytes.clone();
            match f["kind"].as_str().unwrap_or("") {
                "trunc" => { let at = f["at"].as_u64().unwrap_or(0) as usize; if at <= n { b.truncate(at); } else { continue; } }
                k @ ("set" | "set+trunc") => {
                    let off = f["off"].as_u64().unwrap_or(0) as usize;
                    let wd = f["width"].as_u64().unwrap_or(1) as usize;
                    let val = f["val"].as_u64().unwrap_or(0);
                    if off + wd > n { continue; }
                    for i in 0..wd { b[off + i] = ((val >> (8 * i)) & 0xFF) as u8; }
                    if k == "set+trunc" { let at = f["at"].as_u64().unwrap_or(0) as usize; if at <= n { b.truncate(at); } else { continue; } }
                }
                "set2" => {
                    for (o, w, v) in [("off", "width", "val"), ("off2", "width2", "val2")] {
                        let off = f[o].as_u64().unwrap_or(0) as usize;
                        let wd = f[w].as_u64().unwrap_or(1) as usize;
                        let val = f[v].as_u64().unwrap_or(0);
                        if off + wd > n { continue; }
                        for i in 0..wd { b[off + i] = ((val >> (8 * i)) & 0xFF) as u8; }
                    }
                    // `at` > 0: the file is cut behind its numeric header
                    let at = f["at"].as_u64().unwrap_or(0) as usize;
                    if at > 0 && at <= n { b.truncate(at); }
                }
                _ => continue,
            }
            push(&mut out, format!("tlc:{fi}:{}:{}", f["kind"].as_str().unwrap_or("?"), f["field"].as_str().unwrap_or("?")), b);
        }
        // the same bytes under every other extension
        if is_file {
            for e in EXTS.iter().filter(|e| **e != "psf" && **e != "tdf") {
                if *e != s.ext { out.push(LCase { ext: (*e).to_string(), seed: s.name.clone(), mutation: "as-other-extension".into(), bytes: s.bytes.clone() }); }
            }
        }
    }
    // IcyDraw: the records live in compressed PNG text chunks - mutate the decoded chunk payloads and wrap them again
    for s in sds.iter().filter(|s| s.ext == "icy") {
        let chunks = crate::unicode::read_chunks(&s.bytes);
        for (ci, (kw, payload)) in chunks.iter().enumerate() {
            let n = payload.len();
            let mut muts: Vec<(String, Vec<u8>)> = vec![];
            let stride = if n > 600 && !thorough { (n / 200).max(1) } else { 1 };
            let mut k = 0;
            while k < n { muts.push((format!("trunc:{k}"), payload[..k].to_vec())); k += if k < 120 || k + 40 > n { 1 } else { stride }; }
            for off in 0..n.min(72) {
                for val in [0u8, 1, 2, 3, 4, 0x7F, 0x80, 0xFF] { if payload[off] != val { let mut b = payload.clone(); b[off] = val; muts.push((format!("byte:{off}={val}"), b)); } }
                if off + 4 <= n { for val in [0xFFFF_FFFFu32, 0x7FFF_FFFF, 0x8000_0000, 0x0001_0000] { let mut b = payload.clone(); b[off..off + 4].copy_from_slice(&val.to_le_bytes()); muts.push((format!("u32:{off}={val}"), b)); } }
            }
            // text payloads (the PALETTE chunk is an ICE palette file): digit runs replaced by integer extremes
            if n > 0 && payload.iter().filter(|b| b.is_ascii_graphic() || b.is_ascii_whitespace()).count() * 10 >= n * 9 {
                let (mut i, mut runs) = (0, 0);
                while i < n && runs < 24 {
                    if payload[i].is_ascii_digit() {
                        let mut j = i;
                        while j < n && payload[j].is_ascii_digit() { j += 1; }
                        for val in ["0", "65536", "4294967296", "18446744073709551615", "99999999999999999999999999999999"] {
                            let mut b = payload[..i].to_vec();
                            b.extend(val.as_bytes());
                            b.extend(&payload[j..]);
                            muts.push((format!("num@{i}={val}"), b));
                        }
                        runs += 1;
                        i = j;
                    } else { i += 1; }
                }
            }
            for i in 0..(if thorough { 200 } else { 30 }) {
                if n == 0 { break; }
                let mut b = payload.clone();
                for _ in 0..r.gen_range(1..=3) { let o = r.gen_range(0..n); b[o] = r.gen(); }
                muts.push((format!("corrupt{i}"), b));
            }
            for (m, b) in muts {
                let mut cs = chunks.clone();
                cs[ci].1 = b;
                out.push(LCase { ext: "icy".into(), seed: s.name.clone(), mutation: format!("chunk:{kw}:{m}"), bytes: crate::unicode::write_chunks(&cs) });
            }
            // composed faults (the chunk-level analogue of Loader.tla's PairFaults): one header byte of a LAYER_n record set to a
            // small enumeration value or an extreme, AND a continuation chunk `LAYER_n~1` present (the writer only produces
            // continuation chunks above 3 MB, the reader accepts them at any size and treats them by the layer's role / mode)
            if kw.starts_with("LAYER_") && !kw.contains('~') {
                let tails: [Vec<u8>; 3] = [vec![], payload[payload.len().saturating_sub(24)..].to_vec(), vec![0x00, 0x80, 65, 7, 0, 0, 0xFF, 0xFF]];
                for off in 0..n.min(72) {
                    for val in [0u8, 1, 2, 3, 4, 0x7F, 0x80, 0xFF] {
                        if payload[off] == val && val != 0 { continue; }
                        for (ti, tail) in tails.iter().enumerate() {
                            let mut cs = chunks.clone();
                            cs[ci].1[off] = val;
                            cs.insert(ci + 1, (format!("{kw}~1"), tail.clone()));
                            out.push(LCase { ext: "icy".into(), seed: s.name.clone(), mutation: format!("chunk:{kw}:byte:{off}={val}+continuation{ti}"), bytes: crate::unicode::write_chunks(&cs) });
                        }
                    }
                }
            }
            // structural: chunk dropped, duplicated, moved to the front, renamed to a continuation / out-of-range layer
            let mut cs = chunks.clone(); cs.remove(ci);
            out.push(LCase { ext: "icy".into(), seed: s.name.clone(), mutation: format!("chunk:{kw}:dropped"), bytes: crate::unicode::write_chunks(&cs) });
            let mut cs = chunks.clone(); cs.insert(ci, chunks[ci].clone());
            out.push(LCase { ext: "icy".into(), seed: s.name.clone(), mutation: format!("chunk:{kw}:duplicated"), bytes: crate::unicode::write_chunks(&cs) });
            let mut cs = chunks.clone(); let c = cs.remove(ci); cs.insert(0, c);
            out.push(LCase { ext: "icy".into(), seed: s.name.clone(), mutation: format!("chunk:{kw}:first"), bytes: crate::unicode::write_chunks(&cs) });
            for newkw in ["LAYER_0~1", "LAYER_7", "LAYER_7~1", "LAYER_", "LAYER_x", "FONT_99999999999", "FONT_x", "LAYER_99999999999~99999999999"] {
                let mut cs = chunks.clone(); cs[ci].0 = newkw.to_string();
                out.push(LCase { ext: "icy".into(), seed: s.name.clone(), mutation: format!("chunk:{kw}:renamed:{newkw}"), bytes: crate::unicode::write_chunks(&cs) });
            }
        }
    }
    // terminal streams as FILES: the text loaders parse into a non-terminal buffer (different clamping than a terminal)
    for k in 0..(if thorough { 8000u64 } else { 1500 }) {
        let emus = ["ansi", "avatar", "pcboard", "ctrla", "renegade", "petscii", "atascii", "ascii"];
        let exts = ["ans", "avt", "pcb", "msg", "an1", "seq", "ata", "asc"];
        let i = (k % 8) as usize;
        let c = crate::term::gen_case(seed, 7_000_000 + k, emus[i], k % 16 >= 8, false);
        out.push(LCase { ext: exts[i].to_string(), seed: "stream".into(), mutation: format!("stream{k}"), bytes: c.bytes.clone() });
        if k % 5 == 0 { out.push(LCase { ext: ["ice", "diz", "nfo", "zzz", ""][(k / 5 % 5) as usize].to_string(), seed: "stream".into(), mutation: format!("stream{k}"), bytes: c.bytes }); }
    }
    // state set up by one control string and used by a later one, in a FILE: a font loaded through the CTerm font DCS (payload
    // classes: empty, one byte, 255 / 256 / 257 bytes, 8x1 .. 8x32 raw data, PSF1 / PSF2 headers with zero and extreme fields)
    // followed by a sixel picture (placed and sized in cells of that font), by text and by a resize
    {
        let mut payloads: Vec<(String, Vec<u8>)> = vec![("empty".into(), vec![]), ("one".into(), vec![0xAA]), ("255".into(), vec![0x55; 255]), ("257".into(), vec![0x55; 257])];
        for h in [1usize, 8, 14, 16, 32, 33] { payloads.push((format!("raw8x{h}"), vec![0xF0; 256 * h])); }
        for (cs, h) in [(0u8, 0u8), (0, 16), (1, 0), (255, 255)] { let mut p = vec![0x36, 0x04, 0, cs]; p.extend(vec![0x0F; 256 * h as usize]); payloads.push((format!("psf1:cs={cs}:h={h}"), p)); }
        for (len, cs, hh, ww) in [(0u32, 0u32, 0u32, 0u32), (256, 0, 0, 8), (0x7FFF_FFFF, 0, 16, 8), (0xFFFF_FFFF, 0, 16, 8), (1, 1, 0, 0), (1, 1, 1, 0xFFFF_FFFF), (2, 16, 0xFFFF_FFFF, 8), (256, 16, 16, 8)] {
            let mut p = vec![0x72, 0xb5, 0x4a, 0x86];
            for v in [0u32, 32, 0, len, cs, hh, ww] { p.extend(v.to_le_bytes()); }
            p.extend(vec![0x3C; (len as u64 * cs as u64).min(8192) as usize]);
            payloads.push((format!("psf2:len={len}:cs={cs}:h={hh}:w={ww}"), p));
        }
        // (the last tail: every control function that REPORTS state derived from the font table / the screen)
        let tails: [(&str, &[u8]); 5] = [("sixel", b"\x1bPq#1~~~-~~~\x1b\\"), ("text", b"AB\r\nCD"), ("sixel-raster", b"\x1bPq\"1;1;20;12#1!20~-!20~\x1b\\"), ("resize", b"\x1b[8;30;90tAB"),
                                          ("reports", b"\x1b[=1n\x1b[=2n\x1b[=3n\x1b[6n\x1b[5n\x1b[255n\x1b[?62n\x1b[1;1;1;1;1*y\x1b[c\x1b[0;1 DA")];
        for (pn, p) in &payloads {
            for slot in [0u32, 1, 42] {
                for (tn, t) in &tails {
                    let mut b = format!("\x1bPCTerm:Font:{slot}:").into_bytes();
                    b.extend(general_purpose::STANDARD.encode(p).as_bytes());
                    b.extend(b"\x1b\\");
                    if slot > 0 { b.extend(format!("\x1b[0;{slot} D").as_bytes()); }
                    b.extend(*t);
                    for e in ["ans", "avt", "pcb"] {
                        out.push(LCase { ext: e.to_string(), seed: "font-dcs".into(), mutation: format!("font={pn}:slot={slot}:then={tn}"), bytes: b.clone() });
                    }
                }
            }
        }
    }
    // headers that declare the LARGEST sizes the formats accept, with little or no data behind them (a field's own maximum is
    // usually rejected by a range check: the dangerous values are the largest LEGAL ones - XBin width 4096 x height 65535,
    // flags for palette / font / compression in every combination)
    for (w, h) in [(4096u16, 65535u16), (4096, 32768), (4096, 1024), (1, 65535), (160, 65535), (4096, 256)] {
        for flags in [0u8, 1, 2, 4, 3, 7, 0x10, 0x17] {
            for extra in [0usize, 1, 2, 160, 5000] {
                let mut b = b"XBIN\x1a".to_vec();
                b.extend(w.to_le_bytes());
                b.extend(h.to_le_bytes());
                b.push(16);
                b.push(flags);
                b.extend(std::iter::repeat(0x41u8).take(extra));
                out.push(LCase { ext: "xb".into(), seed: "xbin-legal-max".into(), mutation: format!("w={w},h={h},flags={flags},extra={extra}"), bytes: b });
            }
        }
    }
    // SAUCE tails: every kind of 128-byte tail that starts with "SAUCE", on short and long contents
    let mut rec = vec![0u8; 128];
    rec[..7].copy_from_slice(b"SAUCE00");
    for i in 7..90 { rec[i] = b' '; }
    rec[82..90].copy_from_slice(b"20240101");
    for comments in [0u8, 1, 2, 254, 255] {
        for content_len in [0usize, 1, 5, 63, 64, 65, 128, 129, 200] {
            for with_comnt in [false, true] {
                for dt in [0u8, 1, 5, 6, 9] {
                    let mut b = vec![b'x'; content_len];
                    if with_comnt { b.extend(b"COMNT"); b.extend(vec![b'c'; 64 * (comments as usize).min(3)]); }
                    let mut rr = rec.clone();
                    rr[94] = dt;
                    rr[95] = r.gen();
                    rr[96] = r.gen(); rr[97] = r.gen(); rr[98] = r.gen(); rr[99] = r.gen();
                    rr[104] = comments;
                    rr[105] = r.gen();
                    b.extend(&rr);
                    for e in ["sauce", "ans", "xb", "bin", "idf", "adf", "tnd", "icy", "asc", "pcb"] {
                        out.push(LCase { ext: e.to_string(), seed: "sauce-tail".into(), mutation: format!("c={comments},len={content_len},comnt={with_comnt},dt={dt}"), bytes: b.clone() });
                    }
                }
            }
        }
    }
    // SAUCE text fields hold arbitrary CP437 bytes: every field x content classes (known / unknown font names, last character a
    // digit / letter / blank, one byte >= 0x80 at every distance 0..6 from the end and at the start, only high bytes, NUL inside)
    // x the data types whose loaders use the field
    {
        let fields: [(&str, usize, usize); 4] = [("title", 7, 35), ("author", 42, 20), ("group", 62, 20), ("tinfos", 106, 22)];
        let stems: [&[u8]; 8] = [b"IBM VGA", b"IBM VGA50", b"IBM VGA 437", b"IBM EGA43", b"Amiga Topaz 1+", b"Some Font 12", b"Name", b"C64 PETSCII unshifted"];
        for (fname, off, len) in fields {
            let mut values: Vec<(String, Vec<u8>)> = vec![];
            for stem in stems {
                let st: Vec<u8> = stem.iter().copied().take(len).collect();
                values.push((format!("{}", String::from_utf8_lossy(&st)), st.clone()));
                for hi in [0x80u8, 0xB0, 0xFF] {
                    for d in 0..7usize {
                        if d < st.len() {
                            let mut v = st.clone();
                            let k = v.len() - 1 - d;
                            v[k] = hi;
                            values.push((format!("{}:hi{hi:02x}@-{d}", String::from_utf8_lossy(&st)), v));
                        }
                    }
                    let mut v = st.clone();
                    v[0] = hi;
                    values.push((format!("{}:hi{hi:02x}@0", String::from_utf8_lossy(&st)), v));
                    // a high byte inserted before a trailing digit group
                    if let Some(p) = st.iter().rposition(|c| !c.is_ascii_digit()) {
                        if p + 1 < st.len() && st.len() < len {
                            let mut v = st.clone();
                            v.insert(p + 1, hi);
                            values.push((format!("{}:hi{hi:02x}+digits", String::from_utf8_lossy(&st)), v));
                        }
                    }
                }
            }
            values.push(("all-high".into(), vec![0xDB; len]));
            values.push(("nul-inside".into(), { let mut v = b"AB".to_vec(); v.push(0); v.extend(b"CD9"); v }));
            values.push(("full-digits".into(), vec![b'7'; len]));
            for (vn, v) in values {
                for (dt, ft) in [(1u8, 1u8), (1, 0), (5, 0), (6, 0)] {
                    let mut rr = rec.clone();
                    rr[94] = dt;
                    rr[95] = ft;
                    rr[96] = 80; rr[98] = 2;
                    for i in 0..len { rr[off + i] = if fname == "tinfos" { 0 } else { b' ' }; }
                    rr[off..off + v.len().min(len)].copy_from_slice(&v[..v.len().min(len)]);
                    let mut b = vec![b'x'; 40];
                    b.push(0x1A);
                    b.extend(&rr);
                    let exts: &[&str] = if fname == "tinfos" { &["sauce", "ans", "asc", "bin", "xb", "adf", "tnd", "pcb", "avt", "idf", "icy"] } else { &["sauce", "ans", "bin"] };
                    for e in exts {
                        out.push(LCase { ext: e.to_string(), seed: "sauce-text".into(), mutation: format!("{fname}={vn},dt={dt}/{ft}"), bytes: b.clone() });
                    }
                }
            }
        }
    }
    // bad version / date fields
    for (o, v) in [(5usize, b'9'), (82, b'x'), (86, b'9'), (88, b'9')] {
        let mut rr = rec.clone();
        rr[o] = v;
        out.push(LCase { ext: "sauce".into(), seed: "sauce-tail".into(), mutation: format!("field{o}"), bytes: rr.clone() });
        out.push(LCase { ext: "ans".into(), seed: "sauce-tail".into(), mutation: format!("field{o}"), bytes: rr });
    }
    // random bytes under every extension
    for i in 0..(if thorough { 6000 } else { 600 }) {
        let n = match i % 4 { 0 => r.gen_range(0..16), 1 => r.gen_range(0..200), 2 => r.gen_range(0..5000), _ => r.gen_range(100..300) };
        let mut b: Vec<u8> = (0..n).map(|_| r.gen()).collect();
        // half of them start with a format magic
        match i % 8 {
            1 => { let m = b"XBIN\x1a"; let k = m.len().min(b.len()); b[..k].copy_from_slice(&m[..k]); }
            3 => { let m = b"\x041.4"; let k = m.len().min(b.len()); b[..k].copy_from_slice(&m[..k]); }
            5 => { let m = b"\x18TUNDRA24"; let k = m.len().min(b.len()); b[..k].copy_from_slice(&m[..k]); }
            7 => { let m = b"\x13TheDraw FONTS file\x1a\x55\xaa\x00\xff"; let k = m.len().min(b.len()); b[..k].copy_from_slice(&m[..k]); }
            _ => {}
        }
        let e = EXTS[i % EXTS.len()];
        out.push(LCase { ext: e.to_string(), seed: "random".into(), mutation: format!("random{i}"), bytes: b.clone() });
        if i % 3 == 0 { out.push(LCase { ext: format!("pal:{}", ["hex", "pal", "gpl", "ice", "txt"][i % 5]), seed: "random".into(), mutation: format!("random{i}"), bytes: b }); }
    }
    out
}

pub fn c02(a: &Args) {
    let out_path = a.str("out", "work/C02/trace.ndjson");
    let progress = a.str("progress", &format!("{out_path}.progress"));
    let seed = a.u64("seed", 0);
    let thorough = a.str("tier", "quick") == "thorough";
    let start = a.usize("start", 0);
    let shard = a.usize("shard", 0);
    let shards = a.usize("shards", 1);
    let limit_s = a.u64("case-timeout", 10);
    crate::term::set_mem_limit(a.u64("mem-mb", 2048));
    let faults: Vec<Value> = std::fs::read_to_string(a.str("faults", "gen/loader_faults.ndjson")).map(|t| t.lines().filter_map(|l| serde_json::from_str(l).ok()).collect()).unwrap_or_default();
    if a.has("dump-seeds") {
        let mut o = Out::create(&a.str("dump-seeds", ""));
        for s in seeds() {
            let n = s.bytes.len();
            o.ev(&json!({"name":s.name,"ext":s.ext,"len":n,"head":s.bytes.iter().take(64).collect::<Vec<_>>(),"tail":s.bytes[n.saturating_sub(200)..].to_vec()}));
        }
        return;
    }
    let all = cases(seed, thorough, &faults);
    if a.has("dump-streams") {
        // the structured control-string families (font DCS payload classes followed by a later control string) as TERMINAL cases:
        // the same bytes reach the emulations over the wire (C01) and through the text loaders (C02)
        let mut o = Out::create(&a.str("dump-streams", ""));
        for (k, c) in all.iter().filter(|c| c.seed == "font-dcs").enumerate() {
            let emu = match c.ext.as_str() { "avt" => "avatar", "pcb" => "pcboard", _ => "ansi" };
            let quiet = c.bytes.len().saturating_sub(160);
            o.ev(&json!({"id": format!("fontdcs-{k}-{}", c.mutation), "emu": emu, "music": 0, "w": 80, "h": 25, "alloc": k % 2, "bs": 0, "proj": "geo", "model": 0,
                         "quiet": if c.bytes.len() > 400 { quiet } else { 0 }, "bytes": c.bytes}));
        }
        return;
    }
    let mine: Vec<&LCase> = all.iter().enumerate().filter(|(i, _)| i % shards == shard).map(|(_, c)| c).collect();
    if a.has("dump-case") {
        let k = a.usize("dump-case", 0);
        if let Some(c) = mine.get(k) {
            println!("{}", json!({"ext":c.ext,"seed":c.seed,"mut":c.mutation,"bytes":c.bytes}));
        }
        return;
    }
    // watchdog
    let case_no = Arc::new(AtomicU64::new(u64::MAX));
    {
        let case_no = case_no.clone();
        let progress = progress.clone();
        std::thread::spawn(move || {
            let mut last = (u64::MAX, Instant::now());
            loop {
                std::thread::sleep(Duration::from_millis(100));
                let c = case_no.load(Ordering::Relaxed);
                if c == u64::MAX { continue; }
                if c != last.0 { last = (c, Instant::now()); continue; }
                if last.1.elapsed() > Duration::from_secs(limit_s) {
                    let _ = std::fs::write(&progress, format!("{c} timeout\n"));
                    unsafe { libc::_exit(3) };
                }
            }
        });
    }
    let mut out = if start > 0 { Out::append(&out_path) } else { Out::create(&out_path) };
    for (i, c) in mine.iter().enumerate().skip(start) {
        if i % 64 == 0 {
            out.flush();
        }
        // progress is cheap enough to write per case only when the previous one was slow; otherwise every 16 cases
        let _ = std::fs::write(&progress, format!("{i} running\n"));
        case_no.store(i as u64, Ordering::Relaxed);
        let mut ev = load(&c.ext, &c.bytes);
        ev["ev"] = json!("load");
        ev["i"] = json!(i);
        ev["fmt"] = json!(c.ext);
        ev["seed"] = json!(c.seed);
        ev["mut"] = json!(c.mutation);
        ev["len"] = json!(c.bytes.len());
        if c.bytes.len() <= 64 && (c.mutation.starts_with("tlc:") || c.seed == "sauce-tail") {
            ev["bytes"] = json!(c.bytes);
        }
        out.ev(&ev);
        if ev["r"] != "ok" && ev["r"] != "err" {
            out.flush();
        }
    }
    out.flush();
    case_no.store(u64::MAX, Ordering::Relaxed);
    let _ = std::fs::write(&progress, format!("{} done\n", mine.len()));
    eprintln!("c02: shard {shard}/{shards}: {} loads", mine.len() - start.min(mine.len()));
}
