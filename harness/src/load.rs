//! (stub) driver module - see tools/HOWTO.md
use crate::util::Args;

pub fn c02(_a: &Args) {
    eprintln!("c02: driver not built yet");
    std::process::exit(2);
}
