//! C04 / C15 drivers: text formats written by the engine parse back to the same picture.
//!
//! One case = one single-layer buffer + save options, saved through `Buffer::to_bytes(ext)` and reloaded through
//! `Buffer::from_bytes("x.<ext>")`.  Event `rt`: options, source cells + palette, the writer's bytes tokenised,
//! reloaded cells + palette.  Rows are recorded without their trailing cells that are plain default blanks
//! (space or NUL, fg 7, bg 0, no attribute bit), which both trace modules read back as default blanks.
use crate::util::{guard, msg_class, panic_site, rng, Args, Out};
use icy_engine::{AttributedChar, Buffer, BufferType, ControlCharHandling, IceMode, SaveOptions, ScreenPreperation, TextAttribute, TextPane};
use rand::rngs::StdRng;
use rand::seq::SliceRandom;
use rand::Rng;
use serde_json::{json, Value};
use std::path::PathBuf;

// ------------------------------------------------------------------ common
#[derive(Clone, Copy, Debug, PartialEq)]
pub struct Cell {
    pub ch: u32,
    pub fg: u32,
    pub bg: u32,
    pub flags: u32, // bit0 bold, bit1 blink, bit2 faint, bit3 italic, bit4 underlined, bit5 crossed out, bit6 double underlined, bit7 concealed
}

pub const DEFAULT_CELL: Cell = Cell { ch: 32, fg: 7, bg: 0, flags: 0 };

fn attr_of(c: &Cell) -> TextAttribute {
    let mut a = TextAttribute::new(c.fg, c.bg);
    a.set_is_bold(c.flags & 1 != 0);
    a.set_is_blinking(c.flags & 2 != 0);
    a.set_is_faint(c.flags & 4 != 0);
    a.set_is_italic(c.flags & 8 != 0);
    a.set_is_underlined(c.flags & 16 != 0);
    a.set_is_crossed_out(c.flags & 32 != 0);
    a.set_is_double_underlined(c.flags & 64 != 0);
    a.set_is_concealed(c.flags & 128 != 0);
    a
}

fn cell_of(ch: AttributedChar) -> Cell {
    let a = ch.attribute;
    let flags = a.is_bold() as u32
        | (a.is_blinking() as u32) << 1
        | (a.is_faint() as u32) << 2
        | (a.is_italic() as u32) << 3
        | (a.is_underlined() as u32) << 4
        | (a.is_crossed_out() as u32) << 5
        | (a.is_double_underlined() as u32) << 6
        | (a.is_concealed() as u32) << 7;
    Cell { ch: ch.ch as u32, fg: a.get_foreground(), bg: a.get_background(), flags }
}

fn plain_blank(c: &Cell) -> bool {
    (c.ch == 32 || c.ch == 0) && c.fg == 7 && c.bg == 0 && c.flags == 0
}

/// rows of a buffer as seen through `get_char`, trailing plain blanks dropped
fn rows_json(buf: &Buffer) -> Value {
    let mut rows = Vec::new();
    for y in 0..buf.get_height().max(buf.get_line_count()) {
        let mut row: Vec<Cell> = (0..buf.get_width()).map(|x| cell_of(buf.get_char((x, y)))).collect();
        while row.last().map_or(false, plain_blank) {
            row.pop();
        }
        rows.push(Value::Array(row.iter().map(|c| json!([c.ch, c.fg, c.bg, c.flags])).collect()));
    }
    Value::Array(rows)
}

fn pal_json(buf: &Buffer) -> Value {
    Value::Array((0..buf.palette.len()).map(|i| { let (r, g, b) = buf.palette.get_rgb(i as u32); json!([r, g, b]) }).collect())
}

fn ice_name(m: IceMode) -> &'static str {
    match m {
        IceMode::Unlimited => "unlimited",
        IceMode::Blink => "blink",
        IceMode::Ice => "ice",
    }
}

fn ice_of(n: u64) -> IceMode {
    match n {
        0 => IceMode::Blink,
        1 => IceMode::Ice,
        _ => IceMode::Unlimited,
    }
}

/// a source picture: rows of cells (a row may be shorter than the width: the rest is never written)
#[derive(Clone, Debug)]
pub struct Pic {
    pub w: i32,
    pub h: i32,
    pub ice: IceMode,
    pub rows: Vec<Vec<Cell>>,
    pub extra_colors: Vec<(u8, u8, u8)>, // appended to the DOS palette; cells refer to them as 16 + i
}

fn build(p: &Pic) -> Buffer {
    let mut buf = Buffer::new((p.w, p.h));
    buf.ice_mode = p.ice;
    buf.is_terminal_buffer = false;
    for (r, g, b) in &p.extra_colors {
        buf.palette.push(icy_engine::Color::new(*r, *g, *b));
    }
    for (y, row) in p.rows.iter().enumerate() {
        for (x, c) in row.iter().enumerate() {
            buf.layers[0].set_char((x as i32, y as i32), AttributedChar::new(char::from_u32(c.ch).unwrap(), attr_of(c)));
        }
    }
    buf
}

// ------------------------------------------------------------------ ANSI tokens
/// Tokens of the ANSI writer's output: [0, bytes..] literal run, [1, final, private, intermediate, params..] CSI,
/// [2, byte] ESC + byte, [3, bytes..] anything else (never produced by the writer in the C04 domain).
pub fn tokenize_ansi(b: &[u8]) -> Value {
    let mut toks: Vec<Value> = Vec::new();
    let mut lit: Vec<u8> = Vec::new();
    let mut i = 0;
    let flush = |lit: &mut Vec<u8>, toks: &mut Vec<Value>| {
        if !lit.is_empty() {
            let mut v = vec![json!(0)];
            v.extend(lit.iter().map(|x| json!(x)));
            toks.push(Value::Array(v));
            lit.clear();
        }
    };
    while i < b.len() {
        if b[i] == 0x1B && i + 1 < b.len() {
            flush(&mut lit, &mut toks);
            if b[i + 1] == b'[' {
                let mut j = i + 2;
                let mut private = 0;
                if j < b.len() && (b[j] == b'?' || b[j] == b'=' || b[j] == b'<' || b[j] == b'>') {
                    private = b[j];
                    j += 1;
                }
                let mut params: Vec<i64> = Vec::new();
                let mut cur: Option<i64> = None;
                while j < b.len() && (b[j].is_ascii_digit() || b[j] == b';') {
                    if b[j] == b';' {
                        params.push(cur.take().unwrap_or(0));
                        cur = Some(0);
                    } else {
                        cur = Some((cur.unwrap_or(0) * 10 + (b[j] - b'0') as i64).min(1 << 30));
                    }
                    j += 1;
                }
                if let Some(c) = cur {
                    params.push(c);
                }
                let mut inter = 0;
                if j < b.len() && (0x20..0x30).contains(&b[j]) {
                    inter = b[j];
                    j += 1;
                }
                if j < b.len() {
                    let mut v = vec![json!(1), json!(b[j]), json!(private), json!(inter)];
                    v.extend(params.iter().map(|x| json!(x)));
                    toks.push(Value::Array(v));
                    i = j + 1;
                } else {
                    let mut v = vec![json!(3)];
                    v.extend(b[i..].iter().map(|x| json!(x)));
                    toks.push(Value::Array(v));
                    i = b.len();
                }
            } else {
                toks.push(json!([2, b[i + 1]]));
                i += 2;
            }
        } else {
            lit.push(b[i]);
            if lit.len() >= 200 {
                flush(&mut lit, &mut toks);
            }
            i += 1;
        }
    }
    flush(&mut lit, &mut toks);
    Value::Array(toks)
}

/// Observation on the writer's output: the first output row on which a cursor-forward sequence (CSI n C) moves the
/// cursor to or beyond the right margin (-1 if none).  Used only to label violations with their input class.
fn cuf_margin_row(b: &[u8], w: i32) -> i32 {
    let (mut x, mut row, mut i) = (0i32, 0i32, 0usize);
    while i < b.len() {
        if b[i] == 0x1B && i + 1 < b.len() && b[i + 1] == b'[' {
            let mut j = i + 2;
            let mut n = 0i32;
            let mut first = true;
            let mut first_n = 0i32;
            while j < b.len() && !(0x40..=0x7E).contains(&b[j]) {
                if b[j].is_ascii_digit() {
                    n = n.saturating_mul(10).saturating_add((b[j] - b'0') as i32);
                } else if b[j] == b';' {
                    if first { first_n = n; first = false; }
                    n = 0;
                }
                j += 1;
            }
            if first { first_n = n; }
            if j < b.len() {
                match b[j] {
                    b'C' => {
                        if x + first_n.max(1) >= w {
                            return row;
                        }
                        x += first_n.max(1);
                    }
                    b'H' => {
                        row = (first_n - 1).max(0);
                        x = 0;
                    }
                    b'b' => {
                        for _ in 0..first_n { x += 1; if x >= w { x = 0; row += 1; } }
                    }
                    _ => {}
                }
            }
            i = j + 1;
        } else if b[i] == 0x1B && i + 1 < b.len() {
            x += 1;
            if x >= w { x = 0; row += 1; }
            i += 2;
        } else {
            match b[i] {
                13 => x = 0,
                10 => { x = 0; row += 1; }
                _ => { x += 1; if x >= w { x = 0; row += 1; } }
            }
            i += 1;
        }
    }
    -1
}

// ------------------------------------------------------------------ C04
#[derive(Clone, Debug)]
struct AnsOpts {
    sauce: bool,
    compress: bool,
    cuf: bool,
    rep: bool,
    preserve: bool,
    longer: bool,
    extcol: bool,
    normws: bool,
    prep: u64,
    ctrl: u64,
}

impl AnsOpts {
    fn from_json(v: &Value) -> AnsOpts {
        let b = |k: &str| v[k].as_u64().unwrap_or(0) == 1;
        AnsOpts { sauce: b("sauce"), compress: b("compress"), cuf: b("cuf"), rep: b("rep"), preserve: b("preserve"), longer: b("longer"), extcol: b("extcol"), normws: b("normws"),
                  prep: v["prep"].as_u64().unwrap_or(0), ctrl: v["ctrl"].as_u64().unwrap_or(0) }
    }
    fn json(&self) -> Value {
        json!({"sauce":self.sauce as u8,"compress":self.compress as u8,"cuf":self.cuf as u8,"rep":self.rep as u8,"preserve":self.preserve as u8,"longer":self.longer as u8,
               "extcol":self.extcol as u8,"normws":self.normws as u8,"prep":self.prep,"ctrl":self.ctrl})
    }
    fn save_options(&self) -> SaveOptions {
        let mut o = SaveOptions::new();
        o.save_sauce = self.sauce;
        o.compress = self.compress;
        o.use_cursor_forward = self.cuf;
        o.use_repeat_sequences = self.rep;
        o.preserve_line_length = self.preserve;
        o.longer_terminal_output = self.longer;
        o.use_extended_colors = self.extcol;
        o.normalize_whitespaces = self.normws;
        o.lossles_output = true; // the colour optimiser is C12's business
        o.modern_terminal_output = false; // excluded by the property
        o.screen_preparation = prep_of(self.prep);
        o.control_char_handling = match self.ctrl {
            0 => ControlCharHandling::Ignore,
            1 => ControlCharHandling::IcyTerm,
            _ => ControlCharHandling::FilterOut,
        };
        o
    }
    fn random(r: &mut StdRng) -> AnsOpts {
        AnsOpts { sauce: r.gen(), compress: r.gen(), cuf: r.gen(), rep: r.gen(), preserve: r.gen(), longer: r.gen(), extcol: r.gen(), normws: r.gen(), prep: r.gen_range(0..3), ctrl: r.gen_range(0..3) }
    }
}

fn prep_of(n: u64) -> ScreenPreperation {
    match n {
        0 => ScreenPreperation::None,
        1 => ScreenPreperation::ClearScreen,
        _ => ScreenPreperation::Home,
    }
}

/// characters the ANSI writer treats as control characters (StringGenerator::CONTROL_CHARS)
const ANSI_CTRL: [u32; 8] = [0x1B, 0x07, 0x08, 0x09, 0x0C, 0x7F, 0x0D, 0x0A];

/// the cell alphabet of the small-scope buffers (index as in MC_AnsiOut.tla)
fn alphabet_cell(i: u64) -> Cell {
    match i {
        0 => DEFAULT_CELL,                                   // blank, default
        1 => Cell { ch: 32, fg: 7, bg: 4, flags: 0 },        // blank on colour
        2 => Cell { ch: 32, fg: 7, bg: 0, flags: 2 },        // blinking blank
        3 => Cell { ch: 65, fg: 7, bg: 0, flags: 0 },        // A default
        4 => Cell { ch: 65, fg: 4, bg: 2, flags: 0 },        // A in colours
        5 => Cell { ch: 65, fg: 12, bg: 0, flags: 0 },       // bright
        6 => Cell { ch: 65, fg: 7, bg: 9, flags: 0 },        // bright (ice) background
        _ => Cell { ch: 65, fg: 16, bg: 0, flags: 0 },       // RGB colour (palette entry 16)
    }
}

fn emit_rt(out: &mut Out, fmt: &str, id: u64, kind: &str, p: &Pic, buf: &Buffer, opts_json: Value, so: &SaveOptions, tokens: bool) {
    // the (slow) model layer of the trace module runs on small pictures and on every eighth large one
    let ncells: usize = p.rows.iter().map(Vec::len).sum();
    let model = if tokens { ncells <= 1200 || id % 4 == 0 } else { ncells <= 1200 || id % 2 == 0 };
    let mut ev = json!({"ev":"rt","fmt":fmt,"case":id,"kind":kind,"opts":opts_json,"ice":ice_name(p.ice),"w":p.w,"h":p.h,"pal":pal_json(buf),"src":rows_json(buf),"model":model as u8});
    let saved = guard(|| buf.to_bytes(fmt, so).map_err(|e| e.to_string()));
    let bytes = match saved {
        Ok(Ok(b)) => b,
        Ok(Err(e)) => {
            ev["save"] = json!("err");
            ev["site"] = json!(msg_class(&e));
            out.ev(&ev);
            return;
        }
        Err(pi) => {
            ev["save"] = json!("panic");
            ev["site"] = json!(panic_site(&pi));
            out.ev(&ev);
            return;
        }
    };
    ev["save"] = json!("ok");
    ev["nbytes"] = json!(bytes.len());
    ev["head3"] = json!(bytes.iter().take(3).collect::<Vec<_>>());
    // does the file itself switch the reader to iCE colours (CSI ? 33 h)?  Then the reader stores bright backgrounds, never the blink bit
    ev["ice_seq"] = json!(bytes.windows(6).any(|w| w == b"\x1b[?33h") as u8);
    // the SAUCE record (if any) is not part of the token stream
    let end = if so.save_sauce { icy_engine::SauceData::extract(&bytes).ok().flatten().map_or(bytes.len(), |s| bytes.len() - s.sauce_header_len) } else { bytes.len() };
    if !tokens {
        ev["bytes"] = if model { json!(bytes) } else { json!([]) };
    } else if !model {
        ev["tokens"] = json!([]);
        ev["cuf_margin"] = json!(cuf_margin_row(&bytes[..end], p.w));
    } else {
        ev["cuf_margin"] = json!(cuf_margin_row(&bytes[..end], p.w));
        ev["tokens"] = tokenize_ansi(&bytes[..end]);
    }
    let name = PathBuf::from(format!("x.{fmt}"));
    match guard(|| Buffer::from_bytes(&name, true, &bytes).map_err(|e| e.to_string())) {
        Ok(Ok(b)) => {
            ev["load"] = json!("ok");
            ev["bw"] = json!(b.get_width());
            ev["bh"] = json!(b.get_height());
            ev["bice"] = json!(ice_name(b.ice_mode));
            ev["bpal"] = pal_json(&b);
            ev["back"] = rows_json(&b);
            ev["blayers"] = json!(b.layers.len());
        }
        Ok(Err(e)) => {
            ev["load"] = json!("err");
            ev["site"] = json!(msg_class(&e));
        }
        Err(pi) => {
            ev["load"] = json!("panic");
            ev["site"] = json!(panic_site(&pi));
        }
    }
    out.ev(&ev);
}

fn run_c04(out: &mut Out, id: u64, kind: &str, p: &Pic, o: &AnsOpts) {
    out.ev(&json!({"ev":"reset","case":id,"kind":kind}));
    let buf = build(p);
    emit_rt(out, "ans", id, kind, p, &buf, o.json(), &o.save_options(), true);
}

fn random_color(r: &mut StdRng, extra: &mut Vec<(u8, u8, u8)>, allow16: u32) -> u32 {
    match r.gen_range(0..10) {
        0..=6 => r.gen_range(0..allow16),
        7 => {
            // an xterm-256 colour (cube / grey ramp value)
            let lv = [0u8, 95, 135, 175, 215, 255];
            // cube, grey ramp, or one of the sixteen SYSTEM colours of the xterm table (entries 0..15: 128-based, not the DOS values)
            let sys: [(u8, u8, u8); 16] = [(0, 0, 0), (128, 0, 0), (0, 128, 0), (128, 128, 0), (0, 0, 128), (128, 0, 128), (0, 128, 128), (192, 192, 192),
                                           (128, 128, 128), (255, 0, 0), (0, 255, 0), (255, 255, 0), (0, 0, 255), (255, 0, 255), (0, 255, 255), (255, 255, 255)];
            let c = match r.gen_range(0..10) { 0..=4 => (lv[r.gen_range(0..6)], lv[r.gen_range(0..6)], lv[r.gen_range(0..6)]), 5..=6 => { let g = 8 + 10 * r.gen_range(0..24u8); (g, g, g) }, _ => sys[r.gen_range(0..16)] };
            push_color(extra, c)
        }
        _ => push_color(extra, (r.gen(), r.gen(), r.gen())),
    }
}

fn push_color(extra: &mut Vec<(u8, u8, u8)>, c: (u8, u8, u8)) -> u32 {
    if let Some(i) = extra.iter().position(|x| *x == c) {
        return 16 + i as u32;
    }
    if extra.len() >= 200 {
        return 16 + (c.0 as u32 % extra.len() as u32);
    }
    extra.push(c);
    16 + extra.len() as u32 - 1
}

fn random_ansi_pic(r: &mut StdRng, o: &AnsOpts, w: i32, h: i32, ice: IceMode) -> Pic {
    // per-picture switches: most pictures use neither the bold attribute nor the extended attributes
    let use_bold = r.gen_bool(0.15);
    let use_ext = r.gen_bool(0.12);
    // in ice mode the blink attribute does not exist for a source cell (iCE colours replace blinking: TextAttribute::as_u8)
    let use_blink = !matches!(ice, IceMode::Ice);
    let mut extra = Vec::new();
    let mut rows = Vec::new();
    let style = r.gen_range(0..4); // 0 dense random, 1 runs (compressible), 2 sparse with many blanks, 3 mixed
    for _y in 0..h {
        let len = match r.gen_range(0..10) {
            0 => 0,
            1 | 2 => w,
            3 => (w - 1).max(0),
            _ => r.gen_range(0..=w),
        };
        let mut row: Vec<Cell> = Vec::new();
        let mut cur = DEFAULT_CELL;
        while (row.len() as i32) < len {
            let change = match style { 0 => 0.9, 1 => 0.15, 2 => 0.3, _ => 0.5 };
            if r.gen_bool(change) || row.is_empty() {
                let ch = loop {
                    let c: u32 = match r.gen_range(0..10) {
                        0 | 1 => 32,
                        2 => [0u32, 255, 32][r.gen_range(0..3)],
                        3 => r.gen_range(0..32),
                        4 => r.gen_range(127..256),
                        _ => r.gen_range(33..127),
                    };
                    // characters the chosen control-character handling cannot encode are outside the domain
                    if ANSI_CTRL.contains(&c) && o.ctrl != 1 {
                        continue;
                    }
                    break c;
                };
                let mut flags = 0;
                if use_bold && r.gen_bool(0.2) { flags |= 1; }
                if use_blink && r.gen_bool(0.15) { flags |= 2; }
                if use_ext && r.gen_bool(0.1) { flags |= 4 << r.gen_range(0..6); }
                let attr_change = r.gen_bool(if style == 2 { 0.3 } else { 0.6 });
                if attr_change {
                    cur = Cell { ch, fg: random_color(r, &mut extra, 16), bg: random_color(r, &mut extra, 16), flags };
                } else {
                    cur.ch = ch;
                }
                if style == 2 && r.gen_bool(0.5) {
                    cur = Cell { ch: 32, ..DEFAULT_CELL };
                }
            }
            let run = if style == 0 { 1 } else { r.gen_range(1..=12) };
            for _ in 0..run {
                if (row.len() as i32) < len {
                    row.push(cur);
                }
            }
        }
        rows.push(row);
    }
    Pic { w, h, ice, rows, extra_colors: extra }
}

pub fn c04(a: &Args) {
    let path = a.str("out", "work/C04/trace");
    let seed = a.u64("seed", 0);
    let thorough = a.str("tier", "quick") == "thorough";
    let shards = a.usize("shards", 4);
    let mut outs: Vec<Out> = (0..shards).map(|i| Out::create(&format!("{path}-{i}.ndjson"))).collect();
    let mut id = 0u64;
    // (1) TLC-generated: option configurations and small-scope buffers
    let mut cfgs: Vec<Value> = Vec::new();
    let mut bufs: Vec<Value> = Vec::new();
    if let Ok(text) = std::fs::read_to_string(a.str("gen", "gen/ansiout.ndjson")) {
        for line in text.lines() {
            let Ok(v) = serde_json::from_str::<Value>(line) else { continue };
            match v["kind"].as_str() {
                Some("cfg") => cfgs.push(v),
                Some("buf") => bufs.push(v),
                _ => {}
            }
        }
    }
    let mut r = rng(seed, 4);
    cfgs.shuffle(&mut r);
    bufs.shuffle(&mut r);
    let n_small = if cfgs.is_empty() || bufs.is_empty() { 0 } else if thorough { cfgs.len().max(bufs.len()) * 4 } else { cfgs.len().max(bufs.len()) };
    for i in 0..n_small {
        // every configuration and every small buffer is used at least once; pairing rotates with the seed
        let c = &cfgs[i % cfgs.len()];
        let b = &bufs[(i + i / bufs.len()) % bufs.len()];
        let o = AnsOpts::from_json(c);
        let w = b["w"].as_i64().unwrap_or(1) as i32;
        let place_right = b["place"].as_u64().unwrap_or(0) == 1;
        let rows_v = b["rows"].as_array().cloned().unwrap_or_default();
        let mut rows = Vec::new();
        for rv in &rows_v {
            let ice_cfg = c["ice"].as_u64().unwrap_or(0) == 1;
            let cells: Vec<Cell> = rv.as_array().map(|a| a.iter().map(|x| {
                let mut c = alphabet_cell(x.as_u64().unwrap_or(0));
                if ice_cfg && c.flags & 2 != 0 {
                    // a source cell in ice mode has no blink attribute: the blinking blank becomes a blank on a bright background
                    c.flags &= !2;
                    c.bg += 8;
                }
                c
            }).collect()).unwrap_or_default();
            let mut row = Vec::new();
            if place_right {
                // cells before the pattern exist but are blanks
                for _ in 0..(w as usize).saturating_sub(cells.len()) {
                    row.push(DEFAULT_CELL);
                }
            }
            row.extend(cells);
            row.truncate(w as usize);
            rows.push(row);
        }
        let mut o2 = o.clone();
        if w != 80 {
            o2.sauce = true; // widths other than 80 are in the domain only when SAUCE carries the width
        }
        let p = Pic { w, h: rows.len() as i32, ice: ice_of(c["ice"].as_u64().unwrap_or(0)), rows, extra_colors: vec![(18, 52, 86)] };
        id += 1;
        run_c04(&mut outs[(id as usize) % shards], id, "tlc", &p, &o2);
    }
    // (2) seeded random buffers, options pairwise-covering (every pair of option values occurs: random sampling of
    // the 10 option dimensions with >= 300 samples covers all pairs; counted in the evidence by the check)
    let n_rnd = if thorough { 6000 } else { 700 };
    for i in 0..n_rnd {
        let mut r = rng(seed, 40_000 + i);
        let mut o = AnsOpts::random(&mut r);
        let (w, h) = if i % 3 == 0 {
            o.sauce = true;
            (r.gen_range(1..=132), r.gen_range(1..=60))
        } else {
            (80, if r.gen_bool(0.2) { r.gen_range(26..=60) } else { r.gen_range(1..=25) })
        };
        let ice = ice_of(i % 3);
        let p = random_ansi_pic(&mut r, &o, w, h, ice);
        id += 1;
        run_c04(&mut outs[(id as usize) % shards], 1_000_000 + i, "rnd", &p, &o);
    }
    // (3) runs of control-character glyphs (the cells 0x07/08/09/0A/0C/0D/1B/7F, representable only with the IcyTerm control
    //     character handling): every glyph x run length x neighbourhood, rotated over EVERY exported option configuration
    //     that uses that handling - the writer's escape for the glyph meets its run-length and repeat logic here
    let icy_cfgs: Vec<&Value> = cfgs.iter().filter(|c| AnsOpts::from_json(c).ctrl == 1).collect();
    let mut combos: Vec<(u32, usize, usize, usize, u32)> = Vec::new();
    for &g in ANSI_CTRL.iter() { for run in [1usize, 2, 3, 4, 5, 6, 12] { for pre in 0..2usize { for post in 0..2usize { for bg in [0u32, 1] { combos.push((g, run, pre, post, bg)); } } } } }
    let n_ctrl = if icy_cfgs.is_empty() { 0 } else if thorough { icy_cfgs.len().max(combos.len()) * 2 } else { icy_cfgs.len().max(combos.len()) };
    for i in 0..n_ctrl {
        let c = icy_cfgs[i % icy_cfgs.len()];
        let (g, run, pre, post, bg) = combos[(i + i / combos.len()) % combos.len()];
        let o = AnsOpts::from_json(c);
        let cell = |ch: u32| Cell { ch, fg: if bg == 1 { 14 } else { 7 }, bg: if bg == 1 { 1 } else { 0 }, flags: 0 };
        let mut row: Vec<Cell> = Vec::new();
        if pre == 1 { row.push(cell(97)); row.push(cell(98)); }
        for _ in 0..run { row.push(cell(g)); }
        if post == 1 { row.push(cell(99)); row.push(cell(100)); }
        let rows = vec![row.clone(), vec![cell(101), cell(110), cell(100)], row];
        let p = Pic { w: 80, h: rows.len() as i32, ice: ice_of(c["ice"].as_u64().unwrap_or(0)), rows, extra_colors: vec![] };
        id += 1;
        run_c04(&mut outs[(id as usize) % shards], 2_000_000 + i as u64, "ctrl", &p, &o);
    }
    // (4) CP437 cells whose codes are, as bytes, well-formed UTF-8 (see C15 family 4): at the start of the file, inside a row and
    //     split over the end of a full-width row, under random option configurations
    {
        let mut r = rng(seed, 44_000);
        let seqs: [&[u32]; 5] = [&[0xC3, 0xA9], &[0xC2, 0xB0], &[0xE2, 0x96, 0x91], &[0xEF, 0xBB, 0xBF], &[0xF0, 0x9F, 0x98, 0x80]];
        for sq in seqs {
            for place in 0..3 {
                for k in 0..6 {
                    let mut o = AnsOpts::random(&mut r);
                    if k < 3 { o.prep = k; o.sauce = false; }
                    if k == 0 { o = AnsOpts { sauce: false, compress: false, cuf: false, rep: false, preserve: false, longer: false, extcol: false, normws: false, prep: 0, ctrl: 0 }; }
                    let cell = |c: u32| Cell { ch: c, fg: 7, bg: 0, flags: 0 };
                    let hi: Vec<Cell> = sq.iter().map(|c| cell(*c)).collect();
                    let mut rows: Vec<Vec<Cell>> = vec![];
                    match place {
                        0 => { let mut r0 = hi.clone(); r0.push(cell(65)); rows.push(r0); }
                        1 => { let mut r0 = vec![cell(65), cell(66)]; r0.extend(hi.clone()); r0.push(cell(67)); rows.push(r0); }
                        _ => { let mut r0 = vec![cell(65); 79]; r0.push(hi[0]); rows.push(r0); let mut r1: Vec<Cell> = hi[1..].to_vec(); r1.push(cell(66)); rows.push(r1); }
                    }
                    let p = Pic { w: 80, h: rows.len() as i32, ice: IceMode::Unlimited, rows, extra_colors: vec![] };
                    id += 1;
                    run_c04(&mut outs[(id as usize) % shards], 3_000_000 + id, "utf8-lookalike", &p, &o);
                }
            }
        }
    }
    // (5) the last byte the writer emits is a byte the container gives a meaning to (0x1A = DOS end of file, in front of a SAUCE
    //     record): pictures whose LAST cell is that glyph - alone, after other cells, ending a run of itself - with and without
    //     SAUCE, in every ice mode
    {
        let mut r = rng(seed, 45_000);
        for mark in [0x1Au32, 0xFF, 0x00] {
            for shape in 0..3 {
                for sauce in [true, false] {
                    for ice in 0..3u64 {
                        let mut o = AnsOpts::random(&mut r);
                        o.sauce = sauce;
                        if shape == 2 { o.rep = false; }
                        let cell = |c: u32, fg: u32| Cell { ch: c, fg, bg: 0, flags: 0 };
                        let last_row: Vec<Cell> = match shape { 0 => vec![cell(mark, 12)], 1 => vec![cell(65, 7), cell(66, 7), cell(mark, 12)], _ => vec![cell(65, 7), cell(mark, 12), cell(mark, 12), cell(mark, 12)] };
                        let rows = vec![vec![cell(67, 7), cell(mark, 9), cell(68, 7)], last_row];
                        let p = Pic { w: 80, h: 2, ice: ice_of(ice), rows, extra_colors: vec![] };
                        id += 1;
                        run_c04(&mut outs[(id as usize) % shards], 4_000_000 + id, "end-marker", &p, &o);
                    }
                }
            }
        }
    }
    let mut total = 0;
    for o in &mut outs {
        o.flush();
        total += o.n;
    }
    eprintln!("c04: {n_ctrl} control-glyph cases, {n_small} TLC-generated cases ({} configurations, {} small buffers), {n_rnd} random cases, {total} events", cfgs.len(), bufs.len());
}

// ------------------------------------------------------------------ C15
pub const C15_FORMATS: [(&str, i32); 6] = [("avt", 80), ("pcb", 80), ("msg", 80), ("an1", 80), ("asc", 80), ("ata", 40)];

/// characters a format can hold in the C15 domain: printable CP437 (0x20..=0x7E, 0x80..=0xFE) minus the format's lead-in
/// characters; ATASCII: the 7-bit ATASCII glyphs minus ESC, the cursor codes and clear/backspace/tab (and not NUL)
fn c15_chars(fmt: &str) -> Vec<u32> {
    if fmt == "ata" {
        return (1u32..=0x7C).filter(|c| !(0x1B..=0x1F).contains(c)).collect();
    }
    (0x20u32..=0xFE).filter(|c| *c != 0x7F).filter(|c| match fmt {
        "pcb" => *c != b'@' as u32,
        "an1" => *c != b'|' as u32,
        _ => true, // ^V ^Y ^L (Avatar) and ^A (Ctrl-A) are below 0x20 anyway
    }).collect()
}

fn c15_attr(fmt: &str, fg: u32, bg: u32) -> (u32, u32) {
    match fmt {
        "ata" => if bg > 0 { (0, 7) } else { (7, 0) }, // inverse video
        "asc" => (7, 0),
        _ => (fg, bg),
    }
}

fn build_c15(fmt: &str, p: &Pic) -> Buffer {
    let mut buf = build(p);
    if fmt == "ata" {
        buf.buffer_type = BufferType::Atascii;
    }
    buf
}

fn run_c15(out: &mut Out, fmt: &str, id: u64, kind: &str, p: &Pic, prep: u64) {
    out.ev(&json!({"ev":"reset","case":id,"kind":kind,"fmt":fmt}));
    let buf = build_c15(fmt, p);
    let mut so = SaveOptions::new();
    so.screen_preparation = prep_of(prep);
    so.lossles_output = true;
    so.save_sauce = false;
    emit_rt(out, fmt, id, kind, p, &buf, json!({"prep":prep}), &so, false);
}

fn random_c15_pic(r: &mut StdRng, fmt: &str, w: i32, h: i32) -> Pic {
    let chars = c15_chars(fmt);
    let mut rows = Vec::new();
    let style = r.gen_range(0..3);
    for y in 0..h {
        let mut len = match r.gen_range(0..10) { 0 => 0, 1 | 2 => w, 3 => w - 1, 4 => 1, _ => r.gen_range(0..=w) };
        if y + 1 == h && len == 0 {
            len = r.gen_range(1..=w); // the last row is not empty
        }
        let mut row: Vec<Cell> = Vec::new();
        let mut cur = DEFAULT_CELL;
        while (row.len() as i32) < len {
            if row.is_empty() || r.gen_bool(match style { 0 => 0.9, 1 => 0.2, _ => 0.5 }) {
                let (fg, bg) = c15_attr(fmt, r.gen_range(0..16), if r.gen_bool(0.5) { 0 } else { r.gen_range(0..8) });
                let ch = if r.gen_bool(0.25) { 32 } else { chars[r.gen_range(0..chars.len())] };
                cur = Cell { ch, fg, bg, flags: 0 };
            }
            let run = if style == 0 { 1 } else { r.gen_range(1..=9) };
            for _ in 0..run {
                if (row.len() as i32) < len {
                    row.push(cur);
                }
            }
        }
        if y + 1 == h {
            // "whose last row is not empty": make sure something is visible in it
            if let Some(l) = row.last_mut() {
                if l.ch == 32 && l.bg == 0 { l.ch = chars[r.gen_range(0..chars.len())].max(33); }
            }
        }
        rows.push(row);
    }
    Pic { w, h, ice: IceMode::Unlimited, rows, extra_colors: vec![] }
}

pub fn c15(a: &Args) {
    let path = a.str("out", "work/C15/trace");
    let seed = a.u64("seed", 0);
    let thorough = a.str("tier", "quick") == "thorough";
    let shards = a.usize("shards", 4);
    let mut outs: Vec<Out> = (0..shards).map(|i| Out::create(&format!("{path}-{i}.ndjson"))).collect();
    let mut id = 0u64;
    // (1) TLC-generated: all ordered pairs of the 16 x 8 attributes, and the row shapes
    let mut pairs: Vec<[u32; 4]> = Vec::new();
    let mut shapes: Vec<(Vec<u64>, u64)> = Vec::new();
    if let Ok(text) = std::fs::read_to_string(a.str("gen", "gen/textout.ndjson")) {
        for line in text.lines() {
            let Ok(v) = serde_json::from_str::<Value>(line) else { continue };
            match v["kind"].as_str() {
                Some("pair") => pairs.push([v["fg1"].as_u64().unwrap_or(0) as u32, v["bg1"].as_u64().unwrap_or(0) as u32, v["fg2"].as_u64().unwrap_or(0) as u32, v["bg2"].as_u64().unwrap_or(0) as u32]),
                Some("shape") => shapes.push((v["lens"].as_array().map(|a| a.iter().map(|x| x.as_u64().unwrap_or(0)).collect()).unwrap_or_default(), v["prep"].as_u64().unwrap_or(0))),
                _ => {}
            }
        }
    }
    let mut r = rng(seed, 15);
    pairs.shuffle(&mut r);
    let mut n_gen = 0;
    for (fmt, w) in C15_FORMATS {
        let chars = c15_chars(fmt);
        // attribute transitions: 2 cells per pair, laid out row after row, 40 rows per buffer
        if fmt != "asc" && fmt != "ata" && !pairs.is_empty() {
            let cells: Vec<Cell> = pairs.iter().flat_map(|p| {
                let c1 = chars[(p[0] * 7 + p[1]) as usize % chars.len()].max(33);
                let c2 = chars[(p[2] * 5 + p[3] + 11) as usize % chars.len()].max(33);
                [Cell { ch: c1, fg: p[0], bg: p[1], flags: 0 }, Cell { ch: c2, fg: p[2], bg: p[3], flags: 0 }]
            }).collect();
            let per_buf = (w * 40) as usize;
            for (k, chunk) in cells.chunks(per_buf).enumerate() {
                let rows: Vec<Vec<Cell>> = chunk.chunks(w as usize).map(<[Cell]>::to_vec).collect();
                let p = Pic { w, h: rows.len() as i32, ice: IceMode::Unlimited, rows, extra_colors: vec![] };
                id += 1;
                n_gen += 1;
                run_c15(&mut outs[(id as usize) % shards], fmt, id, "tlc-pairs", &p, (k % 3) as u64);
            }
        }
        // row shapes: lengths from {0, 1, 2, w-1, w} encoded as classes 0..4
        for (lens, prep) in &shapes {
            let rows: Vec<Vec<Cell>> = lens.iter().enumerate().map(|(y, &cl)| {
                let len = match cl { 0 => 0, 1 => 1, 2 => 2, 3 => w - 1, _ => w };
                (0..len).map(|x| {
                    let (fg, bg) = c15_attr(fmt, ((x + y as i32 * 3) % 16) as u32, ((x / 3 + y as i32) % 8) as u32);
                    Cell { ch: chars[(x as usize * 13 + y * 7) % chars.len()].max(33), fg, bg, flags: 0 }
                }).collect()
            }).collect();
            let p = Pic { w, h: rows.len() as i32, ice: IceMode::Unlimited, rows, extra_colors: vec![] };
            id += 1;
            n_gen += 1;
            run_c15(&mut outs[(id as usize) % shards], fmt, id, "tlc-shape", &p, *prep);
        }
    }
    // (2) every row length 0..=w in one picture each (three pictures of <= 40 rows), then seeded random pictures
    let n_rnd = if thorough { 1500 } else { 150 };
    let mut n_random = 0;
    for (fmt, w) in C15_FORMATS {
        let chars = c15_chars(fmt);
        for part in 0..3 {
            let lens: Vec<i32> = (0..=w).filter(|l| l % 3 == part).collect();
            let mut rows: Vec<Vec<Cell>> = lens.iter().map(|&len| (0..len).map(|x| {
                let (fg, bg) = c15_attr(fmt, ((x * 7 + len) % 16) as u32, ((x + len) % 8) as u32);
                Cell { ch: chars[((x * 31 + len * 17) as usize) % chars.len()].max(33), fg, bg, flags: 0 }
            }).collect()).collect();
            if rows.last().map_or(true, Vec::is_empty) {
                rows.push(vec![Cell { ch: 65, ..DEFAULT_CELL }]);
            }
            rows.truncate(40);
            if rows.last().map_or(true, Vec::is_empty) {
                rows.pop();
            }
            let p = Pic { w, h: rows.len() as i32, ice: IceMode::Unlimited, rows, extra_colors: vec![] };
            id += 1;
            n_random += 1;
            run_c15(&mut outs[(id as usize) % shards], fmt, id, "lengths", &p, part as u64);
        }
        for i in 0..n_rnd {
            let mut r = rng(seed, 150_000 + id);
            let h = r.gen_range(1..=40);
            let p = random_c15_pic(&mut r, fmt, w, h);
            id += 1;
            n_random += 1;
            run_c15(&mut outs[(id as usize) % shards], fmt, 1_000_000 + id, "rnd", &p, i % 3);
        }
    }
    // (3) runs: a run of n identical cells for EVERY n up to the width, as the last thing in the file, at the start of a row and
    //     in the middle of one (run-length encoders write n as a raw byte: every byte value that is also a control code of the
    //     format or of DOS - LF, FF, CR, ^V, ^Y, ^Z, ESC - occurs as a count)
    for (fmt, w) in C15_FORMATS {
        let chars = c15_chars(fmt);
        for n in 1..=w {
            for place in 0..3u64 {
                let (fg, bg) = c15_attr(fmt, (n % 15 + 1) as u32, (n % 7 + 1) as u32);
                let run_ch = chars[(n as usize * 13) % chars.len()].max(33);
                let run: Vec<Cell> = (0..n).map(|_| Cell { ch: run_ch, fg, bg, flags: 0 }).collect();
                let other = Cell { ch: if run_ch == 66 { 67 } else { 66 }, ..DEFAULT_CELL };
                let mut rows: Vec<Vec<Cell>> = vec![vec![other; 3]];
                match place {
                    0 => rows.push(run),                                                    // the file ends with the run
                    1 => { let mut r0 = run; if n < w { r0.push(other); } rows.push(r0); rows.push(vec![other]); }
                    _ => { let mut r0 = vec![other]; r0.extend(run.into_iter().take((w - 1) as usize)); rows.push(r0); }
                }
                let p = Pic { w, h: rows.len() as i32, ice: IceMode::Unlimited, rows, extra_colors: vec![] };
                id += 1;
                n_random += 1;
                run_c15(&mut outs[(id as usize) % shards], fmt, 2_000_000 + id, "runs", &p, (n as u64 + place) % 3);
            }
        }
    }
    // (4) CP437 cells whose codes, taken as bytes, are well-formed UTF-8 (and nothing else above 0x7F in the file): a loader that
    //     sniffs the encoding from the content must still read them as the cells that were saved - 2-, 3- and 4-byte sequences,
    //     inside a row, at its start / end, and split over the end of a full-width row
    for (fmt, w) in C15_FORMATS {
        if fmt == "ata" { continue; }
        let seqs: [&[u32]; 5] = [&[0xC3, 0xA9], &[0xC2, 0xB0], &[0xE2, 0x96, 0x91], &[0xEF, 0xBB, 0xBF], &[0xF0, 0x9F, 0x98, 0x80]];
        for (si, sq) in seqs.iter().enumerate() {
            for place in 0..4 {
                let (fg, bg) = c15_attr(fmt, 7, 0);
                let hi: Vec<Cell> = sq.iter().map(|c| Cell { ch: *c, fg, bg, flags: 0 }).collect();
                let a = Cell { ch: 65, ..DEFAULT_CELL };
                let mut rows: Vec<Vec<Cell>> = vec![];
                match place {
                    0 => { let mut r0 = vec![a, a]; r0.extend(hi.clone()); r0.push(a); rows.push(r0); }
                    1 => { let mut r0 = hi.clone(); r0.push(a); rows.push(r0); rows.push(vec![a]); }
                    2 => { let mut r0 = vec![a; (w as usize) - hi.len()]; r0.extend(hi.clone()); rows.push(r0); rows.push(vec![a]); }
                    _ => { let mut r0 = vec![a; (w as usize) - 1]; r0.push(hi[0]); rows.push(r0); let mut r1: Vec<Cell> = hi[1..].to_vec(); r1.push(a); rows.push(r1); }
                }
                let p = Pic { w, h: rows.len() as i32, ice: IceMode::Unlimited, rows, extra_colors: vec![] };
                id += 1;
                n_random += 1;
                // (a file that BEGINS with the sequence is tried under every screen preparation: only some write a prefix)
                let preps: Vec<u64> = if place == 1 { vec![0, 1, 2] } else { vec![(si + place) as u64 % 3] };
                for prep in preps {
                    run_c15(&mut outs[(id as usize) % shards], fmt, 3_000_000 + id, "utf8-lookalike", &p, prep);
                }
            }
        }
    }
    let mut total = 0;
    for o in &mut outs {
        o.flush();
        total += o.n;
    }
    eprintln!("c15: {n_gen} TLC-generated cases ({} attribute pairs, {} row shapes), {n_random} length/random cases, {total} events", pairs.len(), shapes.len());
}
