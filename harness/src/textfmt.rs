//! (stub) driver module - see tools/HOWTO.md
use crate::util::Args;

pub fn c04(_a: &Args) {
    eprintln!("c04: driver not built yet");
    std::process::exit(2);
}
pub fn c15(_a: &Args) {
    eprintln!("c15: driver not built yet");
    std::process::exit(2);
}
