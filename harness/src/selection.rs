//! Driver for the semantic model of the editor's selection (spec/doc/Selection.tla; model layer of C08).
//!
//! A case = a small one-layer document (buffer size, the size the selection mask was given, a few cells) + a sequence of
//! PUBLIC `EditState` calls: set_selection (every shape / add type, ends inside, on and outside the buffer), clear_selection,
//! deselect, add_selection_to_mask, inverse_selection, enumerate_selections (4 predicates), set_mask_size, resize_buffer,
//! undo, redo.  After every call the selection state as the public API shows it is recorded (selection fields, the cells
//! `get_is_mask_selected` reports, buffer and mask size, undo stack length) together with the queries `is_something_selected`,
//! `get_selected_rectangle`, `get_is_selected` over a probe window, and `get_copy_text`.  `Trace_Selection.tla` recomputes the
//! model operator on the state before and compares (model layer only).
//!
//! Case sources: (1) the call sequences exported by TLC from MC_Selection (Gen_Selection.cfg: one per abstract state), each
//! extended by one more call of every kind and by undo / redo walks; (2) seeded random sequences on documents up to 6 x 4 with
//! a stale (smaller / larger) mask size.
use crate::util::{guard, panic_site, rng, Args, Out};
use icy_engine::editor::{EditState, UndoState};
use icy_engine::{AddType, AttributedChar, Buffer, Position, Selection, Shape, Size, TextAttribute, TextPane, UnicodeConverter};
use rand::rngs::StdRng;
use rand::Rng;
use serde_json::{json, Value};

const GW: i32 = 10;
const GH: i32 = 8;

struct Case {
    id: String,
    bw: i32,
    bh: i32,
    mw: i32,
    mh: i32,
    ops: Vec<Value>,
    cells: u64,
}

fn build(c: &Case) -> EditState {
    // the mask takes its size from the buffer the EditState is made from; a later resize_buffer leaves it alone
    let mut buf = Buffer::new((c.mw.max(1), c.mh.max(1)));
    buf.is_terminal_buffer = false;
    let mut es = EditState::from_buffer(buf);
    if (c.mw, c.mh) != (c.bw, c.bh) {
        // not through resize_buffer: the case starts with an empty undo history
        es.get_buffer_mut().set_size((c.bw, c.bh));
        es.get_buffer_mut().layers[0].set_size((c.bw, c.bh));
    }
    let mut r = rng(c.cells, 71);
    for y in 0..c.bh {
        for x in 0..c.bw {
            if r.gen_range(0..3) != 0 {
                let ch = AttributedChar::new(char::from_u32(r.gen_range(65..91)).unwrap(), TextAttribute::new(r.gen_range(1..16), r.gen_range(0..8)));
                es.get_buffer_mut().layers[0].set_char((x, y), ch);
            }
        }
    }
    es
}

fn sel_json(s: Option<Selection>) -> Value {
    match s {
        None => json!([]),
        Some(s) => json!([s.anchor.x, s.anchor.y, s.lead.x, s.lead.y, i32::from(s.shape == Shape::Lines),
            match s.add_type { AddType::Default => 0, AddType::Add => 1, AddType::Subtract => 2 }]),
    }
}

fn mk_sel(a: &[i64]) -> Selection {
    let g = |i: usize| a.get(i).copied().unwrap_or(0) as i32;
    let mut s = Selection::new((g(0), g(1)));
    s.lead = Position::new(g(2), g(3));
    s.shape = if g(4) == 0 { Shape::Rectangle } else { Shape::Lines };
    s.add_type = match g(5) { 0 => AddType::Default, 1 => AddType::Add, _ => AddType::Subtract };
    s
}

/// the size of the selection mask is not public, but the tool overlay mask is always given the same size (from_buffer,
/// set_mask_size) and its size is
struct Tracked {
    mw: i32,
    mh: i32,
}

fn track(es: &EditState) -> Tracked {
    Tracked { mw: es.get_tool_overlay_mask().get_width(), mh: es.get_tool_overlay_mask().get_height() }
}

fn window(es: &EditState, t: &Tracked) -> (i32, i32) {
    let b = es.get_buffer();
    (b.get_width().max(t.mw) + 1, b.get_height().max(t.mh) + 1)
}

fn state(es: &EditState, t: &Tracked) -> Value {
    let b = es.get_buffer();
    let (xm, ym) = window(es, t);
    let mut mask = vec![];
    for y in -2..=ym {
        for x in -2..=xm {
            if es.get_is_mask_selected((x, y)) {
                mask.push(json!([x, y]));
            }
        }
    }
    json!({"bw": b.get_width(), "bh": b.get_height(), "mw": t.mw, "mh": t.mh, "sel": sel_json(es.get_selection()), "mask": mask})
}

fn grid(es: &EditState) -> (Value, Value) {
    let b = es.get_buffer();
    let conv = icy_engine::ascii::CP437Converter::default();
    let cell = |p: (i32, i32)| {
        let ch = b.get_char(p);
        json!([conv.convert_to_unicode(ch) as u32, i32::from(ch.is_transparent())])
    };
    // a fixed window that covers every coordinate the generators use: Buffer::get_char does not clip to the buffer's size
    let mut g = vec![];
    for y in 0..GH {
        g.push(Value::Array((0..GW).map(|x| cell((x, y))).collect()));
    }
    let out = guard(|| cell((-1, -1))).unwrap_or(json!([0, 1]));
    (Value::Array(g), out)
}

fn queries(es: &mut EditState, t: &Tracked) -> Value {
    let (xm, ym) = window(es, t);
    let mut issel = vec![];
    for y in -2..=ym {
        for x in -2..=xm {
            if es.get_is_selected((x, y)) {
                issel.push(json!([x, y]));
            }
        }
    }
    let r = es.get_selected_rectangle();
    let some = es.is_something_selected();
    let mut q = json!({"some": some, "rect": [r.start.x, r.start.y, r.size.width, r.size.height], "issel": issel, "copy": []});
    match guard(|| es.get_copy_text()) {
        Ok(None) => q["ck"] = json!("none"),
        Ok(Some(s)) => {
            q["ck"] = json!("text");
            q["copy"] = json!(s.chars().map(|c| c as u32).collect::<Vec<_>>());
        }
        Err(p) => {
            q["ck"] = json!("panic");
            q["site"] = json!(panic_site(&p));
        }
    }
    q
}

fn apply(es: &mut EditState, o: &Value) -> Result<(), String> {
    apply_inner(es, o).map_err(|e| e.to_string())
}

fn apply_inner(es: &mut EditState, o: &Value) -> icy_engine::EngineResult<()> {
    let a: Vec<i64> = o["a"].as_array().map(|v| v.iter().map(|x| x.as_i64().unwrap_or(0)).collect()).unwrap_or_default();
    match o["op"].as_str().unwrap_or("") {
        "set_selection" => es.set_selection(mk_sel(&a)),
        "clear_selection" => es.clear_selection(),
        "deselect" => es.deselect(),
        "add_selection_to_mask" => es.add_selection_to_mask(),
        "inverse_selection" => es.inverse_selection(),
        "enumerate_selections" => {
            match a.first().copied().unwrap_or(0) {
                3 => es.enumerate_selections(|p, _, _| Some((p.x + p.y) % 2 == 1)),
                2 => es.enumerate_selections(|_, _, sel| Some(!sel)),
                1 => es.enumerate_selections(|_, _, _| None),
                _ => es.enumerate_selections(|_, _, sel| Some(sel)),
            }
            Ok(())
        }
        "set_mask_size" => {
            es.set_mask_size();
            Ok(())
        }
        "resize_buffer" => es.resize_buffer(a.get(2).copied().unwrap_or(1) != 0, Size::new(a[0] as i32, a[1] as i32)),
        "undo" => es.undo(),
        "redo" => es.redo(),
        other => panic!("unknown op {other}"),
    }
}

fn run_case(c: &Case, o: &mut Out) -> (usize, usize) {
    let mut es = build(c);
    let mut t = track(&es);
    let (g, out) = grid(&es);
    o.ev(&json!({"ev": "reset", "case": c.id, "st": state(&es, &t), "g": g, "out": out, "ul": es.undo_stack_len()}));
    let (mut calls, mut panics) = (0, 0);
    for op in &c.ops {
        calls += 1;
        let r = guard(|| apply(&mut es, op));
        t = track(&es);
        let mut e = json!({"ev": "op", "o": {"op": op["op"], "a": op["a"]}});
        match r {
            Ok(Ok(())) => e["r"] = json!("ok"),
            Ok(Err(err)) => {
                e["r"] = json!("err");
                e["site"] = json!(err);
            }
            Err(p) => {
                e["r"] = json!("panic");
                e["site"] = json!(panic_site(&p));
                panics += 1;
                o.ev(&e);
                break;
            }
        }
        let (g, out) = grid(&es);
        e["st"] = state(&es, &t);
        e["g"] = g;
        e["out"] = out;
        e["ul"] = json!(es.undo_stack_len());
        e["q"] = queries(&mut es, &t);
        o.ev(&e);
    }
    (calls, panics)
}

fn op(name: &str, a: Vec<i64>) -> Value {
    json!({"op": name, "a": a})
}

fn all_followups(bw: i32, bh: i32) -> Vec<Vec<Value>> {
    let mut v: Vec<Vec<Value>> = vec![];
    for n in ["clear_selection", "deselect", "add_selection_to_mask", "inverse_selection", "set_mask_size"] {
        v.push(vec![op(n, vec![])]);
    }
    for k in 0..4 {
        v.push(vec![op("enumerate_selections", vec![k])]);
    }
    v.push(vec![op("resize_buffer", vec![(bw + 1) as i64, bh as i64, 1]), op("inverse_selection", vec![]), op("set_mask_size", vec![]), op("inverse_selection", vec![])]);
    v.push(vec![op("resize_buffer", vec![1, 1, 1]), op("set_mask_size", vec![]), op("resize_buffer", vec![bw as i64, bh as i64, 0]), op("inverse_selection", vec![])]);
    v.push(vec![op("resize_buffer", vec![(bw + 1) as i64, (bh + 1) as i64, 0]), op("inverse_selection", vec![]), op("undo", vec![]), op("undo", vec![]), op("add_selection_to_mask", vec![])]);
    v
}

fn walk(r: &mut StdRng, n: usize) -> Vec<Value> {
    (0..n).map(|_| if r.gen_bool(0.6) { op("undo", vec![]) } else { op("redo", vec![]) }).collect()
}

fn tlc_cases(path: &str, seed: u64, thorough: bool, cases: &mut Vec<Case>) {
    let Ok(text) = std::fs::read_to_string(path) else { return };
    let mut r = rng(seed, 72);
    let lines: Vec<&str> = text.lines().filter(|l| !l.trim().is_empty()).collect();
    let keep = if thorough { 1.0 } else { 0.25 };
    for (i, l) in lines.iter().enumerate() {
        let Ok(v) = serde_json::from_str::<Value>(l) else { continue };
        if !r.gen_bool(keep) && i % 16 != 0 {
            continue;
        }
        let gi = |n: &str| v[n].as_i64().unwrap_or(1) as i32;
        let base: Vec<Value> = v["ops"].as_array().cloned().unwrap_or_default();
        let f = all_followups(gi("bw"), gi("bh"));
        // the witness itself + one follow-up of some kind + an undo / redo walk + a new edit after the walk
        let mut ops = base.clone();
        ops.extend(f[r.gen_range(0..f.len())].clone());
        ops.extend(walk(&mut r, 4));
        ops.push(op("set_selection", vec![r.gen_range(-1..3), r.gen_range(-1..3), r.gen_range(-1..4), r.gen_range(-1..4), r.gen_range(0..2), r.gen_range(0..3)]));
        ops.extend(walk(&mut r, 2));
        cases.push(Case { id: format!("tlc{i}"), bw: gi("bw"), bh: gi("bh"), mw: gi("mw"), mh: gi("mh"), ops, cells: seed.wrapping_add(i as u64) });
    }
}

fn random_cases(seed: u64, n: usize, cases: &mut Vec<Case>) {
    let mut r = rng(seed, 73);
    for i in 0..n {
        let (bw, bh) = (r.gen_range(1..7), r.gen_range(1..5));
        let (mw, mh) = match r.gen_range(0..4) { 0 => (r.gen_range(1..7), r.gen_range(1..5)), _ => (bw, bh) };
        let mut ops = vec![];
        let len = r.gen_range(2..12);
        for _ in 0..len {
            let k = r.gen_range(0..20);
            ops.push(match k {
                0..=6 => {
                    let c = |r: &mut StdRng, m: i32| -> i64 { match r.gen_range(0..6) { 0 => -1, 1 => 0, 2 => m as i64, 3 => (m + 1) as i64, _ => r.gen_range(0..m.max(1)) as i64 } };
                    op("set_selection", vec![c(&mut r, bw), c(&mut r, bh), c(&mut r, bw), c(&mut r, bh), r.gen_range(0..2), r.gen_range(0..3)])
                }
                7 => op("clear_selection", vec![]),
                8 => op("deselect", vec![]),
                9..=11 => op("add_selection_to_mask", vec![]),
                12 => op("inverse_selection", vec![]),
                13 => op("enumerate_selections", vec![r.gen_range(0..4)]),
                14 => op("set_mask_size", vec![]),
                15 => op("resize_buffer", vec![r.gen_range(1..7), r.gen_range(1..5), r.gen_range(0..2)]),
                16..=17 => op("undo", vec![]),
                _ => op("redo", vec![]),
            });
        }
        cases.push(Case { id: format!("rnd{i}"), bw, bh, mw, mh, ops, cells: seed.wrapping_add(1000 + i as u64) });
    }
}

pub fn selection(a: &Args) {
    crate::util::install_panic_hook();
    let out = a.str("out", "work/C08-selection/selection.ndjson");
    let seed = a.u64("seed", 0);
    let thorough = a.str("tier", "quick") == "thorough";
    let shards = a.usize("shards", 4).max(1);
    let mut cases = vec![];
    tlc_cases(&a.str("gen", "gen/selection_cases.ndjson"), seed, thorough, &mut cases);
    let n_tlc = cases.len();
    random_cases(seed, a.usize("random", if thorough { 20000 } else { 3000 }), &mut cases);
    if a.has("replay") {
        let id = a.str("replay", "");
        cases.retain(|c| c.id == id);
    }
    let cases = std::sync::Arc::new(cases);
    let mut handles = vec![];
    for s in 0..shards {
        let cases = cases.clone();
        let path = out.replace(".ndjson", &format!("-s{s}.ndjson"));
        handles.push(std::thread::Builder::new().name("main".into()).stack_size(64 << 20).spawn(move || {
            let mut o = Out::create(&path);
            let (mut calls, mut panics) = (0, 0);
            for (i, c) in cases.iter().enumerate() {
                if i % shards != s { continue; }
                let (c1, p1) = run_case(c, &mut o);
                calls += c1;
                panics += p1;
            }
            o.flush();
            (calls, panics, o.n)
        }).unwrap());
    }
    let (mut calls, mut panics, mut events) = (0, 0, 0);
    for h in handles {
        let (c1, p1, n) = h.join().expect("driver thread");
        calls += c1;
        panics += p1;
        events += n;
    }
    let summary = json!({"cases": cases.len(), "tlc_cases": n_tlc, "calls": calls, "panics": panics, "events": events});
    std::fs::write(out.replace(".ndjson", "-summary.json"), serde_json::to_string_pretty(&summary).unwrap()).expect("summary");
    eprintln!("selection: {} cases ({} from TLC), {} calls, {} panics, {} events", cases.len(), n_tlc, calls, panics, events);
}
