//! C05 driver: binary art formats (XBin, BIN, ADF, IDF, Tundra) reproduce what was saved.
//!
//! `rt` events (first half): a source picture strictly inside the format's representable set, the bytes
//! `Buffer::to_bytes(ext, lossless options)` wrote, and the picture `Buffer::from_bytes` read back.
//! `rs` events (second half): a byte string the loader accepts (own files and mutated ones), the picture of the first
//! load, and the picture after save -> load.
//! A picture is projected to what the property talks about: size, per cell character (+ blink, font page), displayed
//! foreground / background RGB (through the palette, bold folded into the bright colour), ice mode, the first 16
//! palette colours, the glyph tables, and which glyphs are blank / solid (their fg / bg is not displayed).
//! Everything is judged by spec/codec/Trace_BinFmt.tla.
use crate::util::{guard, msg_class, panic_site, rng, Args, Out};
use icy_engine::{AttributedChar, BitFont, Buffer, Color, IceMode, Palette, SaveOptions, TextAttribute, TextPane};
use rand::rngs::StdRng;
use rand::Rng;
use serde_json::{json, Value};
use std::path::Path;

#[derive(Clone)]
struct Cell { ch: u8, fg: u32, bg: u32, bl: bool, pg: u8 }

struct Src {
    fmt: &'static str,
    w: i32,
    h: i32,
    mode: u8, // 0 unlimited, 1 blink, 2 ice
    pal: Option<Vec<(u8, u8, u8)>>, // None = DOS default
    fonts: Vec<Option<BitFont>>,    // page 0, page 1; None = engine default for page 0
    cells: Vec<Cell>,
    compress: bool,
    sauce: bool,
    class: String,
}

fn ice_of(m: u8) -> IceMode { match m { 0 => IceMode::Unlimited, 1 => IceMode::Blink, _ => IceMode::Ice } }

fn build(s: &Src) -> Buffer {
    let mut buf = Buffer::new((s.w, s.h));
    buf.is_terminal_buffer = false;
    buf.ice_mode = ice_of(s.mode);
    if let Some(p) = &s.pal {
        let cols: Vec<Color> = p.iter().map(|c| Color::new(c.0, c.1, c.2)).collect();
        buf.palette = Palette::from_slice(&cols);
    }
    for (i, f) in s.fonts.iter().enumerate() {
        if let Some(f) = f { buf.set_font(i, f.clone()); }
    }
    for (i, c) in s.cells.iter().enumerate() {
        let mut at = TextAttribute::new(c.fg, c.bg);
        at.set_is_blinking(c.bl);
        at.set_font_page(c.pg as usize);
        buf.layers[0].set_char((i as i32 % s.w, i as i32 / s.w), AttributedChar::new(c.ch as char, at));
    }
    // one picture in six was cropped without resizing its layer (EditState::resize_buffer(false, ..) / Buffer::set_size): rows stay
    // stored below the canvas edge, with cells in other colours and on another font page - they are not part of the picture
    static CROPPED: std::sync::atomic::AtomicU64 = std::sync::atomic::AtomicU64::new(0);
    if CROPPED.fetch_add(1, std::sync::atomic::Ordering::Relaxed) % 6 == 5 {
        // the layer keeps two more rows than the canvas shows
        buf.layers[0].set_size((s.w, s.h + 2));
        for y in s.h..s.h + 2 {
            for x in 0..s.w.min(6) {
                let mut at = TextAttribute::new(12, 1);
                at.set_font_page(1);
                buf.layers[0].set_char((x, y), AttributedChar::new('#', at));
            }
        }
        buf.set_size((s.w, s.h));
    }
    buf
}

fn rgb24(c: (u8, u8, u8)) -> u32 { ((c.0 as u32) << 16) | ((c.1 as u32) << 8) | c.2 as u32 }

/// glyph classes per font page: codes whose glyph has no pixel set (fg / blink not displayed) and all pixels set (bg not displayed)
fn glyph_classes(buf: &Buffer) -> (Value, Value) {
    let mut blank = vec![];
    let mut solid = vec![];
    for page in 0..2usize {
        let (mut b, mut s) = (vec![], vec![]);
        if let Some(font) = buf.get_font(page) {
            let wmask: u8 = if font.size.width >= 8 { 0xFF } else { !(0xFFu8 >> font.size.width) };
            for ch in 0..256u32 {
                if let Some(g) = font.get_glyph(char::from_u32(ch).unwrap()) {
                    if g.data.iter().all(|r| r & wmask == 0) { b.push(ch); }
                    if !g.data.is_empty() && g.data.iter().all(|r| r & wmask == wmask) { s.push(ch); }
                } else {
                    b.push(ch);
                }
            }
        }
        blank.push(b);
        solid.push(s);
    }
    (json!(blank), json!(solid))
}

fn fonts_of(buf: &Buffer, with_data: bool) -> Value {
    let mut v = vec![];
    for page in 0..2usize {
        if let Some(f) = buf.get_font(page) {
            let data = f.convert_to_u8_data();
            // the glyph table as a CRC-32 (two 16-bit halves) and, for small cases, the bytes themselves
            let crc = icy_engine::get_crc32(&data);
            v.push(json!({"h": f.size.height, "w": f.size.width, "n": data.len(), "crc": [crc >> 16, crc & 0xFFFF], "data": if with_data { data } else { vec![] }}));
        } else {
            break;
        }
    }
    json!(v)
}

/// projection of a buffer to the picture C05 talks about
fn picture(buf: &Buffer, with_fonts: bool, with_classes: bool, font_data: bool, max_rows: i32) -> Value {
    let (w, h) = (buf.get_width(), buf.get_height());
    let rows = h.min(max_rows).max(0);
    let n = (w.max(0) as usize) * (h.max(0) as usize);
    let (mut ch, mut fg, mut bg) = (Vec::with_capacity(n), Vec::with_capacity(n), Vec::with_capacity(n));
    for y in 0..rows {
        for x in 0..w {
            let c = buf.get_char((x, y));
            let code = c.ch as u32;
            let pg = c.get_font_page() as u32;
            // 0..255 character, +256 blink, +512*page; anything else (wide char, page > 1) can never equal a source code
            ch.push(if code > 255 || pg > 1 { 4096 + (code & 0xFFFF) } else { code + 256 * (c.attribute.is_blinking() as u32) + 512 * pg });
            let f = c.attribute.get_foreground();
            let f = if c.attribute.is_bold() && f < 8 { f + 8 } else { f };
            fg.push(rgb24(buf.palette.get_rgb(f)));
            bg.push(rgb24(buf.palette.get_rgb(c.attribute.get_background())));
        }
    }
    let pal: Vec<Value> = (0..buf.palette.len().min(16)).map(|i| { let c = buf.palette.get_rgb(i as u32); json!([c.0, c.1, c.2]) }).collect();
    let mut v = json!({"w": w, "h": h, "rows": rows, "ice": matches!(buf.ice_mode, IceMode::Ice) as u8, "ch": ch, "fg": fg, "bg": bg, "pal": pal, "npal": buf.palette.len()});
    v["fonts"] = if with_fonts { fonts_of(buf, font_data) } else { json!([]) };
    if with_classes {
        let (b, s) = glyph_classes(buf);
        v["blank"] = b;
        v["solid"] = s;
    }
    v
}

fn empty_pic() -> Value { json!({"w":0,"h":0,"rows":0,"ice":0,"ch":[],"fg":[],"bg":[],"pal":[],"npal":0,"fonts":[]}) }

fn status<T>(r: &Result<Result<T, String>, crate::util::PanicInfo>) -> String {
    match r { Ok(Ok(_)) => "ok".into(), Ok(Err(e)) => format!("err:{}", msg_class(e)), Err(p) => format!("panic:{}", panic_site(p)) }
}

fn opts(compress: bool, sauce: bool) -> SaveOptions {
    let mut o = SaveOptions::new();
    o.lossles_output = true;
    o.compress = compress;
    o.save_sauce = sauce;
    o
}

fn save(buf: &Buffer, fmt: &str, compress: bool, sauce: bool) -> Result<Result<Vec<u8>, String>, crate::util::PanicInfo> {
    let o = opts(compress, sauce);
    guard(|| buf.to_bytes(fmt, &o).map_err(|e| e.to_string()))
}

fn load(fmt: &str, bytes: &[u8]) -> Result<Result<Buffer, String>, crate::util::PanicInfo> {
    let name = format!("c05.{fmt}");
    guard(|| Buffer::from_bytes(Path::new(&name), true, bytes).map_err(|e| e.to_string()))
}

fn embeds_fonts(fmt: &str) -> bool { matches!(fmt, "xb" | "adf" | "idf") }

// ------------------------------------------------------------------------------------------------ generators
fn six(r: &mut StdRng) -> u8 { let v: u8 = r.gen_range(0..64); (v << 2) | (v >> 4) }

fn pal16_sixbit(r: &mut StdRng) -> Vec<(u8, u8, u8)> {
    let mut p: Vec<(u8, u8, u8)> = (0..16).map(|_| (six(r), six(r), six(r))).collect();
    // some formats END with the palette: one palette in four ends in a 6-bit value that is also a marker byte (0x1A = DOS end
    // of file, 0x00, 0x3F) - and one in four begins with one
    let exp = |v: u8| (v << 2) | (v >> 4);
    let marks: [u8; 4] = [exp(0x1A), exp(0), exp(0x3F), exp(0x1B)];
    match r.gen_range(0..8) { 0 | 1 => p[15].2 = marks[r.gen_range(0..4)], 2 => p[15] = (marks[0], marks[0], marks[0]), 3 => p[0].0 = marks[r.gen_range(0..4)], _ => {} }
    p
}

fn rnd_font(r: &mut StdRng, height: u8, name: &str) -> BitFont {
    // one font in eight is the BUILT-IN font object with a glyph edited in place (same name, with a refreshed or a stale checksum):
    // what a font editor hands to the writers; they must not take it for the built-in font
    if height == 16 && r.gen_range(0..8) == 0 {
        let mut f = BitFont::default();
        if let Some(g) = f.get_glyph_mut('A') { g.data[2] ^= 0x7E; }
        if let Some(g) = f.get_glyph_mut(' ') { for b in g.data.iter_mut() { *b = 0; } }
        if r.gen_bool(0.5) { f.calculate_checksum(); }
        return f;
    }
    let mut data = vec![0u8; 256 * height as usize];
    for b in data.iter_mut() { *b = r.gen(); }
    for row in 0..height as usize {
        data[32 * height as usize + row] = 0;       // space is blank
        data[219 * height as usize + row] = 0xFF;   // full block is solid
    }
    // the font name travels in the 22-byte SAUCE TInfoS field of some formats: names of every length class around it
    let name = match r.gen_range(0..8) {
        0 => "n".repeat(21), 1 => "n".repeat(22), 2 => "n".repeat(23), 3 => "Codepage 1251 Cyrillic, (swiss)".to_string(), 4 => String::new(), 5 => "n".repeat(40),
        _ => name.to_string(),
    };
    let mut f = BitFont::create_8(name, 8, height, &data);
    // a font object whose glyphs were edited in place after it was built: the checksum it carries is stale (get_glyph_mut does not
    // refresh it) - code that recognises fonts by checksum must not take it for the font it was
    if r.gen_range(0..4) == 0 {
        if let Some(g) = f.get_glyph_mut('A') { g.data[0] ^= 0x5A; }
        if r.gen_bool(0.5) { f.calculate_checksum(); }
    }
    f
}

fn pick<T: Copy>(r: &mut StdRng, xs: &[T]) -> T { xs[r.gen_range(0..xs.len())] }

/// cell content: style 0 uniform random, 1 runs (each coordinate kept with high probability), 2 few distinct cells
fn gen_cells(r: &mut StdRng, n: usize, chars: &dyn Fn(&mut StdRng) -> u8, maxfg: u32, maxbg: u32, blink: bool, pages: u8) -> Vec<Cell> {
    let style = r.gen_range(0..3);
    let keep = pick(r, &[0.6, 0.9, 0.97]);
    let mut cur = Cell { ch: chars(r), fg: r.gen_range(0..maxfg), bg: r.gen_range(0..maxbg), bl: blink && r.gen_bool(0.3), pg: r.gen_range(0..pages) };
    let few: Vec<Cell> = (0..4).map(|_| Cell { ch: chars(r), fg: r.gen_range(0..maxfg), bg: r.gen_range(0..maxbg), bl: blink && r.gen_bool(0.3), pg: r.gen_range(0..pages) }).collect();
    let mut v = Vec::with_capacity(n);
    for _ in 0..n {
        match style {
            0 => cur = Cell { ch: chars(r), fg: r.gen_range(0..maxfg), bg: r.gen_range(0..maxbg), bl: blink && r.gen_bool(0.3), pg: r.gen_range(0..pages) },
            1 => {
                if !r.gen_bool(keep) { cur.ch = chars(r); }
                if !r.gen_bool(keep) { cur.fg = r.gen_range(0..maxfg); }
                if !r.gen_bool(keep) { cur.bg = r.gen_range(0..maxbg); }
                if blink && !r.gen_bool(keep) { cur.bl = !cur.bl; }
                if pages > 1 && !r.gen_bool(keep) { cur.pg = r.gen_range(0..pages); }
            }
            _ => cur = few[r.gen_range(0..few.len())].clone(),
        }
        v.push(cur.clone());
    }
    if pages > 1 {
        // both fonts must be in use, otherwise the picture is a one-font picture
        v[0].pg = 0;
        if n > 1 { v[n - 1].pg = 1; } else { for c in v.iter_mut() { c.pg = 0; } }
    }
    v
}

fn any_char(r: &mut StdRng) -> u8 { if r.gen_bool(0.2) { pick(r, &[0u8, 1, 2, 3, 4, 5, 6, 7, 10, 13, 26, 27, 32, 219, 255]) } else { r.gen() } }

fn gen_xb(r: &mut StdRng, i: u64, thorough: bool) -> Src {
    let ws: &[i32] = &[1, 2, 63, 64, 65, 80];
    let hs: &[i32] = &[1, 24, 25, 26];
    let (w, h) = match i % 12 {
        0 => (pick(r, ws), pick(r, hs)),
        1 => (r.gen_range(1..=100), pick(r, &[1, 2, 25])),
        2 => (pick(r, ws), r.gen_range(1..=30)),
        3 if i % 120 == 3 => (4096, if thorough { 25 } else { 2 }),
        // widths around the values other layers of the loader treat specially (SAUCE clamps sizes above 1000, 255 / 256 / 510 / 512
        // are field-width boundaries)
        5 if i % 24 == 5 => (pick(r, &[254, 255, 256, 257, 510, 512, 999, 1000, 1001, 1200, 2048]), pick(r, &[1, 2, 3])),
        4 if i % 120 == 4 => (r.gen_range(1..=6), 200),
        _ => (r.gen_range(1..=40), r.gen_range(1..=24)),
    };
    let two = r.gen_bool(0.4) && w * h >= 2;
    let mode = if r.gen_bool(0.08) { 0 } else if r.gen_bool(0.5) { 1 } else { 2 };
    let fh: u8 = match r.gen_range(0..6) { 0 => 1, 1 => 8, 2 => 16, 3 => 32, _ => r.gen_range(1..=32) };
    let custom_font = two || fh != 16 || r.gen_bool(0.4);
    let fonts = if two { vec![Some(rnd_font(r, fh, "c05 a")), Some(rnd_font(r, fh, "c05 b"))] } else if custom_font { vec![Some(rnd_font(r, fh, "c05 a"))] } else { vec![None] };
    let pal = if r.gen_bool(0.6) { Some(pal16_sixbit(r)) } else { None };
    let maxbg = if mode == 2 { 16 } else { 8 };
    let cells = gen_cells(r, (w * h) as usize, &any_char, if two { 8 } else { 16 }, maxbg, mode != 2, if two { 2 } else { 1 });
    let mut cells = cells;
    let mut compress = r.gen_bool(0.5);
    let mut cap = 0;
    if i % 6 == 1 && w >= 66 {
        // directed: literal stretches around the 64-cell cap of a run header.  Row y starts with k cells whose neighbours differ in
        // character AND attribute (k around 64 / 128), then a pair sharing the attribute / the character / both, then the random rest.
        compress = true;
        cap = 1;
        for y in 0..h as usize {
            let k = ([62usize, 63, 64, 65, 66, 127, 128, 129][y % 8]).min(w as usize - 2);
            for x in 0..=k {
                let c = &mut cells[y * w as usize + x];
                c.ch = b'A' + ((x * 7 + y) % 50) as u8;
                c.fg = (x % 7) as u32 + 1;
                c.bg = (x % 3) as u32;
                c.bl = false;
            }
            let prev = cells[y * w as usize + k - 1].clone();
            let c = &mut cells[y * w as usize + k];
            match (y / 8) % 3 { 0 => { c.fg = prev.fg; c.bg = prev.bg; } 1 => c.ch = prev.ch, _ => { c.fg = prev.fg; c.bg = prev.bg; c.ch = prev.ch; } }
            if two { for x in 0..=k { cells[y * w as usize + x].pg = 0; } }
        }
        if two { let last = cells.len() - 1; cells[last].pg = 1; }
    }
    Src { fmt: "xb", w, h, mode, pal, fonts, cells, compress, sauce: r.gen_bool(0.3), class: format!("fonts={},fh={},pal={},compress={},cap={}", if two { 2 } else { 1 }, fh, 0, compress as u8, cap) }
}

fn gen_bin(r: &mut StdRng, i: u64, _thorough: bool) -> Src {
    let w = match i % 6 { 0 => 2, 1 => 80, 2 => 160, 3 => 510, _ => 2 * r.gen_range(1..=255) };
    let h = match i % 7 { 0 => 1, 1 => 25, 2 => 24, 3 => 26, _ => r.gen_range(1..=(if w > 200 { 4 } else if w > 60 { 12 } else { 40 })) };
    let mode = r.gen_range(0..3);
    let maxbg = if mode == 2 { 16 } else { 8 };
    let cells = gen_cells(r, (w * h) as usize, &any_char, 16, maxbg, mode != 2, 1);
    Src { fmt: "bin", w, h, mode, pal: None, fonts: vec![None], cells, compress: false, sauce: true, class: format!("mode={mode}") }
}

fn gen_adf(r: &mut StdRng, i: u64, _thorough: bool) -> Src {
    let h = match i % 8 { 0 => 1, 1 => 24, 2 => 25, 3 => 26, 4 if i % 40 == 4 => 201, _ => r.gen_range(1..=30) };
    let cells = gen_cells(r, (80 * h) as usize, &any_char, 16, 16, false, 1);
    let font = if r.gen_bool(0.5) { Some(rnd_font(r, 16, "c05 a")) } else { None };
    Src { fmt: "adf", w: 80, h, mode: 2, pal: Some(pal16_sixbit(r)), fonts: vec![font], cells, compress: false, sauce: r.gen_bool(0.3), class: String::new() }
}

fn gen_idf(r: &mut StdRng, i: u64, _thorough: bool) -> Src {
    let w = match i % 5 { 0 => 80, 1 => 1, 2 => 79, _ => r.gen_range(1..=80) };
    let h = match i % 9 { 0 => 1, 1 => 24, 2 => 25, 3 => 26, 4 if i % 45 == 4 => 200, _ => r.gen_range(1..=30) };
    let chars = |r: &mut StdRng| if r.gen_bool(0.15) { 1u8 } else { any_char(r) };
    let mut cells = gen_cells(r, (w * h) as usize, &chars, 16, 16, false, 1);
    // the escape word itself: character 1 in black on black
    for c in cells.iter_mut() { if c.ch == 1 && r.gen_bool(0.4) { c.fg = 0; c.bg = 0; } }
    let font = if r.gen_bool(0.5) { Some(rnd_font(r, 16, "c05 a")) } else { None };
    let compress = r.gen_bool(0.6);
    Src { fmt: "idf", w, h, mode: 2, pal: Some(pal16_sixbit(r)), fonts: vec![font], cells, compress, sauce: r.gen_bool(0.2), class: format!("compress={}", compress as u8) }
}

fn gen_tnd(r: &mut StdRng, i: u64, _thorough: bool) -> Src {
    let w = match i % 6 { 0 => 80, 1 => 1, 2 => 132, 3 => 300, _ => r.gen_range(1..=100) };
    let h = match i % 5 { 0 => 1, 1 => 25, _ => r.gen_range(1..=(if w > 100 { 6 } else { 30 })) };
    let ncol = pick(r, &[2usize, 16, 40, 300]);
    let pal: Vec<(u8, u8, u8)> = (0..ncol).map(|k| if k == 0 && r.gen_bool(0.7) { (0, 0, 0) } else { (r.gen(), r.gen(), r.gen()) }).collect();
    let chars = |r: &mut StdRng| if r.gen_bool(0.15) { r.gen_range(0..=7u8) } else { r.gen() };
    let mut cells = gen_cells(r, (w * h) as usize, &chars, ncol as u32, ncol as u32, false, 1);
    if i % 4 == 3 {
        // directed: the picture starts with cells in palette colour 0 (no colour record precedes them in the file)
        let k = r.gen_range(1..=3).min(cells.len());
        for (j, c) in cells.iter_mut().take(k).enumerate() { c.fg = 0; if j % 2 == 0 { c.bg = 0; } c.ch = b'A' + j as u8; }
    }
    Src { fmt: "tnd", w, h, mode: 2, pal: Some(pal), fonts: vec![None], cells, compress: false, sauce: true, class: format!("ncol={ncol}") }
}

/// one source picture for a configuration exported by TLC (Gen_BinFmt): the blocks / mode bits / sizes are given, the content is seeded
fn from_config(r: &mut StdRng, v: &Value) -> Option<Src> {
    let c = &v["cfg"];
    let n = |k: &str| c[k].as_i64().unwrap_or(0);
    Some(match v["fmt"].as_str()? {
        "xb" => {
            let (w, h) = (c["size"][0].as_i64()? as i32, c["size"][1].as_i64()? as i32);
            let two = n("two") == 1;
            let fh = n("fh") as u8;
            let mode = if n("ice") == 1 { 2 } else { 1 };
            let fonts = if two { vec![Some(rnd_font(r, fh, "c05 a")), Some(rnd_font(r, fh, "c05 b"))] } else if n("font") == 1 { vec![Some(rnd_font(r, fh, "c05 a"))] } else { vec![None] };
            let pal = if n("pal") == 1 { Some(pal16_sixbit(r)) } else { None };
            let cells = gen_cells(r, (w * h) as usize, &any_char, if two { 8 } else { 16 }, if mode == 2 { 16 } else { 8 }, mode != 2, if two { 2 } else { 1 });
            Src { fmt: "xb", w, h, mode, pal, fonts, cells, compress: n("compress") == 1, sauce: false, class: format!("cfg:{c}") }
        }
        "bin" => {
            let (w, h, mode) = (n("w") as i32, n("h") as i32, n("mode") as u8);
            let cells = gen_cells(r, (w * h) as usize, &any_char, 16, if mode == 2 { 16 } else { 8 }, mode != 2, 1);
            Src { fmt: "bin", w, h, mode, pal: None, fonts: vec![None], cells, compress: false, sauce: true, class: format!("cfg:{c}") }
        }
        "adf" => {
            let h = n("h") as i32;
            let cells = gen_cells(r, (80 * h) as usize, &any_char, 16, 16, false, 1);
            Src { fmt: "adf", w: 80, h, mode: 2, pal: Some(pal16_sixbit(r)), fonts: vec![Some(rnd_font(r, 16, "c05 a"))], cells, compress: false, sauce: n("sauce") == 1, class: format!("cfg:{c}") }
        }
        "idf" => {
            let (w, h) = (n("w") as i32, n("h") as i32);
            let chars = |r: &mut StdRng| if r.gen_bool(0.1) { 1u8 } else { any_char(r) };
            let cells = gen_cells(r, (w * h) as usize, &chars, 16, 16, false, 1);
            Src { fmt: "idf", w, h, mode: 2, pal: Some(pal16_sixbit(r)), fonts: vec![Some(rnd_font(r, 16, "c05 a"))], cells, compress: n("compress") == 1, sauce: false, class: format!("cfg:{c}") }
        }
        "tnd" => {
            let (w, h, ncol) = (n("w") as i32, n("h") as i32, n("ncol") as usize);
            let pal: Vec<(u8, u8, u8)> = (0..ncol).map(|k| if k == 0 { (0, 0, 0) } else { (r.gen(), r.gen(), r.gen()) }).collect();
            let chars = |r: &mut StdRng| if r.gen_bool(0.1) { r.gen_range(0..=7u8) } else { r.gen() };
            let cells = gen_cells(r, (w * h) as usize, &chars, ncol as u32, ncol as u32, false, 1);
            Src { fmt: "tnd", w, h, mode: 2, pal: Some(pal), fonts: vec![None], cells, compress: false, sauce: true, class: format!("cfg:{c}") }
        }
        _ => return None,
    })
}

// ------------------------------------------------------------------------------------------------ events
struct Ctx { out: Vec<Out>, bytes: Vec<usize>, id: u64, counts: std::collections::BTreeMap<String, u64>, files: Vec<(&'static str, Vec<u8>, bool)> }

impl Ctx {
    fn emit(&mut self, ev: &Value, size: usize) {
        let i = (0..self.out.len()).min_by_key(|&i| self.bytes[i]).unwrap();
        self.bytes[i] += size + 500;
        self.out[i].ev(ev);
    }
    fn count(&mut self, k: String) { *self.counts.entry(k).or_insert(0) += 1; }
}

/// first half: source -> bytes -> reloaded
fn round_trip(ctx: &mut Ctx, s: &Src, ml_limit: usize, index: u64) {
    let buf = build(s);
    let ncell = (s.w * s.h) as usize;
    let ml = ncell <= ml_limit;
    let src = picture(&buf, embeds_fonts(s.fmt), true, ml, i32::MAX);
    let saved = save(&buf, s.fmt, s.compress, s.sauce);
    let st_save = status(&saved);
    let (mut st_load, mut back) = ("nofile".to_string(), empty_pic());
    let mut nbytes = 0;
    let mut bytes_v = json!([]);
    if let Ok(Ok(bytes)) = &saved {
        nbytes = bytes.len();
        if ml { bytes_v = json!(bytes); }
        let l = load(s.fmt, bytes);
        st_load = status(&l);
        if let Ok(Ok(b)) = &l { back = picture(b, embeds_fonts(s.fmt), false, ml, s.h + 2); }
        ctx.files.push((s.fmt, bytes.clone(), s.compress));
    }
    ctx.id += 1;
    let ev = json!({"ev":"rt","id":ctx.id,"index":index,"fmt":s.fmt,"class":s.class,"compress":s.compress as u8,"sauce":s.sauce as u8,"mode":s.mode,"nfonts":s.fonts.len(),
                    "ml":ml as u8,"src":src,"save":st_save,"nbytes":nbytes,"bytes":bytes_v,"load":st_load,"back":back});
    ctx.emit(&ev, ncell * 60 + nbytes * 4);
    ctx.count(format!("rt:{}", s.fmt));
}

/// second half: bytes accepted by the loader -> picture 1 -> save -> load -> picture 2
fn resave(ctx: &mut Ctx, fmt: &'static str, bytes: &[u8], origin: &str, compress: bool, cell_limit: usize) {
    let l1 = load(fmt, bytes);
    let Ok(Ok(b1)) = &l1 else { ctx.count(format!("rs-rejected:{fmt}:{}", origin.split(':').next().unwrap_or(""))); return; };
    if (b1.get_width().max(0) as usize) * (b1.get_height().max(0) as usize) > cell_limit { ctx.count(format!("rs-skipped-large:{fmt}")); return; }
    let p1 = picture(b1, embeds_fonts(fmt), true, false, i32::MAX);
    let sauce = matches!(fmt, "bin" | "tnd") || b1.has_sauce();
    let saved = save(b1, fmt, compress, sauce);
    let st_save = status(&saved);
    let (mut st_l2, mut p2) = ("nofile".to_string(), empty_pic());
    if let Ok(Ok(bytes2)) = &saved {
        let l2 = load(fmt, bytes2);
        st_l2 = status(&l2);
        if let Ok(Ok(b2)) = &l2 { p2 = picture(b2, embeds_fonts(fmt), false, false, b1.get_height() + 2); }
    }
    ctx.id += 1;
    let ncell = (b1.get_width().max(0) as usize) * (b1.get_height().max(0) as usize);
    let ev = json!({"ev":"rs","id":ctx.id,"fmt":fmt,"origin":origin,"compress":compress as u8,"sauce":sauce as u8,"nbytes":bytes.len(),"p1":p1,"save":st_save,"l2":st_l2,"p2":p2});
    ctx.emit(&ev, ncell * 60);
    ctx.count(format!("rs:{fmt}:{}", origin.split(':').next().unwrap_or("")));
}

fn mutate(r: &mut StdRng, fmt: &str, bytes: &[u8]) -> (String, Vec<u8>) {
    let mut b = bytes.to_vec();
    let n = b.len();
    let hdr = match fmt { "xb" => 11, "idf" => 12, "tnd" => 9, "adf" => 1, _ => 0 };
    match r.gen_range(0..6) {
        0 if n > hdr + 2 => { let k = r.gen_range(hdr..n); b.truncate(k); ("trunc".into(), b) }
        1 if n > hdr + 1 => { for _ in 0..r.gen_range(1..=4) { let k = r.gen_range(hdr..n); b[k] = r.gen(); } ("body-bytes".into(), b) }
        2 if hdr > 0 => { let k = r.gen_range(0..hdr.min(n)); b[k] = if r.gen_bool(0.5) { r.gen() } else { b[k].wrapping_add(1) }; ("header-byte".into(), b) }
        3 => { for _ in 0..r.gen_range(1..=7) { b.push(r.gen()); } ("append".into(), b) }
        4 if n > hdr + 4 => { let k = r.gen_range(hdr..n - 1); let m = r.gen_range(1..=(n - k).min(40)); b.drain(k..k + m); ("delete".into(), b) }
        _ if n > hdr + 1 => { let k = r.gen_range(hdr..n); b[k] ^= 1 << r.gen_range(0..8); ("bitflip".into(), b) }
        _ => ("same".into(), b),
    }
}

pub fn c05(a: &Args) {
    let prefix = a.str("out", "work/C05/trace");
    let shards = a.usize("shards", 4).max(1);
    let seed = a.u64("seed", 0);
    let thorough = a.str("tier", "quick") == "thorough";
    let scale = a.u64("scale", if thorough { 8 } else { 1 });
    let ml_limit = a.usize("ml-cells", 2600);
    let mut ctx = Ctx { out: (0..shards).map(|i| Out::create(&format!("{prefix}-{i}.ndjson"))).collect(), bytes: vec![0; shards], id: 0, counts: Default::default(), files: vec![] };
    let only = a.str("only", "");
    let index = a.m.get("index").and_then(|v| v.parse::<u64>().ok());
    // (1) one picture per configuration exported by TLC (Gen_BinFmt -> gen/binfmt.ndjson); index = 1_000_000 + line number
    let gen = a.str("gen", "gen/binfmt.ndjson");
    let text = std::fs::read_to_string(&gen).unwrap_or_else(|e| { eprintln!("c05: cannot read {gen}: {e}"); std::process::exit(2) });
    for (k, line) in text.lines().enumerate() {
        let Ok(v) = serde_json::from_str::<Value>(line) else { continue };
        let i = 1_000_000 + k as u64;
        if !only.is_empty() && v["fmt"].as_str() != Some(only.as_str()) { continue; }
        if let Some(ix) = index { if ix != i { continue; } }
        let mut r = rng(seed, 9_000_000 + k as u64);
        if let Some(s) = from_config(&mut r, &v) {
            round_trip(&mut ctx, &s, ml_limit, i);
            ctx.count("rt-from-tlc-config".to_string());
        }
    }
    // (2) seeded random pictures
    let gens: [(&'static str, fn(&mut StdRng, u64, bool) -> Src, u64, u64); 5] =
        [("xb", gen_xb, 360, 1), ("bin", gen_bin, 150, 2), ("adf", gen_adf, 80, 3), ("idf", gen_idf, 150, 4), ("tnd", gen_tnd, 150, 5)];
    for (fmt, g, n, stream) in gens {
        if !only.is_empty() && only != fmt { continue; }
        for i in 0..n * scale {
            if let Some(ix) = index { if ix != i { continue; } }
            let mut r = rng(seed, stream * 1_000_000 + i);
            let s = g(&mut r, i, thorough);
            round_trip(&mut ctx, &s, ml_limit, i);
        }
    }
    // second half: own files and mutated ones that still load
    let files = if a.has("no-resave") { vec![] } else { std::mem::take(&mut ctx.files) };
    let mut r = rng(seed, 77_000_000);
    for (k, (fmt, bytes, compress)) in files.iter().enumerate() {
        if bytes.len() > 60_000 { continue; }
        if k % 3 == 0 { resave(&mut ctx, fmt, bytes, "own", *compress, 4_000); }
        let (kind, m) = mutate(&mut r, fmt, bytes);
        let c = r.gen_bool(0.5);
        // the projection of a buffer loaded from a mutated file is the harness's own code: a panic there is a tool error, say where
        if let Err(p) = guard(|| resave(&mut ctx, fmt, &m, &format!("mut:{kind}"), c, 4_000)) {
            eprintln!("c05: harness panic while projecting a mutated {fmt} file ({kind}): {} at {}:{}", p.msg, p.file, p.line);
            std::process::exit(2);
        }
    }
    for o in ctx.out.iter_mut() { o.flush(); }
    std::fs::write(format!("{prefix}-summary.json"), serde_json::to_string(&json!({"events": ctx.id, "counts": ctx.counts})).unwrap()).unwrap();
    eprintln!("c05: {} events {:?}", ctx.id, ctx.counts);
}
