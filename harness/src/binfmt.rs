//! (stub) driver module - see tools/HOWTO.md
use crate::util::Args;

pub fn c05(_a: &Args) {
    eprintln!("c05: driver not built yet");
    std::process::exit(2);
}
