//! Driver for spec/doc/Links.tla (model layer): hyperlink ranges of a buffer - `Buffer::is_position_in_range` for every
//! (width, start, length, position) of a small complete domain, `Buffer::get_string` as the walk, and `parse_hyperlinks` /
//! `update_hyperlinks` on buffers with URLs placed at every column (also wrapping to the next row).
use crate::util::{guard, panic_site, Args, Out};
use icy_engine::{AttributedChar, Buffer, TextAttribute, TextPane};
use serde_json::json;

pub fn links(a: &Args) {
    crate::util::install_panic_hook();
    let mut out = Out::create(&a.str("out", "work/C08-links/links.ndjson"));
    let thorough = a.str("tier", "quick") == "thorough";
    let (maxw, maxsize, h) = (if thorough { 7 } else { 5 }, if thorough { 20 } else { 12 }, 4);
    let mut n = 0;
    for w in 1..=maxw {
        let mut buf = Buffer::new((w, h));
        for y in 0..h { for x in 0..w {
            buf.layers[0].set_char((x, y), AttributedChar::new(char::from_u32((0x100 + y * w + x) as u32).unwrap(), TextAttribute::default()));
        }}
        for fy in 0..h { for fx in 0..w { for size in 0..=maxsize {
            let mut inr = vec![];
            for py in 0..h { for px in 0..w {
                if buf.is_position_in_range((px, py), (fx, fy), size) { inr.push(json!([px, py])); }
            }}
            // the walk: which cells get_string reads (cells are numbered, cells outside the buffer read as blank)
            let s = guard(|| buf.get_string((fx, fy), size as usize)).unwrap_or_default();
            let walk: Vec<_> = s.chars().map(|c| { let k = c as i32 - 0x100; if k >= 0 && k < w * h { json!([k % w, k / w]) } else { json!([-1, -1]) } }).collect();
            out.ev(&json!({"ev": "range", "w": w, "h": h, "from": [fx, fy], "size": size, "in": inr, "walk": walk}));
            n += 1;
        }}}
    }
    // URLs at every column of a 20-column buffer (wrapping included): what parse_hyperlinks reports must read back as the URL
    let url = "http://ab.cd/e";
    let mut urls = 0;
    for col in 0..20 {
        let mut buf = Buffer::new((20, 4));
        for (i, c) in url.chars().enumerate() {
            let p = col + i as i32;
            buf.layers[0].set_char((p % 20, 1 + p / 20), AttributedChar::new(c, TextAttribute::default()));
        }
        let r = guard(|| {
            let hl = buf.parse_hyperlinks();
            hl.iter().map(|l| json!({"pos": [l.position.x, l.position.y], "len": l.length, "text": buf.get_string(l.position, l.length as usize)})).collect::<Vec<_>>()
        });
        match r {
            Ok(v) => out.ev(&json!({"ev": "url", "col": col, "url": url, "found": v, "r": "ok"})),
            Err(p) => out.ev(&json!({"ev": "url", "col": col, "url": url, "found": [], "r": "panic", "site": panic_site(&p)})),
        }
        urls += 1;
    }
    out.flush();
    eprintln!("links: {n} ranges, {urls} url buffers, {} events", out.n);
}
