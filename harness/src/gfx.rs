//! (stub) driver module - see tools/HOWTO.md
use crate::util::Args;

pub fn c20(_a: &Args) {
    eprintln!("c20: driver not built yet");
    std::process::exit(2);
}
