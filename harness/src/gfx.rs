//! C20 driver: RIPscrip and IGS graphics emulations on arbitrary command streams.
//! One event per character (outcome, step time), the exposed pixel canvas is checked after every command terminator.
use crate::util::{guard, panic_site, rng, Args, Out};
use icy_engine::{ansi, igs, rip, Buffer, BufferParser, Caret};
use rand::rngs::StdRng;
use rand::Rng;
use serde_json::{json, Value};
use std::sync::atomic::{AtomicU64, Ordering};
use std::sync::{Arc, Mutex};
use std::time::{Duration, Instant};

fn make(emu: &str) -> Box<dyn BufferParser> {
    if emu == "rip" {
        Box::new(rip::Parser::new(Box::<ansi::Parser>::default(), std::path::PathBuf::from("/nonexistent")))
    } else {
        let exe: Arc<Mutex<Box<dyn igs::CommandExecutor>>> = Arc::new(Mutex::new(Box::<igs::DrawExecutor>::default()));
        Box::new(igs::Parser::new(exe))
    }
}

pub struct GCase {
    pub id: String,
    pub emu: String,
    pub bytes: Vec<u8>,
}

fn pic_event(p: &mut Box<dyn BufferParser>, i: usize) -> Option<Value> {
    match guard(|| p.get_picture_data()) {
        Ok(Some((size, data))) => Some(json!({"ev":"pic","i":i,"r":"ok","w":size.width,"h":size.height,"len":data.len()})),
        Ok(None) => None,
        Err(pi) => Some(json!({"ev":"pic","i":i,"r":"panic","w":0,"h":0,"len":0,"site":panic_site(&pi)})),
    }
}

pub fn run_case(c: &GCase, evs: &mut Vec<Value>) {
    let mut buf = Buffer::create((80, 25));
    buf.is_terminal_buffer = true;
    let mut caret = Caret::default();
    let mut p = make(&c.emu);
    evs.push(json!({"ev":"reset","case":c.id,"emu":c.emu,"n":c.bytes.len()}));
    for (i, &b) in c.bytes.iter().enumerate() {
        let t0 = Instant::now();
        let res = guard(|| {
            let r = p.print_char(&mut buf, 0, &mut caret, b as char);
            // pending loop iterations (IGS `&` command) are executed by the caller polling get_next_action
            let mut steps = 0;
            while steps < 2000 {
                match p.get_next_action(&mut buf, &mut caret, 0) {
                    Some(_) => steps += 1,
                    None => break,
                }
            }
            (r, steps)
        });
        let us = t0.elapsed().as_micros() as u64;
        let (r, site, steps) = match &res {
            Ok((Ok(_), s)) => ("ok", None, *s),
            Ok((Err(_), s)) => ("err", None, *s),
            Err(pi) => ("panic", Some(panic_site(pi)), 0),
        };
        let mut ev = json!({"ev":"ch","i":i,"c":b,"r":r,"us":us});
        if steps > 0 { ev["loop"] = json!(steps); }
        if let Some(s) = site { ev["site"] = json!(s); }
        evs.push(ev);
        if r == "panic" {
            break;
        }
        if b == b'|' || b == b'\n' || b == b':' || i + 1 == c.bytes.len() {
            if let Some(pe) = pic_event(&mut p, i) {
                let stop = pe["r"] == "panic";
                evs.push(pe);
                if stop { break; }
            }
        }
    }
}

// ------------------------------------------------------------------------------------------------ generators
const RIP_L0: &[u8] = b"wv*eEgH>cQaWmT@YXLRBCOoAVIiZPplF=Ss$#";
const RIP_L1: &[u8] = b"MKTtECPWIBUD\x1bGRF";

fn mega(r: &mut StdRng, out: &mut Vec<u8>, n: usize, alphabet: &[u8]) {
    for _ in 0..n { out.push(alphabet[r.gen_range(0..alphabet.len())]); }
}

fn rip_token(r: &mut StdRng, out: &mut Vec<u8>) {
    match r.gen_range(0..20) {
        0 => out.extend(b"plain text "),
        1 => out.extend(b"\r\n"),
        2 => out.extend(b"\x1b[2J\x1b[1;1H"),
        3 => out.extend(b"!|*"),
        4 => out.extend(b"\\\r\n"),
        _ => {
            if r.gen_bool(0.6) || out.is_empty() { out.extend(b"!"); }
            out.push(b'|');
            let lvl1 = r.gen_bool(0.25);
            if lvl1 { out.push(b'1'); out.push(RIP_L1[r.gen_range(0..RIP_L1.len())]); }
            else if r.gen_bool(0.03) { out.extend(b"9\x1b"); }
            else { out.push(RIP_L0[r.gen_range(0..RIP_L0.len())]); }
            let n = match r.gen_range(0..6) { 0 => 0, 1 => r.gen_range(0..5), 2 | 3 => r.gen_range(2..14), 4 => r.gen_range(8..25), _ => r.gen_range(20..41) };
            match r.gen_range(0..5) {
                0 => mega(r, out, n, b"01Z"),
                1 => mega(r, out, n, b"0123456789ABCDEFGHIJKLMNOPQRSTUVWXYZ"),
                2 => mega(r, out, n, b"00000001"),
                3 => mega(r, out, n, b"ZZZZZZZY9"),
                _ => mega(r, out, n, b"0123456789ABCXYZ abc$<>[]:,.-_!|\\"),
            }
            if r.gen_bool(0.3) { out.extend(b"some text$DATE$"); }
            if r.gen_bool(0.7) { out.extend(if r.gen_bool(0.5) { b"|".as_slice() } else { b"\r\n" }); }
        }
    }
}

const IGS_CMDS: &[u8] = b"AbBCDEFfgGqHIJkKLzMnNOPQRsStTUVWYZ<?cdilmprvwX&";

fn igs_num(r: &mut StdRng) -> String {
    match r.gen_range(0..10) {
        0 => "-50".into(), 1 => "0".into(), 2 => "1".into(), 3 => "99999".into(), 4 => r.gen_range(0..320).to_string(), 5 => r.gen_range(0..16).to_string(),
        6 => r.gen_range(-50..400).to_string(), 7 => "".into(), 8 => "319".into(), _ => r.gen_range(0..4).to_string(),
    }
}

fn igs_token(r: &mut StdRng, out: &mut Vec<u8>) {
    match r.gen_range(0..20) {
        0 => out.extend(b"text\r\n"),
        1 => out.extend(b"\x1b[2J"),
        _ => {
            if r.gen_bool(0.7) || out.is_empty() { out.extend(b"G#"); }
            let c = IGS_CMDS[r.gen_range(0..IGS_CMDS.len())];
            out.push(c);
            out.push(b'>');
            let n = r.gen_range(0..13);
            for k in 0..n { if k > 0 { out.push(b','); } out.extend(igs_num(r).as_bytes()); }
            if c == b'W' { out.extend(b",some text@"); }
            if c == b'&' { out.extend(b",L,0,"); for k in 0..r.gen_range(0..8) { if k > 0 { out.push(b','); } out.extend(igs_num(r).as_bytes()); } }
            out.push(if r.gen_bool(0.85) { b':' } else { b',' });
            if r.gen_bool(0.2) { out.extend(b"\r\n"); }
        }
    }
}

pub fn gen_case(seed: u64, k: u64, emu: &str) -> GCase {
    let mut r = rng(seed, 900_000 + k);
    let mut bytes = vec![];
    let n = match r.gen_range(0..10) { 0 => r.gen_range(1..3), 1..=6 => r.gen_range(3..30), _ => r.gen_range(30..150) };
    for _ in 0..n {
        if emu == "rip" { rip_token(&mut r, &mut bytes); } else { igs_token(&mut r, &mut bytes); }
    }
    if r.gen_bool(0.1) { for _ in 0..r.gen_range(1..200) { bytes.push(r.gen()); } }
    GCase { id: format!("g{seed}-{emu}-{k}"), emu: emu.to_string(), bytes }
}

/// RIP "state x drawing" family: state-setting commands (view port incl. corners on and beyond the canvas edge, fill style,
/// line style, write mode, font style, colour, short palettes, text window) followed by well-formed drawing commands over
/// coordinate classes (origin, inside, last pixel 639/349, first pixel outside 640/350, base-36 maximum 1295).
pub fn rip_state_cases(thorough: bool, seed: u64) -> Vec<GCase> {
    fn b36(v: i32, n: usize) -> String {
        let d = b"0123456789ABCDEFGHIJKLMNOPQRSTUVWXYZ";
        let mut v = v.max(0) as usize;
        let mut s = vec![b'0'; n];
        for i in (0..n).rev() { s[i] = d[v % 36]; v /= 36; }
        String::from_utf8(s).unwrap()
    }
    let p2 = |v: i32| b36(v, 2);
    let mut setters: Vec<String> = vec![];
    for (x0, y0, x1, y1) in [(0, 0, 639, 349), (0, 0, 640, 350), (0, 0, 639, 350), (0, 0, 640, 349), (0, 0, 1295, 1295), (10, 10, 100, 100), (100, 100, 10, 10), (639, 349, 639, 349), (0, 0, 0, 0), (320, 0, 640, 175)] {
        setters.push(format!("|v{}{}{}{}", p2(x0), p2(y0), p2(x1), p2(y1)));
    }
    for pat in 0..=12 { for col in [0, 15] { setters.push(format!("|S{}{}", p2(pat), p2(col))); } }
    for st in 0..=4 { for th in [1, 3] { setters.push(format!("|={}{}{}", p2(st), b36(0x5555 % 1296, 4), p2(th))); } }
    for m in 0..=2 { setters.push(format!("|W{}", p2(m))); }
    for f in 0..=10 { for dir in [0, 1] { for sz in [1, 4, 10] { setters.push(format!("|Y{}{}{}00", p2(f), p2(dir), p2(sz))); } } }
    for c in 0..=16 { setters.push(format!("|c{}", p2(c))); }
    for n in [1usize, 5, 16] { setters.push(format!("|Q{}", (0..n).map(|i| p2((i * 4) as i32 % 64)).collect::<String>())); }
    for (x0, y0, x1, y1) in [(0, 0, 79, 42), (0, 0, 0, 0), (10, 5, 5, 10), (0, 0, 90, 60)] { setters.push(format!("|w{}{}{}{}10", p2(x0), p2(y0), p2(x1), p2(y1))); }
    let coords: [[i32; 4]; 6] = [[0, 0, 5, 5], [10, 10, 100, 60], [0, 0, 639, 349], [630, 340, 640, 350], [5, 5, 1295, 1295], [639, 349, 0, 0]];
    let mut drawers: Vec<String> = vec![];
    for c in coords {
        let [a, b, x, y] = c;
        let r = (x - a).abs().min(400);
        let ry = (y - b).abs().min(300);
        drawers.push(format!("|L{}{}{}{}", p2(a), p2(b), p2(x), p2(y)));
        drawers.push(format!("|R{}{}{}{}", p2(a), p2(b), p2(x), p2(y)));
        drawers.push(format!("|B{}{}{}{}", p2(a), p2(b), p2(x), p2(y)));
        drawers.push(format!("|C{}{}{}", p2(x), p2(y), p2(r)));
        drawers.push(format!("|O{}{}{}{}{}{}", p2(x), p2(y), p2(0), p2(270), p2(r), p2(ry)));
        drawers.push(format!("|o{}{}{}{}", p2(x), p2(y), p2(r), p2(ry)));
        drawers.push(format!("|A{}{}{}{}{}", p2(x), p2(y), p2(0), p2(90), p2(r)));
        drawers.push(format!("|I{}{}{}{}{}", p2(x), p2(y), p2(0), p2(90), p2(r)));
        drawers.push(format!("|i{}{}{}{}{}{}", p2(x), p2(y), p2(0), p2(90), p2(r), p2(ry)));
        drawers.push(format!("|X{}{}", p2(x), p2(y)));
        drawers.push(format!("|F{}{}{}", p2(x), p2(y), p2(15)));
        drawers.push(format!("|F{}{}{}", p2(a), p2(b), p2(0)));
        drawers.push(format!("|P03{}{}{}{}{}{}", p2(a), p2(b), p2(x), p2(b), p2(x), p2(y)));
        drawers.push(format!("|p03{}{}{}{}{}{}", p2(a), p2(b), p2(x), p2(b), p2(x), p2(y)));
        drawers.push(format!("|l03{}{}{}{}{}{}", p2(a), p2(b), p2(x), p2(b), p2(x), p2(y)));
        drawers.push(format!("|Z{}{}{}{}{}{}{}{}{}", p2(a), p2(b), p2(x), p2(b), p2(x), p2(y), p2(a), p2(y), p2(10)));
        drawers.push(format!("|@{}{}Text", p2(x), p2(y)));
        drawers.push(format!("|m{}{}|TText", p2(x), p2(y)));
        drawers.push(format!("|1C{}{}{}{}0|1P{}{}000", p2(a), p2(b), p2(x), p2(y), p2(a), p2(b)));
        drawers.push(format!("|1G{}{}{}{}0{}", p2(a), p2(b), p2(x), p2(y), p2(b)));
        drawers.push("|E|e|*|H|>".to_string());
    }
    let mut out = vec![];
    // flood fill is the one primitive whose work depends on what is already on the canvas: border shapes drawn BEFORE and AFTER a
    // view port is set (so that border pixels lie inside, outside and on the edges of it) x fill style x seed point x border colour
    {
        let vps: [(i32, i32, i32, i32); 5] = [(0, 0, 639, 349), (10, 10, 100, 100), (320, 0, 639, 175), (100, 50, 500, 300), (100, 0, 639, 349)];
        let shapes: [String; 4] = [format!("|R{}{}{}{}", p2(20), p2(20), p2(600), p2(300)), format!("|C{}{}{}", p2(320), p2(170), p2(120)),
                                   format!("|L{}{}{}{}", p2(550), p2(0), p2(550), p2(349)), format!("|R{}{}{}{}|L{}{}{}{}", p2(110), p2(60), p2(480), p2(280), p2(400), p2(0), p2(400), p2(349))];
        let styles = ["|S0100", "|S010F", "|S0201", "|S0B09"];
        let seeds: [(i32, i32); 6] = [(0, 0), (5, 5), (150, 100), (320, 170), (399, 10), (538, 248)];
        let mut k = 0;
        for vp in vps {
            for (si, sh) in shapes.iter().enumerate() {
                for (ti, sty) in styles.iter().enumerate() {
                    for (pi, pt) in seeds.iter().enumerate() {
                        if !thorough && (k + seed as usize) % 3 != 0 { k += 1; continue; }
                        k += 1;
                        let v = format!("|v{}{}{}{}", p2(vp.0), p2(vp.1), p2(vp.2), p2(vp.3));
                        let border = if (si + ti + pi) % 2 == 0 { 15 } else { 4 };
                        let fill = format!("|F{}{}{}", p2(pt.0), p2(pt.1), p2(border));
                        // shape first, then the view port (the agent of a BBS draws the frame, then restricts the view port), and the reverse
                        let a = format!("!|c0F{sh}{v}{sty}{fill}|#|#|#\r\n");
                        let b = format!("!{v}|c0F{sh}{sty}{fill}|c04{fill}|#|#|#\r\n");
                        out.push(GCase { id: format!("s-rip-fill-{k}a"), emu: "rip".into(), bytes: a.into_bytes() });
                        out.push(GCase { id: format!("s-rip-fill-{k}b"), emu: "rip".into(), bytes: b.into_bytes() });
                    }
                }
            }
        }
    }
    for (i, st) in setters.iter().enumerate() {
        // the view port / text window decide which pixels exist for every later primitive: all drawers, in every tier
        let per = if thorough || st.starts_with("|v") || st.starts_with("|w") { drawers.len() } else { 4 };
        for j in 0..per {
            let d = &drawers[(i * per + j + seed as usize) % drawers.len()];
            let b = format!("!{st}{d}|#|#|#\r\n").into_bytes();
            out.push(GCase { id: format!("s-rip-{i}-{j}"), emu: "rip".into(), bytes: b });
        }
    }
    out
}

/// IGS "state x drawing" family: every enumerated value tuple of the state-setting commands (line / marker type, fill
/// attributes, colour set, drawing mode, hollow, pen colour, resolution, text effects) followed by drawing commands with
/// well-formed parameter lists over coordinate classes (origin, inside, last pixel, first pixel outside, far outside).
/// Quick tier: three drawing commands per setter tuple (rotating); thorough: all of them.
pub fn igs_state_cases(thorough: bool, seed: u64) -> Vec<GCase> {
    fn tuples(sets: &[&[i32]]) -> Vec<Vec<i32>> {
        let mut res: Vec<Vec<i32>> = vec![vec![]];
        for s in sets { let mut n = vec![]; for t in &res { for v in *s { let mut u = t.clone(); u.push(*v); n.push(u); } } res = n; }
        res
    }
    let small: &[i32] = &[0, 1, 2, 3, 4, 5, 6, 7, 8];
    let mut setters: Vec<(u8, Vec<i32>)> = vec![];
    for t in tuples(&[&[1, 2, 3], small, &[0, 1, 3, 9, 99999]]) { setters.push((b'T', t)); }
    for t in tuples(&[&[0, 1, 2, 3, 4, 5], &[0, 1, 2, 8, 24, 25, 36], &[0, 1, 2]]) { setters.push((b'A', t)); }
    for t in tuples(&[&[0, 1, 2, 3, 4], &[0, 1, 7, 8, 15, 16, 22, 255]]) { setters.push((b'C', t)); }
    for t in tuples(&[&[0, 1, 2, 3, 4, 5]]) { setters.push((b'M', t)); }
    for t in tuples(&[&[0, 1, 2]]) { setters.push((b'H', t)); }
    for t in tuples(&[&[0, 1, 15, 16], &[0, 7, 8], &[0, 7], &[0, 8]]) { setters.push((b'S', t)); }
    for t in tuples(&[&[0, 1, 2, 3], &[0, 1, 2, 3, 4]]) { setters.push((b'R', t)); }
    for t in tuples(&[&[0, 1, 2, 4, 8, 16, 31], &[0, 8, 9, 10, 18, 20], &[0, 1, 2, 3, 4, 5]]) { setters.push((b'E', t)); }
    let coords: [[i32; 4]; 7] = [[0, 0, 5, 5], [10, 10, 100, 60], [0, 0, 319, 199], [300, 180, 320, 200], [5, 5, 9999, 9999], [319, 199, 0, 0], [0, 0, 99999, 99999]];
    let mut drawers: Vec<String> = vec![];
    for c in coords {
        let [a, b, x, y] = c;
        drawers.push(format!("L>{a},{b},{x},{y}:"));
        drawers.push(format!("D>{x},{y}:"));
        drawers.push(format!("B>{a},{b},{x},{y},0:"));
        drawers.push(format!("B>{a},{b},{x},{y},1:"));
        drawers.push(format!("U>{a},{b},{x},{y},1:"));
        drawers.push(format!("Z>{a},{b},{x},{y}:"));
        drawers.push(format!("O>{x},{y},{}:", (x - a).abs().min(400)));
        drawers.push(format!("Q>{x},{y},{},{}:", (x - a).abs().min(400), (y - b).abs().min(400)));
        drawers.push(format!("V>{x},{y},{},0,90:", (x - a).abs().min(400)));
        drawers.push(format!("J>{x},{y},{},{},0,270:", (x - a).abs().min(400), (y - b).abs().min(400)));
        drawers.push(format!("K>{x},{y},{},0,90:", (x - a).abs().min(400)));
        drawers.push(format!("P>{x},{y}:"));
        drawers.push(format!("F>{x},{y}:"));
        drawers.push(format!("f>3,{a},{b},{x},{b},{x},{y}:"));
        drawers.push(format!("z>3,{a},{b},{x},{b},{x},{y}:"));
        drawers.push(format!("W>{a},{b},Text@"));
        drawers.push(format!("G>1,3,{a},{b},{x},{y}:G>2,3,{a},{b}:"));
        drawers.push(format!("G>0,3,{a},{b},{x},{y},{b},{a}:"));
        drawers.push(format!("G>1,3,{a},{b},{x},{y}:G>3,3,0,0,{x},{y},{a},{b}:"));
    }
    let mut out = vec![];
    let per = if thorough { drawers.len() } else { 3 };
    for (i, (letter, t)) in setters.iter().enumerate() {
        for j in 0..per {
            let d = &drawers[(i * per + j + seed as usize) % drawers.len()];
            let mut b = b"G#".to_vec();
            b.push(*letter);
            b.push(b'>');
            b.extend(t.iter().map(|v| v.to_string()).collect::<Vec<_>>().join(",").as_bytes());
            b.extend(b":");          // commands are chained after ":" (a new "G#" only after a line end)
            b.extend(d.as_bytes());
            b.extend(b"\r\n");
            out.push(GCase { id: format!("s-igs-{}-{}-{}", *letter as char, i, j), emu: "igs".into(), bytes: b });
        }
    }
    out
}

/// the exhaustive part of the quantifier: every command x every parameter-list length 0..=24 over the digits {0, 1, Z}
/// (RIP) / 0..=12 parameters (IGS) - the table itself is exported by TLC from spec/gfx/MC_Gfx.tla (gen/gfx_table.ndjson)
pub fn table_cases(thorough: bool, seed: u64, table: &[Value]) -> Vec<GCase> {
    let mut out = vec![];
    let mut r = rng(seed, 31337);
    let digits = [b'0', b'1', b'Z'];
    let vals = ["-50", "0", "1", "99999", "319", "5"];
    for t in table {
        let cmd: Vec<u8> = t["cmd"].as_array().map(|a| a.iter().map(|x| x.as_u64().unwrap_or(0) as u8).collect()).unwrap_or_default();
        let len = t["len"].as_u64().unwrap_or(0) as usize;
        let d = (t["digit"].as_u64().unwrap_or(1) as usize).saturating_sub(1);
        if t["emu"] == "rip" {
            let mut variants: Vec<Vec<u8>> = vec![vec![digits[d % 3]; len]];
            for _ in 0..(if thorough { 4 } else { 1 }) { variants.push((0..len).map(|_| digits[r.gen_range(0..3)]).collect()); }
            for v in variants {
                for term in [b"|".as_slice(), b"\r\n", b""] {
                    let mut b = b"!|".to_vec();
                    b.extend(&cmd);
                    b.extend(&v);
                    b.extend(term);
                    if term.is_empty() { b.extend(b"|#|#|#\r\n"); }
                    out.push(GCase { id: format!("t-rip-{}-{}-{}", String::from_utf8_lossy(&cmd), len, d), emu: "rip".into(), bytes: b });
                }
            }
        } else {
            let mut variants: Vec<Vec<&str>> = vec![vec![vals[d % vals.len()]; len]];
            for _ in 0..(if thorough { 4 } else { 1 }) { variants.push((0..len).map(|_| vals[r.gen_range(0..vals.len())]).collect()); }
            for v in variants {
                let mut b = b"G#".to_vec();
                b.extend(&cmd);
                b.push(b'>');
                b.extend(v.join(",").as_bytes());
                if cmd == [b'W'] { b.extend(b",txt@"); }
                if cmd == [b'&'] { b.extend(b",L,0,1,2,3,4"); }
                b.push(b':');
                b.extend(b"\r\n");
                out.push(GCase { id: format!("t-igs-{}-{}-{}", String::from_utf8_lossy(&cmd), len, d), emu: "igs".into(), bytes: b });
            }
        }
    }
    out
}

pub fn c20(a: &Args) {
    if a.has("stream") {
        // `--stream FILE --emu rip|igs`: run the bytes of FILE as one case and print one line per noteworthy event
        let bytes = std::fs::read(a.str("stream", "")).expect("stream file");
        let c = GCase { id: "stream".into(), emu: if a.str("emu", "igs") == "rip" { "rip" } else { "igs" }.into(), bytes };
        let mut evs = vec![];
        let t0 = Instant::now();
        run_case(&c, &mut evs);
        let mut bad = 0;
        for e in &evs {
            let slow = e["us"].as_u64().unwrap_or(0) > 1_000_000;
            if e["r"].as_str().map(|r| r != "ok" && r != "err").unwrap_or(false) || slow { bad += 1; println!("{e}"); }
        }
        println!("stream: {} events, {} noteworthy, {} ms", evs.len(), bad, t0.elapsed().as_millis());
        return;
    }
    let out_path = a.str("out", "work/C20/trace.ndjson");
    let progress = a.str("progress", &format!("{out_path}.progress"));
    let start = a.usize("start", 0);
    let seed = a.u64("seed", 0);
    let thorough = a.str("tier", "quick") == "thorough";
    let limit_s = a.u64("case-timeout", 10);
    let shard = a.usize("shard", 0);
    let shards = a.usize("shards", 1);
    crate::term::set_mem_limit(a.u64("mem-mb", 2048));
    let table: Vec<Value> = std::fs::read_to_string(a.str("table", "gen/gfx_table.ndjson")).map(|t| t.lines().filter_map(|l| serde_json::from_str(l).ok()).collect()).unwrap_or_default();
    let mut all = table_cases(thorough, seed, &table);
    all.extend(igs_state_cases(thorough, seed));
    all.extend(rip_state_cases(thorough, seed));
    let n_rand = if thorough { 30000 } else { 3000 };
    for k in 0..n_rand {
        all.push(gen_case(seed, k, if k % 2 == 0 { "rip" } else { "igs" }));
    }
    if a.has("find-case") {
        // dump the input of the case with this id (for replay / minimisation)
        let id = a.str("find-case", "");
        if let Some(c) = all.iter().find(|c| c.id == id) {
            println!("{}", json!({"emu":c.emu,"id":c.id,"bytes":c.bytes}));
        }
        return;
    }
    let mine: Vec<&GCase> = all.iter().enumerate().filter(|(i, _)| i % shards == shard).map(|(_, c)| c).collect();
    if a.has("dump-case") {
        if let Some(c) = mine.get(a.usize("dump-case", 0)) {
            println!("{}", json!({"ext":c.emu,"seed":c.id,"mut":"","bytes":c.bytes}));
        }
        return;
    }
    let case_no = Arc::new(AtomicU64::new(u64::MAX));
    {
        let case_no = case_no.clone();
        let progress = progress.clone();
        std::thread::spawn(move || {
            let mut last = (u64::MAX, Instant::now());
            loop {
                std::thread::sleep(Duration::from_millis(100));
                let c = case_no.load(Ordering::Relaxed);
                if c == u64::MAX { continue; }
                if c != last.0 { last = (c, Instant::now()); continue; }
                if last.1.elapsed() > Duration::from_secs(limit_s) {
                    let _ = std::fs::write(&progress, format!("{c} timeout\n"));
                    unsafe { libc::_exit(3) };
                }
            }
        });
    }
    let mut out = if start > 0 { Out::append(&out_path) } else { Out::create(&out_path) };
    for (i, c) in mine.iter().enumerate().skip(start) {
        let _ = std::fs::write(&progress, format!("{i} running\n"));
        case_no.store(i as u64, Ordering::Relaxed);
        let mut evs = vec![];
        run_case(c, &mut evs);
        for e in &evs { out.ev(e); }
        out.flush();
    }
    case_no.store(u64::MAX, Ordering::Relaxed);
    let _ = std::fs::write(&progress, format!("{} done\n", mine.len()));
    eprintln!("c20: shard {shard}/{shards}: {} cases, {} events", mine.len() - start.min(mine.len()), out.n);
}
