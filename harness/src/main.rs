mod area;
mod layerops;
mod links;
mod modes;
mod paint;
mod selection;
mod binfmt;
mod fonts;
mod gfx;
mod icy;
mod igs;
mod layers;
mod load;
mod opt;
mod rip;
mod sauce;
mod sixel;
mod small;
mod term;
mod textfmt;
mod undo;
mod unicode;
mod util;
mod xbin;

fn main() {
    let argv: Vec<String> = std::env::args().collect();
    if argv.len() < 2 {
        eprintln!("usage: icyverif <driver> [--key value ...]");
        std::process::exit(2);
    }
    let a = util::Args::parse(&argv[2..]);
    match argv[1].as_str() {
        "term" => term::term(&a),
        "c02" => load::c02(&a),
        "c04" => textfmt::c04(&a),
        "c05" => binfmt::c05(&a),
        "c06" => xbin::c06(&a),
        "c07" => icy::c07(&a),
        "c08" => undo::c08(&a),
        "c10" => unicode::c10(&a),
        "c11" => sauce::c11(&a),
        "c12" => opt::c12(&a),
        "c13" => layers::c13(&a),
        "c14" => sixel::c14(&a),
        "c15" => textfmt::c15(&a),
        "c16" => small::c16(&a),
        "c17" => fonts::c17(&a),
        "c18" => small::c18(&a),
        "c19" => small::c19(&a),
        "c20" => gfx::c20(&a),
        "area" => area::area(&a),
        "selection" => selection::selection(&a),
        "paint" => paint::paint(&a),
        "links" => links::links(&a),
        "layerops" => layerops::layerops(&a),
        "modes" => modes::modes(&a),
        "igs" => igs::igs(&a),
        "rip" => rip::rip(&a),
        other => {
            eprintln!("unknown driver {other}");
            std::process::exit(2);
        }
    }
}
