mod small;
mod util;

fn main() {
    let argv: Vec<String> = std::env::args().collect();
    if argv.len() < 2 {
        eprintln!("usage: icyverif <driver> [--key value ...]");
        std::process::exit(2);
    }
    let a = util::Args::parse(&argv[2..]);
    match argv[1].as_str() {
        "c16" => small::c16(&a),
        "c18" => small::c18(&a),
        "c19" => small::c19(&a),
        other => {
            eprintln!("unknown driver {other}");
            std::process::exit(2);
        }
    }
}
