//! (stub) driver module - see tools/HOWTO.md
use crate::util::Args;

pub fn c11(_a: &Args) {
    eprintln!("c11: driver not built yet");
    std::process::exit(2);
}
