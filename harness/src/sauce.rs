//! C11 driver: SAUCE metadata round trip and exactness of the content / SAUCE split.
//!
//! One case = one buffer with metadata, saved with SAUCE through `Buffer::to_bytes(ext)`, reloaded through
//! `Buffer::from_bytes("x.<ext>")`.  Recorded per case (event `sauce`): metadata in, the tail of the file
//! (EOF + comment block + record and a few content bytes), metadata out (`Buffer::get_sauce`), what
//! `SauceData::extract` says about the header length, and digests of the two pictures (content alone, content + SAUCE).
use crate::util::{guard, panic_site, rng, Args, Out};
use icy_engine::{ascii::CP437_TO_UNICODE, AttributedChar, Buffer, IceMode, SauceData, SauceString, SaveOptions, TextAttribute, TextPane};
use rand::rngs::StdRng;
use rand::Rng;
use serde_json::{json, Value};
use std::path::PathBuf;

pub const WRITERS: [&str; 10] = ["ans", "asc", "avt", "pcb", "bin", "xb", "tnd", "adf", "idf", "icy"];

#[derive(Clone, Debug)]
struct Case {
    writer: String,
    title: Vec<u8>,
    author: Vec<u8>,
    group: Vec<u8>,
    comments: Vec<Vec<u8>>,
    font: Option<Vec<u8>>, // None = the default font of a fresh buffer
    ice: bool,
    ls: bool,
    ar: bool,
    width: i32,
    height: i32,
    tail: String,
    lossless: bool,
    compress: bool,
    desc: Value,
}

fn cp437_string(b: &[u8]) -> String {
    b.iter().map(|&c| CP437_TO_UNICODE[c as usize]).collect()
}

fn string_cp437(s: &str) -> Vec<i64> {
    s.chars().map(|ch| CP437_TO_UNICODE.iter().position(|&c| c == ch).map_or(-1, |p| p as i64)).collect()
}

fn field<const L: usize, const E: u8>(s: &SauceString<L, E>) -> Vec<u8> {
    let mut v = Vec::new();
    s.append_to(&mut v);
    v
}

/// text of `len` non-NUL CP437 bytes whose last byte is not a pad, followed by `trailing` pads
fn text(r: &mut StdRng, len: usize, max: usize, trailing: &str, ascii_only: bool) -> Vec<u8> {
    // content classes of CP437 text: any byte; the low glyphs 0x01..0x1F between ASCII (no byte >= 0x80 in the string: a shortcut for
    // "ASCII-looking" strings must still map them); only the upper half
    let class = if ascii_only { 1 } else { r.gen_range(0..8u8) };
    let mut v: Vec<u8> = (0..len).map(|_| match class { 1 => r.gen_range(33..127u8), 2 | 3 => if r.gen_bool(0.4) { r.gen_range(1..32u8) } else { r.gen_range(33..127u8) }, 4 => r.gen_range(128..=255u8), _ => r.gen_range(1..=255u8) }).collect();
    if let Some(l) = v.last_mut() {
        if *l == b' ' {
            *l = b'#';
        }
    }
    let room = max - len.min(max);
    let k = match trailing {
        "none" => 0,
        _ => room.min(1 + (len % 3)),
    };
    for _ in 0..k {
        v.push(if trailing == "blank" { b' ' } else { 0 });
    }
    v
}

fn class_len(class: u64, max: usize) -> usize {
    match class {
        0 => 0,
        1 => 1,
        2 => max - 1,
        _ => max,
    }
}

fn marker(tail: &str) -> &'static [u8] {
    match tail {
        "sauce" => b"SAUCE00",
        "comnt" => b"COMNT",
        "eof" => b"\x1a\x1a",
        _ => b"",
    }
}

fn build_buffer(c: &Case, r: &mut StdRng) -> Buffer {
    let mut buf = Buffer::new((c.width, c.height));
    buf.ice_mode = if c.ice { IceMode::Ice } else { IceMode::Blink };
    if let Some(name) = &c.font {
        let mut f = buf.get_font(0).unwrap().clone();
        f.name = cp437_string(name);
        buf.set_font(0, f);
    }
    let pairs = matches!(c.writer.as_str(), "bin" | "adf" | "xb" | "idf");
    // cells: letters on the default attribute; rows are full width for the fixed-grid formats, ragged otherwise
    for y in 0..c.height {
        let len = if pairs || c.writer == "tnd" || c.writer == "icy" { c.width } else if y + 1 == c.height { (c.width * 3 / 4).max(1) } else { r.gen_range(0..=c.width) };
        for x in 0..len {
            let ch = if r.gen_bool(0.2) { ' ' } else { r.gen_range(b'a'..=b'z') as char };
            let attr = if r.gen_bool(0.85) { TextAttribute::default() } else { TextAttribute::new(r.gen_range(1..16), r.gen_range(0..8)) };
            buf.layers[0].set_char((x, y), AttributedChar::new(ch, attr));
        }
    }
    // content whose own last bytes look like SAUCE / COMNT / EOF markers
    let m = marker(&c.tail);
    if !m.is_empty() {
        let y = c.height - 1;
        if pairs && c.writer != "idf" {
            let mut bytes = m.to_vec();
            if bytes.len() % 2 == 1 {
                bytes.insert(0, b'x');
            }
            let n = (bytes.len() / 2) as i32;
            if n <= c.width {
                for i in 0..n {
                    let attr = TextAttribute::from_u8(bytes[2 * i as usize + 1], buf.ice_mode);
                    buf.layers[0].set_char((c.width - n + i, y), AttributedChar::new(bytes[2 * i as usize] as char, attr));
                }
            }
        } else if !pairs && c.writer != "icy" {
            let n = m.len() as i32;
            let end = if c.writer == "tnd" { c.width } else { buf.get_line_length(y).max(n.min(c.width)) };
            if n <= end {
                let attr = buf.get_char((0.max(end - n - 1), y)).attribute;
                for i in 0..n {
                    buf.layers[0].set_char((end - n + i, y), AttributedChar::new(m[i as usize] as char, attr));
                }
            }
        }
    }
    let sd = SauceData {
        title: SauceString::from(cp437_string(&c.title)),
        author: SauceString::from(cp437_string(&c.author)),
        group: SauceString::from(cp437_string(&c.group)),
        comments: c.comments.iter().map(|l| SauceString::from(cp437_string(l))).collect(),
        use_ice: c.ice,
        use_letter_spacing: c.ls,
        use_aspect_ratio: c.ar,
        font_opt: Some(buf.get_font(0).unwrap().name.clone()),
        buffer_size: buf.get_size(),
        ..Default::default()
    };
    buf.set_sauce(Some(sd), false);
    buf
}

/// FNV-1a digest of what a buffer shows, plus its size
fn picture(buf: &Buffer) -> (String, Vec<(u32, (u8, u8, u8), (u8, u8, u8), u16, usize)>, i32, i32) {
    let mut cells = Vec::new();
    let (w, h) = (buf.get_width(), buf.get_height());
    for y in 0..h {
        for x in 0..w {
            let ch = buf.get_char((x, y));
            cells.push((ch.ch as u32, buf.palette.get_rgb(ch.attribute.get_foreground()), buf.palette.get_rgb(ch.attribute.get_background()), ch.attribute.attr, ch.get_font_page()));
        }
    }
    let mut hsh: u64 = 0xcbf2_9ce4_8422_2325;
    let mut eat = |v: u64| {
        for i in 0..8 {
            hsh ^= (v >> (8 * i)) & 0xFF;
            hsh = hsh.wrapping_mul(0x0000_0100_0000_01B3);
        }
    };
    eat(w as u64);
    eat(h as u64);
    eat(match buf.ice_mode { IceMode::Unlimited => 0, IceMode::Blink => 1, IceMode::Ice => 2 });
    for c in &cells {
        eat(c.0 as u64);
        eat(((c.1 .0 as u64) << 16) | ((c.1 .1 as u64) << 8) | c.1 .2 as u64);
        eat(((c.2 .0 as u64) << 16) | ((c.2 .1 as u64) << 8) | c.2 .2 as u64);
        eat(c.3 as u64);
        eat(c.4 as u64);
    }
    (format!("{w}x{h}:{hsh:016x}"), cells, w, h)
}

fn load(ext: &str, bytes: &[u8]) -> Result<Result<Buffer, String>, crate::util::PanicInfo> {
    let name = PathBuf::from(format!("x.{ext}"));
    guard(|| Buffer::from_bytes(&name, true, bytes).map_err(|e| e.to_string()))
}

/// the SAUCE chunk of an IcyDraw file (base64 inside a zTXt chunk), or None
fn icy_sauce_chunk(file: &[u8]) -> Option<Vec<u8>> {
    use base64::Engine;
    let dec = png::Decoder::new(file);
    let reader = dec.read_info().ok()?;
    for t in &reader.info().compressed_latin1_text {
        if t.keyword == "SAUCE" {
            let txt = t.get_text().ok()?;
            return base64::engine::general_purpose::STANDARD.decode(txt).ok();
        }
    }
    None
}

fn run_case(c: &Case, id: u64, seed: u64, out: &mut Out) {
    let mut r = rng(seed, 77_000 + id);
    let buf = build_buffer(c, &mut r);
    let ext = c.writer.as_str();
    let font_in: Vec<i64> = string_cp437(&buf.get_font(0).unwrap().name);
    out.ev(&json!({"ev":"reset","case":id,"desc":c.desc}));
    let meta_in = json!({"title":c.title,"author":c.author,"group":c.group,"comments":c.comments,"ice":c.ice as u8,"ls":c.ls as u8,"ar":c.ar as u8,
                         "font":font_in,"width":c.width,"height":c.height});
    let mut ev = json!({"ev":"sauce","case":id,"writer":ext,"in":meta_in,"tailkind":c.tail,"lossless":c.lossless as u8,"compress":c.compress as u8});
    let mut opts = SaveOptions::new();
    opts.save_sauce = true;
    opts.lossles_output = c.lossless;
    opts.compress = c.compress;
    let saved = guard(|| buf.to_bytes(ext, &opts).map_err(|e| e.to_string()));
    let file = match saved {
        Ok(Ok(f)) => f,
        Ok(Err(e)) => {
            ev["save"] = json!("err");
            ev["site"] = json!(crate::util::msg_class(&e));
            out.ev(&ev);
            return;
        }
        Err(p) => {
            ev["save"] = json!("panic");
            ev["site"] = json!(panic_site(&p));
            out.ev(&ev);
            return;
        }
    };
    ev["save"] = json!("ok");
    // the same buffer saved without SAUCE = "the content alone"
    let content = {
        let mut o2 = opts.clone();
        o2.save_sauce = false;
        let mut b2 = buf.flat_clone(true);
        if ext == "icy" {
            b2.set_sauce(None, false);
        }
        match guard(|| b2.to_bytes(ext, &o2).map_err(|e| e.to_string())) {
            Ok(Ok(f)) => f,
            _ => Vec::new(),
        }
    };
    // the part of the file the specification's Split has to look at
    let (blob, content_len, prefix_ok) = if ext == "icy" {
        (icy_sauce_chunk(&file).unwrap_or_default(), 0usize, 1u8)
    } else {
        (file.clone(), content.len(), file.starts_with(&content) as u8)
    };
    let n = if blob.len() >= 128 { blob[blob.len() - 128 + 104] as usize } else { 0 };
    let want = 128 + 5 + 64 * n + 1 + 12;
    let tail = &blob[blob.len().saturating_sub(want)..];
    ev["file_len"] = json!(blob.len());
    ev["content_len"] = json!(content_len);
    ev["prefix_ok"] = json!(prefix_ok);
    ev["tail"] = json!(tail);
    // what the engine's extractor says about the same bytes (model layer)
    match guard(|| SauceData::extract(&blob).map_err(|e| e.to_string())) {
        Ok(Ok(Some(s))) => ev["ex_hdr"] = json!(s.sauce_header_len),
        Ok(Ok(None)) => ev["ex_hdr"] = json!(0),
        Ok(Err(_)) => ev["ex_hdr"] = json!(-1),
        Err(p) => {
            ev["ex_hdr"] = json!(-2);
            ev["ex_site"] = json!(panic_site(&p));
        }
    }
    // load content + SAUCE
    match load(ext, &file) {
        Ok(Ok(b)) => {
            ev["load"] = json!("ok");
            match b.get_sauce() {
                Some(s) => {
                    ev["has_sauce"] = json!(1);
                    let font = s.font_opt.as_ref().map(|f| string_cp437(f));
                    // the same texts as a client sees them (Display / to_string: CP437 -> Unicode), mapped back to codes
                    ev["out_text"] = json!({"title":string_cp437(&s.title.to_string()),"author":string_cp437(&s.author.to_string()),"group":string_cp437(&s.group.to_string()),
                        "comments":s.comments.iter().map(|c| string_cp437(&c.to_string())).collect::<Vec<_>>()});
                    ev["out"] = json!({"title":field(&s.title),"author":field(&s.author),"group":field(&s.group),
                        "comments":s.comments.iter().map(field).collect::<Vec<_>>(),"ice":s.use_ice as u8,"ls":s.use_letter_spacing as u8,"ar":s.use_aspect_ratio as u8,
                        "has_font":font.is_some() as u8,"font":font.unwrap_or_default(),"width":s.buffer_size.width,"height":s.buffer_size.height,"hdr":s.sauce_header_len});
                    // the font the loader actually installed (by checksum), and the font the recorded SAUCE font name stands for
                    ev["font0"] = json!(b.get_font(0).map(|f| f.get_checksum()).unwrap_or(0));
                    ev["font_named"] = json!(s.font_opt.as_ref().and_then(|n| icy_engine::BitFont::from_sauce_name(n).ok()).map(|f| f.get_checksum()).unwrap_or(0));
                }
                None => {
                    ev["has_sauce"] = json!(0);
                    ev["out"] = json!({});
                }
            }
            let (d_full, cells_full, w, _h) = picture(&b);
            ev["pic_full"] = json!(d_full);
            ev["buf_width"] = json!(b.get_width());
            match load(ext, &content) {
                Ok(Ok(b2)) => {
                    let (d_c, cells_c, w2, _) = picture(&b2);
                    ev["load_content"] = json!("ok");
                    ev["pic_content"] = json!(d_c);
                    let mut diff = json!([]);
                    if w == w2 {
                        if let Some(i) = (0..cells_full.len().max(cells_c.len())).find(|&i| cells_full.get(i) != cells_c.get(i)) {
                            diff = json!([i as i32 % w.max(1), i as i32 / w.max(1)]);
                        }
                    }
                    ev["pic_diff"] = diff;
                }
                Ok(Err(e)) => {
                    ev["load_content"] = json!("err");
                    ev["pic_content"] = json!(format!("err:{}", crate::util::msg_class(&e)));
                }
                Err(p) => {
                    ev["load_content"] = json!("panic");
                    ev["pic_content"] = json!(format!("panic:{}", panic_site(&p)));
                }
            }
        }
        Ok(Err(e)) => {
            ev["load"] = json!("err");
            ev["site"] = json!(crate::util::msg_class(&e));
        }
        Err(p) => {
            ev["load"] = json!("panic");
            ev["site"] = json!(panic_site(&p));
        }
    }
    out.ev(&ev);
}

/// constraints of the writers themselves (not of SAUCE): ADF is 80 columns and iCE only, IDF is iCE only
fn normalise(c: &mut Case) {
    match c.writer.as_str() {
        "adf" => {
            c.width = 80;
            c.ice = true;
        }
        "idf" => c.ice = true,
        _ => {}
    }
    if c.width > 300 {
        c.height = 1;
    }
}

fn case_from_gen(v: &Value, id: u64, seed: u64) -> Case {
    let mut r = rng(seed, 55_000 + id);
    let u = |k: &str| v[k].as_u64().unwrap_or(0);
    let tr = v["trailing"].as_str().unwrap_or("none").to_string();
    let n = u("ncomments") as usize;
    let clen = class_len(u("clen"), 64);
    let comments = (0..n).map(|i| text(&mut r, if i % 2 == 0 { clen } else { (clen + i) % 65 }, 64, &tr, false)).collect();
    let flen = u("flen");
    let mut c = Case {
        writer: v["writer"].as_str().unwrap_or("ans").to_string(),
        title: text(&mut r, class_len(u("tlen"), 35), 35, &tr, false),
        author: text(&mut r, class_len(u("alen"), 20), 20, &tr, false),
        group: text(&mut r, class_len(u("glen"), 20), 20, &tr, false),
        comments,
        font: if flen >= 4 { None } else { Some(text(&mut r, class_len(flen, 22), 22, "none", true)) },
        ice: u("ice") == 1,
        ls: u("ls") == 1,
        ar: u("ar") == 1,
        width: u("width") as i32,
        height: 1 + (id % 3) as i32,
        tail: v["tail"].as_str().unwrap_or("plain").to_string(),
        lossless: id % 2 == 0,
        compress: v["tail"].as_str().unwrap_or("plain") == "plain" && id % 4 < 2,
        desc: v.clone(),
    };
    normalise(&mut c);
    c
}

fn random_case(id: u64, seed: u64) -> Case {
    let mut r = rng(seed, 33_000 + id);
    let trs = ["none", "blank", "nul"];
    let tr = trs[r.gen_range(0..3)];
    let n = match r.gen_range(0..10) {
        0..=3 => 0,
        4..=7 => r.gen_range(1..6),
        8 => r.gen_range(6..=60),
        _ => r.gen_range(200..=255),
    };
    let width = match r.gen_range(0..6) {
        0 | 1 => 80,
        2 => 160,
        3 => r.gen_range(1..=1000),
        4 => 2 * r.gen_range(1..=255),
        _ => r.gen_range(1..=132),
    };
    let tails = ["plain", "plain", "sauce", "comnt", "eof"];
    let tail = tails[r.gen_range(0..5)];
    let names = icy_engine::SAUCE_FONT_NAMES;
    let font = match r.gen_range(0..4) {
        0 => None,
        1 | 2 => Some(names[r.gen_range(0..names.len())].as_bytes().to_vec()),
        _ => {
            let l = r.gen_range(0..=22);
            Some(text(&mut r, l, 22, "none", true))
        }
    };
    let (tl, al, gl) = (r.gen_range(0..=35), r.gen_range(0..=20), r.gen_range(0..=20));
    let (tr_a, tr_g) = (trs[r.gen_range(0..3)], trs[r.gen_range(0..3)]);
    let mut c = Case {
        writer: WRITERS[(id % 10) as usize].to_string(),
        title: text(&mut r, tl, 35, tr, false),
        author: text(&mut r, al, 20, tr_a, false),
        group: text(&mut r, gl, 20, tr_g, false),
        // (one line in eight looks like a structure marker of the record itself: a full 64-byte line that ends / begins with the
        //  comment block id or the record id - a reader must find the block by COUNTING, not by searching)
        comments: (0..n).map(|_| {
            if r.gen_range(0..8) == 0 {
                let mark: &[u8] = [&b"COMNT"[..], &b"SAUCE00"[..], &b"\x1aCOMNT"[..], &b"SAUCE"[..]][r.gen_range(0..4)];
                let fill = vec![b'x'; 64 - mark.len()];
                return if r.gen_bool(0.5) { [fill.as_slice(), mark].concat() } else { [mark, fill.as_slice()].concat() };
            }
            let l = r.gen_range(0..=64); let t = trs[r.gen_range(0..3)]; text(&mut r, l, 64, t, false) }).collect(),
        font,
        ice: r.gen_bool(0.4),
        ls: r.gen_bool(0.4),
        ar: r.gen_bool(0.4),
        width,
        height: r.gen_range(1..=4),
        tail: tail.to_string(),
        lossless: r.gen_bool(0.5),
        compress: tail == "plain" && r.gen_bool(0.5),
        desc: json!({"slice":"R"}),
    };
    normalise(&mut c);
    c
}

pub fn c11(a: &Args) {
    let path = a.str("out", "work/C11/trace");
    let seed = a.u64("seed", 0);
    let thorough = a.str("tier", "quick") == "thorough";
    let shards = a.usize("shards", 4);
    let mut outs: Vec<Out> = (0..shards).map(|i| Out::create(&format!("{path}-{i}.ndjson"))).collect();
    let mut id = 0u64;
    let mut n_gen = 0;
    if let Ok(textf) = std::fs::read_to_string(a.str("gen", "gen/sauce.ndjson")) {
        for line in textf.lines() {
            let Ok(v) = serde_json::from_str::<Value>(line) else { continue };
            id += 1;
            // quick tier: all of slices B and C, every third case of the (large) string-length slice A
            if !thorough && v["slice"] == "A" && (id + seed) % 3 != 0 {
                continue;
            }
            let c = case_from_gen(&v, id, seed);
            let k = (id as usize) % shards;
            run_case(&c, id, seed, &mut outs[k]);
            n_gen += 1;
        }
    }
    let n_rnd = if thorough { 6000 } else { 600 };
    for i in 0..n_rnd {
        id += 1;
        let c = random_case(1_000_000 + i, seed);
        let k = (id as usize) % shards;
        run_case(&c, 1_000_000 + i, seed, &mut outs[k]);
    }
    let mut total = 0;
    for o in &mut outs {
        o.flush();
        total += o.n;
    }
    eprintln!("c11: {n_gen} TLC-generated cases, {n_rnd} random cases, {total} events in {shards} shards");
}
