------------------------------- MODULE Loader -------------------------------
(***************************************************************************)
(* Layouts of the binary file formats the engine loads, as guarded-cursor   *)
(* field lists, and the structure-aware FAULTS derived from them (C02):     *)
(* for a concrete seed file (its first bytes, its last bytes and its length *)
(* are read from the environment) the layout is computed the way the format *)
(* document prescribes - e.g. the XBin flags byte decides whether a palette *)
(* and one or two font blocks precede the image - and every structural      *)
(* boundary is truncated at -1/0/+1 and every numeric field is set to       *)
(* 0, 1, max-1, max and declared+1.                                         *)
(* A field is <<name, offset, width, numeric?>> (offsets 0-based).          *)
(***************************************************************************)
EXTENDS Integers, Sequences, FiniteSets
U8(b, o) == b[o + 1]
U16(b, o) == b[o + 1] + 256 * b[o + 2]
Bit(v, k) == (v \div k) % 2 = 1
F(n, o, w, num) == <<n, o, w, num>>

\* the layout depends only on the header bytes `h` (first 64 bytes) and the file length `len`
XBinLayout(h, len) ==
  LET flags == U8(h, 10)  fh == IF U8(h, 9) = 0 THEN 16 ELSE U8(h, 9)
      pal == IF Bit(flags, 1) THEN 48 ELSE 0
      fnt == IF Bit(flags, 2) THEN 256 * fh * (IF Bit(flags, 16) THEN 2 ELSE 1) ELSE 0
  IN << F("magic", 0, 4, FALSE), F("eof", 4, 1, TRUE), F("width", 5, 2, TRUE), F("height", 7, 2, TRUE), F("fontheight", 9, 1, TRUE), F("flags", 10, 1, TRUE) >>
     \o (IF pal > 0 THEN << F("palette", 11, pal, FALSE) >> ELSE <<>>)
     \o (IF fnt > 0 THEN << F("font", 11 + pal, fnt, FALSE) >> ELSE <<>>)
     \o << F("image", 11 + pal + fnt, 0, FALSE) >>
AdfLayout(h, len) == << F("version", 0, 1, TRUE), F("palette", 1, 192, FALSE), F("font", 193, 4096, FALSE), F("image", 4289, 0, FALSE) >>
IdfLayout(h, len) == << F("magic", 0, 4, FALSE), F("x1", 4, 2, TRUE), F("y1", 6, 2, TRUE), F("x2", 8, 2, TRUE), F("y2", 10, 2, TRUE), F("data", 12, 0, FALSE),
                        F("font", len - 4096 - 48, 4096, FALSE), F("palette", len - 48, 48, FALSE) >>
TndLayout(h, len) == << F("idlen", 0, 1, TRUE), F("id", 1, 8, FALSE), F("records", 9, 0, FALSE) >>
Psf1Layout(h, len) == << F("magic", 0, 2, FALSE), F("mode", 2, 1, TRUE), F("charsize", 3, 1, TRUE), F("glyphs", 4, 0, FALSE) >>
Psf2Layout(h, len) == << F("magic", 0, 4, FALSE), F("version", 4, 4, TRUE), F("headersize", 8, 4, TRUE), F("flags", 12, 4, TRUE), F("length", 16, 4, TRUE),
                         F("charsize", 20, 4, TRUE), F("height", 24, 4, TRUE), F("width", 28, 4, TRUE), F("glyphs", 32, 0, FALSE) >>
TdfLayout(h, len) == << F("idlen", 0, 1, TRUE), F("id", 1, 18, FALSE), F("ctrlz", 19, 1, TRUE), F("indicator", 20, 4, FALSE), F("namelen", 24, 1, TRUE), F("name", 25, 12, FALSE),
                        F("magic", 37, 4, FALSE), F("type", 41, 1, TRUE), F("spacing", 42, 1, TRUE), F("blocksize", 43, 2, TRUE), F("table0", 45, 2, TRUE), F("table1", 47, 2, TRUE),
                        F("table93", 231, 2, TRUE), F("glyphs", 233, 0, FALSE) >>
BinLayout(h, len) == << F("cells", 0, 0, FALSE) >>
\* SAUCE record + comment block at the end of the file (t = last 200 bytes; 0-based offsets inside the record)
HasSauce(t) == Len(t) >= 128 /\ SubSeq(t, Len(t) - 127, Len(t) - 123) = <<83, 65, 85, 67, 69>>
SauceLayout(t, len) ==
  LET r == len - 128  n == t[Len(t) - 128 + 105]  c == r - 5 - 64 * n IN
  (IF n > 0 /\ c >= 0 THEN << F("eof", c - 1, 1, TRUE), F("comnt", c, 5, FALSE) >> ELSE << F("eof", r - 1, 1, TRUE) >>)
  \o << F("sauce-id", r, 5, FALSE), F("sauce-version", r + 5, 2, FALSE), F("sauce-title", r + 7, 35, FALSE), F("sauce-date", r + 82, 8, FALSE), F("sauce-filesize", r + 90, 4, TRUE),
        F("sauce-datatype", r + 94, 1, TRUE), F("sauce-filetype", r + 95, 1, TRUE), F("sauce-tinfo1", r + 96, 2, TRUE), F("sauce-tinfo2", r + 98, 2, TRUE),
        F("sauce-comments", r + 104, 1, TRUE), F("sauce-flags", r + 105, 1, TRUE), F("sauce-tinfos", r + 106, 22, FALSE) >>

Layout(ext, name, h, t, len) ==
  LET base == CASE ext = "xb" /\ Len(h) >= 11 -> XBinLayout(h, len)
                [] ext = "adf" -> AdfLayout(h, len)
                [] ext = "idf" /\ len >= 12 + 4096 + 48 -> IdfLayout(h, len)
                [] ext = "tnd" -> TndLayout(h, len)
                [] ext = "bin" -> BinLayout(h, len)
                [] name = "psf1" -> Psf1Layout(h, len)
                [] name = "psf2" -> Psf2Layout(h, len)
                [] ext = "tdf" -> TdfLayout(h, len)
                [] OTHER -> <<>>
  IN base \o (IF HasSauce(t) /\ ext \notin {"psf", "tdf"} THEN SauceLayout(t, len) ELSE <<>>)

\* ---- faults
MaxOf(w) == IF w = 1 THEN 255 ELSE IF w = 2 THEN 65535 ELSE 2147483647     \* 4-byte extremes are capped at 2^31-1 (TLC integers); the driver adds 0xFFFFFFFF itself
Declared(h, t, len, f) ==       \* current value of a numeric field (0 when it lies outside the bytes we were given)
  LET o == f[2] IN
  IF o + f[3] <= Len(h) THEN (IF f[3] = 1 THEN U8(h, o) ELSE IF f[3] = 2 THEN U16(h, o) ELSE 0)
  ELSE IF o >= len - Len(t) /\ o + f[3] <= len THEN (LET k == o - (len - Len(t)) IN IF f[3] = 1 THEN t[k + 1] ELSE IF f[3] = 2 THEN t[k + 1] + 256 * t[k + 2] ELSE 0)
  ELSE 0
Boundaries(lay, len) == {f[2] : f \in {lay[i] : i \in 1..Len(lay)}} \cup {f[2] + f[3] : f \in {lay[i] : i \in 1..Len(lay)}} \cup {len}
TruncPoints(lay, len) == {p \in UNION {{b - 1, b, b + 1} : b \in Boundaries(lay, len)} : p >= 0 /\ p < len}
FieldValues(h, t, len, f) == {v \in {0, 1, MaxOf(f[3]) - 1, MaxOf(f[3]), Declared(h, t, len, f) + 1, Declared(h, t, len, f) - 1, 127, 128} : v >= 0 /\ v <= MaxOf(f[3])}
Faults(seed) ==
  LET lay == Layout(seed.ext, seed.name, seed.head, seed.tail, seed.len) IN
  {[seed |-> seed.name, kind |-> "trunc", at |-> p, off |-> 0, width |-> 0, val |-> 0, field |-> "boundary"] : p \in TruncPoints(lay, seed.len)}
  \cup UNION { {[seed |-> seed.name, kind |-> "set", at |-> 0, off |-> lay[i][2], width |-> lay[i][3], val |-> v, field |-> lay[i][1]] : v \in FieldValues(seed.head, seed.tail, seed.len, lay[i])}
               : i \in {j \in 1..Len(lay) : lay[j][4] /\ lay[j][2] >= 0 /\ lay[j][2] + lay[j][3] <= seed.len} }

\* Composed faults: a header field is set to one of its values, the layout is RE-COMPUTED from the changed header (the value
\* may change which blocks exist and how long they are), and the file is then truncated at every boundary (-1/0/+1) of that
\* new layout.  A length check that uses one reading of a field while the slicing uses another only shows under such a pair.
Pow256(k) == IF k = 0 THEN 1 ELSE IF k = 1 THEN 256 ELSE IF k = 2 THEN 65536 ELSE 16777216
ApplySet(h, off, w, v) == [k \in 1..Len(h) |-> IF k - 1 >= off /\ k - 1 < off + w THEN (v \div Pow256(k - 1 - off)) % 256 ELSE h[k]]
PairFaults(seed) ==
  LET lay == Layout(seed.ext, seed.name, seed.head, seed.tail, seed.len)
      hdr == {j \in 1..Len(lay) : lay[j][4] /\ lay[j][2] >= 0 /\ lay[j][2] + lay[j][3] <= Len(seed.head) /\ lay[j][2] + lay[j][3] <= seed.len}
  IN UNION { UNION { LET h2 == ApplySet(seed.head, lay[i][2], lay[i][3], v)
                         lay2 == Layout(seed.ext, seed.name, h2, seed.tail, seed.len)
                     IN {[seed |-> seed.name, kind |-> "set+trunc", at |-> p, off |-> lay[i][2], width |-> lay[i][3], val |-> v, field |-> lay[i][1]]
                          : p \in {q \in TruncPoints(lay2, seed.len) : q > lay[i][2]}}
                     : v \in FieldValues(seed.head, seed.tail, seed.len, lay[i]) } : i \in hdr }

\* Two numeric fields set at once (a guard that multiplies or compares two fields - length x glyph size, width x height -
\* is only defeated by a PAIR of values, e.g. size 0 with count 2^31-1): every unordered pair of numeric header fields x
\* {0, 1, max-1, max}^2.
PairValues(w) == {0, 1, MaxOf(w) - 1, MaxOf(w)}
FieldPairFaults(seed) ==
  LET lay == Layout(seed.ext, seed.name, seed.head, seed.tail, seed.len)
      num == {j \in 1..Len(lay) : lay[j][4] /\ lay[j][2] >= 0 /\ lay[j][2] + lay[j][3] <= seed.len}
      \* end of the numeric header: the file cut there has a header and nothing else ("declared sizes x no data")
      hdrEnd == LET ends == {lay[j][2] + lay[j][3] : j \in {k \in num : lay[k][2] + lay[k][3] <= Len(seed.head)}} IN
                IF ends = {} THEN 0 ELSE CHOOSE e \in ends : \A f \in ends : f <= e
  IN UNION { UNION { { [seed |-> seed.name, kind |-> "set2", at |-> cut, off |-> lay[i][2], width |-> lay[i][3], val |-> v, field |-> lay[i][1],
                        off2 |-> lay[j][2], width2 |-> lay[j][3], val2 |-> v2] : v \in PairValues(lay[i][3]), v2 \in PairValues(lay[j][3]), cut \in {0, hdrEnd} }
                     : j \in {k \in num : k > i} } : i \in num }
=============================================================================
