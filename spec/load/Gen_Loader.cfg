SPECIFICATION Spec
INVARIANT Emit
INVARIANT FaultsInside
CHECK_DEADLOCK FALSE
