----------------------------- MODULE Gen_Loader -----------------------------
(* R2 generator for C02: reads the seed-file descriptions written by the       *)
(* driver (`icyverif c02 --dump-seeds`, environment variable SEEDS) and prints *)
(* every structure-aware fault of Loader.tla, one per state.                   *)
EXTENDS Loader, TLC, Json, IOUtils, SequencesExt
Seeds == ndJsonDeserialize(IOEnv.SEEDS)
AllFaults == UNION {Faults(Seeds[k]) \cup PairFaults(Seeds[k]) \cup FieldPairFaults(Seeds[k]) : k \in 1..Len(Seeds)}
VARIABLE i
Init == i = 0
Next == UNCHANGED i
Spec == Init /\ [][Next]_i
\* one state; the invariant prints every fault once
Emit == \A f \in AllFaults : PrintT(<<"WITNESS", ToJson(f)>>)
FaultsInside == \A f \in AllFaults : f.kind \in {"set", "set+trunc", "set2"} => f.off >= 0 /\ f.width \in {1, 2, 4}
=============================================================================
