SPECIFICATION Spec
CONSTANTS RecLen = 128
          CmtLen = 64
          SauceId <- SauceIdReal
          CmtId <- CmtIdReal
          EofByte = 26
          CountOff = 104
POSTCONDITION Post
CHECK_DEADLOCK FALSE
