----------------------------- MODULE Trace_Loader -----------------------------
(***************************************************************************)
(* C02: every load of arbitrary / truncated / corrupted bytes through        *)
(* Buffer::from_bytes (every extension), SauceData::extract,                 *)
(* BitFont::from_bytes, TheDrawFont::from_tdf_bytes, Palette::load_palette   *)
(* returns a buffer / value or an error.  load{fmt, seed, mut, len, r, ms}   *)
(* per load; crash{kind, msg} when a load killed the worker (abort, stack    *)
(* overflow, allocation failure, hang).  A load slower than 5 s or an        *)
(* allocation failure is also a C03 violation (file headers declaring        *)
(* extreme sizes).  Model layer: for SAUCE loads whose bytes are recorded,   *)
(* Sauce.tla's Split predicts whether a record is found and how many         *)
(* trailing bytes are cut off.                                               *)
(***************************************************************************)
EXTENDS Integers, Sauce, TraceLib
VARIABLES l
vars == <<l>>
Init == l = 1 /\ InitRegs
SauceIdReal == <<83, 65, 85, 67, 69>>
CmtIdReal == <<67, 79, 77, 78, 84>>
SauceAgrees(m, e) ==
  Expect(IF ~m.sauce THEN (e.r = "ok" /\ e.n = -1)
         ELSE (e.r = "err" \/ (e.r = "ok" /\ e.n >= 0 /\ (m.eof /\ m.cmtok => e.hdr = m.hdr))),
         "sauce-split", l, [len |-> e.len, model |-> [sauce |-> m.sauce, hdr |-> m.hdr, eof |-> m.eof, cmtok |-> m.cmtok], r |-> e.r, n |-> IF Has(e, "n") THEN e.n ELSE -2])
Next ==
  /\ l <= Len(Rec)
  /\ LET e == Rec[l] IN
     /\ Bump(3)
     /\ CASE e.ev = "load" ->
               /\ Bump(4)
               /\ Check(e.r = "ok" \/ e.r = "err", "C02", "Outcome", l, [fmt |-> e.fmt, seed |-> e.seed, mut |-> e.mut, len |-> e.len, r |-> e.r])
               /\ Check(e.ms <= 5000, "C03", "LoadTime", l, [fmt |-> e.fmt, seed |-> e.seed, mut |-> e.mut, len |-> e.len, ms |-> e.ms])
               /\ (IF e.fmt = "sauce" /\ Has(e, "bytes") /\ e.r # "panic" THEN Bump(5) /\ SauceAgrees(Split(e.bytes), e) ELSE TRUE)
          [] e.ev = "crash" ->
               /\ Bump(6)
               /\ Check(e.kind # "abort", "C02", "Abort", l, [fmt |-> e.emu, msg |-> e.msg, seed |-> e.seed, mut |-> e.mut])
               /\ Check(e.kind # "timeout" /\ e.msg # "alloc" /\ e.msg # "stack_overflow", "C03", "LoadLimit", l, [fmt |-> e.emu, kind |-> e.kind, msg |-> e.msg, seed |-> e.seed, mut |-> e.mut])
          [] OTHER -> Viol("TOOL", "unknown-event", l, e.ev)
  /\ l' = l + 1
Spec == Init /\ [][Next]_vars
=============================================================================
