SPECIFICATION Spec
CONSTANTS W = 3
          H = 2
          Alloc = FALSE
          Emu = "petscii"
          Music = 0
          MaxHist = 6
          Slice = "petscii"
INVARIANT Emit
CONSTRAINT Bounded
VIEW GenView
CHECK_DEADLOCK FALSE
