SPECIFICATION Spec
CONSTANTS W = 3
          H = 2
          Alloc = FALSE
          Emu = "atascii"
          Music = 0
          MaxHist = 6
          Slice = "atascii"
INVARIANT Emit
CONSTRAINT Bounded
VIEW GenView
CHECK_DEADLOCK FALSE
