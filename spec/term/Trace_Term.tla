----------------------------- MODULE Trace_Term -----------------------------
(***************************************************************************)
(* Validation of recorded terminal executions (one event per character fed  *)
(* to a real emulation attached to a terminal buffer).                      *)
(* Property layer: C01 (every character yields an action or an error),      *)
(* C09 (caret inside the visible screen; fixed 40x24 grid for Viewdata and  *)
(* Mode 7), C10 (every stored cell is a Unicode scalar value), C03 (limits  *)
(* per short input).  Model layer: Term.tla predicts the next state; a       *)
(* mismatch is drift and the recorded state is adopted.                     *)
(***************************************************************************)
EXTENDS Term, TraceLib
VARIABLES l, cs, st
vars == <<l, cs, st>>

Max3(a, b, c) == IF a >= b /\ a >= c THEN a ELSE IF b >= c THEN b ELSE c
WidthNow(e, c0) == Max3(c0.maxw, e.tw, Max3(e.bw, e.lw, 0))
NoCase == [emu |-> "none", resized |-> FALSE, dead |-> FALSE, modelled |-> FALSE, nl |-> 0, mz |-> FALSE, prevc |-> 0, maxw |-> 0]
Init == l = 1 /\ cs = NoCase /\ st = InitSt(1, 1, TRUE, 0, FALSE) /\ InitRegs

FixedGrid(emu) == emu = "viewdata" \/ emu = "mode7"
FirstVisible(e) == IF e.bh - e.th > 0 THEN e.bh - e.th ELSE 0
CaretInScreenE(e) == /\ e.cx >= 0 /\ e.cx <= e.tw - 1
                    /\ e.cy >= FirstVisible(e) /\ e.cy <= FirstVisible(e) + e.th - 1
RowsScalar(e) == \A i \in 1..Len(e.rows) : \A j \in 1..Len(e.rows[i][2]) : Scalar(e.rows[i][2][j][1])

Geo(e) == [cx |-> e.cx, cy |-> e.cy, tw |-> e.tw, th |-> e.th, bw |-> e.bw, bh |-> e.bh]

\* operator arguments are evaluated once, LET definitions inside an action once per use: keep the expensive
\* model step and comparison in arguments
ModelPart(exp, same, e) ==
  /\ Bump(7)
  /\ Expect(same /\ (exp.res = "any" \/ exp.res = e.r), "step", l, [c |-> e.c, ls |-> st.ls, diff |-> Diff(exp.st, e), res |-> <<exp.res, e.r>>])
  /\ st' = IF same THEN exp.st ELSE Adopt(exp.st, e)
WithExp(exp, e) == ModelPart(exp, Matches(exp.st, e), e)

Next ==
  /\ l <= Len(Rec)
  /\ LET e == Rec[l] IN
     CASE e.ev = "reset" ->
            /\ Bump(4)
            /\ cs' = [emu |-> e.emu, resized |-> FALSE, dead |-> FALSE, modelled |-> Modelled(e.emu) /\ (~Has(e, "model") \/ e.model = 1), nl |-> IF Has(e, "nl") THEN e.nl ELSE 0, mz |-> FALSE, prevc |-> 0, maxw |-> IF Has(e, "w") THEN e.w ELSE 0]
            /\ st' = InitStE(e.emu, e.w, e.h, e.alloc = 1, IF e.emu = "ansi" THEN e.music ELSE 0, e.emu = "ansi" /\ e.bs = 1)
       [] e.ev = "ch" ->
            /\ Bump(3)
            \* ---- property layer -------------------------------------------------
            /\ Check(e.r = "ok" \/ e.r = "err", "C01", "Outcome", l, [r |-> e.r, c |-> e.c, emu |-> cs.emu])
            /\ LET resizedNow == cs.resized \/ e.a = "Resize" IN
               /\ IF e.r # "panic" /\ ~resizedNow
                  THEN /\ Bump(5)
                       /\ Check(CaretInScreenE(e), "C09", "CaretInScreen", l, Geo(e) @@ [emu |-> cs.emu, c |-> e.c])
                       /\ Check(FixedGrid(cs.emu) => (e.bw = 40 /\ e.bh = 24), "C09", "FixedGrid", l, Geo(e) @@ [emu |-> cs.emu, c |-> e.c])
                  ELSE TRUE
               /\ IF Has(e, "rows") THEN Bump(6) /\ Check(RowsScalar(e), "C10", "CellsScalar", l, [emu |-> cs.emu, c |-> e.c]) ELSE TRUE
               /\ Check(~Has(e, "us") \/ e.us <= 5000000, "C03", "StepTime", l, [emu |-> cs.emu, c |-> e.c])
               \* one character grows the row table by at most a screenful plus one macro expansion (C03: memory is bounded by
               \* the input length and the screen, not by numbers in the input)
               /\ Check(~Has(e, "nl") \/ e.nl - cs.nl <= e.th + 33000, "C03", "Growth", l, [emu |-> cs.emu, c |-> e.c, nl |-> IF Has(e, "nl") THEN e.nl ELSE 0, before |-> cs.nl])
               \* ... and over a whole input without macro invocations the row table is bounded by a polynomial in the number of
               \* characters and the screen height: a screenful (REP, wrapped prints) or one Avatar repeat (255 cells) per character
               /\ Check(~Has(e, "nl") \/ cs.mz \/ (e.c = 122 /\ cs.prevc = 42) \/ e.nl <= e.th + (e.i + 1) * (e.th + 256), "C03", "GrowthTotal", l,
                        [emu |-> cs.emu, c |-> e.c, i |-> e.i, nl |-> IF Has(e, "nl") THEN e.nl ELSE 0, th |-> e.th])
               \* ... and no stored row is longer than a screen width (the widest the terminal, buffer or layer has been) per character
               \* read so far: a row of 10^6 cells from a 30-byte input is memory "bounded by a number in the input"
               /\ Check(~Has(e, "ll") \/ ~Has(e, "tw") \/ cs.mz \/ (e.c = 122 /\ cs.prevc = 42)
                          \/ \A k \in 1..Len(e.ll) : e.ll[k][2] <= (e.i + 2) * (WidthNow(e, cs) + 256), "C03", "RowWidth", l,
                        [emu |-> cs.emu, c |-> e.c, i |-> e.i, w |-> IF Has(e, "tw") THEN WidthNow(e, cs) ELSE 0,
                         row |-> IF Has(e, "ll") /\ Len(e.ll) > 0 THEN e.ll[CHOOSE k \in 1..Len(e.ll) : \A j \in 1..Len(e.ll) : e.ll[k][2] >= e.ll[j][2]] ELSE <<>>])
               \* ---- model layer ------------------------------------------------
               /\ IF cs.modelled /\ e.r # "panic"
                  THEN WithExp(Step(st, e.c), e)
                  ELSE st' = st
               /\ cs' = [cs EXCEPT !.resized = resizedNow, !.dead = (e.r = "panic"), !.nl = IF Has(e, "nl") THEN e.nl ELSE cs.nl, !.mz = cs.mz \/ (e.c = 122 /\ cs.prevc = 42), !.prevc = e.c, !.maxw = IF Has(e, "tw") THEN WidthNow(e, cs) ELSE cs.maxw]
       [] e.ev = "crash" ->
            /\ Bump(8)
            /\ Check(e.kind # "abort", "C01", "Abort", l, [emu |-> e.emu, msg |-> e.msg])
            /\ Check(e.kind # "abort" \/ e.msg # "invalid_char", "C10", "InvalidChar", l, [emu |-> e.emu])
            /\ Check(e.kind # "timeout" /\ e.msg # "alloc" /\ e.msg # "stack_overflow", "C03", "Limit", l, [emu |-> e.emu, kind |-> e.kind, msg |-> e.msg, n |-> e.n])
            /\ UNCHANGED <<cs, st>>
       [] OTHER -> Viol("TOOL", "unknown-event", l, e.ev) /\ UNCHANGED <<cs, st>>
  /\ l' = l + 1
Spec == Init /\ [][Next]_vars
=============================================================================
