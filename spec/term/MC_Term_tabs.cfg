SPECIFICATION Spec
CONSTANTS W = 2
          H = 2
          Alloc = FALSE
          Emu = "ansi"
          Music = 0
          MaxHist = 3
          Slice = "tabs"
INVARIANT InScreen
INVARIANT Sane
CONSTRAINT Bounded
VIEW View
CHECK_DEADLOCK FALSE
