SPECIFICATION Spec
CONSTANTS W = 3
          H = 2
          Alloc = TRUE
          Emu = "ansi"
          Music = 0
          MaxHist = 2
          Slice = "huge"
          MaxMacroExpansion <- SmallExpansion
          MaxMacroSize <- SmallMacroSize
INVARIANT InScreen
INVARIANT Sane
PROPERTY GrowthBounded
VIEW View
CHECK_DEADLOCK FALSE
