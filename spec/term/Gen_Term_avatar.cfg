SPECIFICATION Spec
CONSTANTS W = 3
          H = 2
          Alloc = FALSE
          Emu = "avatar"
          Music = 0
          MaxHist = 8
          Slice = "avatar"
INVARIANT Emit
CONSTRAINT Bounded
VIEW GenView
CHECK_DEADLOCK FALSE
