------------------------------- MODULE MC_Term -------------------------------
(***************************************************************************)
(* R1 for the terminal model: exhaustive exploration of Term.tla on tiny     *)
(* screens at TOKEN granularity (every token is fed character by character   *)
(* through Step, so the lexer paths are exercised too).                      *)
(*   INVARIANT InScreen  - C09 on the model (the cursor stays on the screen) *)
(*   INVARIANT Sane      - C01/C10 on the model: every token is accepted in  *)
(*                         every reachable state (Step is total: TLC would   *)
(*                         stop with an evaluation error otherwise), sizes   *)
(*                         stay positive, every stored cell is a scalar      *)
(* and generator of state-directed witnesses (Gen cfg): one shortest token   *)
(* sequence per class of the coarse VIEW GenView.                            *)
(***************************************************************************)
EXTENDS Term, TLC, Json, SequencesExt
CONSTANTS W, H, Alloc, Emu, Music, MaxHist, Slice
VARIABLES st, hist
vars == <<st, hist>>

RECURSIVE DecDigits(_)
DecDigits(n) == IF n < 10 THEN <<48 + n>> ELSE DecDigits(n \div 10) \o <<48 + (n % 10)>>
Csi(ps, fin) == <<27, 91>> \o ps \o fin
P1(n) == DecDigits(n)
P2(a, b) == DecDigits(a) \o <<59>> \o DecDigits(b)
Vals == {0, 1, 2, H + 1}
\* cursor / scroll / edit tokens with one parameter
OneParam == { Csi(P1(n), <<f>>) : n \in Vals, f \in {65, 66, 67, 68, 69, 70, 71, 100, 101, 97, 83, 84, 76, 77, 64, 80, 88, 98, 89, 90, 74, 75} }
NoParam == { Csi(<<>>, <<f>>) : f \in {65, 66, 67, 68, 72, 74, 75, 76, 77, 80, 115, 117, 114} }
Cup == { Csi(P2(r, c), <<72>>) : r \in Vals, c \in {0, 1, W + 1} }
Stbm == { Csi(P2(t, b), <<114>>) : t \in 0..H, b \in 0..(H + 1) } \cup { Csi(P1(b), <<114>>) : b \in 0..H }
Modes == { <<27, 91, 52, 104>>, <<27, 91, 52, 108>>, <<27, 91, 63, 55, 104>>, <<27, 91, 63, 55, 108>>, <<27, 91, 63, 54, 57, 104>>, <<27, 91, 63, 54, 57, 108>> }
EscTok == { <<27, 55>>, <<27, 56>>, <<27, 99>>, <<27, 68>>, <<27, 77>>, <<27, 69>>, <<27, 72>>, <<27, 91, 33, 112>>, <<27, 91, 61, 114>> }
C0 == { <<10>>, <<13>>, <<12>>, <<8>>, <<9>>, <<127>> }
\* tab stops: TBC (clear at cursor / all), HTS, CHT, CVT, CBT, DECST8C-like delete-tab, on lists that may be EMPTY
TabTok == { Csi(P1(n), <<103>>) : n \in {0, 3, 5} } \cup { Csi(<<>>, <<103>>), <<27, 72>>, Csi(<<>>, <<73>>), Csi(P1(2), <<73>>), Csi(<<>>, <<89>>), Csi(<<>>, <<90>>), Csi(P1(1), <<32, 100>>), <<9>> }
Printable == { <<65>>, <<32>> }
Lrm == { Csi(P2(a, b), <<115>>) : a \in {1, 2}, b \in {1, W, W + 1} } \cup { Csi(P2(k, n), <<61, 109>>) : k \in 0..3, n \in {0, 1, 2} }
SlSr == { Csi(P1(n), <<32, 64>>) : n \in {1, 2} } \cup { Csi(P1(n), <<32, 65>>) : n \in {1, 2} }
Rect == { Csi(<<53, 53, 50, 57, 54, 59>> \o P2(1, 1) \o <<59>> \o P2(2, 2), <<36, 120>>), Csi(<<49, 49, 49, 52, 49, 49, 50, 59>> \o P2(1, 1) \o <<59>> \o P2(1, 1), <<36, 120>>),
          Csi(<<54, 53, 59>> \o P2(1, 1) \o <<59>> \o P2(H + 1, W + 1), <<36, 120>>), Csi(P2(1, 1) \o <<59>> \o P2(2, 2), <<36, 122>>), Csi(P2(2, 2) \o <<59>> \o P2(1, 1), <<36, 123>>) }
Sgr1 == { Csi(<<>>, <<109>>), Csi(<<52, 49>>, <<109>>), Csi(<<53>>, <<109>>), <<27, 91, 63, 51, 51, 104>> }
Avt == { <<22, k>> : k \in 2..6 } \cup { <<22, 8, a, b>> : a \in {0, 1, W + 1}, b \in {0, H + 1} } \cup { <<25, 65, n>> : n \in {0, 2, W + 1} } \cup { <<22, 1, 23>>, <<12>> }
CtrlATok == { <<1, k>> : k \in {76, 39, 74, 62, 60, 124, 93, 72, 78, 130} }

PetTok == { <<k>> : k \in {65, 32, 13, 10, 17, 145, 29, 157, 19, 20, 147, 18, 146, 14, 142, 28, 255, 141} } \cup { <<27, k>> : k \in {81, 80, 64, 74, 75, 68, 73, 65} }
VdTok == { <<k>> : k \in {65, 33, 8, 9, 10, 11, 12, 13, 17, 20, 30, 127} } \cup { <<27, k>> : k \in {65, 81, 72, 73, 76, 77, 88, 89, 90, 92, 93, 94, 95, 48} }
M7Tok == { <<k>> : k \in {65, 8, 9, 10, 11, 12, 13, 30, 127, 129, 136, 137, 140, 141, 145, 152, 153, 154, 156, 157, 158, 159, 161, 255, 128} }
AtaTok == { <<k>> : k \in {65, 193, 28, 29, 30, 31, 125, 126, 127, 155, 156, 157, 253, 254, 255} } \cup { <<27, k>> : k \in {27, 125, 65} }

\* CSI 8 ; rows ; cols t: the terminal's size changes under the cursor, the margins, the tab stops and the stored rows
ResizeTok == { Csi(<<56, 59>> \o P2(h, w), <<116>>) : h \in {1, H, H + 1}, w \in {1, W, W + 1} }
Big == {<<54, 53, 53, 51, 54>>, <<57, 57, 57, 57, 57, 57, 57, 57, 57, 57, 57>>}      \* "65536", "99999999999" (saturates at 2147483599)
Huge == { Csi(b, <<f>>) : b \in Big, f \in {64, 80, 76, 77, 83, 84, 98, 89, 90, 88, 65, 66, 67, 68, 69, 70, 71, 100, 101, 97, 114} }
        \cup { Csi(b, <<32, 64>>) : b \in Big } \cup { Csi(b, <<32, 65>>) : b \in Big } \cup { Csi(<<49, 59>> \o b, <<114>>) : b \in Big } \cup { Csi(<<49, 59>> \o b, <<115>>) : b \in Big }
        \cup { <<27, 80, 48, 59, 48, 59, 48, 33, 122, 65, 27, 91, 48, 42, 122, 27, 91, 48, 42, 122, 27, 92>>,          \* DECDMAC 0 = "A CSI 0*z CSI 0*z" (invokes itself twice)
                 <<27, 80, 49, 59, 48, 59, 48, 33, 122, 27, 91, 48, 42, 122, 27, 92>>, <<27, 91, 48, 42, 122>>, <<27, 91, 49, 42, 122>>,
                 <<27, 80, 50, 59, 48, 59, 49, 33, 122, 33, 57, 57, 57, 57, 57, 57, 57, 59, 52, 49, 59, 27, 92>>, <<27, 91, 50, 42, 122>>,        \* hex macro with repeat group 9999999 x "A"
                 <<27, 91, 63, 54, 57, 104>>, <<10>>, <<65>> }
Toks == CASE Slice = "huge"    -> Huge
          [] Slice = "cursor"  -> OneParam \cup NoParam \cup Cup \cup C0 \cup Printable \cup EscTok \cup Modes
          [] Slice = "tabs"    -> TabTok \cup Printable \cup Cup \cup { <<10>>, <<13>>, <<27, 99>> }
          [] Slice = "margins" -> Stbm \cup Lrm \cup SlSr \cup { Csi(P1(n), <<f>>) : n \in {1, 2}, f \in {65, 66, 83, 84, 76, 77} } \cup { <<10>>, <<27, 68>>, <<27, 77>>, <<27, 69>>, <<65>>, <<12>>, <<27, 91, 63, 54, 57, 104>> } \cup Cup
          [] Slice = "content" -> Printable \cup Rect \cup Sgr1 \cup C0 \cup Modes \cup { Csi(P1(n), <<f>>) : n \in {1, 2}, f \in {64, 80, 88, 98, 97, 39, 71} } \cup { Csi(<<>>, <<f>>) : f \in {74, 75, 64} }
          [] Slice = "resize"  -> ResizeTok \cup Cup \cup C0 \cup Printable \cup { Csi(P1(n), <<f>>) : n \in {1, 2}, f \in {64, 80, 88, 98, 67, 66, 71, 100, 76, 77} } \cup { Csi(<<>>, <<f>>) : f \in {74, 75} }
                                    \cup { Csi(P2(1, 2), <<114>>), Csi(P2(1, 2), <<115>>), <<27, 91, 63, 54, 57, 104>>, <<27, 72>> }
          [] Slice = "avatar"  -> Avt \cup Printable \cup { <<10>>, <<13>> } \cup Cup
          [] Slice = "petscii" -> PetTok
          [] Slice = "viewdata" -> VdTok
          [] Slice = "mode7"   -> M7Tok
          [] Slice = "atascii" -> AtaTok
          [] Slice = "ctrla"   -> CtrlATok \cup Printable \cup { <<10>>, <<13>> } \cup Cup
          [] OTHER -> OneParam \cup NoParam \cup Cup \cup Stbm \cup Modes \cup EscTok \cup C0 \cup Printable \cup Lrm \cup SlSr \cup Rect \cup Sgr1

RECURSIVE Run(_, _, _)
Run(s, tok, i) == IF i > Len(tok) THEN s ELSE Run(Step(s, tok[i]).st, tok, i + 1)

Init == st = InitStE(Emu, W, H, Alloc, Music, FALSE) /\ hist = <<>>
Next == /\ Len(hist) < MaxHist
        /\ \E t \in Toks : st' = Run(st, t, 1) /\ hist' = Append(hist, t)
Spec == Init /\ [][Next]_vars

InScreen == CaretInScreen(st)
\* a resize leaves the cursor where it was (ResizeKeepsCaret): C09 is stated for streams that do not resize
Resized == \E i \in 1..Len(hist) : hist[i] \in ResizeTok
InScreenR == Resized \/ CaretInScreen(st)
SaneR == /\ st.tw >= 1 /\ st.th >= 1 /\ st.lh >= 1
         /\ \A i \in 1..Len(st.rows) : \A j \in 1..Len(st.rows[i]) : Scalar(st.rows[i][j][1])
BoundedR == st.bh <= H + 3 /\ Len(st.rows) <= H + 4 /\ (\A i \in 1..Len(st.rows) : Len(st.rows[i]) <= W + 3) /\ Len(st.pal) <= 17
Sane == /\ st.tw >= 1 /\ st.th >= 1 /\ st.bh >= st.th /\ st.lh >= 1
        /\ \A i \in 1..Len(st.rows) : \A j \in 1..Len(st.rows[i]) : Scalar(st.rows[i][j][1])
\* C03 on the model: one token never grows the row table or a row by more than a screenful plus one macro expansion (the macro
\* space is a constant), nor the macro store beyond 64 x the macro space - whatever numbers the token carries
\* scaled-down macro space for model checking (the .cfg substitutes them for the real 32767)
SmallExpansion == 48
SmallMacroSize == 40
MacroBytes(s) == LET RECURSIVE Sum(_)
                     Sum(i) == IF i > Len(s.macros) THEN 0 ELSE Len(s.macros[i][2]) + Sum(i + 1)
                 IN Sum(1)
RowMax(s) == LET RECURSIVE M(_)
                 M(i) == IF i > Len(s.rows) THEN 0 ELSE Max2(Len(s.rows[i]), M(i + 1))
             IN M(1)
GrowthBounded == [][ /\ Len(st'.rows) <= Len(st.rows) + st.tw * st.th + st.th + 2 + MaxMacroExpansion
                     /\ RowMax(st') <= Max2(RowMax(st), st.lw) + st.tw * st.th + 2 + MaxMacroExpansion
                     /\ MacroBytes(st') <= 64 * MaxMacroSize ]_vars
Bounded == st.bh <= H + 2 /\ Len(st.rows) <= H + 3 /\ (\A i \in 1..Len(st.rows) : Len(st.rows[i]) <= W + 2) /\ Len(st.pal) <= 17
View == st
\* ---- generator: coarse classes of states, one shortest witness each
Cls(v, lo, hi) == IF v < lo THEN "below" ELSE IF v = lo THEN "first" ELSE IF v < hi THEN "mid" ELSE IF v = hi THEN "last" ELSE "above"
RowCls == IF st.rows = <<>> THEN "none" ELSE IF st.y >= Len(st.rows) THEN "norow" ELSE IF Len(st.rows[st.y + 1]) <= st.x THEN "short" ELSE IF Len(st.rows[st.y + 1]) > st.tw THEN "long" ELSE "ok"
MarginCls == IF st.mtb = <<>> THEN "none" ELSE IF st.mtb[2] < 0 THEN "neg" ELSE IF st.mtb[1] = st.mtb[2] THEN "one" ELSE IF st.mtb[2] >= st.th THEN "big" ELSE "norm"
LrCls == IF st.mlr = <<>> THEN "none" ELSE IF st.mlr[2] >= st.tw THEN "big" ELSE IF st.mlr[1] >= st.mlr[2] THEN "one" ELSE "norm"
TabCls == IF st.tabs = <<>> THEN "none" ELSE IF Len(st.tabs) = 1 THEN "one" ELSE "many"
GenView == << Cls(st.x, 0, st.tw - 1), Cls(st.y, First(st), First(st) + st.th - 1), RowCls, MarginCls, LrCls, TabCls, st.bh > st.th, st.im, st.aw, st.dm, st.ls, Len(st.rows) > st.lh, st.ca.bg # 0 >>
GenViewR == <<GenView, st.tw, st.th, Cls(st.x, 0, st.lw - 1)>>
Emit == IF hist = <<>> THEN PrintT(<<"ALPHABET", ToJson([toks |-> SetToSeq(Toks)])>>) ELSE PrintT(<<"WITNESS", ToJson([hist |-> hist])>>)
=============================================================================
