SPECIFICATION Spec
CONSTANTS W = 9
          H = 2
          Alloc = FALSE
          Emu = "ansi"
          Music = 0
          MaxHist = 6
          Slice = "tabs"
INVARIANT Emit
CONSTRAINT Bounded
VIEW GenView
CHECK_DEADLOCK FALSE
