SPECIFICATION Spec
CONSTANTS W = 3
          H = 2
          Alloc = FALSE
          Emu = "ansi"
          Music = 0
          MaxHist = 5
          Slice = "resize"
INVARIANT Emit
CONSTRAINT BoundedR
VIEW GenViewR
CHECK_DEADLOCK FALSE
