SPECIFICATION Spec
CONSTANTS W = 2
          H = 2
          Alloc = FALSE
          Emu = "mode7"
          Music = 0
          MaxHist = 3
          Slice = "mode7"
INVARIANT InScreen
INVARIANT Sane
CONSTRAINT Bounded
VIEW View
CHECK_DEADLOCK FALSE
