SPECIFICATION Spec
CONSTANTS W = 2
          H = 2
          Alloc = FALSE
          Emu = "ansi"
          Music = 0
          MaxHist = 3
          Slice = "resize"
INVARIANT InScreenR
INVARIANT SaneR
CONSTRAINT BoundedR
VIEW View
CHECK_DEADLOCK FALSE
