-------------------------------- MODULE Term --------------------------------
(***************************************************************************)
(* Faithful, character-level model of the icy_engine ANSI terminal:         *)
(* ansi::Parser::print_char (src/parsers/ansi/*.rs) composed with the       *)
(* terminal core (Caret / Buffer / Layer / Line / TerminalState in          *)
(* src/parsers/mod.rs, buffers.rs, layer.rs, line.rs, terminal_state.rs),   *)
(* and the front-ends that wrap it (Avatar, PCBoard, Ctrl-A, Renegade).     *)
(*                                                                         *)
(* Functional style: the whole emulation state is one record `s`; every     *)
(* critical section of the code is one operator; Step(s, c) consumes one    *)
(* character and returns [st, res] with res in {"ok", "err", "any"}.        *)
(* The same Step is used by MC_Term (exhaustive small-scope checking of     *)
(* CaretInScreen and totality), Gen_Term (witness generation) and           *)
(* Trace_Term (validation of recorded executions of the Rust code).         *)
(*                                                                         *)
(* Items marked (!) are quirks of the code that a textbook VT model would   *)
(* get wrong; the model copies them because it must predict the code.       *)
(***************************************************************************)
EXTENDS Integers, Sequences, SequencesExt, Palette, Xterm256

MaxI == 2147483647
Max2(a, b) == IF a > b THEN a ELSE b
Min2(a, b) == IF a < b THEN a ELSE b
Clamp(v, lo, hi) == IF v < lo THEN lo ELSE IF v > hi THEN hi ELSE v
SatAdd(a, b) == IF b >= 0 THEN (IF a > MaxI - b THEN MaxI ELSE a + b) ELSE (IF a < (-MaxI) - b THEN -MaxI ELSE a + b)
SatSub(a, b) == IF b >= 0 THEN (IF a < (-MaxI) + b THEN -MaxI ELSE a - b) ELSE SatAdd(a, -b)
SatMul(a, b) == IF a = 0 \/ b = 0 THEN 0 ELSE IF a > MaxI \div b THEN MaxI ELSE a * b     \* a, b >= 0

\* parse_next_number: ((10 x sat) + c sat) - 48, digits c in 48..57
ParseNext(x, c) == LET t == IF x > 214748364 THEN MaxI ELSE x * 10
                       u == IF t > MaxI - c THEN MaxI ELSE t + c
                   IN u - 48
IsDigit(c) == c >= 48 /\ c <= 57
PushDigit(nums, c) == IF nums = <<>> THEN <<ParseNext(0, c)>> ELSE [nums EXCEPT ![Len(nums)] = ParseNext(@, c)]

\* ------------------------------------------------------------------ attributes and cells
BOLD == 1  FAINT == 2  ITALIC == 4  BLINK == 8  UNDERLINE == 16  DUNDER == 32  CONCEAL == 64
CROSSED == 128  OVERLINE == 512  INVISIBLE == 32768
HasBit(a, b) == (a \div b) % 2 = 1
SetBit(a, b) == IF HasBit(a, b) THEN a ELSE a + b
ClrBit(a, b) == IF HasBit(a, b) THEN a - b ELSE a
PutBit(a, b, on) == IF on THEN SetBit(a, b) ELSE ClrBit(a, b)

B01(v) == IF v THEN 1 ELSE 0
DefAttr == [fg |-> 7, bg |-> 0, at |-> 0, fp |-> 0]
\* Caret::get_attribute: in ice mode blink folds into a bright background
Norm(s) == IF s.ice
           THEN [s.ca EXCEPT !.bg = IF @ < 8 /\ HasBit(s.ca.at, BLINK) THEN @ + 8 ELSE @, !.at = ClrBit(@, BLINK)]
           ELSE s.ca
Cell(ch, a) == <<ch, a.fg, a.bg, a.at, a.fp>>
InvCell == <<32, 7, 0, 32768, 0>>          \* AttributedChar::invisible()
Blank == <<32, 7, 0, 0, 0>>                \* AttributedChar::default()
Visible(cell) == ~HasBit(cell[4], INVISIBLE)
Transparent(cell) == (cell[1] = 0 \/ cell[1] = 32) /\ cell[3] = 0
Scalar(c) == (c >= 0 /\ c <= 55295) \/ (c >= 57344 /\ c <= 1114111)

\* ------------------------------------------------------------------ geometry (buffers.rs)
NL(s) == Len(s.rows)
First(s) == Max2(0, s.bh - s.th)                                   \* get_first_visible_line
HasTB(s) == s.mtb # <<>>
FirstEdit(s) == IF HasTB(s) THEN SatAdd(First(s), s.mtb[1]) ELSE First(s)
LastEdit(s) == IF HasTB(s) THEN SatAdd(First(s), s.mtb[2]) ELSE First(s) + s.bh - 1      \* (!) buffer height, not terminal height
FirstCol(s) == IF s.mlr # <<>> THEN s.mlr[1] ELSE 0
LastCol(s) == IF s.mlr # <<>> THEN s.mlr[2] ELSE s.bw - 1
LastVisible(s) == First(s) + s.bh                                 \* (!) get_last_visible_line uses the buffer height
UpperLeft(s) == <<0, First(s)>>                                   \* origin mode is always UpperLeftCorner ((!) ?6l is a no-op)
SetTB(s, t, b) == [s EXCEPT !.mtb = IF t > b THEN <<>> ELSE <<t, b>>]
SetLR(s, a, b) == [s EXCEPT !.mlr = IF a > b THEN <<>> ELSE <<a, b>>]
Limit(s) == [s EXCEPT !.y = Clamp(s.y, First(s), First(s) + s.th - 1), !.x = Clamp(s.x, 0, Max2(s.tw - 1, 0))]
CaretInScreen(s) == s.x >= 0 /\ s.x <= s.tw - 1 /\ s.y >= First(s) /\ s.y <= First(s) + s.th - 1

\* reset_tabs: every 8 columns below the width
DefTabs(w) == [i \in 1..((w + 7) \div 8) |-> (i - 1) * 8]

\* ------------------------------------------------------------------ rows and cells (layer.rs, line.rs)
Repeat(v, n) == [i \in 1..Max2(n, 0) |-> v] \o <<>>          \* \o <<>> forces TLC to materialise the lazy function as a tuple
RowAt(s, y) == IF y >= 0 /\ y < NL(s) THEN s.rows[y + 1] ELSE <<>>
RowExists(s, y) == y >= 0 /\ y < NL(s)
\* Layer::get_char
GetCell(s, x, y) ==
  IF x < 0 \/ y < 0 \/ x >= s.lw \/ y >= s.lh THEN InvCell
  ELSE IF y < NL(s) /\ x < Len(s.rows[y + 1]) THEN s.rows[y + 1][x + 1] ELSE InvCell
\* Line::get_line_length: index after the last non-transparent cell
RECURSIVE LineLen(_, _)
LineLen(row, n) == IF n = 0 THEN 0 ELSE IF ~Transparent(row[n]) THEN n ELSE LineLen(row, n - 1)
\* a run of Layer::set_char on row y for the columns lo..hi with cells F(x): rows materialised as full-width rows of
\* invisible cells (!), the row padded with invisible cells up to the last written column
WriteRow(s, y, lo0, hi0, F(_)) ==
  LET lo == Max2(lo0, 0)  hi == Min2(hi0, s.lw - 1) IN
  IF y < 0 \/ y >= s.lh \/ lo > hi THEN s
  ELSE LET r1 == IF y >= NL(s) THEN s.rows \o Repeat(Repeat(InvCell, s.lw), y + 1 - NL(s)) ELSE s.rows
           old == r1[y + 1]
           new == [i \in 1..Max2(Len(old), hi + 1) |-> IF i - 1 >= lo /\ i - 1 <= hi THEN F(i - 1) ELSE IF i <= Len(old) THEN old[i] ELSE InvCell] \o <<>>
       IN [s EXCEPT !.rows = [r1 EXCEPT ![y + 1] = new]]
SetCell(s, x, y, cell) == WriteRow(s, y, x, x, LAMBDA q : cell)
SeqRemove(seq, i) == SubSeq(seq, 1, i - 1) \o SubSeq(seq, i + 1, Len(seq))        \* 1-based
SeqInsert(seq, i, v) == SubSeq(seq, 1, i - 1) \o <<v>> \o SubSeq(seq, i, Len(seq)) \* v becomes element i
\* Line::set_char on an existing row (no layer bounds)
LineSet(row, x, cell) == [i \in 1..Max2(Len(row), x + 1) |-> IF i = x + 1 THEN cell ELSE IF i <= Len(row) THEN row[i] ELSE InvCell] \o <<>>
\* Line::insert_char
LineInsert(row, x, cell) == LET p == IF x > Len(row) THEN row \o Repeat(InvCell, x - Len(row)) ELSE row IN SeqInsert(p, x + 1, cell)

\* ------------------------------------------------------------------ scrolling (parsers/mod.rs)
\* scroll_up: per column, rows start..end-1 take the cell below (reads see the old values), row `end` gets a default
\* blank; executed even when start > end (!).  end row / column clamped to the layer (cells outside cannot be written).
ScrollUp(s) ==
  LET a == FirstEdit(s)  b == Min2(LastEdit(s), s.lh)  c0 == FirstCol(s)  c1 == Min2(LastCol(s), s.lw)
      RECURSIVE Go(_, _)
      Go(t, y) == IF y >= b THEN t ELSE Go(WriteRow(t, y, c0, c1, LAMBDA x : GetCell(s, x, y + 1)), y + 1)
  IN IF c0 > c1 THEN s ELSE WriteRow(Go(s, a), b, c0, c1, LAMBDA x : Blank)
ScrollDown(s) ==
  LET a == FirstEdit(s)  b == Min2(LastEdit(s), s.lh)  c0 == FirstCol(s)  c1 == Min2(LastCol(s), s.lw)
      RECURSIVE Go(_, _)
      Go(t, y) == IF y <= a THEN t ELSE Go(WriteRow(t, y, c0, c1, LAMBDA x : GetCell(s, x, y - 1)), y - 1)
  IN IF c0 > c1 THEN s ELSE WriteRow(Go(s, b), a, c0, c1, LAMBDA x : Blank)
\* n-fold application, as a fold (evaluated iteratively by TLC's Java override of FoldLeft: a RECURSIVE definition builds n
\* nested unevaluated applications and a stack n x 50 frames deep - REP 2000 in insert mode took 200 s instead of 5 s)
Times(Op(_), s, n) == IF n <= 0 THEN s ELSE FoldLeft(LAMBDA acc, i : Op(acc), s, [i \in 1..n |-> i])

\* scroll_left / scroll_right on the rows of the region that exist and are longer than the first column
ScrollLeft(s) ==
  LET a == FirstEdit(s)  b == Min2(LastEdit(s), NL(s) - 1)  c0 == FirstCol(s)  c1 == LastCol(s) + 1 IN
  [s EXCEPT !.rows = [i \in 1..NL(s) |->
      LET row == s.rows[i] IN
      IF i - 1 >= a /\ i - 1 <= b /\ c0 >= 0 /\ Len(row) > c0
      THEN SeqRemove(SeqInsert(row, Min2(Max2(c1, 0), Len(row)) + 1, Blank), c0 + 1) ELSE row] \o <<>>]
ScrollRight(s) ==
  LET a == FirstEdit(s)  b == Min2(LastEdit(s), NL(s) - 1)  c0 == FirstCol(s)  c1 == LastCol(s) IN
  [s EXCEPT !.rows = [i \in 1..NL(s) |->
      LET row == s.rows[i] IN
      IF i - 1 >= a /\ i - 1 <= b /\ c0 >= 0 /\ Len(row) > c0
      THEN LET r1 == SeqInsert(row, c0 + 1, Blank) IN IF c1 + 1 >= 0 /\ c1 + 1 < Len(r1) THEN SeqRemove(r1, c1 + 2) ELSE r1
      ELSE row] \o <<>>]

\* Layer::insert_line(index, empty row): pads with full-width invisible rows (!)
LayerInsertLine(s, idx) ==
  LET r1 == IF idx > NL(s) THEN s.rows \o Repeat(Repeat(InvCell, s.lw), idx - NL(s)) ELSE s.rows
  IN [s EXCEPT !.rows = SeqInsert(r1, idx + 1, <<>>)]
\* insert_terminal_line: with a top/bottom margin the row at the (relative (!)) bottom index is dropped first
InsertTermLine(s, line) ==
  LET s1 == IF HasTB(s) /\ s.mtb[2] >= 0 /\ s.mtb[2] < NL(s) THEN [s EXCEPT !.rows = SeqRemove(s.rows, s.mtb[2] + 1)] ELSE s
  IN LayerInsertLine(s1, Max2(line, 0))
RemoveTermLine(s, line) ==
  IF line >= NL(s) \/ line < 0 THEN s
  ELSE LET s1 == [s EXCEPT !.rows = SeqRemove(s.rows, line + 1)]
       IN IF HasTB(s1) THEN LayerInsertLine(s1, Clamp(s1.mtb[2], 0, s1.lh)) ELSE s1

\* ------------------------------------------------------------------ caret motion (parsers/mod.rs impl Caret)
CheckDown(s, force) ==
  IF (HasTB(s) \/ force) /\ s.y > LastEdit(s) THEN [ScrollUp(s) EXCEPT !.y = s.y - 1] ELSE s
RECURSIVE CheckUpLoop(_)
CheckUpLoop(s) == IF s.y < FirstEdit(s) THEN CheckUpLoop([ScrollDown(s) EXCEPT !.y = s.y + 1]) ELSE s
CheckUp(s, force) ==
  IF HasTB(s) \/ force
  THEN CheckUpLoop([s EXCEPT !.y = Max2(s.y, SatSub(FirstEdit(s), SatAdd(s.lh, 1)))])
  ELSE s
RECURSIVE AppendEmpty(_, _)
AppendEmpty(rows, n) == IF n <= 0 THEN rows ELSE AppendEmpty(Append(rows, <<>>), n - 1)
\* Caret::lf: new rows are EMPTY rows (!); the buffer height grows with the caret
Lf(s) ==
  LET ooe == s.y > LastEdit(s)
      s1 == [s EXCEPT !.x = 0, !.y = s.y + 1]
      s2 == [s1 EXCEPT !.rows = AppendEmpty(s1.rows, s1.y + 1 - NL(s1))]
      s3 == [s2 EXCEPT !.bh = Max2(s2.bh, s2.y + 1)]
  IN IF ooe THEN Limit(s3) ELSE CheckDown(s3, FALSE)
\* TerminalState::from(size) as used by reset_terminal
ResetTerminal(s) == [s EXCEPT !.mtb = <<>>, !.mlr = <<>>, !.aw = TRUE, !.dm = FALSE, !.tabs = DefTabs(s.tw), !.fsel = 99, !.fslots = <<0, 0, 0, 0>>]
ResetColor(s) == [s EXCEPT !.ca = [DefAttr EXCEPT !.fp = s.ca.fp]]
CaretReset(s) == [s EXCEPT !.x = 0, !.y = 0, !.ca = DefAttr, !.im = FALSE, !.vis = TRUE, !.cblink = TRUE, !.ice = FALSE]
\* Caret::ff
Ff(s) == ResetColor([ResetTerminal(s) EXCEPT !.rows = <<>>, !.lhl = 0, !.ps = 0, !.bw = s.tw, !.bh = s.th, !.x = 0, !.y = 0, !.vis = TRUE])
Up(s, n) == Limit(CheckUp([s EXCEPT !.y = SatSub(s.y, n)], FALSE))
Down(s, n) == Limit(CheckDown([s EXCEPT !.y = SatAdd(s.y, n)], FALSE))
Left(s, n) == Limit([s EXCEPT !.x = SatSub(s.x, n)])
Right(s, n) == Limit([s EXCEPT !.x = SatAdd(s.x, n)])
Index(s) == Limit(CheckDown([s EXCEPT !.y = s.y + 1], TRUE))
ReverseIndex(s) == Limit(CheckUp([s EXCEPT !.y = s.y - 1], TRUE))
NextLine(s) == Limit(CheckDown([s EXCEPT !.y = s.y + 1, !.x = 0], TRUE))
Bs(s) == LET s1 == [s EXCEPT !.x = Max2(0, s.x - 1)] IN SetCell(s1, s1.x, s1.y, Cell(32, s1.ca))
Del(s) == IF RowExists(s, s.y) /\ s.x >= 0 /\ s.x < Len(RowAt(s, s.y)) THEN [s EXCEPT !.rows[s.y + 1] = SeqRemove(@, s.x + 1)] ELSE s
Ins(s) == IF RowExists(s, s.y) /\ s.x >= 0 /\ s.x < Len(RowAt(s, s.y)) THEN [s EXCEPT !.rows[s.y + 1] = SeqInsert(@, s.x + 1, Cell(32, s.ca))] ELSE s
Erase(s, n0) ==
  LET n == Min2(s.tw - s.x, n0) IN
  IF n <= 0 \/ ~RowExists(s, s.y) THEN s
  ELSE LET old == RowAt(s, s.y)
           new == [i \in 1..Max2(Len(old), s.x + n) |-> IF i - 1 >= s.x /\ i - 1 < s.x + n THEN Cell(32, s.ca) ELSE IF i <= Len(old) THEN old[i] ELSE InvCell] \o <<>>
       IN [s EXCEPT !.rows[s.y + 1] = new]

\* Buffer::print_char  (a chain of operators instead of LET definitions: TLC re-evaluates a LET body at every use, operator
\* arguments are evaluated once - REP in insert mode took 0.1 s per character with the LET version)
PrintCh4(s4) == IF s4.x >= s4.tw THEN (IF s4.aw THEN Lf(s4) ELSE [s4 EXCEPT !.x = s4.x - 1]) ELSE s4
PrintCh3(s3) == PrintCh4([s3 EXCEPT !.x = s3.x + 1])
PrintCh2(s2, cell) == PrintCh3(SetCell(s2, s2.x, s2.y, cell))
PrintCh1(s1, cell) == PrintCh2([s1 EXCEPT !.lh = Max2(s1.lh, s1.y + 1), !.bh = Max2(s1.bh, s1.y + 1)], cell)
PrintChIns(s, r1) == [s EXCEPT !.rows = [r1 EXCEPT ![s.y + 1] = LineInsert(@, s.x, Blank)]]
PrintCh(s, cell) == PrintCh1(IF s.im THEN PrintChIns(s, AppendEmpty(s.rows, s.y + 1 - NL(s))) ELSE s, cell)

\* ------------------------------------------------------------------ erase functions
RECURSIVE FillRows(_, _, _, _, _, _)
FillRows(s, y, yEnd, lo, hi, cell) == IF y > yEnd THEN s ELSE FillRows(WriteRow(s, y, lo, hi, LAMBDA x : cell), y + 1, yEnd, lo, hi, cell)
ClearDown(s) == FillRows(s, s.y, LastVisible(s) - 1, 0, s.bw - 1, Cell(32, s.ca))
ClearUp(s) == FillRows(s, First(s), s.y - 1, 0, s.bw - 1, Cell(32, s.ca))
ClearLine(s) == WriteRow(s, s.y, 0, s.bw - 1, LAMBDA x : Cell(32, s.ca))
ClearLineEnd(s) == WriteRow(s, s.y, s.x, s.bw - 1, LAMBDA x : Cell(32, s.ca))
ClearLineStart(s) == WriteRow(s, s.y, 0, s.x - 1, LAMBDA x : Cell(32, s.ca))
ClearScreen(s) == [s EXCEPT !.x = 0, !.y = 0, !.rows = <<>>, !.lhl = 0, !.ps = 0, !.bw = s.tw, !.bh = s.th]

\* ------------------------------------------------------------------ tab stops (terminal_state.rs)
RECURSIVE NextTabFrom(_, _, _)
NextTabFrom(tabs, x, i) == IF i > Len(tabs) THEN -1 ELSE IF tabs[i] > x THEN tabs[i] ELSE NextTabFrom(tabs, x, i + 1)
NextTab(s, x) == LET t == NextTabFrom(s.tabs, x, 1) IN IF t < 0 THEN s.tw ELSE t
RECURSIVE PrevTabFrom(_, _, _)
PrevTabFrom(tabs, x, i) == IF i < 1 THEN 0 ELSE IF tabs[i] < x THEN tabs[i] ELSE PrevTabFrom(tabs, x, i - 1)
PrevTab(s, x) == PrevTabFrom(s.tabs, x, Len(s.tabs))
RemoveTab(tabs, x) == SelectSeq(tabs, LAMBDA t : t # x)
RECURSIVE InsertSorted(_, _)
InsertSorted(tabs, x) == IF tabs = <<>> THEN <<x>> ELSE IF x < Head(tabs) THEN <<x>> \o tabs ELSE <<Head(tabs)>> \o InsertSorted(Tail(tabs), x)
SetTab(tabs, x) == IF \E i \in 1..Len(tabs) : tabs[i] = x THEN tabs ELSE InsertSorted(tabs, x)

\* ------------------------------------------------------------------ results
Ok(s) == [st |-> s, res |-> "ok"]
Err(s) == [st |-> s, res |-> "err"]
AnyRes(s) == [st |-> s, res |-> "any"]
Dflt(s) == [s EXCEPT !.ls = "Default"]
N1(s, d) == IF s.nums = <<>> THEN d ELSE s.nums[1]           \* first parameter or default
NLen(s) == Len(s.nums)

\* ------------------------------------------------------------------ SGR (ansi_commands.rs select_graphic_rendition)
ColOff == <<0, 4, 2, 6, 1, 5, 3, 7>>
PalInsert(s, c) == LET r == Insert(s.pal, c) IN [st |-> [s EXCEPT !.pal = r.colors], idx |-> r.ret]
\* parse_extended_colors at 0-based index i: returns [ok, st, color, i]
ExtColor(s, i) ==
  LET n == s.nums  len == Len(n)  Bad == [ok |-> FALSE, st |-> s, color |-> 0, i |-> i] IN
  IF i + 1 >= len THEN Bad
  ELSE IF n[i + 2] = 5 THEN
         (IF i + 3 > len THEN Bad
          ELSE LET col == n[i + 3] IN
               IF col >= 0 /\ col <= 255 THEN LET r == PalInsert(s, Xterm256[col + 1]) IN [ok |-> TRUE, st |-> r.st, color |-> r.idx, i |-> i + 3] ELSE Bad)
  ELSE IF n[i + 2] = 2 THEN
         (IF i + 5 > len THEN Bad
          ELSE LET r == n[i + 3]  g == n[i + 4]  b == n[i + 5] IN
               IF r >= 0 /\ r <= 255 /\ g >= 0 /\ g <= 255 /\ b >= 0 /\ b <= 255
               THEN LET q == PalInsert(s, <<r, g, b>>) IN [ok |-> TRUE, st |-> q.st, color |-> q.idx, i |-> i + 5] ELSE Bad)
  ELSE Bad
RECURSIVE SgrLoop(_, _)
SgrLoop(s, i) ==     \* i is 0-based
  IF i >= Len(s.nums) THEN Ok(s)
  ELSE LET n == s.nums[i + 1]
           A(f) == SgrLoop([s EXCEPT !.ca.at = f], i + 1) IN
    CASE n = 0 -> SgrLoop(ResetColor(s), i + 1)
      [] n = 1 -> A(SetBit(s.ca.at, BOLD))
      [] n = 2 -> A(SetBit(s.ca.at, FAINT))
      [] n = 3 -> A(SetBit(s.ca.at, ITALIC))
      [] n = 4 -> A(SetBit(s.ca.at, UNDERLINE))
      [] n = 5 \/ n = 6 -> A(SetBit(s.ca.at, BLINK))
      [] n = 7 -> SgrLoop([s EXCEPT !.ca.fg = s.ca.bg, !.ca.bg = s.ca.fg], i + 1)
      [] n = 8 -> A(SetBit(s.ca.at, CONCEAL))
      [] n = 9 -> A(SetBit(s.ca.at, CROSSED))
      [] n = 10 -> SgrLoop([s EXCEPT !.ca.fp = 0], i + 1)
      [] n >= 11 /\ n <= 20 -> SgrLoop(s, i + 1)
      [] n = 21 -> A(SetBit(s.ca.at, DUNDER))
      [] n = 22 -> A(ClrBit(ClrBit(s.ca.at, BOLD), FAINT))
      [] n = 23 -> A(ClrBit(s.ca.at, ITALIC))
      [] n = 24 -> A(ClrBit(s.ca.at, UNDERLINE))
      [] n = 25 -> A(ClrBit(s.ca.at, BLINK))
      [] n = 28 -> A(ClrBit(s.ca.at, CONCEAL))
      [] n = 29 -> A(ClrBit(s.ca.at, CROSSED))
      [] n >= 30 /\ n <= 37 -> SgrLoop([s EXCEPT !.ca.fg = ColOff[n - 29]], i + 1)
      [] n = 38 -> LET r == ExtColor(s, i) IN IF r.ok THEN SgrLoop([r.st EXCEPT !.ca.fg = r.color], r.i) ELSE Err(s)
      [] n = 39 -> SgrLoop([s EXCEPT !.ca.fg = 7], i + 1)
      [] n >= 40 /\ n <= 47 -> SgrLoop([s EXCEPT !.ca.bg = ColOff[n - 39]], i + 1)
      [] n = 48 -> LET r == ExtColor(s, i) IN IF r.ok THEN SgrLoop([r.st EXCEPT !.ca.bg = r.color], r.i) ELSE Err(s)
      [] n = 49 -> SgrLoop([s EXCEPT !.ca.bg = 0], i + 1)
      [] n = 53 -> A(SetBit(s.ca.at, OVERLINE))
      [] n = 55 -> A(ClrBit(s.ca.at, OVERLINE))
      [] n >= 90 /\ n <= 97 -> SgrLoop([s EXCEPT !.ca.fg = 8 + ColOff[n - 89]], i + 1)
      [] n >= 100 /\ n <= 107 -> SgrLoop([s EXCEPT !.ca.bg = 8 + ColOff[n - 99]], i + 1)
      [] OTHER -> Err(s)                                      \* 26, 27 (!), 50-52, 54, 56-89, ...
Sgr(s0) == LET s == Dflt(s0) IN IF s.nums = <<>> THEN Ok(ResetColor(s)) ELSE SgrLoop(s, 0)

\* ------------------------------------------------------------------ rectangles (DECFRA / DECERA / DECSERA)
RectArea(s, o) ==     \* get_rect_area(offset o): parameters o+1..o+4 (1-based into nums: o+1 ..)
  LET rowsMax == Max2(NL(s), s.th)
      top == Min2(Max2(s.nums[o + 1], 1), rowsMax) - 1
      left == Min2(Max2(s.nums[o + 2], 1), s.tw) - 1
      bottom == Min2(Max2(s.nums[o + 3], 1), rowsMax) - 1
      right == Min2(Max2(s.nums[o + 4], 1), s.tw) - 1
  IN <<top, left, bottom, right>>
\* Buffer::get_char on the single terminal layer: an invisible or absent cell reads as a default blank
BufGet(s, x, y) == LET c == GetCell(s, x, y) IN IF Visible(c) THEN c ELSE Blank

\* ------------------------------------------------------------------ macros
\* a macro store is a sequence of <<id, body>> pairs (latest definition wins)
RECURSIVE MacroFind(_, _, _)
MacroFind(ms, id, i) == IF i < 1 THEN <<FALSE, <<>>>> ELSE IF ms[i][1] = id THEN <<TRUE, ms[i][2]>> ELSE MacroFind(ms, id, i - 1)
MacroGet(s, id) == MacroFind(s.macros, id, Len(s.macros))
MacroPut(s, id, body) == [s EXCEPT !.macros = Append(SelectSeq(s.macros, LAMBDA m : m[1] # id), <<id, body>>)]
MaxMacroExpansion == 32767
MaxMacroDepth == 16
MaxMacroSize == 32767
ByteLen(str) == FoldLeft(LAMBDA acc, c : acc + (IF c < 128 THEN 1 ELSE 2), 0, str)     \* UTF-8 length of a Latin-1 string
HexPos(c) == IF c >= 48 /\ c <= 57 THEN c - 48 ELSE IF c >= 65 /\ c <= 70 THEN c - 55 ELSE -1
Upper(c) == IF c >= 97 /\ c <= 122 THEN c - 32 ELSE c
\* push_repeated
PushRepeated(mac, rep, count) ==       \* closed form of the loop: as many copies as fit into the macro space
  IF count <= 0 \/ rep = <<>> THEN mac
  ELSE LET room == MaxMacroSize - ByteLen(mac)
           k == IF room < 0 THEN 0 ELSE Min2(count, room \div ByteLen(rep))
       IN mac \o FlattenSeq([i \in 1..k |-> rep])
\* parse_hex_macro_sequence over the characters str[i..]; state: mode in {"first","second","rep"}
RECURSIVE HexMacro(_, _, _, _, _, _, _, _)
HexMacro(str, i, mode, arg, readRep, repRec, repNum, mac) ==
  IF i > Len(str) THEN [ok |-> TRUE, body |-> IF readRep THEN PushRepeated(mac, repRec, repNum) ELSE mac]
  ELSE LET c == str[i] IN
    IF mode = "first" THEN
      (IF c = 59 /\ readRep THEN HexMacro(str, i + 1, "first", 0, FALSE, repRec, repNum, PushRepeated(mac, repRec, repNum))
       ELSE IF c = 33 THEN HexMacro(str, i + 1, "rep", 0, readRep, repRec, repNum, mac)
       ELSE HexMacro(str, i + 1, "second", c, readRep, repRec, repNum, mac))
    ELSE IF mode = "second" THEN
      (LET hi == HexPos(arg)  lo == HexPos(Upper(c)) IN      \* (!) only the second digit is upper-cased
       IF hi >= 0 /\ lo >= 0
       THEN (IF readRep THEN HexMacro(str, i + 1, "first", 0, readRep, Append(repRec, hi * 16 + lo), repNum, mac)
             ELSE HexMacro(str, i + 1, "first", 0, readRep, repRec, repNum, Append(mac, hi * 16 + lo)))
       ELSE [ok |-> FALSE, body |-> <<>>])
    ELSE \* "rep"
      (IF IsDigit(c) THEN HexMacro(str, i + 1, "rep", ParseNext(arg, c), readRep, repRec, repNum, mac)
       ELSE IF c = 59 THEN HexMacro(str, i + 1, "first", 0, TRUE, <<>>, arg, mac)
       ELSE [ok |-> FALSE, body |-> <<>>])

\* number prefix of a string (digits and ';'), appended to nums: returns <<nums, count>>
RECURSIVE NumPrefix(_, _, _)
NumPrefix(str, i, nums) ==
  IF i > Len(str) THEN <<nums, i - 1>>
  ELSE IF IsDigit(str[i]) THEN NumPrefix(str, i + 1, PushDigit(nums, str[i]))
  ELSE IF str[i] = 59 THEN NumPrefix(str, i + 1, Append(nums, 0))
  ELSE <<nums, i - 1>>
StartsWith(str, i, pre) == Len(str) >= i - 1 + Len(pre) /\ SubSeq(str, i, i - 1 + Len(pre)) = pre
CTermFont == <<67, 84, 101, 114, 109, 58, 70, 111, 110, 116, 58>>      \* "CTerm:Font:"

\* ------------------------------------------------------------------ OSC 4 palette regex  (\d+)?;rgb:HH/HH/HH
IsHex(c) == IsDigit(c) \/ (c >= 65 /\ c <= 70) \/ (c >= 97 /\ c <= 102)
HexVal(c) == IF IsDigit(c) THEN c - 48 ELSE IF c >= 97 THEN c - 87 ELSE c - 55
RECURSIVE DigitsEnd(_, _)
DigitsEnd(str, i) == IF i <= Len(str) /\ IsDigit(str[i]) THEN DigitsEnd(str, i + 1) ELSE i     \* first index after the digit run
\* does ";rgb:HH/HH/HH" start at position p?
RgbAt(str, p) ==
  /\ p + 12 <= Len(str)
  /\ str[p] = 59 /\ (str[p + 1] = 114 \/ str[p + 1] = 82) /\ (str[p + 2] = 103 \/ str[p + 2] = 71) /\ (str[p + 3] = 98 \/ str[p + 3] = 66) /\ str[p + 4] = 58
  /\ IsHex(str[p + 5]) /\ IsHex(str[p + 6]) /\ str[p + 7] = 47 /\ IsHex(str[p + 8]) /\ IsHex(str[p + 9]) /\ str[p + 10] = 47
  /\ IsHex(str[p + 11]) /\ IsHex(str[p + 12])
RECURSIVE DecVal(_, _, _, _)
DecVal(str, i, j, acc) == IF i >= j THEN acc ELSE IF acc > 999999999 THEN MaxI ELSE DecVal(str, i + 1, j, acc * 10 + (str[i] - 48))   \* MaxI = does not fit in u32 (approximation: > 9 digits)
\* scan from p: returns [st, res]
RECURSIVE OscPalette(_, _, _)
OscPalette(s, str, p) ==
  IF p > Len(str) THEN Ok(s)
  ELSE LET d == DigitsEnd(str, p) IN
       IF RgbAt(str, d)
       THEN LET rgb == <<HexVal(str[d + 5]) * 16 + HexVal(str[d + 6]), HexVal(str[d + 8]) * 16 + HexVal(str[d + 9]), HexVal(str[d + 11]) * 16 + HexVal(str[d + 12])>>
                idx == DecVal(str, p, d, 0) IN
            IF d = p THEN OscPalette(s, str, d + 13)                                  \* no index: skipped
            ELSE IF idx = MaxI THEN Err(s)                                            \* index does not parse as u32
            ELSE IF idx > 255 THEN OscPalette(s, str, d + 13)
            ELSE OscPalette([s EXCEPT !.pal = SetColor(s.pal, idx, rgb).colors], str, d + 13)
       ELSE OscPalette(s, str, p + 1)

\* ------------------------------------------------------------------ ANSI music (sound.rs)
MusicEnter(s) == [s EXCEPT !.ls = "Music", !.mus = [k |-> "style", a |-> 0, b |-> 0], !.dotted = FALSE]
MusicDefault(s, c) ==
  LET M(k, a) == [s EXCEPT !.mus = [k |-> k, a |-> a, b |-> 0]] IN
  CASE c = 14 -> [s EXCEPT !.ls = "Default", !.octave = 3]
    [] c = 84 -> M("tempo", 0)
    [] c = 76 -> M("length", 0)
    [] c = 79 -> M("octave", 0)
    [] c = 67 -> M("note", 0)  [] c = 68 -> M("note", 2)  [] c = 69 -> M("note", 4)  [] c = 70 -> M("note", 5)
    [] c = 71 -> M("note", 7)  [] c = 65 -> M("note", 9)  [] c = 66 -> M("note", 11)
    [] c = 77 -> M("style", 0)
    [] c = 60 -> [s EXCEPT !.octave = IF @ > 0 THEN @ - 1 ELSE @]
    [] c = 62 -> [s EXCEPT !.octave = IF @ < 6 THEN @ + 1 ELSE @]
    [] c = 80 -> M("pause", 0)
    [] OTHER -> s
RECURSIVE MusicStep(_, _)
MusicStep(s, c) ==
  LET m == s.mus  SetM(k, a, b) == [s EXCEPT !.mus = [k |-> k, a |-> a, b |-> b]] IN
  CASE m.k = "style" ->
         IF c \in {70, 66, 78, 76, 83} THEN Ok(SetM("default", 0, 0)) ELSE MusicStep(SetM("default", 0, 0), c)
    [] m.k = "tempo" ->
         IF IsDigit(c) THEN Ok(SetM("tempo", ParseNext(m.a, c) % 65536, 0))
         ELSE Ok(MusicDefault([SetM("default", 0, 0) EXCEPT !.tempo = Clamp(m.a, 32, 255)], c))
    [] m.k = "octave" ->
         IF c >= 48 /\ c <= 54 THEN Ok([SetM("default", 0, 0) EXCEPT !.octave = c - 48]) ELSE Err(s)
    [] m.k = "note" ->
         IF c = 43 \/ c = 35 THEN Ok(IF m.a + 1 < 84 THEN SetM("note", m.a + 1, m.b) ELSE SetM("default", 0, 0))
         ELSE IF c = 45 THEN Ok(IF m.a > 0 THEN SetM("note", m.a - 1, m.b) ELSE SetM("default", 0, 0))
         ELSE IF IsDigit(c) THEN Ok(SetM("note", m.a, ParseNext(m.b, c)))
         ELSE IF c = 46 THEN Ok([SetM("note", m.a, SatMul(m.b, 3) \div 2) EXCEPT !.dotted = TRUE])
         ELSE Ok(MusicDefault([SetM("default", 0, 0) EXCEPT !.dotted = FALSE], c))
    [] m.k = "length" ->
         IF IsDigit(c) THEN Ok(SetM("length", ParseNext(m.a, c), 0))
         ELSE IF c = 46 THEN Ok(SetM("length", SatMul(m.a, 3) \div 2, 0))
         ELSE Ok(MusicDefault([s EXCEPT !.mlength = Clamp(m.a, 1, 64)], c))          \* (!) the state stays SetLength unless c starts something
    [] m.k = "pause" ->
         IF IsDigit(c) THEN Ok(SetM("pause", ParseNext(m.a, c), 0))
         ELSE IF c = 46 THEN Ok(SetM("pause", SatMul(m.a, 3) \div 2, 0))
         ELSE Ok(MusicDefault(s, c))
    [] OTHER -> Ok(MusicDefault(s, c))

\* ------------------------------------------------------------------ the character step
RECURSIVE AnsiStep(_, _), InvokeMacro(_, _)

\* invoke_macro_by_id: nesting <= 16, one top-level invocation expands to <= 32767 characters; errors are swallowed
InvokeMacro(s, id) ==
  LET m == MacroGet(s, id) IN
  IF ~m[1] THEN s
  ELSE LET s1 == IF s.mdepth = 0 THEN [s EXCEPT !.mbudget = MaxMacroExpansion] ELSE s IN
       IF s1.mdepth >= MaxMacroDepth THEN s1
       ELSE [FoldLeft(LAMBDA t, ch : IF t.mbudget = 0 THEN t ELSE AnsiStep([t EXCEPT !.mbudget = @ - 1], ch).st, [s1 EXCEPT !.mdepth = @ + 1], m[2])
               EXCEPT !.mdepth = @ - 1]
\* ESC <c>
EscStep(s0, c) ==
  LET s == Dflt(s0) IN
  CASE c = 91 -> Ok([s EXCEPT !.ls = "Csi", !.start = TRUE, !.nums = <<>>])
    [] c = 93 -> Ok([s EXCEPT !.ls = "Osc", !.nums = <<>>, !.pstr = <<>>])
    [] c = 55 -> Ok([s EXCEPT !.sc = <<[x |-> s.x, y |-> s.y, ca |-> s.ca, im |-> s.im, vis |-> s.vis, cblink |-> s.cblink, ice |-> s.ice]>>])
    [] c = 56 -> Ok(IF s.sc = <<>> THEN s
                    ELSE LET q == s.sc[1] IN Limit([s EXCEPT !.x = q.x, !.y = q.y, !.ca = q.ca, !.im = q.im, !.vis = q.vis, !.cblink = q.cblink, !.ice = q.ice]))
    [] c = 99 -> Ok([ResetTerminal(CaretReset(Ff(s))) EXCEPT !.macros = <<>>])
    [] c = 68 -> Ok(Index(s))
    [] c = 77 -> Ok(ReverseIndex(s))
    [] c = 69 -> Ok(NextLine(s))
    [] c = 80 -> Ok([s EXCEPT !.ls = "Dcs", !.pstr = <<>>, !.nums = <<>>])
    [] c = 72 -> Ok([s EXCEPT !.tabs = SetTab(s.tabs, s.x)])
    [] c = 95 -> Ok([s EXCEPT !.ls = "Aps", !.pstr = <<>>])
    [] c >= 48 /\ c <= 126 -> Ok(s)
    [] c \in {12, 7, 8, 9, 127, 27, 10, 13} -> Ok(PrintCh([s EXCEPT !.last = c], Cell(c, Norm(s))))
    [] OTHER -> Err(s)

\* execute_dcs at ESC \
ExecDcs(s0) ==
  LET s == Dflt(s0) IN
  IF StartsWith(s.pstr, 1, CTermFont) THEN AnyRes(s)                    \* custom font: base64 + font loader not modelled
  ELSE LET np == NumPrefix(s.pstr, 1, <<>>)
           nums == np[1]  i == np[2]
           s1 == [s EXCEPT !.nums = nums] IN
       IF StartsWith(s.pstr, i + 1, <<33, 122>>) THEN             \* "!z" macro definition
         (IF nums = <<>> THEN Err(s1)
          ELSE LET s2 == IF Len(nums) >= 2 /\ nums[2] = 1 THEN [s1 EXCEPT !.macros = <<>>] ELSE s1
                   body == SubSeq(s.pstr, i + 3, Len(s.pstr)) IN
               IF Len(nums) >= 3 /\ nums[3] = 0 THEN Ok(MacroPut(s2, nums[1], body))
               ELSE IF Len(nums) >= 3 /\ nums[3] = 1
                    THEN LET h == HexMacro(body, 1, "first", 0, FALSE, <<>>, 0, <<>>) IN IF h.ok THEN Ok(MacroPut(s2, nums[1], h.body)) ELSE Err(s2)
               ELSE Err(s2))
       ELSE IF StartsWith(s.pstr, i + 1, <<113>>) THEN Ok([s1 EXCEPT !.ps = @ + 1, !.pstr = <<>>])     \* sixel: decode thread queued
       ELSE Err(s1)

\* parse_osc at ESC \
ExecOsc(s0) ==
  LET s == Dflt(s0)
      np == NumPrefix(s.pstr, 1, s.nums)
      s1 == [s EXCEPT !.nums = np[1]]
      i == np[2] IN
  IF s1.nums # <<>> /\ s1.nums[1] = 4 THEN OscPalette(s1, s.pstr, 1)
  ELSE IF i = 3 /\ s1.nums[1] = 8 THEN
    (IF Len(s.pstr) = 3
     THEN LET s2 == [s1 EXCEPT !.ca.at = ClrBit(@, UNDERLINE)] IN
          Ok(IF s2.phl = 0 THEN s2 ELSE [s2 EXCEPT !.phl = @ - 1, !.lhl = @ + 1])
     ELSE Ok([s1 EXCEPT !.ca.at = SetBit(@, UNDERLINE), !.phl = @ + 1]))
  ELSE Err(s1)

\* CSI ? ...
CsiQStep(s, c) ==
  LET one == NLen(s) = 1  n == N1(s, -1)  d == Dflt(s) IN
  CASE c = 108 ->   \* 'l'
         IF ~one THEN Err(d)
         ELSE CASE n = 4 \/ n = 6 -> Ok(d)
                [] n = 7 -> Ok([d EXCEPT !.aw = FALSE])
                [] n = 25 -> Ok([d EXCEPT !.vis = FALSE])
                [] n = 33 -> Ok([d EXCEPT !.ice = FALSE])
                [] n = 35 -> Ok([d EXCEPT !.cblink = TRUE])
                [] n = 69 -> Ok([d EXCEPT !.dm = FALSE, !.mlr = <<>>])
                [] n = 9 \/ (n >= 1000 /\ n <= 1007) \/ n = 1015 \/ n = 1016 -> Ok(d)
                [] OTHER -> Err(d)
    [] c = 104 ->   \* 'h'
         IF ~one THEN Err(d)
         ELSE CASE n = 4 \/ n = 6 -> Ok(d)
                [] n = 7 -> Ok([d EXCEPT !.aw = TRUE])
                [] n = 25 -> Ok([d EXCEPT !.vis = TRUE])
                [] n = 33 -> Ok([d EXCEPT !.ice = TRUE, !.bice = TRUE])
                [] n = 35 -> Ok([d EXCEPT !.cblink = FALSE])
                [] n = 69 -> Ok([d EXCEPT !.dm = TRUE])
                [] n = 9 \/ (n >= 1000 /\ n <= 1007) \/ n = 1015 \/ n = 1016 -> Ok(d)
                [] OTHER -> Err(d)
    [] IsDigit(c) -> Ok([s EXCEPT !.nums = PushDigit(s.nums, c)])
    [] c = 59 -> Ok([s EXCEPT !.nums = Append(s.nums, 0)])
    [] c = 110 ->   \* 'n'
         IF n = 62 THEN Ok(d) ELSE IF n = 63 THEN (IF NLen(s) = 2 THEN Ok(d) ELSE Err(d)) ELSE Err(d)
    [] OTHER -> Err(d)

\* CSI = ...
CsiEqStep(s, c) ==
  LET d == Dflt(s) IN
  CASE c = 110 -> IF NLen(s) = 1 /\ s.nums[1] \in {1, 2, 3} THEN Ok(d) ELSE Err(d)
    [] IsDigit(c) -> Ok([s EXCEPT !.nums = PushDigit(s.nums, c)])
    [] c = 59 -> Ok([s EXCEPT !.nums = Append(s.nums, 0)])
    [] c = 114 -> Ok([d EXCEPT !.mtb = <<>>, !.mlr = <<>>])
    [] c = 109 ->
         IF NLen(s) # 2 THEN Err(s)                                   \* (!) stays in the CSI = state
         ELSE LET n == s.nums[2] - 1  k == s.nums[1] IN
              CASE k = 0 -> Ok(SetTB(d, IF HasTB(d) THEN d.mtb[1] ELSE 0, n))          \* (!) Ps = 0 sets the BOTTOM margin
                [] k = 1 -> Ok(SetTB(d, n, IF HasTB(d) THEN d.mtb[2] ELSE d.th - 1))
                [] k = 2 -> Ok(SetLR(d, IF d.mlr # <<>> THEN d.mlr[1] ELSE 0, n))
                [] k = 3 -> Ok(SetLR(d, n, IF d.mlr # <<>> THEN d.mlr[2] ELSE d.tw - 1))
                [] OTHER -> Err(d)
    [] OTHER -> Err(d)

CsiLtStep(s, c) ==
  CASE IsDigit(c) -> Ok([s EXCEPT !.nums = PushDigit(s.nums, c)])
    [] c = 59 -> Ok([s EXCEPT !.nums = Append(s.nums, 0)])
    [] c = 99 -> IF NLen(s) > 1 THEN Err(Dflt(s)) ELSE Ok(Dflt(s))
    [] OTHER -> Err(Dflt(s))

\* font selection CSI Ps1;Ps2 SP D
FontSelect(s) ==
  IF NLen(s) # 2 THEN Err(s)
  ELSE LET nr == s.nums[2]
           Succ(t) == LET bl == HasBit(t.ca.at, BLINK)  bo == HasBit(t.ca.at, BOLD)
                          k == IF bl /\ bo THEN 4 ELSE IF bl THEN 3 ELSE IF bo THEN 2 ELSE 1 IN
                      [t EXCEPT !.fsel = 0, !.ca.fp = nr, !.fslots[k] = nr] IN
       IF nr \in s.fonts THEN Ok(Succ(s))
       ELSE IF nr >= 0 /\ nr <= 42 THEN Ok([Succ(s) EXCEPT !.fonts = @ \cup {nr}])
       ELSE Err([s EXCEPT !.fsel = 1])

EndCsiStep(s, c) ==
  LET f == s.endc  d == Dflt(s) IN
  CASE f = 42 ->      \* '*'
         CASE c = 122 -> Ok(IF s.nums = <<>> THEN d ELSE InvokeMacro(d, s.nums[1]))
           [] c = 114 -> Ok(d)
           [] c = 121 -> IF NLen(s) # 6 THEN Err(d)
                         ELSE LET pt == s.nums[3]  pl == s.nums[4]  pb == s.nums[5]  pr == s.nums[6] IN
                              IF pt > pb \/ pl > pr \/ pr > s.tw \/ pb > s.th \/ pl < 0 \/ pt < 0 THEN Err(d) ELSE Ok(d)
           [] OTHER -> Ok(s)                                         \* (!) swallowed, stays in the state
    [] f = 36 ->      \* '$'
         CASE c = 119 -> Ok(d)
           [] c = 120 ->       \* DECFRA
                IF NLen(s) # 5 THEN Err(d)
                ELSE IF ~Scalar(s.nums[1]) THEN Err(d)
                ELSE LET r == RectArea(d, 1) IN Ok(FillRows(d, r[1], r[3], r[2], r[4], Cell(s.nums[1], s.ca)))
           [] c = 122 ->       \* DECERA
                IF NLen(s) # 4 THEN Err(d) ELSE LET r == RectArea(d, 0) IN Ok(FillRows(d, r[1], r[3], r[2], r[4], Blank))
           [] c = 123 ->       \* DECSERA: blank character, attribute kept
                IF NLen(s) # 4 THEN Err(d)
                ELSE LET r == RectArea(d, 0)
                         RECURSIVE Go(_, _)
                         Go(t, y) == IF y > r[3] THEN t ELSE Go(WriteRow(t, y, r[2], r[4], LAMBDA x : LET q == BufGet(d, x, y) IN <<32, q[2], q[3], q[4], q[5]>>), y + 1)
                     IN Ok(Go(d, r[1]))
           [] OTHER -> Ok(s)
    [] f = 32 ->      \* ' '
         CASE c = 68 -> FontSelect(d)
           [] c = 65 -> Ok(Times(ScrollRight, d, Min2(N1(s, 1), d.bw)))
           [] c = 64 -> Ok(Times(ScrollLeft, d, Min2(N1(s, 1), d.bw)))
           [] c = 100 -> IF NLen(s) # 1 THEN Err(d) ELSE Ok([d EXCEPT !.tabs = RemoveTab(d.tabs, s.nums[1] - 1)])
           [] OTHER -> Err(d)
    [] OTHER -> Err(d)

\* CSI sequence body
CsiStep(s, c) ==
  LET d == Dflt(s)  n == s.nums  len == Len(s.nums) IN
  CASE c = 109 -> Sgr(s)
    [] c = 72 \/ c = 102 ->      \* CUP / HVP
         Ok(Limit(IF n = <<>> THEN [d EXCEPT !.x = 0, !.y = First(d)]
                  ELSE [d EXCEPT !.y = SatAdd(First(d), Max2(0, n[1] - 1)), !.x = IF len > 1 THEN Max2(0, n[2] - 1) ELSE 0]))
    [] c = 67 -> Ok(Right(d, N1(s, 1)))
    [] c = 106 \/ c = 68 -> Ok(Left(d, N1(s, 1)))
    [] c = 107 \/ c = 65 -> Ok(Up(d, N1(s, 1)))
    [] c = 66 -> Ok(Down(d, N1(s, 1)))
    [] c = 115 ->      \* 's'
         IF s.dm
         THEN (IF len > 2 THEN Err(d)
               ELSE Ok(IF len = 2 THEN SetLR(d, n[1] - 1, n[2] - 1) ELSE IF len = 1 THEN SetLR(d, 0, n[1] - 1) ELSE SetLR(d, 0, d.th)))   \* (!) height
         ELSE Ok([d EXCEPT !.sx = s.x, !.sy = s.y])
    [] c = 117 -> Ok(Limit([d EXCEPT !.x = s.sx, !.y = s.sy]))
    [] c = 100 -> Ok(Limit([d EXCEPT !.y = SatAdd(First(d), N1(s, 1) - 1)]))
    [] c = 101 -> Ok(Limit([d EXCEPT !.y = SatAdd(First(d) + d.y, N1(s, 1))]))
    [] c = 39 ->       \* '\''
         Ok(IF RowExists(d, d.y) THEN Limit([d EXCEPT !.x = Clamp(N1(s, 1) - 1, 0, LineLen(RowAt(d, d.y), Len(RowAt(d, d.y))))]) ELSE d)
    [] c = 97 ->       \* HPR
         Ok(IF RowExists(d, d.y) THEN Limit([d EXCEPT !.x = Min2(LineLen(RowAt(d, d.y), Len(RowAt(d, d.y))), SatAdd(d.x, N1(s, 1)))]) ELSE d)
    [] c = 71 -> Ok(Limit([d EXCEPT !.x = N1(s, 1) - 1]))
    [] c = 69 -> Ok(Limit([d EXCEPT !.y = SatAdd(First(d) + d.y, N1(s, 1)), !.x = 0]))
    [] c = 70 -> Ok(Limit([d EXCEPT !.y = SatSub(First(d) + d.y, N1(s, 1)), !.x = 0]))
    [] c = 110 -> IF len = 1 /\ n[1] \in {5, 6, 255} THEN Ok(d) ELSE Err(d)
    [] c = 88 -> IF n # <<>> THEN Ok(Erase(d, n[1])) ELSE Err(Erase(d, 1))                   \* (!) erases one cell, then reports an error
    [] c = 64 -> IF n # <<>> THEN Ok(Times(Ins, d, Min2(n[1], d.tw))) ELSE Err(Ins(d))        \* (!) same
    [] c = 77 ->       \* 'M': delete line, or music
         IF s.music = 1 \/ s.music = 3 THEN Ok(MusicEnter(d))
         ELSE IF n = <<>> THEN Ok(IF d.y < NL(d) THEN RemoveTermLine(d, d.y) ELSE d)
         ELSE IF len # 1 THEN Err(d)
         ELSE Ok(Times(LAMBDA q : RemoveTermLine(q, q.y), d, Min2(n[1], NL(d) - d.y)))
    [] c = 78 -> Ok(IF s.music = 2 \/ s.music = 3 THEN MusicEnter(s) ELSE s)                 \* (!) does not leave the CSI state
    [] c = 124 -> Ok(IF s.music # 0 THEN MusicEnter(s) ELSE s)                              \* (!) same
    [] c = 80 ->       \* DCH
         IF n = <<>> THEN Ok(Del(d)) ELSE IF len # 1 THEN Err(d) ELSE Ok(Times(Del, d, Min2(n[1], Len(RowAt(d, d.y)))))
    [] c = 76 ->       \* IL
         IF n = <<>> THEN Ok(InsertTermLine(d, d.y)) ELSE IF len # 1 THEN Err(d) ELSE Ok(Times(LAMBDA q : InsertTermLine(q, q.y), d, Min2(n[1], d.th)))
    [] c = 74 ->       \* ED
         IF n = <<>> \/ n[1] = 0 THEN Ok(ClearDown(d))
         ELSE IF n[1] = 1 THEN Ok(ClearUp(d))
         ELSE IF n[1] = 2 \/ n[1] = 3 THEN Ok(ClearScreen(d))
         ELSE Err(ClearDown(d))                                                              \* (!) clears, then reports an error
    [] c = 63 -> IF s.start THEN Ok([s EXCEPT !.ls = "CsiQ"]) ELSE Err(s)                    \* (!) error without leaving the CSI state
    [] c = 61 -> IF s.start THEN Ok([s EXCEPT !.ls = "CsiEq"]) ELSE Err(s)
    [] c = 33 -> IF s.start THEN Ok([s EXCEPT !.ls = "CsiBang"]) ELSE Err(s)
    [] c = 60 -> IF s.start THEN Ok([s EXCEPT !.ls = "CsiLt"]) ELSE Err(s)
    [] c = 42 \/ c = 36 \/ c = 32 -> Ok([s EXCEPT !.ls = "EndCsi", !.endc = c])
    [] c = 75 ->       \* EL
         IF n = <<>> \/ n[1] = 0 THEN Ok(ClearLineEnd(d)) ELSE IF n[1] = 1 THEN Ok(ClearLineStart(d)) ELSE IF n[1] = 2 THEN Ok(ClearLine(d)) ELSE Err(d)
    [] c = 99 -> Ok(d)
    [] c = 114 ->      \* DECSTBM / CSR
         IF len > 4 THEN Err(d)
         ELSE IF len > 2
         THEN LET t == [d EXCEPT !.x = 0, !.y = First(d)] IN
              Ok(SetLR(SetTB(t, n[1] - 1, n[2] - 1), n[3] - 1, IF len = 3 THEN d.tw ELSE n[4] - 1))
         ELSE LET t == IF len = 2 THEN SetTB(d, n[1] - 1, n[2] - 1) ELSE IF len = 1 THEN SetTB(d, 0, n[1] - 1) ELSE SetTB(d, 0, d.th) IN   \* (!) bottom = height
              Ok([t EXCEPT !.x = 0, !.y = First(t)])
    [] c = 104 -> IF len = 1 /\ n[1] = 4 THEN Ok([d EXCEPT !.im = TRUE]) ELSE Err(d)
    [] c = 108 -> IF len = 1 /\ n[1] = 4 THEN Ok([d EXCEPT !.im = FALSE]) ELSE Err(d)
    [] c = 126 ->      \* '~'
         IF len # 1 THEN Err(d)
         ELSE CASE n[1] = 1 -> Ok([d EXCEPT !.x = 0])
                [] n[1] = 2 -> Ok(Ins(d))
                [] n[1] = 3 -> Ok(Del(d))
                [] n[1] = 4 -> Ok([d EXCEPT !.x = d.tw - 1])
                [] n[1] = 5 \/ n[1] = 6 -> Ok(d)
                [] OTHER -> Err(d)
    [] c = 116 ->      \* 't'
         IF len = 3 THEN (IF n[1] = 8 THEN LET w == Max2(Min2(n[3], 132), 1)  h == Max2(Min2(n[2], 60), 1) IN Ok([d EXCEPT !.tw = w, !.th = h, !.tabs = DefTabs(w)]) ELSE Err(d))
         ELSE IF len = 4 THEN LET q == PalInsert(d, <<n[2] % 256, n[3] % 256, n[4] % 256>>) IN
              (IF n[1] = 0 THEN Ok([q.st EXCEPT !.ca.bg = q.idx]) ELSE IF n[1] = 1 THEN Ok([q.st EXCEPT !.ca.fg = q.idx]) ELSE Err(q.st))   \* (!) colour inserted even on error
         ELSE Err(d)
    [] c = 83 -> Ok(Times(ScrollUp, d, Min2(N1(s, 1), d.lh + 1)))
    [] c = 84 -> Ok(Times(ScrollDown, d, Min2(N1(s, 1), d.lh + 1)))
    [] c = 98 -> Ok(Times(LAMBDA q : PrintCh(q, Cell(s.last, Norm(d))), d, Min2(N1(s, 1), SatMul(d.tw, d.th))))     \* REP
    [] c = 103 ->      \* TBC
         IF len > 1 THEN Err(d)
         ELSE LET k == N1(s, 0) IN IF k = 0 THEN Ok([d EXCEPT !.tabs = RemoveTab(d.tabs, d.x)]) ELSE IF k = 3 \/ k = 5 THEN Ok([d EXCEPT !.tabs = <<>>]) ELSE Err(d)
    [] c = 89 -> IF len > 1 THEN Err(d) ELSE Ok(Limit(Times(LAMBDA q : [q EXCEPT !.x = NextTab(q, q.x)], d, Min2(N1(s, 1), Len(d.tabs) + 1))))
    [] c = 90 -> IF len > 1 THEN Err(d) ELSE Ok(Limit(Times(LAMBDA q : [q EXCEPT !.x = PrevTab(q, q.x)], d, Min2(N1(s, 1), Len(d.tabs) + 1))))
    [] OTHER ->
         IF c >= 64 /\ c <= 126 THEN Err(d)
         ELSE IF IsDigit(c) THEN Ok([s EXCEPT !.start = FALSE, !.nums = PushDigit(s.nums, c)])
         ELSE IF c = 59 THEN Ok([s EXCEPT !.start = FALSE, !.nums = Append(s.nums, 0)])
         ELSE Err(d)

DefaultStep(s, c) ==
  CASE c = 27 -> Ok([s EXCEPT !.ls = "Esc"])
    [] c = 10 -> Ok(Lf(s))
    [] c = 12 -> Ok(Ff(s))
    [] c = 13 -> Ok([s EXCEPT !.x = 0])
    [] c = 7 -> Ok(s)
    [] c = 127 -> Ok(Del(s))
    [] OTHER -> IF c = 8 /\ s.bs THEN Ok(Bs(s))
                ELSE IF (c = 0 \/ c = 255) /\ s.bs THEN Ok(ResetColor(s))
                ELSE Ok(PrintCh([s EXCEPT !.last = c], Cell(c, Norm(s))))

\* ansi::Parser::print_char
AnsiStep(s, c) ==
  CASE s.ls = "Music" -> MusicStep(s, c)
    [] s.ls = "Esc" -> EscStep(s, c)
    [] s.ls = "Aps" -> Ok(IF c = 27 THEN [s EXCEPT !.ls = "ApsEsc"] ELSE [s EXCEPT !.pstr = Append(@, c)])
    [] s.ls = "ApsEsc" -> Ok(IF c = 92 THEN Dflt(s) ELSE [s EXCEPT !.ls = "Aps", !.pstr = @ \o <<27, c>>])
    [] s.ls = "DcsMacro" ->
         LET t == [s EXCEPT !.mdcs = Append(@, c)] IN
         IF IsDigit(c) THEN (IF s.dmi # 1 THEN Err(Dflt(t)) ELSE Ok([t EXCEPT !.nums = PushDigit(t.nums, c)]))
         ELSE IF c = 91 THEN (IF s.dmi # 0 THEN Err(Dflt(t)) ELSE Ok([t EXCEPT !.dmi = 1]))
         ELSE IF c = 42 THEN (IF s.dmi # 1 THEN Err(Dflt(t)) ELSE Ok([t EXCEPT !.dmi = 2]))
         ELSE IF c = 122 THEN (IF s.dmi # 2 \/ Len(t.nums) # 1 THEN Err(Dflt(t)) ELSE Ok(InvokeMacro([t EXCEPT !.ls = "Dcs"], t.nums[1])))
         ELSE Ok([t EXCEPT !.ls = "Dcs", !.pstr = @ \o <<27, 91>> \o t.mdcs])
    [] s.ls = "Dcs" -> Ok(IF c = 27 THEN [s EXCEPT !.ls = "DcsEsc"] ELSE [s EXCEPT !.pstr = Append(@, c)])
    [] s.ls = "DcsEsc" ->
         IF c = 92 THEN ExecDcs(s)
         ELSE IF c = 91 THEN Ok([s EXCEPT !.ls = "DcsMacro", !.dmi = 1, !.mdcs = <<>>])
         ELSE Ok([s EXCEPT !.ls = "Dcs", !.pstr = @ \o <<27, c>>])
    [] s.ls = "Osc" -> Ok(IF c = 27 THEN [s EXCEPT !.ls = "OscEsc"] ELSE [s EXCEPT !.pstr = Append(@, c)])
    [] s.ls = "OscEsc" -> IF c = 92 THEN ExecOsc(s) ELSE Ok([s EXCEPT !.ls = "Osc", !.pstr = @ \o <<27, c>>])
    [] s.ls = "CsiQ" -> CsiQStep(s, c)
    [] s.ls = "CsiEq" -> CsiEqStep(s, c)
    [] s.ls = "CsiBang" ->
         IF c = 112 THEN Ok(LET t == CaretReset(ResetTerminal(Dflt(s))) IN [t EXCEPT !.y = First(t)])       \* DECSTR
         ELSE AnsiStep(Dflt(s), c)                                                              \* (!) re-dispatched from the ground state
    [] s.ls = "CsiLt" -> CsiLtStep(s, c)
    [] s.ls = "EndCsi" -> EndCsiStep(s, c)
    [] s.ls = "Csi" -> CsiStep(s, c)
    [] OTHER -> DefaultStep(s, c)

\* ------------------------------------------------------------------ front-ends wrapping the ANSI parser
\* TextAttribute::from_u8(b, buffer ice mode): a fresh attribute (flags and font page reset)
AttrFromU8(b, iceBuf) ==
  IF iceBuf THEN [fg |-> b % 16, bg |-> b \div 16, at |-> 0, fp |-> 0]
  ELSE [fg |-> b % 16, bg |-> (b \div 16) % 8, at |-> IF b >= 128 THEN BLINK ELSE 0, fp |-> 0]

\* avatar::Parser::print_char
AvatarStep(s, c) ==
  LET f == s.fe  F(k, n, rc) == [s EXCEPT !.fe = [@ EXCEPT !.k = k, !.n = n, !.rc = rc]] IN
  CASE f.k = "chars" ->
         IF c = 12 THEN Ok(Ff(s))
         ELSE IF c = 25 THEN Ok(F("rep", 1, f.rc))
         ELSE IF c = 22 THEN Ok(F("cmd", f.n, f.rc))
         ELSE AnsiStep(s, c)
    [] f.k = "cmd" ->
         LET back == F("chars", f.n, f.rc) IN
         CASE c = 1 -> Ok(F("color", f.n, f.rc))
           [] c = 2 -> Ok(Limit([back EXCEPT !.ca.at = SetBit(@, BLINK)]))
           [] c = 3 -> Ok(Limit([back EXCEPT !.y = Max2(0, s.y - 1)]))
           [] c = 4 -> Ok(Limit([back EXCEPT !.y = s.y + 1]))
           [] c = 5 -> Ok(Limit([back EXCEPT !.x = Max2(0, s.x - 1)]))
           [] c = 6 -> Ok(Limit([back EXCEPT !.x = Min2(79, s.x + 1)]))
           [] c = 7 -> Err(s)                                             \* (!) stays in the command state
           [] c = 8 -> Ok(F("move", 1, f.rc))
           [] OTHER -> Err(back)
    [] f.k = "rep" ->
         IF f.n = 1 THEN Ok(F("rep", 2, c))
         ELSE IF f.n = 2 THEN
           LET RECURSIVE Go(_, _)
               Go(t, k) == IF k = 0 THEN Ok([t EXCEPT !.fe.k = "chars"])
                           ELSE LET r == AnsiStep(t, f.rc) IN IF r.res = "err" THEN Err(r.st) ELSE Go(r.st, k - 1)   \* (!) an error aborts the loop in state rep/3
           IN Go(F("rep", 3, f.rc), c)
         ELSE Err(F("chars", f.n, f.rc))
    [] f.k = "color" -> Ok([F("chars", f.n, f.rc) EXCEPT !.ca = AttrFromU8(c, s.bice)])
    [] f.k = "move" ->
         IF f.n = 1 THEN Ok(F("move", 2, c))
         ELSE IF f.n = 2 THEN Ok(Limit([F("chars", f.n, f.rc) EXCEPT !.y = Max2(f.rc - 1, 0), !.x = Max2(c - 1, 0)]))     \* ^V^H row col, one based
         ELSE Err(s)
    [] OTHER -> Err(s)

\* pcboard::Parser::print_char
ConvCh(c) == IF IsDigit(c) THEN c - 48 ELSE IF c >= 97 /\ c <= 102 THEN c - 87 ELSE IF c >= 65 /\ c <= 70 THEN c - 55 ELSE 0
PcbStep(s, c) ==
  LET f == s.fe IN
  IF f.color THEN
    (LET pos == f.pos + 1 IN
     IF pos = 1 THEN Ok([s EXCEPT !.fe.pos = 1, !.fe.val = ConvCh(c)])
     ELSE LET v == ((f.val * 16) % 256) + ConvCh(c)
              t == IF pos = 2 THEN [s EXCEPT !.ca = AttrFromU8(v, s.bice), !.fe.val = v] ELSE s
          IN Ok([t EXCEPT !.fe.pos = pos, !.fe.color = FALSE, !.fe.code = FALSE]))
  ELSE IF f.code THEN
    Ok(IF c = 64 THEN [s EXCEPT !.fe.code = FALSE] ELSE IF c = 88 THEN [s EXCEPT !.fe.color = TRUE, !.fe.pos = 0] ELSE s)
  ELSE IF c = 64 THEN Ok([s EXCEPT !.fe.code = TRUE])
  ELSE AnsiStep(s, c)

\* ctrla::Parser::print_char
SeqPos(str, c) == LET RECURSIVE P(_)
                      P(i) == IF i > Len(str) THEN 0 ELSE IF str[i] = c THEN i ELSE P(i + 1)
                  IN P(1)                                       \* 1-based position or 0
CtrlAFg == <<75, 66, 71, 67, 82, 77, 89, 87>>     \* "KBGCRMYW"
CtrlABg == <<48, 52, 50, 54, 49, 53, 51, 55>>     \* "04261537"
CtrlAStep(s, c) ==
  IF s.fe.ca THEN
    LET t == [s EXCEPT !.fe.ca = FALSE] IN
    CASE c = 76 -> Ok(ClearScreen(t))
      [] c = 39 -> Ok([t EXCEPT !.x = 0, !.y = First(t)])
      [] c = 74 -> Ok(ClearDown(t))
      [] c = 62 -> Ok(ClearLineEnd(t))
      [] c = 60 -> Ok(Left(t, 1))
      [] c = 124 -> Ok([t EXCEPT !.x = 0])
      [] c = 93 -> Ok(Down(t, 1))
      [] c = 65 -> Ok(AnsiStep(t, 1).st)
      [] c = 72 -> Ok([t EXCEPT !.fe.bold = TRUE, !.ca.fg = IF @ < 8 THEN @ + 8 ELSE @])
      [] c = 73 -> Ok([t EXCEPT !.ca.at = SetBit(@, BLINK)])
      [] c = 69 -> Ok([t EXCEPT !.fe.hbg = TRUE, !.ca.bg = IF @ < 8 THEN @ + 8 ELSE @])
      [] c = 78 -> Ok(ResetColor([t EXCEPT !.fe.hbg = FALSE, !.fe.bold = FALSE]))
      [] c = 90 -> Ok(t)
      [] OTHER ->
           IF SeqPos(CtrlAFg, c) > 0 THEN Ok([t EXCEPT !.ca.fg = SeqPos(CtrlAFg, c) - 1 + (IF t.fe.bold THEN 8 ELSE 0)])
           ELSE IF SeqPos(CtrlABg, c) > 0 THEN Ok([t EXCEPT !.ca.bg = SeqPos(CtrlABg, c) - 1 + (IF t.fe.hbg THEN 8 ELSE 0)])
           ELSE IF c >= 128 THEN Ok(Right(t, c - 127))
           ELSE Ok(t)
  ELSE IF c = 1 THEN Ok([s EXCEPT !.fe.ca = TRUE])
  ELSE AnsiStep(s, c)

\* renegade::Parser::print_char
RenegadeStep(s, c) ==
  CASE s.fe.rk = 0 -> IF c = 124 THEN Ok([s EXCEPT !.fe.rk = 1]) ELSE AnsiStep(s, c)
    [] s.fe.rk = 1 -> IF c >= 48 /\ c <= 51 THEN Ok([s EXCEPT !.fe.rk = 2, !.fe.first = (c - 48) * 10]) ELSE Err([s EXCEPT !.fe.rk = 0])
    [] OTHER -> LET t == [s EXCEPT !.fe.rk = 0] IN
                IF ~IsDigit(c) THEN Err(t)
                ELSE LET col == s.fe.first + (c - 48) IN Ok(IF col < 16 THEN [t EXCEPT !.ca.fg = col] ELSE [t EXCEPT !.ca.bg = col - 16])

\* ascii::Parser::print_char (uses the raw caret attribute)
AsciiStep(s, c) ==
  CASE c = 0 \/ c = 255 -> Ok(ResetColor(s))
    [] c = 7 -> Ok(s)
    [] c = 10 -> Ok(Lf(s))
    [] c = 12 -> Ok(Ff(s))
    [] c = 13 -> Ok([s EXCEPT !.x = 0])
    [] c = 8 -> Ok(Bs(s))
    [] c = 127 -> Ok(Del(s))
    [] OTHER -> Ok(PrintCh(s, Cell(c, s.ca)))

\* atascii::Parser::print_char
AtasciiStep(s, c) ==
  IF s.fe.esc THEN Ok(PrintCh([s EXCEPT !.fe.esc = FALSE], Cell(c, s.ca)))
  ELSE CASE c = 27 -> Ok([s EXCEPT !.fe.esc = TRUE])
         [] c = 28 -> Ok(Up(s, 1))
         [] c = 29 -> Ok(Down(s, 1))
         [] c = 30 -> Ok(Left(s, 1))
         [] c = 31 -> Ok(Right(s, 1))
         [] c = 125 -> Ok(ClearScreen(s))
         [] c = 126 -> Ok(Bs(s))
         [] c = 127 \/ c = 158 \/ c = 159 -> Ok(s)
         [] c = 155 -> Ok(Lf(s))
         [] c = 156 -> Ok(RemoveTermLine(s, s.y))
         [] c = 157 -> Ok(InsertTermLine(s, s.y))
         [] c = 253 -> Ok(s)
         [] c = 254 -> Ok(Del(s))
         [] c = 255 -> Ok(Ins(s))
         [] OTHER -> LET t == IF c > 127 THEN [s EXCEPT !.ca.fg = 0, !.ca.bg = 7] ELSE [s EXCEPT !.ca.fg = 7, !.ca.bg = 0] IN
                     Ok(PrintCh(t, Cell(IF c > 127 THEN c - 128 ELSE c, t.ca)))

\* viewdata::Parser (Prestel): toroidal 40x24 page, serial attributes; vd = [esc, hold, held, contig, gfx]
DHEIGHT == 256
VdResetScreen(s) == [s EXCEPT !.vd = [esc |-> FALSE, hold |-> FALSE, held |-> 32, contig |-> TRUE, gfx |-> FALSE]]
VdDown(s) == ResetColor(VdResetScreen([s EXCEPT !.y = IF s.y + 1 >= s.th THEN 0 ELSE s.y + 1]))
VdUp(s) == [s EXCEPT !.y = IF s.y > 0 THEN s.y - 1 ELSE s.th - 1]
VdRight(s) == IF s.x + 1 >= s.tw THEN VdDown([s EXCEPT !.x = 0]) ELSE [s EXCEPT !.x = s.x + 1]
VdLeft(s) == IF s.x > 0 THEN [s EXCEPT !.x = s.x - 1] ELSE VdUp([s EXCEPT !.x = s.tw - 1])
AttrOf(cell) == <<cell[2], cell[3], cell[4]>>             \* TextAttribute equality ignores the font page
\* fill_to_eol: from the caret to the first cell whose attribute differs from the caret cell's, cells take the caret attribute
VdFill(s) ==
  IF s.x <= 0 THEN s
  ELSE LET a0 == AttrOf(BufGet(s, s.x, s.y))
           RECURSIVE Stop(_)
           Stop(x) == IF x >= s.tw THEN s.tw ELSE IF AttrOf(BufGet(s, x, s.y)) # a0 THEN x ELSE Stop(x + 1)
           e == Stop(s.x)
       IN WriteRow(s, s.y, s.x, e - 1, LAMBDA x : LET q == BufGet(s, x, s.y) IN <<q[1], s.ca.fg, s.ca.bg, s.ca.at, s.ca.fp>>)
VdInterpret(s0, c) ==
  LET esc == s0.vd.esc
      A(t, f) == [t EXCEPT !.ca.at = f]
      s1 == IF ~esc THEN s0
            ELSE CASE c = 92 -> VdFill([A(s0, ClrBit(s0.ca.at, CONCEAL)) EXCEPT !.ca.bg = 0])
                   [] c = 93 -> VdFill([s0 EXCEPT !.ca.bg = s0.ca.fg])
                   [] c = 73 -> VdFill(A(s0, ClrBit(s0.ca.at, BLINK)))
                   [] c = 76 -> VdFill(A(s0, ClrBit(s0.ca.at, DHEIGHT)))
                   [] c = 88 -> IF ~s0.vd.gfx THEN VdFill(A(s0, SetBit(s0.ca.at, CONCEAL))) ELSE s0
                   [] c = 89 -> [s0 EXCEPT !.vd.contig = TRUE, !.vd.gfx = TRUE]
                   [] c = 90 -> [s0 EXCEPT !.vd.contig = FALSE]
                   [] c = 94 -> [s0 EXCEPT !.vd.hold = TRUE, !.vd.gfx = TRUE]
                   [] OTHER -> s0
      s2 == IF ~s1.vd.hold THEN [s1 EXCEPT !.vd.held = 32] ELSE s1
      mosaic == s2.vd.gfx /\ ((c >= 32 /\ c < 64) \/ (c >= 96 /\ c < 128))
      pc == IF esc THEN (IF s2.vd.hold THEN s2.vd.held ELSE 32)
            ELSE IF mosaic THEN (IF c < 64 THEN c - 32 ELSE c - 64) + (IF s2.vd.contig THEN 128 ELSE 192)
            ELSE c
      s3 == IF ~esc /\ s2.vd.gfx THEN [s2 EXCEPT !.vd.held = pc] ELSE s2
      s4 == VdRight(SetCell(s3, s3.x, s3.y, Cell(pc, s3.ca)))
      s5 == IF ~esc THEN s4
            ELSE [(CASE c >= 65 /\ c <= 71 -> VdFill([A(s4, ClrBit(s4.ca.at, CONCEAL)) EXCEPT !.vd.gfx = FALSE, !.vd.held = 32, !.ca.fg = 1 + (c - 65)])
                     [] c >= 81 /\ c <= 87 -> VdFill([A(IF ~s4.vd.gfx THEN [s4 EXCEPT !.vd.gfx = TRUE, !.vd.held = 32] ELSE s4, ClrBit(s4.ca.at, CONCEAL)) EXCEPT !.ca.fg = 1 + (c - 81)])
                     [] c = 72 -> VdFill(A(s4, SetBit(s4.ca.at, BLINK)))
                     [] c = 77 -> VdFill(A(s4, SetBit(s4.ca.at, DHEIGHT)))
                     [] c = 95 -> [s4 EXCEPT !.vd.hold = FALSE]
                     [] OTHER -> s4) EXCEPT !.vd.esc = FALSE]
  IN Ok(s5)
ViewdataStep(s, c) ==
  LET Done(t) == Ok([t EXCEPT !.vd.esc = FALSE]) IN
  CASE c = 8 -> Done(VdLeft(s))
    [] c = 9 -> Done(VdRight(s))
    [] c = 10 -> Done(VdDown(s))
    [] c = 11 -> Done(VdUp(s))
    [] c = 12 -> Done(VdResetScreen(ResetColor([ResetTerminal(s) EXCEPT !.rows = <<>>, !.lhl = 0, !.x = 0, !.y = 0])))
    [] c = 13 -> Done([s EXCEPT !.x = 0])
    [] c = 14 \/ c = 15 \/ c = 28 \/ c = 29 -> Ok(s)
    [] c = 17 -> Done([s EXCEPT !.vis = TRUE])
    [] c = 20 -> Done([s EXCEPT !.vis = FALSE])
    [] c = 27 -> Ok([s EXCEPT !.vd.esc = TRUE])
    [] c = 30 -> Done([s EXCEPT !.x = 0, !.y = First(s)])
    [] c < 32 -> Done(s)
    [] OTHER -> VdInterpret(s, c)

\* petscii::Parser (C64/C128): pt = [esc, rev, shift]
RECURSIVE PetShiftRows(_, _, _)
PetShiftRows(s, y, page) ==
  IF y >= s.bh THEN s
  ELSE PetShiftRows(WriteRow(s, y, 0, s.bw - 1, LAMBDA x : LET q == BufGet(s, x, y) IN <<q[1], q[2], q[3], q[4], page>>), y + 1, page)
PetShift(s, m) == IF s.pt.shift = m THEN s ELSE PetShiftRows([s EXCEPT !.pt.shift = m], 0, B01(m))
PetEsc(s0, c) ==
  LET s == [s0 EXCEPT !.pt.esc = FALSE] IN
  CASE c = 81 -> Ok(ClearLineEnd(s))
    [] c = 80 -> Ok(ClearLineStart(s))
    [] c = 64 -> Ok(ClearDown(s))
    [] c = 74 -> Ok([s EXCEPT !.x = 0])
    [] c = 75 -> Ok([s EXCEPT !.x = s.tw - 1])
    [] c = 68 -> Ok(RemoveTermLine(s, s.y))
    [] c = 73 -> Ok(InsertTermLine(s, s.y))
    [] OTHER -> Ok(s)
PetColor(c) ==
  CASE c = 5 -> 1 [] c = 28 -> 2 [] c = 30 -> 5 [] c = 31 -> 6 [] c = 129 -> 8 [] c = 144 -> 0 [] c = 149 -> 9 [] c = 150 -> 10 [] c = 151 -> 11
    [] c = 152 -> 12 [] c = 153 -> 13 [] c = 154 -> 14 [] c = 155 -> 15 [] c = 156 -> 4 [] c = 158 -> 7 [] c = 159 -> 3 [] OTHER -> -1
PetsciiStep(s, c0) ==
  LET c == c0 % 256 IN
  IF s.pt.esc THEN PetEsc(s, c)
  ELSE CASE PetColor(c) >= 0 -> Ok([s EXCEPT !.ca.fg = PetColor(c)])
         [] c \in {2, 7, 8, 9} -> Ok(s)
         [] c = 10 -> Ok([s EXCEPT !.x = 0])
         [] c = 13 \/ c = 141 -> Ok([Lf(s) EXCEPT !.pt.rev = FALSE])
         [] c = 14 -> Ok(PetShift(s, FALSE))
         [] c = 17 -> Ok(Down(s, 1))
         [] c = 18 -> Ok([s EXCEPT !.pt.rev = TRUE])
         [] c = 19 -> LET p == UpperLeft(s) IN Ok([s EXCEPT !.x = p[1], !.y = p[2]])
         [] c = 20 -> Ok(Bs(s))
         [] c = 27 -> Ok([s EXCEPT !.pt.esc = TRUE])
         [] c = 29 -> Ok(Right(s, 1))
         [] c = 142 -> Ok(PetShift(s, TRUE))
         [] c = 145 -> Ok(Up(s, 1))
         [] c = 146 -> Ok([s EXCEPT !.pt.rev = FALSE])
         [] c = 147 -> Ok(ClearScreen(s))
         [] c = 157 -> Ok(Left(s, 1))
         [] c = 255 -> Ok(PrintCh(s, Cell(94, s.ca)))
         [] OTHER ->
              LET t == IF c >= 32 /\ c <= 63 THEN c
                       ELSE IF (c >= 64 /\ c <= 95) \/ (c >= 160 /\ c <= 191) THEN c - 64
                       ELSE IF c >= 96 /\ c <= 127 THEN c - 32
                       ELSE IF c >= 192 /\ c <= 254 THEN c - 128 ELSE -1
              IN IF t < 0 THEN Err(s)
                 ELSE LET q == Cell(IF s.pt.rev THEN t + 128 ELSE t, s.ca) IN Ok(PrintCh(s, <<q[1], q[2], q[3], q[4], B01(s.pt.shift)>>))

\* mode7::Parser (BBC Micro teletext): m7 = [contig, gfx]
M7Down(s) == Index(s)
M7Up(s) == [s EXCEPT !.y = IF s.y > 0 THEN s.y - 1 ELSE s.th - 1]
M7Right(s) == IF s.x + 1 >= s.tw THEN M7Down([s EXCEPT !.x = 0]) ELSE [s EXCEPT !.x = s.x + 1]
M7Left(s) == IF s.x > 0 THEN [s EXCEPT !.x = s.x - 1] ELSE M7Up([s EXCEPT !.x = s.tw - 1])
M7Print(s, ch) == M7Right(SetCell(s, s.x, s.y, Cell(ch, s.ca)))
Mode7Step(s, c0) ==
  LET c == c0 % 256
      A(t, f) == [t EXCEPT !.ca.at = f]
      FP(t) == M7Print(VdFill(t), 32)
  IN
  CASE c = 8 -> Ok(M7Left(s))
    [] c = 9 -> Ok(M7Right(s))
    [] c = 10 -> Ok(M7Down(s))
    [] c = 11 -> Ok(M7Up(s))
    [] c = 12 -> Ok(ResetColor([ResetTerminal(s) EXCEPT !.rows = <<>>, !.lhl = 0, !.x = 0, !.y = 0]))
    [] c = 13 -> Ok([s EXCEPT !.x = 0])
    [] c = 30 -> LET p == UpperLeft(s) IN Ok([s EXCEPT !.x = p[1], !.y = p[2]])
    [] c < 32 -> Ok(s)
    [] c = 127 -> Ok(Bs(s))
    [] c >= 129 /\ c <= 135 -> Ok(FP([A(s, ClrBit(s.ca.at, CONCEAL)) EXCEPT !.m7.gfx = FALSE, !.ca.fg = 1 + (c - 129)]))
    [] c = 136 -> Ok(FP(A(s, SetBit(s.ca.at, BLINK))))
    [] c = 137 -> Ok(FP(A(s, ClrBit(s.ca.at, BLINK))))
    [] c = 140 -> Ok(FP(A(s, ClrBit(s.ca.at, DHEIGHT))))
    [] c = 141 -> Ok(FP(A(s, SetBit(s.ca.at, DHEIGHT))))
    [] c >= 145 /\ c <= 151 -> Ok(FP([A(s, ClrBit(s.ca.at, CONCEAL)) EXCEPT !.m7.gfx = TRUE, !.ca.fg = 1 + (c - 145)]))
    [] c = 152 -> Ok(M7Print(IF ~s.m7.gfx THEN VdFill(A(s, SetBit(s.ca.at, CONCEAL))) ELSE s, 32))
    [] c = 153 -> Ok(M7Print([s EXCEPT !.m7.contig = TRUE, !.m7.gfx = TRUE], 32))
    [] c = 154 -> Ok(M7Print([s EXCEPT !.m7.contig = FALSE, !.m7.gfx = TRUE], 32))
    [] c = 156 -> Ok(FP([A(s, ClrBit(s.ca.at, CONCEAL)) EXCEPT !.ca.bg = 0]))
    [] c = 157 -> Ok(FP([s EXCEPT !.ca.bg = s.ca.fg]))
    [] c = 158 -> Ok([s EXCEPT !.m7.gfx = TRUE])
    [] c = 159 -> Ok([s EXCEPT !.m7.gfx = FALSE])
    [] OTHER -> LET off == IF s.m7.contig THEN 128 ELSE 192
                    pc == IF c >= 160 /\ c <= 191 THEN c - 160 + off ELSE IF c >= 225 THEN c - 225 + 31 + off ELSE c
                IN Ok(M7Print(s, pc))

Step(s, c) ==
  CASE s.emu = "ansi" -> AnsiStep(s, c)
    [] s.emu = "avatar" -> AvatarStep(s, c)
    [] s.emu = "pcboard" -> PcbStep(s, c)
    [] s.emu = "ctrla" -> CtrlAStep(s, c)
    [] s.emu = "renegade" -> RenegadeStep(s, c)
    [] s.emu = "ascii" -> AsciiStep(s, c)
    [] s.emu = "atascii" -> AtasciiStep(s, c)
    [] s.emu = "viewdata" -> ViewdataStep(s, c)
    [] s.emu = "petscii" -> PetsciiStep(s, c)
    [] s.emu = "mode7" -> Mode7Step(s, c)
    [] OTHER -> AnyRes(s)

\* ------------------------------------------------------------------ initial state and projection
InitStE(emu, w, h, alloc, music, bs) ==
  [emu |-> emu,
   fe |-> [k |-> "chars", n |-> 0, rc |-> 32, code |-> FALSE, color |-> FALSE, val |-> 0, pos |-> 0, ca |-> FALSE, bold |-> FALSE, hbg |-> FALSE, rk |-> 0, first |-> 0, esc |-> FALSE],
   vd |-> [esc |-> FALSE, hold |-> FALSE, held |-> 32, contig |-> TRUE, gfx |-> FALSE],
   pt |-> [esc |-> FALSE, rev |-> FALSE, shift |-> FALSE], m7 |-> [contig |-> TRUE, gfx |-> FALSE],
   tw |-> w, th |-> h, bw |-> w, bh |-> h, lw |-> w, lh |-> h,
   rows |-> IF alloc THEN Repeat(Repeat(InvCell, w), h) ELSE <<>>,
   x |-> 0, y |-> 0, ca |-> DefAttr, im |-> FALSE, vis |-> TRUE, cblink |-> TRUE, ice |-> FALSE, bice |-> FALSE,
   mtb |-> <<>>, mlr |-> <<>>, aw |-> TRUE, dm |-> FALSE, tabs |-> DefTabs(w),
   sx |-> 0, sy |-> 0, sc |-> <<>>, pal |-> Dos16, fonts |-> {0}, fsel |-> 99, fslots |-> <<0, 0, 0, 0>>,
   ps |-> 0, phl |-> 0, lhl |-> 0,
   ls |-> "Default", start |-> FALSE, endc |-> 0, dmi |-> 0, nums |-> <<>>, pstr |-> <<>>, mdcs |-> <<>>,
   macros |-> <<>>, mdepth |-> 0, mbudget |-> 0, last |-> 0, music |-> music, bs |-> bs,
   mus |-> [k |-> "default", a |-> 0, b |-> 0], octave |-> 3, mlength |-> 4, tempo |-> 120, dotted |-> FALSE]

InitSt(w, h, alloc, music, bs) == InitStE("ansi", w, h, alloc, music, bs)
Modelled(emu) == emu \in {"ansi", "avatar", "pcboard", "ctrla", "renegade", "ascii", "atascii", "viewdata", "petscii", "mode7"}

\* comparison with a recorded event e (see harness/src/term.rs state_event)
B(v) == IF v THEN 1 ELSE 0
NormAttr(s) == LET a == Norm(s) IN <<a.fg, a.bg, a.at, a.fp>>
RowLensOk(s, e) == \A i \in 1..Len(e.ll) : LET y == e.ll[i][1] IN y < NL(s) /\ Len(s.rows[y + 1]) = e.ll[i][2]
RowsOk(s, e) == "rows" \notin DOMAIN e \/ (\A i \in 1..Len(e.rows) : LET y == e.rows[i][1] IN y < NL(s) /\ s.rows[y + 1] = e.rows[i][2])
Fields(s, e) ==
  << <<"cx", s.x = e.cx>>, <<"cy", s.y = e.cy>>, <<"tw", s.tw = e.tw>>, <<"th", s.th = e.th>>, <<"bw", s.bw = e.bw>>, <<"bh", s.bh = e.bh>>,
     <<"lw", s.lw = e.lw>>, <<"lh", s.lh = e.lh>>, <<"nl", NL(s) = e.nl>>, <<"mtb", s.mtb = e.mtb>>, <<"mlr", s.mlr = e.mlr>>,
     <<"aw", B(s.aw) = e.aw>>, <<"im", B(s.im) = e.im>>, <<"dm", B(s.dm) = e.dm>>, <<"vis", B(s.vis) = e.vis>>, <<"ice", B(s.ice) = e.ice>>,
     <<"ca", NormAttr(s) = e.ca>>, <<"pal", Len(s.pal) = e.pal>>, <<"ps", s.ps = e.ps>>, <<"hl", s.lhl = e.hl>>,
     <<"tabs", "tabs" \notin DOMAIN e \/ s.tabs = e.tabs>>, <<"ll", RowLensOk(s, e)>>, <<"rows", RowsOk(s, e)>> >>
Matches(s, e) ==
  /\ s.x = e.cx /\ s.y = e.cy /\ s.tw = e.tw /\ s.th = e.th /\ s.bw = e.bw /\ s.bh = e.bh /\ s.lw = e.lw /\ s.lh = e.lh
  /\ NL(s) = e.nl /\ s.mtb = e.mtb /\ s.mlr = e.mlr /\ B(s.aw) = e.aw /\ B(s.im) = e.im /\ B(s.dm) = e.dm /\ B(s.vis) = e.vis /\ B(s.ice) = e.ice
  /\ NormAttr(s) = e.ca /\ Len(s.pal) = e.pal /\ s.ps = e.ps /\ s.lhl = e.hl
  /\ ("tabs" \notin DOMAIN e \/ s.tabs = e.tabs) /\ RowLensOk(s, e) /\ RowsOk(s, e)
Diff(s, e) == LET f == Fields(s, e)  bad == SelectSeq(f, LAMBDA p : ~p[2]) IN [i \in 1..Len(bad) |-> bad[i][1]]

\* adopt the recorded observables (the lexer state is not observable and keeps the model's value)
RowResize(row, n) == IF Len(row) >= n THEN SubSeq(row, 1, n) ELSE row \o Repeat(InvCell, n - Len(row))
AdoptRows(s, e) ==
  LET r0 == IF NL(s) >= e.nl THEN SubSeq(s.rows, 1, e.nl) ELSE s.rows \o Repeat(<<>>, e.nl - NL(s))
      RECURSIVE Go(_, _)
      Go(r, i) == IF i > Len(e.ll) THEN r ELSE LET y == e.ll[i][1] IN Go(IF y < Len(r) THEN [r EXCEPT ![y + 1] = RowResize(@, e.ll[i][2])] ELSE r, i + 1)
      r1 == Go(r0, 1)
      RECURSIVE Go2(_, _)
      Go2(r, i) == IF i > Len(e.rows) THEN r ELSE LET y == e.rows[i][1] IN Go2(IF y < Len(r) THEN [r EXCEPT ![y + 1] = e.rows[i][2]] ELSE r, i + 1)
  IN IF "rows" \in DOMAIN e THEN Go2(r1, 1) ELSE r1
Adopt(s, e) ==
  IF Matches(s, e) THEN s
  ELSE [s EXCEPT !.x = e.cx, !.y = e.cy, !.tw = e.tw, !.th = e.th, !.bw = e.bw, !.bh = e.bh, !.lw = e.lw, !.lh = e.lh,
                 !.mtb = e.mtb, !.mlr = e.mlr, !.aw = (e.aw = 1), !.im = (e.im = 1), !.dm = (e.dm = 1), !.vis = (e.vis = 1), !.ice = (e.ice = 1),
                 !.ca = IF NormAttr(s) = e.ca THEN s.ca ELSE [fg |-> e.ca[1], bg |-> e.ca[2], at |-> e.ca[3], fp |-> e.ca[4]],
                 !.pal = IF Len(s.pal) = e.pal THEN s.pal ELSE IF Len(s.pal) > e.pal THEN SubSeq(s.pal, 1, e.pal) ELSE s.pal \o Repeat(<<0, 0, 0>>, e.pal - Len(s.pal)),
                 !.ps = e.ps, !.lhl = e.hl, !.tabs = IF "tabs" \in DOMAIN e THEN e.tabs ELSE s.tabs,
                 !.rows = AdoptRows(s, e)]
=============================================================================
