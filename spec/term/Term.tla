-------------------------------- MODULE Term --------------------------------
(* placeholder: nothing modelled yet; Trace_Term adopts every recorded state *)
EXTENDS Integers, Sequences
InitSt(w, h, alloc, music, bs) == [ls |-> "Default"]
Modelled(emu) == FALSE
Step(s, c) == [st |-> s, res |-> "ok"]
Matches(s, e) == TRUE
Diff(s, e) == <<>>
Adopt(s, e) == s
=============================================================================
