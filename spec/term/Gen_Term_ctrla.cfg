SPECIFICATION Spec
CONSTANTS W = 3
          H = 2
          Alloc = FALSE
          Emu = "ctrla"
          Music = 0
          MaxHist = 8
          Slice = "ctrla"
INVARIANT Emit
CONSTRAINT Bounded
VIEW GenView
CHECK_DEADLOCK FALSE
