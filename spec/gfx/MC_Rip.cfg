SPECIFICATION Spec
CONSTANTS MaxDepth = 46
          TailSlack = 3
          PolyMax = 22
          Export = FALSE
INVARIANT TypeOK
INVARIANT UnwrapSafe
INVARIANT AnsiQuiet
INVARIANT NoStall
INVARIANT Completes
INVARIANT StepInv
INVARIANT LineEndRecovers
CONSTRAINT Bounded
VIEW ViewMC
CHECK_DEADLOCK FALSE
