------------------------------ MODULE Trace_Rip ------------------------------
(***************************************************************************)
(* Validation of recorded executions of the RIPscrip lexer (C20).            *)
(* Events (harness/src/rip.rs): reset{case}, ch{c, r, us, tag, lvl, ps, hc,  *)
(* cnt, rec, mv, [cls], [site]} - one per character fed to a real rip::Parser,   *)
(* with the lexer snapshot taken AFTER the character and the RIP text of the *)
(* commands it executed - and crash{kind, msg} written by the orchestrator   *)
(* for a case that killed or stalled the worker.                             *)
(* Property layer (decides the verdict of C20): every character yields an    *)
(* action or an error (never a panic / abort), in bounded time.              *)
(* Model layer: Rip.tla recomputes every step; any difference in state,      *)
(* level, parameter_state, has_command, rip_counter, the executed commands'  *)
(* RIP text or a definite outcome is drift; the recorded state is adopted so *)
(* that one divergence is reported once.  While the fallback ANSI parser is  *)
(* outside its modelled part (st.ansi = "O") nothing is compared.            *)
(* Registers: 3 characters, 7 worker crashes, 9 cases, 10 modelled steps,    *)
(* 11 executed commands compared, 12 steps outside the modelled ANSI part.   *)
(***************************************************************************)
EXTENDS Rip, TraceLib
VARIABLES l, st
vars == <<l, st>>
Init == l = 1 /\ st = InitSt /\ InitRegs

Matches(x, e) == /\ x.st.tag = e.tag /\ x.st.lvl = e.lvl /\ x.st.ps = e.ps /\ x.st.hc = (e.hc = 1) /\ x.st.cnt = e.cnt
                 /\ (x.exec = e.rec \/ (x.exec = <<<<63>>>> /\ Len(e.rec) = 1))
                 /\ (x.res = "any" \/ x.res = e.r)
                 /\ (CaretMoves(st, x) = 2 \/ CaretMoves(st, x) = e.mv)      \* text goes to the fallback parser exactly when the model says so
\* adopt what the hook shows; the command under assembly is unknown (0) unless the model agrees that parameters are being read
Adopt(x, e) == [x.st EXCEPT !.tag = e.tag, !.lvl = e.lvl, !.ps = e.ps, !.hc = (e.hc = 1), !.cnt = e.cnt,
                            !.cmd = IF InParams(x.st) THEN @ ELSE 0,
                            !.ansi = IF e.tag # "Default" THEN "D" ELSE @]
Summary(s) == [tag |-> s.tag, lvl |-> s.lvl, ps |-> s.ps, hc |-> s.hc, cnt |-> s.cnt, cmd |-> s.cmd, ansi |-> s.ansi, rip |-> s.rip, susp |-> s.susp]
ModelPart(x, same, e) ==
  /\ Bump(10) /\ BumpBy(11, Len(e.rec))
  /\ Expect(same, "rip-step", l, [c |-> e.c, before |-> Summary(st), expected |-> Summary(x.st), exec |-> x.exec, res |-> x.res, fed |-> x.fed,
                                  got |-> [tag |-> e.tag, lvl |-> e.lvl, ps |-> e.ps, hc |-> e.hc, cnt |-> e.cnt, rec |-> e.rec, r |-> e.r, mv |-> e.mv]])
  /\ st' = IF same THEN x.st ELSE Adopt(x, e)
WithExp(x, e) == ModelPart(x, Matches(x, e), e)
\* outside the modelled part of the fallback parser: follow the recording; a '!' that starts a RIP sequence shows that it is
\* back in state Default
Opaque(e) ==
  /\ Bump(12)
  /\ st' = IF e.tag # "Default" THEN [st EXCEPT !.tag = e.tag, !.lvl = e.lvl, !.ps = e.ps, !.hc = (e.hc = 1), !.cnt = e.cnt, !.ansi = "D", !.rip = TRUE]
           ELSE [st EXCEPT !.ps = e.ps, !.hc = (e.hc = 1), !.cnt = e.cnt]

Next ==
  /\ l <= Len(Rec)
  /\ LET e == Rec[l] IN
     CASE e.ev = "reset" -> Bump(9) /\ st' = InitSt
       [] e.ev = "ch" ->
            /\ Bump(3)
            /\ Check(e.r = "ok" \/ e.r = "err", "C20", "Outcome", l, [emu |-> "rip", c |-> e.c, r |-> e.r])
            /\ Check(e.us <= 5000000, "C20", "StepTime", l, [emu |-> "rip", c |-> e.c, us |-> e.us])
            /\ IF e.r = "panic" THEN st' = st
               ELSE IF st.ansi = "O" THEN Opaque(e)
               ELSE WithExp(RipStepX(st, e.c, Has(e, "cls")), e)
       [] e.ev = "crash" ->
            /\ Bump(7)
            /\ Check(e.kind # "abort", "C20", "Abort", l, [emu |-> e.emu, msg |-> e.msg])
            /\ Check(e.kind # "timeout", "C20", "Stall", l, [emu |-> e.emu, msg |-> e.msg])
            /\ st' = st
       [] OTHER -> Viol("TOOL", "unknown-event", l, e.ev) /\ st' = st
  /\ l' = l + 1
Spec == Init /\ [][Next]_vars
=============================================================================
