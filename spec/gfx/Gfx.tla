--------------------------------- MODULE Gfx ---------------------------------
(***************************************************************************)
(* RIPscrip and IGS command streams (C20).                                   *)
(*  - the framing automaton of rip::Parser::print_char (src/parsers/rip/     *)
(*    mod.rs): Default, GotRipStart ("!"), ReadCommand(level 0/1/9),         *)
(*    ReadParams, SkipEOL (line continuation), EndRip ("|#"); whether a      *)
(*    fixed-width command has consumed its last parameter is left to the     *)
(*    command (nondeterministic `done`), everything else is determined by    *)
(*    the character;                                                         *)
(*  - the command tables of both emulations, from which the exhaustive part  *)
(*    of the property's quantifier is generated: every command x every       *)
(*    parameter-list length 0..=24 over the digits {0, 1, Z} (RIP) and       *)
(*    0..=12 parameters from {-50, 0, 1, 99999, ..} (IGS).                   *)
(***************************************************************************)
EXTENDS Integers, Sequences, FiniteSets
RipL0 == <<119, 118, 42, 101, 69, 103, 72, 62, 99, 81, 97, 87, 109, 84, 64, 89, 88, 76, 82, 66, 67, 79, 111, 65, 86, 73, 105, 90, 80, 112, 108, 70, 61, 83, 115, 36>>
         \* w v * e E g H > c Q a W m T @ Y X L R B C O o A V I i Z P p l F = S s $
RipL0Immediate == {42, 101, 69, 72, 62}                \* * e E H > run at once, without parameters
RipL1 == <<77, 75, 84, 116, 69, 67, 80, 87, 73, 66, 85, 68, 27, 71, 82, 70>>        \* M K T t E C P W I B U D ESC G R F
RipL1Immediate == {75, 69}
IgsCmds == <<65, 98, 66, 67, 68, 69, 70, 102, 103, 71, 113, 72, 73, 74, 107, 75, 76, 122, 77, 110, 78, 79, 80, 81, 82, 115, 83, 116, 84, 85, 86, 87, 89, 90, 60, 63, 99, 100, 105, 108, 109, 112, 114, 118, 119, 88, 38>>
Range(s) == {s[i] : i \in 1..Len(s)}

\* ---- framing automaton: state = <<tag, level>>; result = set of possible next states (nondeterminism = command-internal)
RipNext(st, c) ==
  LET tag == st[1] IN
  CASE tag = "Default" -> IF c = 33 THEN {<<"GotRipStart", 0>>} ELSE {<<"Default", 0>>}          \* text goes to the fallback ANSI parser
    [] tag = "GotRipStart" ->
         IF c = 33 THEN {st} ELSE IF c = 10 \/ c = 13 THEN {st} ELSE IF c = 124 THEN {<<"ReadCommand", 0>>} ELSE {<<"Default", 0>>}
    [] tag = "ReadCommand" ->
         IF c = 33 THEN {<<"GotRipStart", 0>>}
         ELSE IF st[2] = 1 THEN (IF c \in RipL1Immediate THEN {<<"GotRipStart", 0>>} ELSE IF c \in Range(RipL1) THEN {<<"ReadParams", 0>>} ELSE {<<"Default", 0>>})
         ELSE IF st[2] = 9 THEN (IF c = 27 THEN {<<"ReadParams", 0>>} ELSE {<<"Default", 0>>})
         ELSE IF c = 49 THEN {<<"ReadCommand", 1>>} ELSE IF c = 57 THEN {<<"ReadCommand", 9>>}
         ELSE IF c = 35 THEN {<<"EndRip", 0>>}
         ELSE IF c \in RipL0Immediate THEN {<<"GotRipStart", 0>>}
         ELSE IF c \in Range(RipL0) THEN {<<"ReadParams", 0>>}
         ELSE {<<"Default", 0>>}
    [] tag = "ReadParams" ->
         IF c = 92 THEN {<<"SkipEOL", 0>>} ELSE IF c = 13 THEN {st} ELSE IF c = 10 THEN {<<"Default", 0>>} ELSE IF c = 124 THEN {<<"ReadCommand", 0>>}
         ELSE {st, <<"GotRipStart", 0>>, <<"Default", 0>>}            \* parameter consumed / command complete / parameter error
    [] tag = "SkipEOL" ->
         IF c = 13 THEN {st} ELSE IF c = 10 THEN {<<"ReadParams", 0>>}
         ELSE IF c = 92 THEN {st} ELSE IF c = 124 THEN {<<"ReadCommand", 0>>}
         ELSE {<<"ReadParams", 0>>, <<"GotRipStart", 0>>, <<"Default", 0>>}
    [] OTHER ->      \* EndRip
         IF c = 13 THEN {st} ELSE IF c = 10 THEN {<<"Default", 0>>} ELSE IF c = 124 THEN {<<"ReadCommand", 0>>} ELSE {<<"Default", 0>>}

\* ---- properties of recorded executions
Outcome(r) == r = "ok" \/ r = "err"
StepBounded(us) == us <= 5000000
CanvasComplete(w, h, len) == w > 0 /\ h > 0 /\ len = w * h * 4
=============================================================================
