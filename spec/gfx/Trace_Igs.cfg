SPECIFICATION Spec
CONSTANT Fixes = {}
POSTCONDITION Post
CHECK_DEADLOCK FALSE
