SPECIFICATION Spec
CONSTANT Fixes = {"D2", "D3"}
POSTCONDITION Post
CHECK_DEADLOCK FALSE
