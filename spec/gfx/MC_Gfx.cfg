SPECIFICATION Spec
CONSTANT Export = FALSE
INVARIANT Total
INVARIANT LineEndRecovers
CHECK_DEADLOCK FALSE
