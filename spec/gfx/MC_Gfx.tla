-------------------------------- MODULE MC_Gfx --------------------------------
(* R1: the RIP framing automaton is total (every character is enabled in every *)
(* reachable state, no state without a successor) and text flows again after   *)
(* "|#" / a line end; generator of the exhaustive command x parameter-length   *)
(* table of C20 (Gen cfg).                                                     *)
EXTENDS Gfx, TLC, Json
CONSTANTS Export
VARIABLES st, n
Chars == {33, 124, 10, 13, 92, 35, 49, 57, 27, 48, 90, 65, 119, 42, 75, 32}
Init == st = <<"Default", 0>> /\ n = 0
Next == n < 6 /\ \E c \in Chars : \E s2 \in RipNext(st, c) : st' = s2 /\ n' = n + 1
Spec == Init /\ [][Next]_<<st, n>>
Total == \A c \in Chars : RipNext(st, c) # {} /\ \A s2 \in RipNext(st, c) : s2[1] \in {"Default", "GotRipStart", "ReadCommand", "ReadParams", "SkipEOL", "EndRip"}
\* a line feed always leads back towards text: from every state, LF LF reaches Default or GotRipStart
LineEndRecovers == \A a \in RipNext(st, 10) : \A b \in RipNext(a, 10) : b[1] \in {"Default", "GotRipStart", "ReadParams"}
\* ---- case table (printed once, in the initial state)
Digits == <<48, 49, 90>>
Rep(v, k) == [i \in 1..k |-> v]
RipCmds == {<<RipL0[i]>> : i \in 1..Len(RipL0)} \cup {<<49, RipL1[i]>> : i \in 1..Len(RipL1)} \cup {<<57, 27>>}
RipTable == {[emu |-> "rip", cmd |-> c, len |-> k, digit |-> d] : c \in RipCmds, k \in 0..24, d \in 1..3}
IgsVals == <<"-50", "0", "1", "99999", "319", "5">>
IgsTable == {[emu |-> "igs", cmd |-> <<IgsCmds[i]>>, len |-> k, digit |-> d] : i \in 1..Len(IgsCmds), k \in 0..12, d \in 1..6}
Emit == (Export /\ n = 0) => \A t \in RipTable \cup IgsTable : PrintT(<<"WITNESS", ToJson(t)>>)
=============================================================================
