SPECIFICATION Spec
CONSTANTS MaxDepth = 72
          TailSlack = 10
          PolyMax = 62
          Export = FALSE
INVARIANT TypeOK
INVARIANT UnwrapSafe
INVARIANT AnsiQuiet
INVARIANT NoStall
INVARIANT Completes
INVARIANT StepInv
INVARIANT LineEndRecovers
CONSTRAINT Bounded
VIEW ViewMC
CHECK_DEADLOCK FALSE
