SPECIFICATION Spec
CONSTANTS MaxLen = 7
          MaxPolls = 0
          Wide = FALSE
          Fixes = {"D2", "D3"}
INVARIANT Emit
VIEW Class
CHECK_DEADLOCK FALSE
