SPECIFICATION Spec
CONSTANTS MaxLen = 7
          MaxPolls = 0
          Wide = FALSE
          Fixes = {}
INVARIANT Emit
VIEW Class
CHECK_DEADLOCK FALSE
