SPECIFICATION Spec
CONSTANTS MaxLen = 3
          MaxPolls = 3
          Wide = TRUE
          Fixes = {"D2", "D3"}
INVARIANT Total
INVARIANT ExecBound
INVARIANT StoreBounded
INVARIANT TerminatorReturns
INVARIANT LineEndRecovers
INVARIANT NoTrap
INVARIANT LoopProgress
INVARIANT OnlyStepZeroUnbounded
INVARIANT DelayNeverRead
VIEW ViewMC
CHECK_DEADLOCK FALSE
