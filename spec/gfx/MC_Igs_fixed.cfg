SPECIFICATION Spec
CONSTANTS MaxLen = 4
          MaxPolls = 3
          Wide = FALSE
          Fixes = {"D1", "D2", "D3", "D4"}
INVARIANT Total
INVARIANT ExecBound
INVARIANT StoreBounded
INVARIANT TerminatorReturns
INVARIANT LineEndRecovers
INVARIANT NoTrap
INVARIANT LoopProgress
INVARIANT OnlyStepZeroUnbounded
INVARIANT RepairD3
INVARIANT RepairD2
VIEW ViewMC
CHECK_DEADLOCK FALSE
