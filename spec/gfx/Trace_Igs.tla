------------------------------ MODULE Trace_Igs ------------------------------
(* C20, IGS part: recorded runs of igs::Parser over a recording executor (harness/src/igs.rs) against Igs.tla.        *)
(*   reset{case, exec}                                                                                              *)
(*   ch  {c, r: ok|err|panic, act, ms, us, ex, sn}     one print_char                                               *)
(*   poll{k, r: some|none|panic, act, ms, us, ex, sn}  one get_next_action                                          *)
(*   crash{kind, msg}                                  the worker died / hung in this case (orchestrator)           *)
(*   ex = <<[cmd, ps, s, xr, xact, xms]>> commands the executor received and what it answered                        *)
(*   sn = [st, cmd, nums, str, ls, lc, lp, gdc, loop] lexer snapshot AFTER the call (cfg(icy_engine_verif) hook)     *)
(* Model layer (Expect = drift, then the recorded state is adopted): result, executed commands and every snapshot   *)
(* field equal IgsStep / IgsPoll.  Property layer (Check, C20): outcome is an action or an error, at most IterBound *)
(* commands per call, step time bounded, every iteration moves a pending loop towards its end, no abort / hang.           *)
EXTENDS Igs, TraceLib
VARIABLES l, st
vars == <<l, st>>

XOk == [k |-> "ok", act |-> "NoUpdate", ms |-> 0]
XrOf(e) == IF e.ex = <<>> THEN XOk ELSE [k |-> e.ex[1].xr, act |-> e.ex[1].xact, ms |-> e.ex[1].xms]

SnapOf(s) == [st |-> s.state, cmd |-> s.cmd, nums |-> s.nums, str |-> s.str, ls |-> s.ls, lc |-> s.lc, lp |-> s.lp,
              gdc |-> IF s.gdc THEN 1 ELSE 0,
              loop |-> IF s.loop = <<>> THEN <<>> ELSE <<s.loop[1].i, s.loop[1].from, s.loop[1].to, s.loop[1].step, s.loop[1].delay>>]
\* adopt a recorded snapshot; the loop's command / text / parameters are not in the snapshot: keep the model's
Adopt(s, sn) ==
  [state |-> sn.st, cmd |-> sn.cmd, nums |-> sn.nums, str |-> sn.str, ls |-> sn.ls, lc |-> sn.lc, lp |-> sn.lp, gdc |-> sn.gdc = 1,
   loop |-> IF sn.loop = <<>> THEN <<>>
            ELSE <<[i |-> sn.loop[1], from |-> sn.loop[2], to |-> sn.loop[3], step |-> sn.loop[4], delay |-> sn.loop[5],
                    cmd |-> IF s.loop # <<>> THEN s.loop[1].cmd ELSE "DrawLine",
                    s |-> IF s.loop # <<>> THEN s.loop[1].s ELSE <<>>,
                    ps |-> IF s.loop # <<>> THEN s.loop[1].ps ELSE IF sn.lp # <<>> THEN sn.lp ELSE << << <<>> >> >>,
                    n |-> IF s.loop # <<>> THEN s.loop[1].n ELSE 0]>>]

\* recorded result vs. the model's: "fb" (fall-back ANSI parser) is not this model's business
ResMatch(res, r, act, ms) ==
  CASE res.k = "fb" -> r \in {"ok", "err"}
    [] res.k = "ok" -> r \in {"ok", "some"} /\ act = res.act /\ (act = "Pause" => ms = res.ms)
    [] res.k = "err" -> r = "err"
    [] res.k = "none" -> r = "none"
    [] OTHER -> r = "panic"
ExMatch(mex, rex) == Len(mex) = Len(rex) /\ \A k \in 1..Len(mex) : mex[k].cmd = rex[k].cmd /\ mex[k].ps = rex[k].ps /\ mex[k].s = rex[k].s

PrevLoop == IF l > 1 /\ Has(Rec[l - 1], "sn") /\ Has(Rec[l - 1].sn, "loop") THEN Rec[l - 1].sn.loop ELSE <<>>

\* a poll that ran an iteration of the pending loop <<i, from, to, step, delay>> moved i towards `to`
Advances(p, n) == IF p[2] < p[3] THEN n[1] > p[1] ELSE n[1] < p[1]

\* o = the model's answer for this event (argument => evaluated once)
Call(e, o, isPoll) ==
  /\ Bump(IF isPoll THEN 6 ELSE 5)
  /\ BumpBy(8, Len(e.ex))
  /\ (IF o.res.k = "panic" THEN Bump(9) ELSE TRUE)
  \* ---- property layer (recorded values only)
  /\ Check(e.r \in {"ok", "err", "some", "none"}, "C20", "Outcome", l, [call |-> e.ev, r |-> e.r])
  /\ Check(Len(e.ex) <= IterBound, "C20", "ExecBound", l, [call |-> e.ev, n |-> Len(e.ex)])
  /\ Check(e.us <= 5000000, "C20", "StepTime", l, [call |-> e.ev, us |-> e.us])
  /\ Check(~(isPoll /\ e.ex # <<>> /\ e.r # "panic" /\ PrevLoop # <<>> /\ e.sn.loop # <<>>) \/ Advances(PrevLoop, e.sn.loop), "C20", "LoopProgress", l,
           [step |-> IF PrevLoop # <<>> THEN (IF PrevLoop[4] = 0 THEN "0" ELSE "nonzero") ELSE "?"])
  \* ---- model layer
  /\ Expect(ResMatch(o.res, e.r, e.act, e.ms), "result", l, [call |-> e.ev, exp |-> o.res, got |-> <<e.r, e.act, e.ms>>])
  /\ Expect(ExMatch(o.ex, e.ex), "executed", l, [call |-> e.ev, exp |-> o.ex, got |-> e.ex])
  /\ IF e.r = "panic" THEN st' = o.st
     ELSE IF SnapOf(o.st) = e.sn THEN st' = o.st
     ELSE /\ Drift("snapshot", l, [call |-> e.ev, exp |-> SnapOf(o.st), got |-> e.sn])
          /\ st' = Adopt(o.st, e.sn)

Init == l = 1 /\ st = InitSt /\ InitRegs
Next ==
  /\ l <= Len(Rec)
  /\ LET e == Rec[l] IN
     /\ Bump(3)
     /\ CASE e.ev = "reset" -> Bump(4) /\ st' = InitSt
          [] e.ev = "ch" -> Call(e, IgsStep(st, e.c, XrOf(e)), FALSE)
          [] e.ev = "poll" -> Call(e, IgsPoll(st, XrOf(e)), TRUE)
          [] e.ev = "crash" ->
               /\ Bump(7)
               /\ Check(e.kind # "abort", "C20", "Abort", l, [emu |-> "igs", msg |-> e.msg])
               /\ Check(e.kind # "timeout", "C20", "Stall", l, [emu |-> "igs", msg |-> e.msg])
               /\ UNCHANGED st
          [] OTHER -> Viol("TOOL", "unknown-event", l, e.ev) /\ UNCHANGED st
  /\ l' = l + 1
Spec == Init /\ [][Next]_vars
=============================================================================
