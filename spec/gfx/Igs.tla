--------------------------------- MODULE Igs ---------------------------------
(***************************************************************************)
(* The IGS (Atari ST "Instant Graphics and Sound") command lexer and its    *)
(* loop engine: igs::Parser::print_char / get_next_action and               *)
(* Loop::next_step of /repo/src/parsers/igs/mod.rs, character by character. *)
(* Reference for the intended language: /repo/doc/IG219.TXT.                *)
(*                                                                         *)
(*   IgsStep(st, c, xr)  one call of print_char with character code c       *)
(*   IgsPoll(st, xr)     one call of get_next_action                        *)
(* both give [st |-> next lexer state, ex |-> commands handed to the        *)
(* CommandExecutor (at most ONE, see IterBound), res |-> result].  xr is    *)
(* what the executor answers if it is called (the lexer passes it on), so   *)
(* the model is deterministic given (st, c, xr).                            *)
(*                                                                         *)
(* Places where the engine differs from IG219.TXT or does something         *)
(* surprising are marked (!).  Arithmetic is i32 as in the harness build    *)
(* (dev profile, overflow-checks on): an overflow is a PANIC, result kind   *)
(* "panic".  Fixes = {} is the engine as pinned.  Each defect D1..D4 found  *)
(* with this model (proposed_fixes/C20-I*.md) has a switch: with "Dk" in    *)
(* Fixes the model describes the engine after the proposed repair.          *)
(***************************************************************************)
EXTENDS Integers, Sequences, FiniteSets
LOCAL INSTANCE SequencesExt          \* FoldLeft (linear, Java override)
CONSTANT Fixes           \* subset of {"D1", "D2", "D3", "D4"}
ReadDelay == "D1" \in Fixes

MAXI == 2147483647
MINI == -2147483647 - 1

\* ---- characters
chLF == 10  chCR == 13  chSP == 32  chBang == 33  chHash == 35  chAmp == 38  chPlus == 43  chComma == 44
chMinus == 45  chColon == 58  chGt == 62  chAt == 64  chG == 71  chUnder == 95  chX == 120  chY == 121  chBar == 124
IsDigit(c) == c >= 48 /\ c <= 57

\* ---- command letter table: IgsCommands::from_char (cmd.rs).  "&" is NOT in the table: the loop command is recognised by
\* the lexer itself, so a loop cannot loop a loop (IG219: "you can't loop a loop") - Loop::new fails on it.
CmdPairs == <<
  <<65, "AttributeForFills">>, <<98, "BellsAndWhistles">>, <<66, "Box">>, <<67, "ColorSet">>, <<68, "LineDrawTo">>, <<69, "TextEffects">>,
  <<70, "FloodFill">>, <<102, "PolyFill">>, <<103, "GraphicScaling">>, <<71, "GrabScreen">>, <<113, "QuickPause">>, <<72, "HollowSet">>,
  <<73, "Initialize">>, <<74, "EllipticalArc">>, <<107, "Cursor">>, <<75, "Arc">>, <<76, "DrawLine">>, <<122, "PolyLine">>,
  <<77, "DrawingMode">>, <<110, "ChipMusic">>, <<78, "Noise">>, <<79, "Circle">>, <<80, "PolymarkerPlot">>, <<81, "Ellipse">>,
  <<82, "SetResolution">>, <<115, "ScreenClear">>, <<83, "SetPenColor">>, <<116, "TimeAPause">>, <<84, "LineMarkerTypes">>,
  <<85, "RoundedRectangles">>, <<86, "Pieslice">>, <<87, "WriteText">>, <<89, "EllipticalPieslice">>, <<90, "FilledRectangle">>,
  <<60, "InputCommand">>, <<63, "AskIG">>, <<99, "VTColor">>, <<100, "VTDeleteLine">>, <<105, "VTLineInsert">>, <<108, "VTLineClear">>,
  <<109, "VTCursorMotion">>, <<112, "VTPosition">>, <<114, "VTRemember">>, <<118, "VTInverseVideo">>, <<119, "VTLineWrap">>,
  <<88, "ExtendedCommands">> >>
CmdTab == [i \in 1..256 |-> IF \E k \in 1..Len(CmdPairs) : CmdPairs[k][1] = i - 1
                             THEN CmdPairs[CHOOSE k \in 1..Len(CmdPairs) : CmdPairs[k][1] = i - 1][2] ELSE ""] \o <<>>
CmdOf(c) == IF c \in 0..255 THEN CmdTab[c + 1] ELSE ""
CmdLetters == {CmdPairs[k][1] : k \in 1..Len(CmdPairs)}
CmdNames == {CmdPairs[k][2] : k \in 1..Len(CmdPairs)} \cup {"LoopCommand"}

\* ---- lexer state
\*  state  Default | GotIgsStart | ReadCommandStart | SkipNewLine | ReadCommand
\*  cmd    command being read (name; "" unless state = ReadCommand)
\*  nums   parsed_numbers      str  parsed_string (code points)
\*  ls     loop sub-lexer Start | ReadCommand | ReadCount | ReadParameter       lc  loop command letter
\*  lp     loop_parameters: groups (separated by ":") of parameter strings (separated by ",")
\*  gdc    got_double_colon    loop  <<>> or <<the pending loop>>
InitSt == [state |-> "Default", cmd |-> "", nums |-> <<>>, str |-> <<>>, ls |-> "Start", lc |-> chSP, lp |-> <<>>, gdc |-> FALSE, loop |-> <<>>]
States == {"Default", "GotIgsStart", "ReadCommandStart", "SkipNewLine", "ReadCommand"}
LoopStates == {"Start", "ReadCommand", "ReadCount", "ReadParameter"}

R(k, act, ms) == [k |-> k, act |-> act, ms |-> ms]
NoUpd == R("ok", "NoUpdate", 0)
Fallback == R("fb", "", 0)           \* the character went to the fall-back ANSI parser (Term.tla's business): ok or err
Panic == R("panic", "", 0)
Out(st, ex, res) == [st |-> st, ex |-> ex, res |-> res]
\* what the lexer returns when it passes the executor's answer on
ExecRes(xr) == IF xr.k = "ok" THEN R("ok", xr.act, xr.ms) ELSE R(xr.k, "", 0)
Exec(cmd, ps, s) == [cmd |-> cmd, ps |-> ps, s |-> s]

\* every call of print_char / get_next_action hands at most this many commands to the executor: a loop advances by ONE
\* iteration per call, the remaining iterations are pulled by the caller (C20: no input character costs more than one command)
IterBound == 1

\* ---- numbers: parse_next_number = ((10 x) sat+ code) sat- 48, so the largest parameter is 2147483599 (!)
Pnn(x, c) == LET m == IF x > 214748364 THEN MAXI ELSE IF x < -214748364 THEN MINI ELSE x * 10
                 a == IF m > MAXI - c THEN MAXI ELSE m + c
             IN IF a < MINI + 48 THEN MINI ELSE a - 48
\* `pop() or 0`, then push: a digit extends the LAST number, an empty list gets its first one
PushDigit(nums, c) == IF nums = <<>> THEN <<Pnn(0, c)>> ELSE [nums EXCEPT ![Len(nums)] = Pnn(@, c)]

\* ---- checked i32 arithmetic: [ok, v]
I32(v) == [ok |-> TRUE, v |-> v]
Ovf == [ok |-> FALSE, v |-> 0]
AddC(a, b) == IF b >= 0 THEN (IF a > MAXI - b THEN Ovf ELSE I32(a + b)) ELSE (IF a < MINI - b THEN Ovf ELSE I32(a + b))
SubC(a, b) == IF b = MINI THEN (IF a >= 0 THEN Ovf ELSE I32((a + MAXI) + 1)) ELSE AddC(a, -b)
AbsC(a) == IF a = MINI THEN Ovf ELSE I32(IF a < 0 THEN -a ELSE a)
\* saturating versions (repair D3)
AddS(a, b) == IF b >= 0 THEN (IF a > MAXI - b THEN MAXI ELSE a + b) ELSE (IF a < MINI - b THEN MINI ELSE a + b)
SubS(a, b) == IF b = MINI THEN (IF a >= 0 THEN MAXI ELSE (a + MAXI) + 1) ELSE AddS(a, -b)
Add(a, b) == IF "D3" \in Fixes THEN I32(AddS(a, b)) ELSE AddC(a, b)
Sub(a, b) == IF "D3" \in Fixes THEN I32(SubS(a, b)) ELSE SubC(a, b)

\* ---- str::parse::<i32>: optional single sign, at least one digit, only digits, no overflow
ParseI32(s) ==
  LET neg == Len(s) > 0 /\ s[1] = chMinus
      body == IF Len(s) > 0 /\ (s[1] = chMinus \/ s[1] = chPlus) THEN SubSeq(s, 2, Len(s)) ELSE s
      step(acc, c) ==
        IF ~acc.ok \/ ~IsDigit(c) THEN Ovf
        ELSE LET d == c - 48 IN
             IF neg THEN (IF acc.v < -214748364 \/ (acc.v = -214748364 /\ d > 8) THEN Ovf ELSE I32(acc.v * 10 - d))
             ELSE (IF acc.v > 214748364 \/ (acc.v = 214748364 /\ d > 7) THEN Ovf ELSE I32(acc.v * 10 + d))
  IN IF body = <<>> THEN Ovf ELSE FoldLeft(step, I32(0), body)

\* ---- one loop parameter string -> value.  k = "val" | "skip" (unparsable: silently dropped (!), the command gets fewer
\* parameters) | "panic".  Prefix "+" adds x, "-" gives x - value, "!" gives value - x; "x" = |i|, "y" = |to - 1 - i|.
ParamValue(p, x, y) ==
  LET pre == IF Len(p) > 0 /\ p[1] \in {chPlus, chMinus, chBang} THEN p[1] ELSE 0
      q == IF pre # 0 THEN SubSeq(p, 2, Len(p)) ELSE p
      base == IF q = <<chX>> THEN I32(x) ELSE IF q = <<chY>> THEN I32(y) ELSE ParseI32(q)
  IN IF ~base.ok THEN [k |-> "skip", v |-> 0]
     ELSE LET r == CASE pre = chPlus -> Add(base.v, x)
                     [] pre = chMinus -> Sub(x, base.v)
                     [] pre = chBang -> Sub(base.v, x)
                     [] OTHER -> base
          IN IF r.ok THEN [k |-> "val", v |-> r.v] ELSE [k |-> "panic", v |-> 0]

\* (n as usize) % m for an i32 n: a negative n is sign-extended to 2^64 + n (!)
Pow2Mod(e, m) == FoldLeft(LAMBDA acc, i : (acc * 2) % m, 1 % m, [i \in 1..e |-> i])
UsizeMod(n, m) == IF n >= 0 THEN n % m ELSE (Pow2Mod(64, m) + (n % m)) % m

\* ---- the loop engine
\* l = [i, from, to, step, delay, cmd, s, ps, n (iterations done)]: runs while i < to (from < to) resp. i > to (otherwise);
\* from = to: no iteration;  step = 0 and from # to: NEVER ends (!) D2;  the lexer cannot produce a negative step.
Running(l) == IF l.from < l.to THEN l.i < l.to ELSE l.i > l.to
\* number of iterations still to come; -1 = unbounded
Remaining(l) == IF ~Running(l) THEN 0
                ELSE IF l.step <= 0 THEN -1
                ELSE LET d == IF l.from < l.to THEN l.to - l.i ELSE l.i - l.to IN (d + (l.step - 1)) \div l.step
LoopPause(l) == 200 * (IF l.delay > 65535 THEN 65535 ELSE l.delay)

\* one iteration: [run, l, ex, res]
NextStep(l, xr) ==
  IF ~Running(l) THEN [run |-> FALSE, l |-> l, ex |-> <<>>, res |-> NoUpd]
  ELSE
    LET d == SubC(l.i, l.from)
        \* (!) D4: the parameter group is chosen by (i - from), not by the iteration number ("works like BASIC's READ DATA
        \* between each loop step"): with step 4 and 4 groups it is always group 1, with step 5 and 12 groups the order is scrambled
        g == l.ps[(IF "D4" \in Fixes THEN l.n % Len(l.ps) ELSE UsizeMod(d.v, Len(l.ps))) + 1]
        x == AbsC(l.i)
        t1 == SubC(l.to, 1)
        t2 == IF t1.ok THEN SubC(t1.v, l.i) ELSE Ovf
        y == IF t2.ok THEN AbsC(t2.v) ELSE Ovf
    IN IF l.ps = <<>> \/ ~d.ok \/ ~x.ok \/ ~y.ok THEN [run |-> TRUE, l |-> l, ex |-> <<>>, res |-> Panic]      \* (no group: % 0)
       ELSE
         LET vals == [k \in 1..Len(g) |-> ParamValue(g[k], x.v, y.v)] \o <<>>
             ps == FoldLeft(LAMBDA acc, v : IF v.k = "val" THEN Append(acc, v.v) ELSE acc, <<>>, vals)
             ni == IF l.from < l.to THEN Add(l.i, l.step) ELSE Sub(l.i, l.step)
             ex == <<Exec(l.cmd, ps, l.s)>>
             res == IF l.delay > 0 /\ xr.k = "ok" THEN R("ok", "Pause", LoopPause(l)) ELSE ExecRes(xr)
         IN IF \E k \in 1..Len(vals) : vals[k].k = "panic" THEN [run |-> TRUE, l |-> l, ex |-> <<>>, res |-> Panic]
            ELSE IF xr.k = "panic" THEN [run |-> TRUE, l |-> l, ex |-> ex, res |-> Panic]
            ELSE IF ~ni.ok THEN [run |-> TRUE, l |-> l, ex |-> ex, res |-> Panic]      \* (!) D3: i + step overflows AFTER the command ran
            ELSE [run |-> TRUE, l |-> [l EXCEPT !.i = ni.v, !.n = @ + 1], ex |-> ex, res |-> res]

\* the last "," or ":" of the loop parameter list: build the loop and run its first iteration at once
FireLoop(st, xr) ==
  LET st1 == [st EXCEPT !.state = "ReadCommandStart", !.cmd = ""]
      name == CmdOf(st.lc)
  IN IF name = "" THEN Out(st1, <<>>, R("err", "", 0))           \* unknown letter, and "&" itself
     ELSE LET l == [i |-> st.nums[1], from |-> st.nums[1], to |-> st.nums[2],
                    step |-> IF "D2" \in Fixes /\ st.nums[3] < 1 THEN 1 ELSE st.nums[3],      \* repair D2: step 0 counts as 1
                    delay |-> st.nums[4], cmd |-> name, s |-> st.str, ps |-> st.lp, n |-> 0]
              ns == NextStep(l, xr)
          IN IF ~ns.run THEN Out(st1, <<>>, R("ok", "Update", 0))      \* an empty loop leaves a pending older loop alone
             ELSE Out([st1 EXCEPT !.loop = <<ns.l>>], ns.ex, ns.res)

NParams(lp) == FoldLeft(LAMBDA acc, g : acc + Len(g), 0, lp)
AppendToLast(lp, c) == [lp EXCEPT ![Len(lp)] = [@ EXCEPT ![Len(@)] = Append(@, c)]]

\* loop sub-lexer, active once the header has 4 numbers.  (!) D1: the 4th number is created by the third "," and the
\* sub-lexer takes over immediately, so the DELAY digits are skipped in state Start: delay is always 0.
LoopLex(st, c, xr) ==
  CASE st.ls = "Start" ->
         IF c = chComma THEN Out([st EXCEPT !.ls = "ReadCommand"], <<>>, NoUpd)
         ELSE IF ReadDelay /\ IsDigit(c) THEN Out([st EXCEPT !.nums = PushDigit(@, c)], <<>>, NoUpd)
         ELSE Out(st, <<>>, NoUpd)
    [] st.ls = "ReadCommand" ->
         \* every character is "the" command letter until a separator comes: the last one wins (chain gang ">CL@" is not implemented (!))
         IF c \in {chAt, chBar, chComma} THEN Out([st EXCEPT !.ls = "ReadCount", !.nums = Append(@, 0), !.str = <<>>], <<>>, NoUpd)
         ELSE Out([st EXCEPT !.lc = c], <<>>, NoUpd)
    [] st.ls = "ReadCount" ->
         IF IsDigit(c) THEN Out([st EXCEPT !.nums = PushDigit(@, c)], <<>>, NoUpd)
         ELSE IF c = chComma THEN Out([st EXCEPT !.lp = << << <<>> >> >>, !.gdc = FALSE, !.ls = "ReadParameter"], <<>>, NoUpd)
         ELSE Out([st EXCEPT !.state = "Default", !.cmd = ""], <<>>, NoUpd)
    [] OTHER ->      \* ReadParameter.  Reachable states have 5 numbers and a non-empty list of non-empty groups (MC_Igs!Total);
                     \* elsewhere the code indexes / unwraps and panics - kept so that the model is total on ANY lexer state
         IF c \in {chUnder, chLF, chCR} THEN Out(st, <<>>, NoUpd)
         ELSE IF c = chComma \/ c = chColon THEN
           (IF Len(st.nums) < 5 THEN Out(st, <<>>, Panic)
            ELSE IF st.nums[5] <= NParams(st.lp) THEN FireLoop(st, xr)
            ELSE IF c = chColon THEN Out([st EXCEPT !.lp = Append(@, << <<>> >>)], <<>>, NoUpd)
            ELSE IF st.lp = <<>> THEN Out(st, <<>>, Panic)
            ELSE Out([st EXCEPT !.lp = [@ EXCEPT ![Len(@)] = Append(@, <<>>)]], <<>>, NoUpd))
         ELSE IF st.lp = <<>> \/ st.lp[Len(st.lp)] = <<>> THEN Out(st, <<>>, Panic)
         ELSE Out([st EXCEPT !.lp = AppendToLast(@, c)], <<>>, NoUpd)

\* ---- print_char
IgsStep(st, c, xr) ==
  CASE st.state = "ReadCommand" ->
         IF st.cmd = "WriteText" /\ Len(st.nums) >= 3 THEN
           \* text of the W command: everything up to "@"; a line feed abandons the command (!)
           (IF c = chAt THEN Out([st EXCEPT !.state = "ReadCommandStart", !.cmd = "", !.nums = <<>>, !.str = <<>>], <<Exec(st.cmd, st.nums, st.str)>>, ExecRes(xr))
            ELSE IF c = chLF THEN Out([st EXCEPT !.state = "ReadCommandStart", !.cmd = "", !.str = <<>>], <<>>, NoUpd)
            ELSE Out([st EXCEPT !.str = Append(@, c)], <<>>, NoUpd))
         ELSE IF st.cmd = "LoopCommand" /\ Len(st.nums) >= 4 THEN LoopLex(st, c, xr)
         ELSE IF c \in {chSP, chGt, chCR} THEN Out(st, <<>>, NoUpd)
         ELSE IF c = chUnder THEN Out([st EXCEPT !.gdc = FALSE], <<>>, NoUpd)
         ELSE IF c = chLF THEN (IF st.gdc THEN Out([st EXCEPT !.gdc = FALSE, !.state = "SkipNewLine", !.cmd = ""], <<>>, NoUpd) ELSE Out(st, <<>>, NoUpd))
         ELSE IF IsDigit(c) THEN Out([st EXCEPT !.gdc = FALSE, !.nums = PushDigit(@, c)], <<>>, NoUpd)
         ELSE IF c = chComma THEN Out([st EXCEPT !.gdc = FALSE, !.nums = Append(@, 0)], <<>>, NoUpd)
         \* ":" runs the command with whatever numbers have been read - the lexer knows no parameter counts
         ELSE IF c = chColon THEN Out([st EXCEPT !.gdc = TRUE, !.state = "ReadCommandStart", !.cmd = "", !.nums = <<>>], <<Exec(st.cmd, st.nums, st.str)>>, ExecRes(xr))
         \* anything else - including "-": the lexer has no negative numbers (!) - silently drops the command
         ELSE Out([st EXCEPT !.gdc = FALSE, !.state = "Default", !.cmd = ""], <<>>, NoUpd)
    [] st.state = "ReadCommandStart" ->
         LET s0 == [st EXCEPT !.nums = <<>>] IN
         IF c = chCR THEN Out(s0, <<>>, NoUpd)
         ELSE IF c = chLF THEN Out([s0 EXCEPT !.state = "SkipNewLine"], <<>>, NoUpd)
         ELSE IF c = chAmp THEN Out([s0 EXCEPT !.state = "ReadCommand", !.cmd = "LoopCommand", !.ls = "Start"], <<>>, NoUpd)
         ELSE IF CmdOf(c) # "" THEN Out([s0 EXCEPT !.state = "ReadCommand", !.cmd = CmdOf(c)], <<>>, NoUpd)
         ELSE Out([s0 EXCEPT !.state = "Default"], <<>>, R("err", "", 0))
    [] st.state = "GotIgsStart" ->
         IF c = chHash THEN Out([st EXCEPT !.state = "ReadCommandStart"], <<>>, NoUpd)
         ELSE Out([st EXCEPT !.state = "Default"], <<>>, Fallback)
    [] st.state = "SkipNewLine" ->
         IF c = chCR THEN Out([st EXCEPT !.state = "Default"], <<>>, NoUpd)
         ELSE IF c = chG THEN Out([st EXCEPT !.state = "GotIgsStart"], <<>>, NoUpd)
         ELSE Out([st EXCEPT !.state = "Default"], <<>>, Fallback)
    [] OTHER ->      \* Default
         IF c = chG THEN Out([st EXCEPT !.state = "GotIgsStart"], <<>>, NoUpd)
         ELSE Out(st, <<>>, Fallback)

\* ---- get_next_action: one more iteration of the pending loop.  res.k: "ok" = Some(action), "none" = None.
\* An executor error is swallowed (None) but the loop stays pending and has advanced (!).
None == R("none", "", 0)
IgsPoll(st, xr) ==
  IF st.loop = <<>> THEN Out(st, <<>>, None)
  ELSE LET ns == NextStep(st.loop[1], xr) IN
       IF ~ns.run THEN Out([st EXCEPT !.loop = <<>>], <<>>, None)
       ELSE Out([st EXCEPT !.loop = <<ns.l>>], ns.ex, IF ns.res.k = "err" THEN None ELSE ns.res)

\* feed a whole string (the executor always answers xr)
Feed(st, s, xr) == FoldLeft(LAMBDA acc, c : IgsStep(acc, c, xr).st, st, s)

\* ---- escape ranking: every state has a character that brings the lexer strictly closer to Default, so no input can
\* trap it for good; but the distance is bounded by the loop's parameter COUNT (up to 2147483599), not by the input
\* length: "G#&,,,,L,99999," swallows the following 99999 separators, line ends included (!) (IG219 allows 2048)
Rank(st) ==
  CASE st.state = "Default" -> 0
    [] st.state \in {"GotIgsStart", "SkipNewLine", "ReadCommandStart"} -> 1
    [] st.cmd = "WriteText" /\ Len(st.nums) >= 3 -> 2
    [] st.cmd = "LoopCommand" /\ Len(st.nums) >= 4 ->
         (CASE st.ls = "Start" -> 3 [] st.ls = "ReadCommand" -> 2 [] st.ls = "ReadCount" -> 1
            [] OTHER -> 2 + (IF st.nums[5] > NParams(st.lp) THEN st.nums[5] - NParams(st.lp) ELSE 0))
    [] OTHER -> 1
Esc(st) ==
  CASE st.state # "ReadCommand" -> 104            \* "h": no command letter, not "G"
    [] st.cmd = "WriteText" /\ Len(st.nums) >= 3 -> chLF
    [] st.cmd = "LoopCommand" /\ Len(st.nums) >= 4 -> (IF st.ls = "ReadCount" THEN 104 ELSE IF st.ls = "ReadParameter" THEN chColon ELSE chComma)
    [] OTHER -> 104
=============================================================================
