SPECIFICATION Spec
CONSTANTS MaxDepth = 46
          TailSlack = 2
          PolyMax = 12
          Export = TRUE
INVARIANT Emit
INVARIANT EmitTable
CONSTRAINT Bounded
VIEW ViewGen
CHECK_DEADLOCK FALSE
